#!/usr/bin/env python3
"""Regenerate MANIFEST.json from checks.json (single source of truth for per-check metadata)."""
import json, os
V = os.path.dirname(os.path.abspath(__file__))
cfg = json.load(open(os.path.join(V, "checks.json")))
props = [json.loads(l) for l in open(os.path.join(V, "properties.jsonl"))]
checks, na = [], []
for p in props:
    pid = p["id"]
    c = cfg.get(pid)
    if c is None or c.get("not_applicable"):
        na.append({"property_id": pid, "reason": (c or {}).get("not_applicable", "check not built yet in this round; see DESIGN.md section 7 for the plan")})
        continue
    checks.append({
        "property_id": pid,
        "quick_cmd": "./check %s --tier quick" % pid,
        "thorough_cmd": "./check %s --tier thorough" % pid,
        "evidence_file": "/verif/evidence/%s.json" % pid,
        "replay_cmd_template": "./check %s --replay {path}" % pid,
        "engine": "lean4-proof+correspondence",
        "level_claimed": {"category": c.get("level", "proof"), "text": c["level_text"], "design_ref": "DESIGN.md section 7, " + pid},
        "level_note": c["level_note"],
        "technique": c["technique"],
    })
m = {
    "version": 1,
    "setup_cmd": "./setup.sh",
    "hooks": {
        "guard": "verif",
        "enable": "go build -tags verif (the harness module replaces github.com/ovn-org/libovsdb with /repo)",
        "baseline_off_cmd": "cd /repo && go test -mod=mod -vet=off -count=1 -timeout 25m ./...",
        "source_commits": json.load(open(os.path.join(V, "hooks.json")))["source_commits"],
        "add_only": True,
    },
    "engines": [
        {"name": "lean4-proof+correspondence", "path": "/verif/lean, /verif/harness, /verif/extract, /verif/check",
         "serves_properties": [c["property_id"] for c in checks],
         "kind_free_text": "Lean 4 theorems about an executable model of libovsdb; model tied to /repo on every run by differential execution (Go harness vs compiled Lean driver over a JSON line protocol) and by facts regenerated from the Go sources"}
    ],
    "checks": checks,
    "not_applicable": na,
    "notes": "Every check = lake build (theorems re-checked, axioms audited) + harness rebuilt against /repo's working tree (-tags verif) + correspondence/oracle run. See DESIGN.md.",
}
json.dump(m, open(os.path.join(V, "MANIFEST.json"), "w"), indent=1)
print("checks:", len(checks), "not_applicable:", len(na))
