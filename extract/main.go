// K2: facts extracted from /repo's source on every run (go/ast), written as
// Lean data to Ovsdb/Generated/Facts.lean. The theorems over these facts are
// in Ovsdb/GeneratedThm.lean: if the code's locking structure changes, the
// facts change and the theorems are re-checked against what the code says now.
//
// Extracted:
//   - per package (client, server, cache): the lock-order graph: an edge A -> B
//     when B is locked (directly or in a callee of the same package) while A is held
//   - returns reached while a mutex locked without defer is still held
//   - the shape of OvsdbServer.Transact and of the three Monitor handlers
//     (which mutexes, which calls, in which order)
package main

import (
	"encoding/json"
	"flag"
	"fmt"
	"go/ast"
	"go/parser"
	"go/token"
	"os"
	"path/filepath"
	"sort"
	"strings"
)

type fn struct {
	name        string
	body        *ast.BlockStmt
	acquires    map[string]bool // locks taken directly
	calls       map[string]bool // same-package callees
	edges       [][3]string     // held, acquired, where
	unbal       []string
	callHeld    []callSite
	access      []fieldAccess // uses of a guarded field, with the locks held there
	waits       []string      // X.Wait() on a field with locks held
	deferInLoop []string      // deferred unlocks written inside a loop body (they run when the function returns, not per iteration)
}

// fieldAccess: a use of one of the guarded fields (a selector x.<field>)
type fieldAccess struct {
	field string
	held  []string
	pos   string
	// the acquisition (numbered per Lock/RLock call) of the field's own mutex that covers this use, 0 when the
	// function itself has not taken it (a caller holds it); whether that acquisition is a read lock; whether
	// the use is an assignment to the field, and an append to it
	acq       int
	underRead bool
	write     bool
	appendTo  bool
}

// guardedFields: package -> field -> the mutex that the package's own comments and every existing use
// say protects it. The analysis below reports the uses that are not under it.
var guardedFields = map[string]map[string]string{
	"client": {"monitors": "monitorsMutex", "deferUpdates": "cacheMutex", "deferredUpdates": "cacheMutex", "connected": "rpcMutex", "activeEndpoint": "rpcMutex"},
	"server": {"monitors": "monitorMutex"},
}
var curGuarded map[string]string

type callSite struct {
	callee string
	held   []string
	pos    string
}

type pkgFacts struct {
	fns   map[string]*fn
	order []string
}

// current receiver (name and type) of the function being walked: a generic
// field name such as "mutex" is qualified by the receiver's type
var curRecvName, curRecvType string

// names of the package-level (receiver-less) functions of the package being analysed
var pkgFuncs = map[string]bool{}

// unexported method name -> the types of the package that define it. A call x.m() of an unexported method
// can only reach a method of this package, so when one type defines m the callee is known whatever x is.
var pkgMethods = map[string][]string{}

func mutexName(e ast.Expr) string {
	// X.mu, o.rpcMutex, db.cacheMutex, t.mutex, r.mutex ...
	if s, ok := e.(*ast.SelectorExpr); ok {
		n := s.Sel.Name
		l := strings.ToLower(n)
		if strings.HasSuffix(l, "mutex") || l == "mu" || strings.HasSuffix(l, "lock") {
			if l == "mutex" || l == "mu" {
				if id, ok := s.X.(*ast.Ident); ok && id.Name == curRecvName {
					return curRecvType + "." + n
				}
				return "?." + n
			}
			return n
		}
	}
	return ""
}

type walker struct {
	fset *token.FileSet
	f    *fn
	recv string
	loop int // depth of enclosing for / range statements
	// the selector expressions that are being assigned to, and those assigned an append to themselves
	lhs, appendLhs map[*ast.SelectorExpr]bool
}

func (w *walker) pos(n ast.Node) string {
	p := w.fset.Position(n.Pos())
	return fmt.Sprintf("%s:%d", filepath.Base(p.Filename), p.Line)
}

type heldSet struct {
	locks    []string        // in acquisition order
	deferred map[string]bool // unlocked by defer
	acq      []acqInfo       // parallel to locks
}

// acqInfo: one Lock / RLock call
type acqInfo struct {
	id   int
	read bool
}

var acqCounter int

func (h heldSet) clone() heldSet {
	d := map[string]bool{}
	for k, v := range h.deferred {
		d[k] = v
	}
	return heldSet{append([]string{}, h.locks...), d, append([]acqInfo{}, h.acq...)}
}

func (h *heldSet) remove(m string) {
	for i := len(h.locks) - 1; i >= 0; i-- {
		if h.locks[i] == m {
			h.locks = append(h.locks[:i], h.locks[i+1:]...)
			h.acq = append(h.acq[:i], h.acq[i+1:]...)
			return
		}
	}
}

// innermost: the latest acquisition of mutex m still held
func (h *heldSet) innermost(m string) (acqInfo, bool) {
	for i := len(h.locks) - 1; i >= 0; i-- {
		if h.locks[i] == m && i < len(h.acq) {
			return h.acq[i], true
		}
	}
	return acqInfo{}, false
}

func (w *walker) call(c *ast.CallExpr, h *heldSet, deferred bool) {
	// a call of a package-level function of this package (hasMonitors(db), waitForCacheConsistent(...))
	if id, ok := c.Fun.(*ast.Ident); ok && pkgFuncs[id.Name] && !deferred {
		w.f.calls[id.Name] = true
		w.f.callHeld = append(w.f.callHeld, callSite{id.Name, append([]string{}, h.locks...), w.f.name + " " + w.pos(c)})
		return
	}
	sel, ok := c.Fun.(*ast.SelectorExpr)
	if !ok {
		return
	}
	switch sel.Sel.Name {
	case "Wait":
		// waiting for other goroutines (a wait group held in a field) with a mutex held: they may need it
		if fs, ok := sel.X.(*ast.SelectorExpr); ok && !deferred && len(h.locks) > 0 && mutexName(sel.X) == "" {
			w.f.waits = append(w.f.waits, fmt.Sprintf("%s.Wait() with %s held at %s", fs.Sel.Name, strings.Join(h.locks, ","), w.f.name+" "+w.pos(c)))
		}
	case "Lock", "RLock":
		if m := mutexName(sel.X); m != "" && !deferred {
			for _, x := range h.locks {
				w.f.edges = append(w.f.edges, [3]string{x, m, w.f.name + " " + w.pos(c)})
			}
			h.locks = append(h.locks, m)
			acqCounter++
			h.acq = append(h.acq, acqInfo{acqCounter, sel.Sel.Name == "RLock"})
			w.f.acquires[m] = true
			return
		}
	case "Unlock", "RUnlock":
		if m := mutexName(sel.X); m != "" {
			if deferred {
				h.deferred[m] = true
			} else {
				h.remove(m)
			}
			return
		}
	}
	// a method call on the enclosing method's own receiver (o.x(), t.x(), r.x()): same type, resolvable by name
	if id, ok := sel.X.(*ast.Ident); ok && id.Name == curRecvName && curRecvName != "" {
		callee := curRecvType + "." + sel.Sel.Name
		w.f.calls[callee] = true
		w.f.callHeld = append(w.f.callHeld, callSite{callee, append([]string{}, h.locks...), w.f.name + " " + w.pos(c)})
		return
	}
	if ts := pkgMethods[sel.Sel.Name]; len(ts) == 1 && !ast.IsExported(sel.Sel.Name) {
		callee := ts[0] + "." + sel.Sel.Name
		w.f.calls[callee] = true
		w.f.callHeld = append(w.f.callHeld, callSite{callee, append([]string{}, h.locks...), w.f.name + " " + w.pos(c)})
	}
}

// fields records the uses of guarded fields in e (function literals excluded: they are functions of their own)
func (w *walker) fields(e ast.Node, h *heldSet) {
	if e == nil || len(curGuarded) == 0 {
		return
	}
	ast.Inspect(e, func(n ast.Node) bool {
		switch t := n.(type) {
		case *ast.FuncLit:
			return false
		case *ast.SelectorExpr:
			if m, ok := curGuarded[t.Sel.Name]; ok {
				a := fieldAccess{field: t.Sel.Name, held: append([]string{}, h.locks...), pos: w.f.name + " " + w.pos(t)}
				if ai, ok := h.innermost(m); ok {
					a.acq, a.underRead = ai.id, ai.read
				}
				a.write, a.appendTo = w.lhs[t], w.appendLhs[t]
				w.f.access = append(w.f.access, a)
			}
		}
		return true
	})
}

func (w *walker) exprCalls(e ast.Node, h *heldSet) {
	if e == nil {
		return
	}
	w.fields(e, h)
	ast.Inspect(e, func(n ast.Node) bool {
		switch t := n.(type) {
		case *ast.FuncLit:
			return false // analysed as a function of its own
		case *ast.CallExpr:
			w.call(t, h, false)
		}
		return true
	})
}

func (w *walker) stmts(list []ast.Stmt, h *heldSet) {
	for _, s := range list {
		w.stmt(s, h)
	}
}

func (w *walker) stmt(s ast.Stmt, h *heldSet) {
	switch t := s.(type) {
	case nil:
	case *ast.ExprStmt:
		w.exprCalls(t.X, h)
	case *ast.DeferStmt:
		if sel, ok := t.Call.Fun.(*ast.SelectorExpr); ok && w.loop > 0 && (sel.Sel.Name == "Unlock" || sel.Sel.Name == "RUnlock") {
			if m := mutexName(sel.X); m != "" {
				w.f.deferInLoop = append(w.f.deferInLoop, fmt.Sprintf("(%q, %q)", w.f.name, m))
			}
		}
		w.call(t.Call, h, true)
	case *ast.GoStmt:
		// runs concurrently: its locks are not taken while ours are held
	case *ast.AssignStmt:
		for _, r := range t.Rhs {
			w.exprCalls(r, h)
		}
		for i, l := range t.Lhs {
			if sel, ok := l.(*ast.SelectorExpr); ok {
				if w.lhs == nil {
					w.lhs, w.appendLhs = map[*ast.SelectorExpr]bool{}, map[*ast.SelectorExpr]bool{}
				}
				w.lhs[sel] = true
				if i < len(t.Rhs) {
					if c, ok := t.Rhs[i].(*ast.CallExpr); ok {
						if id, ok := c.Fun.(*ast.Ident); ok && id.Name == "append" && len(c.Args) > 0 {
							if first, ok := c.Args[0].(*ast.SelectorExpr); ok && first.Sel.Name == sel.Sel.Name {
								w.appendLhs[sel] = true
							}
						}
					}
				}
			}
			w.fields(l, h)
		}
	case *ast.IncDecStmt:
		if sel, ok := t.X.(*ast.SelectorExpr); ok {
			if w.lhs == nil {
				w.lhs, w.appendLhs = map[*ast.SelectorExpr]bool{}, map[*ast.SelectorExpr]bool{}
			}
			w.lhs[sel] = true
		}
		w.fields(t.X, h)
	case *ast.DeclStmt:
		w.exprCalls(t, h)
	case *ast.ReturnStmt:
		for _, r := range t.Results {
			w.exprCalls(r, h)
		}
		for _, m := range h.locks {
			if !h.deferred[m] {
				w.f.unbal = append(w.f.unbal, fmt.Sprintf("%s: return at %s with %s held", w.f.name, w.pos(t), m))
			}
		}
	case *ast.BlockStmt:
		w.stmts(t.List, h)
	case *ast.IfStmt:
		w.stmt(t.Init, h)
		w.exprCalls(t.Cond, h)
		hb := h.clone()
		w.stmts(t.Body.List, &hb)
		if t.Else != nil {
			he := h.clone()
			w.stmt(t.Else, &he)
		}
	case *ast.ForStmt:
		w.stmt(t.Init, h)
		w.fields(t.Cond, h)
		w.fields(t.Post, h)
		hb := h.clone()
		w.loop++
		w.stmts(t.Body.List, &hb)
		w.loop--
	case *ast.RangeStmt:
		w.exprCalls(t.X, h)
		hb := h.clone()
		w.loop++
		w.stmts(t.Body.List, &hb)
		w.loop--
	case *ast.SwitchStmt:
		w.stmt(t.Init, h)
		w.exprCalls(t.Tag, h)
		for _, c := range t.Body.List {
			hb := h.clone()
			w.stmts(c.(*ast.CaseClause).Body, &hb)
		}
	case *ast.TypeSwitchStmt:
		for _, c := range t.Body.List {
			hb := h.clone()
			w.stmts(c.(*ast.CaseClause).Body, &hb)
		}
	case *ast.SelectStmt:
		for _, c := range t.Body.List {
			hb := h.clone()
			w.stmts(c.(*ast.CommClause).Body, &hb)
		}
	case *ast.LabeledStmt:
		w.stmt(t.Stmt, h)
	default:
		w.exprCalls(s, h)
	}
}

func analysePkg(dir string) (*pkgFacts, error) {
	fset := token.NewFileSet()
	pkgs, err := parser.ParseDir(fset, dir, func(fi os.FileInfo) bool {
		return !strings.HasSuffix(fi.Name(), "_test.go") && !strings.HasPrefix(fi.Name(), "verif_")
	}, parser.ParseComments)
	if err != nil {
		return nil, err
	}
	pf := &pkgFacts{fns: map[string]*fn{}}
	pkgFuncs = map[string]bool{}
	pkgMethods = map[string][]string{}
	curGuarded = guardedFields[filepath.Base(dir)]
	for _, p := range pkgs {
		for _, file := range p.Files {
			for _, d := range file.Decls {
				if fd, ok := d.(*ast.FuncDecl); ok && fd.Recv == nil {
					pkgFuncs[fd.Name.Name] = true
				} else if ok && len(fd.Recv.List) > 0 {
					t := fd.Recv.List[0].Type
					if st, ok := t.(*ast.StarExpr); ok {
						t = st.X
					}
					if ix, ok := t.(*ast.IndexExpr); ok {
						t = ix.X
					}
					if id, ok := t.(*ast.Ident); ok {
						pkgMethods[fd.Name.Name] = append(pkgMethods[fd.Name.Name], id.Name)
					}
				}
			}
		}
	}
	for _, p := range pkgs {
		var files []string
		for name := range p.Files {
			files = append(files, name)
		}
		sort.Strings(files)
		for _, name := range files {
			file := p.Files[name]
			for _, d := range file.Decls {
				fd, ok := d.(*ast.FuncDecl)
				if !ok || fd.Body == nil {
					continue
				}
				// a function documented to return with a lock held is not unbalanced
				returnsLocked := fd.Doc != nil && strings.Contains(strings.ToLower(fd.Doc.Text()), "caller must always unlock")
				add := func(name string, body *ast.BlockStmt) {
					f := &fn{name: name, body: body, acquires: map[string]bool{}, calls: map[string]bool{}}
					defer func() {
						if returnsLocked {
							f.unbal = nil
						}
					}()
					w := &walker{fset: fset, f: f}
					h := heldSet{deferred: map[string]bool{}}
					w.stmts(body.List, &h)
					// falling off the end with a lock held (no defer)
					for _, m := range h.locks {
						if !h.deferred[m] {
							f.unbal = append(f.unbal, fmt.Sprintf("%s: end of function with %s held", name, m))
						}
					}
					if old, dup := pf.fns[name]; dup { // same method name on two types: merge conservatively
						for k := range f.acquires {
							old.acquires[k] = true
						}
						for k := range f.calls {
							old.calls[k] = true
						}
						old.edges = append(old.edges, f.edges...)
						old.unbal = append(old.unbal, f.unbal...)
						old.callHeld = append(old.callHeld, f.callHeld...)
						old.access = append(old.access, f.access...)
						old.waits = append(old.waits, f.waits...)
						return
					}
					pf.fns[name] = f
					pf.order = append(pf.order, name)
				}
				curRecvName, curRecvType = "", ""
				if fd.Recv != nil && len(fd.Recv.List) > 0 {
					if len(fd.Recv.List[0].Names) > 0 {
						curRecvName = fd.Recv.List[0].Names[0].Name
					}
					t := fd.Recv.List[0].Type
					if st, ok := t.(*ast.StarExpr); ok {
						t = st.X
					}
					if id, ok := t.(*ast.Ident); ok {
						curRecvType = id.Name
					}
				}
				full := fd.Name.Name
				if curRecvType != "" {
					full = curRecvType + "." + fd.Name.Name
				}
				add(full, fd.Body)
				k := 0
				ast.Inspect(fd.Body, func(n ast.Node) bool {
					if fl, ok := n.(*ast.FuncLit); ok {
						k++
						add(fmt.Sprintf("%s$%d", full, k), fl.Body)
					}
					return true
				})
			}
		}
	}
	return pf, nil
}

// transitive acquires
func (pf *pkgFacts) acquiresOf(name string, seen map[string]bool) map[string]bool {
	out := map[string]bool{}
	f := pf.fns[name]
	if f == nil || seen[name] {
		return out
	}
	seen[name] = true
	for k := range f.acquires {
		out[k] = true
	}
	for c := range f.calls {
		for k := range pf.acquiresOf(c, seen) {
			out[k] = true
		}
	}
	return out
}

// unguarded: the uses of a guarded field that are not under its mutex. A use in a function that does not
// take the mutex itself is accepted when every call of that function in the package is made with the mutex
// held (transitively); a function nobody in the package calls (API, goroutine body) has no such excuse.
func (pf *pkgFacts) unguarded(guards map[string]string) []string {
	callers := map[string][]callSite{} // callee -> sites (held = locks at the site, pos starts with the caller's name)
	for _, name := range pf.order {
		for _, cs := range pf.fns[name].callHeld {
			callers[cs.callee] = append(callers[cs.callee], callSite{name, cs.held, cs.pos})
		}
	}
	has := func(held []string, m string) bool {
		for _, h := range held {
			if h == m {
				return true
			}
		}
		return false
	}
	var covered func(fn, m string, seen map[string]bool) bool
	covered = func(fn, m string, seen map[string]bool) bool {
		if seen[fn] {
			return true
		}
		seen[fn] = true
		sites := callers[fn]
		if len(sites) == 0 {
			return false
		}
		for _, cs := range sites {
			if !has(cs.held, m) && !covered(cs.callee, m, seen) {
				return false
			}
		}
		return true
	}
	var out []string
	for _, name := range pf.order {
		for _, a := range pf.fns[name].access {
			m := guards[a.field]
			if has(a.held, m) || covered(name, m, map[string]bool{}) {
				continue
			}
			out = append(out, fmt.Sprintf("%s used without %s at %s", a.field, m, a.pos))
		}
	}
	sort.Strings(out)
	return out
}

// writesUnderReadLock: assignments to a guarded field made while its mutex is held for reading only
func (pf *pkgFacts) writesUnderReadLock(guards map[string]string) []string {
	var out []string
	for _, name := range pf.order {
		for _, a := range pf.fns[name].access {
			if a.write && a.acq != 0 && a.underRead {
				out = append(out, fmt.Sprintf("%s assigned under %s.RLock at %s", a.field, guards[a.field], a.pos))
			}
		}
	}
	sort.Strings(out)
	return out
}

// splitDecisions: a field `queue` is appended to because a field `flag` said so; the places where the append
// is not made under the very acquisition of the mutex under which the flag was looked at (the flag may have
// changed in between: check-then-act). An append in a function that has not taken the mutex itself counts as
// decided in that function when the function looks at the flag, under no acquisition of its own either.
func (pf *pkgFacts) splitDecisions(flag, queue string) []string {
	var out []string
	for _, name := range pf.order {
		f := pf.fns[name]
		for _, a := range f.access {
			if a.field != queue || !a.appendTo {
				continue
			}
			decided := false
			for _, b := range f.access {
				if b.field == flag && !b.write && b.acq == a.acq {
					decided = true
				}
			}
			if !decided {
				out = append(out, fmt.Sprintf("%s appended to at %s, not under the acquisition under which %s was read", queue, a.pos, flag))
			}
		}
	}
	sort.Strings(out)
	return out
}

type edge struct {
	From, To, Where string
}

func (pf *pkgFacts) edges() []edge {
	seen := map[string]bool{}
	var out []edge
	add := func(a, b, w string) {
		k := a + ">" + b
		if !seen[k] {
			seen[k] = true
			out = append(out, edge{a, b, w})
		}
	}
	for _, name := range pf.order {
		f := pf.fns[name]
		for _, e := range f.edges {
			add(e[0], e[1], e[2])
		}
		for _, cs := range f.callHeld {
			if len(cs.held) == 0 || pf.fns[cs.callee] == nil {
				continue
			}
			for l := range pf.acquiresOf(cs.callee, map[string]bool{}) {
				for _, h := range cs.held {
					add(h, l, cs.pos+" -> "+cs.callee)
				}
			}
		}
	}
	sort.Slice(out, func(i, j int) bool { return out[i].From+out[i].To < out[j].From+out[j].To })
	return out
}

// shape of a handler: the sequence of interesting events in source order
func shapeOf(pf *pkgFacts, fset *token.FileSet, name string, interesting map[string]int) []int {
	f := pf.fns[name]
	if f == nil {
		return nil
	}
	var out []int
	ast.Inspect(f.body, func(n ast.Node) bool {
		switch t := n.(type) {
		case *ast.FuncLit:
			return false
		case *ast.DeferStmt:
			if sel, ok := t.Call.Fun.(*ast.SelectorExpr); ok {
				if m := mutexName(sel.X); m != "" {
					if c, ok := interesting["defer:"+m+"."+sel.Sel.Name]; ok {
						out = append(out, c)
					}
				}
			}
			return false
		case *ast.CallExpr:
			if sel, ok := t.Fun.(*ast.SelectorExpr); ok {
				key := sel.Sel.Name
				if m := mutexName(sel.X); m != "" {
					key = m + "." + sel.Sel.Name
				}
				if c, ok := interesting[key]; ok {
					out = append(out, c)
				}
			}
		case *ast.AssignStmt:
			// registration of a monitor: o.monitors[client].monitors[value] = ...
			for _, l := range t.Lhs {
				if ix, ok := l.(*ast.IndexExpr); ok {
					if s, ok := ix.X.(*ast.SelectorExpr); ok && s.Sel.Name == "monitors" {
						if _, inner := s.X.(*ast.IndexExpr); inner {
							if c, ok := interesting["register"]; ok {
								out = append(out, c)
							}
						}
					}
				}
			}
		}
		return true
	})
	return out
}

func leanList(xs []int) string {
	s := make([]string, len(xs))
	for i, x := range xs {
		s[i] = fmt.Sprint(x)
	}
	return "[" + strings.Join(s, ", ") + "]"
}

func main() {
	repo := flag.String("repo", "/repo", "repository")
	out := flag.String("out", "", "output directory for Facts.lean")
	flag.Parse()
	var b strings.Builder
	b.WriteString("/- GENERATED by /verif/extract from /repo's source on every run. Do not edit. -/\nnamespace Ovsdb.Generated\n\n")
	summary := map[string]interface{}{}
	for _, pkg := range []string{"client", "server", "cache"} {
		pf, err := analysePkg(filepath.Join(*repo, pkg))
		if err != nil {
			fmt.Fprintln(os.Stderr, err)
			os.Exit(1)
		}
		es := pf.edges()
		// number the mutexes
		ids := map[string]int{}
		var names []string
		for _, e := range es {
			for _, m := range []string{e.From, e.To} {
				if _, ok := ids[m]; !ok {
					ids[m] = len(names)
					names = append(names, m)
				}
			}
		}
		b.WriteString(fmt.Sprintf("/-- mutexes of package %s, numbered -/\ndef %sMutexes : List String := [%s]\n\n", pkg, pkg, quoteAll(names)))
		b.WriteString(fmt.Sprintf("/-- lock-order edges of package %s: (held, acquired) -/\ndef %sLockEdges : List (Nat × Nat) := [\n", pkg, pkg))
		for i, e := range es {
			sep := ","
			if i == len(es)-1 {
				sep = ""
			}
			b.WriteString(fmt.Sprintf("  (%d, %d)%s  -- %s -> %s at %s\n", ids[e.From], ids[e.To], sep, e.From, e.To, e.Where))
		}
		b.WriteString("]\n\n")
		var unbal []string
		for _, n := range pf.order {
			unbal = append(unbal, pf.fns[n].unbal...)
		}
		sort.Strings(unbal)
		b.WriteString(fmt.Sprintf("/-- returns of package %s reached with a mutex held that no defer releases -/\ndef %sUnbalanced : List String := [%s]\n\n", pkg, pkg, quoteAll(unbal)))
		if g := guardedFields[pkg]; len(g) > 0 {
			var fs []string
			for f, m := range g {
				fs = append(fs, f+" by "+m)
			}
			sort.Strings(fs)
			ug := pf.unguarded(g)
			b.WriteString(fmt.Sprintf("/-- uses of a mutex-guarded field of package %s (%s) outside its mutex -/\ndef %sUnguarded : List String := [%s]\n\n", pkg, strings.Join(fs, ", "), pkg, quoteAll(ug)))
			summary[pkg+"_unguarded"] = len(ug)
			var dl []string
			for _, name := range pf.order {
				dl = append(dl, pf.fns[name].deferInLoop...)
			}
			sort.Strings(dl)
			b.WriteString(fmt.Sprintf("/-- deferred unlocks of package %s written inside a loop body: the mutex stays locked until the function\n    returns, through every later iteration and whatever the function waits for in between -/\ndef %sDeferredUnlockInLoop : List (String × String) := [%s]\n\n", pkg, pkg, strings.Join(dl, ", ")))
			summary[pkg+"_deferred_unlock_in_loop"] = len(dl)
			wr := pf.writesUnderReadLock(g)
			b.WriteString(fmt.Sprintf("/-- assignments to a mutex-guarded field of package %s made with the mutex held for reading only -/\ndef %sWritesUnderReadLock : List String := [%s]\n\n", pkg, pkg, quoteAll(wr)))
			summary[pkg+"_writes_under_rlock"] = len(wr)
			if pkg == "client" {
				sd := pf.splitDecisions("deferUpdates", "deferredUpdates")
				b.WriteString(fmt.Sprintf("/-- notifications queued (deferredUpdates appended to) elsewhere than under the lock acquisition under which\n    deferUpdates was looked at: the decision to hold a notification back and the queuing are not one step -/\ndef clientSplitDeferDecisions : List String := [%s]\n\n", quoteAll(sd)))
				summary["client_split_defer_decisions"] = len(sd)
			}
		}
		if pkg == "client" || pkg == "server" {
			var ws []string
			for _, n := range pf.order {
				ws = append(ws, pf.fns[n].waits...)
			}
			sort.Strings(ws)
			b.WriteString(fmt.Sprintf("/-- places of package %s that wait for other goroutines (X.Wait() on a field that is not a condition variable's mutex) with a mutex held -/\ndef %sWaitsHolding : List String := [%s]\n\n", pkg, pkg, quoteAll(ws)))
			summary[pkg+"_waits_holding"] = len(ws)
		}
		summary[pkg+"_edges"] = len(es)
		summary[pkg+"_unbalanced"] = len(unbal)
		if pkg == "server" {
			fset := token.NewFileSet()
			codes := map[string]int{"txnMutex.Lock": 1, "defer:txnMutex.Unlock": 2, "transact": 3, "processMonitors": 4, "Commit": 5}
			b.WriteString("/-- OvsdbServer.Transact: 1 = txnMutex.Lock, 2 = defer txnMutex.Unlock, 3 = o.transact, 4 = o.processMonitors, 5 = o.db.Commit -/\n")
			b.WriteString("def transactShape : List Nat := " + leanList(shapeOf(pf, fset, "OvsdbServer.Transact", codes)) + "\n\n")
			mc := map[string]int{"txnMutex.Lock": 1, "defer:txnMutex.Unlock": 2, "monitorMutex.Lock": 3, "defer:monitorMutex.Unlock": 4, "NewTransaction": 5, "register": 6}
			for _, h := range []string{"Monitor", "MonitorCond", "MonitorCondSince"} {
				b.WriteString(fmt.Sprintf("/-- OvsdbServer.%s: 1/2 = txnMutex.Lock / defer Unlock, 3/4 = monitorMutex.Lock / defer Unlock, 5 = read the database, 6 = register the monitor -/\n", h))
				b.WriteString(fmt.Sprintf("def shape%s : List Nat := %s\n\n", h, leanList(shapeOf(pf, fset, "OvsdbServer."+h, mc))))
			}
		}
	}
	// C20: the initialism table of modelgen's naming
	inits := initialismFacts(*repo)
	b.WriteString("/-- the keys of modelgen's `initialisms` table (modelgen/table.go), in source order -/\n")
	b.WriteString("def modelgenInitialisms : List String := [" + quoteAll(inits) + "]\n\n")
	summary["modelgen_initialisms"] = len(inits)
	// C13: where cached models are stored and handed out
	stores, escapes, shallowUsers := cloneFacts(*repo)
	b.WriteString("/-- assignments `r.cache[k] = e` in package cache whose right-hand side is not model.Clone(...) -/\n")
	b.WriteString("def cacheStoresUncloned : List String := [" + quoteAll(stores) + "]\n\n")
	b.WriteString("/-- functions of package cache in which a model read from `r.cache` is returned, put into a returned\n    collection or appended without passing through model.Clone -/\n")
	b.WriteString("def cacheRawEscapes : List String := [" + quoteAll(escapes) + "]\n\n")
	b.WriteString("/-- functions of package client that call RowsShallow, with whether they clone what they keep -/\n")
	b.WriteString("def clientShallowUsers : List (String × Bool) := [" + strings.Join(shallowUsers, ", ") + "]\n\n")
	summary["cache_raw_escapes"] = len(escapes)
	// C03 / C08: the tables of accepted mutators and condition functions per type (ovsdb/bindings.go)
	for _, tb := range []struct{ fn, name, doc string }{
		{"validateMutationAtomic", "mutationAtomicTable", "validateMutationAtomic: atomic types (case labels) and the mutators accepted for them (\"*\" = every one)"},
		{"ValidateCondition", "conditionTable", "ValidateCondition: column types (case labels) and the condition functions accepted for them (\"*\" = every one)"},
	} {
		rows := switchTable(filepath.Join(*repo, "ovsdb", "bindings.go"), tb.fn)
		b.WriteString("/-- " + tb.doc + " -/\n")
		b.WriteString("def " + tb.name + " : List (List String × List String) := [")
		for i, r := range rows {
			if i > 0 {
				b.WriteString(", ")
			}
			b.WriteString("([" + quoteAll(r[0]) + "], [" + quoteAll(r[1]) + "])")
		}
		b.WriteString("]\n\n")
		summary[tb.name] = len(rows)
	}
	// C12: the error names of ovsdb/error.go and the two conversions between results and typed errors
	consts, fromResult, fromError := errorTables(filepath.Join(*repo, "ovsdb", "error.go"))
	pairList := func(ps [][2]string) string {
		var xs []string
		for _, p := range ps {
			xs = append(xs, fmt.Sprintf("(%q, %q)", p[0], p[1]))
		}
		return "[" + strings.Join(xs, ", ") + "]"
	}
	b.WriteString("/-- the error-name constants of ovsdb/error.go: (constant, text) -/\ndef errorConsts : List (String × String) := " + pairList(consts) + "\n\n")
	b.WriteString("/-- errorFromResult: (constant of the case, error type returned) -/\ndef errorFromResultTable : List (String × String) := " + pairList(fromResult) + "\n\n")
	b.WriteString("/-- ResultFromError: (error type of the case, constant put in the result) -/\ndef resultFromErrorTable : List (String × String) := " + pairList(fromError) + "\n\n")
	summary["error_consts"] = len(consts)
	// C18: every rpc2 codec is wrapped so that requests and responses are not written concurrently
	codecs := codecFacts(*repo)
	b.WriteString("/-- rpc2 codecs of packages client and server that are handed to rpc2 without the serializing wrapper,\n    and wrapper methods that do not take the wrapper's mutex around the write (rpc2 writes responses under no lock) -/\n")
	b.WriteString("def rpcCodecsUnserialized : List String := [" + quoteAll(codecs) + "]\n\n")
	summary["rpc_codecs_unserialized"] = len(codecs)
	b.WriteString("end Ovsdb.Generated\n")
	if *out != "" {
		os.MkdirAll(*out, 0o755)
		if err := os.WriteFile(filepath.Join(*out, "Facts.lean"), []byte(b.String()), 0o644); err != nil {
			fmt.Fprintln(os.Stderr, err)
			os.Exit(1)
		}
	} else {
		fmt.Print(b.String())
	}
	j, _ := json.Marshal(summary)
	fmt.Println(string(j))
}

// errorTables: the string constants of error.go; the cases of errorFromResult (case CONST: return &Type{...});
// the cases of ResultFromError's type switch (case *Type: return OperationResult{Error: CONST, ...})
func errorTables(file string) (consts, fromResult, fromError [][2]string) {
	fset := token.NewFileSet()
	f, err := parser.ParseFile(fset, file, nil, 0)
	if err != nil {
		fmt.Fprintln(os.Stderr, err)
		os.Exit(1)
	}
	for _, d := range f.Decls {
		switch x := d.(type) {
		case *ast.GenDecl:
			if x.Tok != token.CONST {
				continue
			}
			for _, sp := range x.Specs {
				vs := sp.(*ast.ValueSpec)
				for i, n := range vs.Names {
					if i < len(vs.Values) {
						if bl, ok := vs.Values[i].(*ast.BasicLit); ok && bl.Kind == token.STRING {
							consts = append(consts, [2]string{n.Name, strings.Trim(bl.Value, "\"")})
						}
					}
				}
			}
		case *ast.FuncDecl:
			if x.Body == nil {
				continue
			}
			typeOfReturn := func(body []ast.Stmt) string {
				if len(body) == 0 {
					return ""
				}
				r, ok := body[len(body)-1].(*ast.ReturnStmt)
				if !ok || len(r.Results) != 1 {
					return ""
				}
				e := r.Results[0]
				if u, ok := e.(*ast.UnaryExpr); ok {
					e = u.X
				}
				cl, ok := e.(*ast.CompositeLit)
				if !ok {
					return ""
				}
				if id, ok := cl.Type.(*ast.Ident); ok {
					if id.Name == "OperationResult" {
						for _, el := range cl.Elts {
							if kv, ok := el.(*ast.KeyValueExpr); ok {
								if k, ok := kv.Key.(*ast.Ident); ok && k.Name == "Error" {
									if v, ok := kv.Value.(*ast.Ident); ok {
										return v.Name
									}
								}
							}
						}
						return ""
					}
					return id.Name
				}
				return ""
			}
			ast.Inspect(x.Body, func(n ast.Node) bool {
				switch sw := n.(type) {
				case *ast.SwitchStmt:
					if x.Name.Name != "errorFromResult" {
						return true
					}
					for _, c := range sw.Body.List {
						cc := c.(*ast.CaseClause)
						for _, e := range cc.List {
							if id, ok := e.(*ast.Ident); ok {
								fromResult = append(fromResult, [2]string{id.Name, typeOfReturn(cc.Body)})
							}
						}
					}
				case *ast.TypeSwitchStmt:
					if x.Name.Name != "ResultFromError" {
						return true
					}
					for _, c := range sw.Body.List {
						cc := c.(*ast.CaseClause)
						for _, e := range cc.List {
							if st, ok := e.(*ast.StarExpr); ok {
								if id, ok := st.X.(*ast.Ident); ok {
									if cn := typeOfReturn(cc.Body); cn != "" {
										fromError = append(fromError, [2]string{id.Name, cn})
									}
								}
							}
						}
					}
				}
				return true
			})
		}
	}
	return
}

// switchTable: the first `switch` statement with a tag at the top level of function fn; for every case clause its
// labels and what it accepts: the labels of the clauses of a nested switch that end in `return nil`, or "*"
// when the clause itself ends in `return nil`
func switchTable(file, fn string) [][2][]string {
	fset := token.NewFileSet()
	f, err := parser.ParseFile(fset, file, nil, 0)
	if err != nil {
		fmt.Fprintln(os.Stderr, err)
		os.Exit(1)
	}
	label := func(e ast.Expr) string {
		switch x := e.(type) {
		case *ast.Ident:
			return x.Name
		case *ast.SelectorExpr:
			return x.Sel.Name
		case *ast.BasicLit:
			return x.Value
		}
		return "?"
	}
	returnsNil := func(body []ast.Stmt) bool {
		if len(body) == 0 {
			return false
		}
		r, ok := body[len(body)-1].(*ast.ReturnStmt)
		if !ok || len(r.Results) != 1 {
			return false
		}
		id, ok := r.Results[0].(*ast.Ident)
		return ok && id.Name == "nil"
	}
	var out [][2][]string
	for _, d := range f.Decls {
		fd, ok := d.(*ast.FuncDecl)
		if !ok || fd.Name.Name != fn || fd.Body == nil {
			continue
		}
		for _, st := range fd.Body.List {
			sw, ok := st.(*ast.SwitchStmt)
			if !ok || sw.Tag == nil {
				continue
			}
			for _, c := range sw.Body.List {
				cc := c.(*ast.CaseClause)
				var labels, accepted []string
				for _, e := range cc.List {
					labels = append(labels, label(e))
				}
				if cc.List == nil {
					labels = []string{"default"}
				}
				if returnsNil(cc.Body) {
					accepted = []string{"*"}
				}
				for _, b := range cc.Body {
					if inner, ok := b.(*ast.SwitchStmt); ok {
						for _, ic := range inner.Body.List {
							icc := ic.(*ast.CaseClause)
							if returnsNil(icc.Body) {
								for _, e := range icc.List {
									accepted = append(accepted, label(e))
								}
							}
						}
					}
				}
				out = append(out, [2][]string{labels, accepted})
			}
			return out
		}
	}
	return out
}

// codecFacts: in packages client and server, (1) every argument of rpc2.NewClientWithCodec / ServeCodec /
// ServeCodecWithState is a call of newSerialCodec; (2) newSerialCodec's result type has WriteRequest and
// WriteResponse methods whose first two statements are X.Lock() and defer X.Unlock() on a field of the receiver.
// Returns the places where that is not so.
func codecFacts(repo string) []string {
	var bad []string
	for _, pkg := range []string{"client", "server"} {
		fset := token.NewFileSet()
		pkgs, err := parser.ParseDir(fset, filepath.Join(repo, pkg), func(fi os.FileInfo) bool {
			return !strings.HasSuffix(fi.Name(), "_test.go")
		}, 0)
		if err != nil {
			fmt.Fprintln(os.Stderr, err)
			os.Exit(1)
		}
		uses, locked := 0, map[string]bool{}
		for _, p := range pkgs {
			for fname, f := range p.Files {
				ast.Inspect(f, func(n ast.Node) bool {
					switch x := n.(type) {
					case *ast.CallExpr:
						sel, ok := x.Fun.(*ast.SelectorExpr)
						if !ok || len(x.Args) == 0 {
							return true
						}
						if sel.Sel.Name == "NewClientWithCodec" || sel.Sel.Name == "ServeCodec" || sel.Sel.Name == "ServeCodecWithState" {
							uses++
							inner, ok := x.Args[0].(*ast.CallExpr)
							id, ok2 := (ast.Expr)(nil), false
							if ok {
								id, ok2 = inner.Fun, true
							}
							name := ""
							if ok2 {
								if i, ok := id.(*ast.Ident); ok {
									name = i.Name
								}
							}
							if name != "newSerialCodec" {
								bad = append(bad, fmt.Sprintf("%s/%s:%d %s without newSerialCodec", pkg, filepath.Base(fname), fset.Position(x.Pos()).Line, sel.Sel.Name))
							}
						}
					case *ast.FuncDecl:
						if x.Recv == nil || len(x.Recv.List) != 1 || (x.Name.Name != "WriteRequest" && x.Name.Name != "WriteResponse") {
							return true
						}
						recvType := ""
						if st, ok := x.Recv.List[0].Type.(*ast.StarExpr); ok {
							if i, ok := st.X.(*ast.Ident); ok {
								recvType = i.Name
							}
						}
						if recvType != "serialCodec" || x.Body == nil || len(x.Body.List) < 3 {
							return true
						}
						lockOf := func(s ast.Stmt, deferred bool, want string) string {
							var c *ast.CallExpr
							if deferred {
								d, ok := s.(*ast.DeferStmt)
								if !ok {
									return ""
								}
								c = d.Call
							} else {
								e, ok := s.(*ast.ExprStmt)
								if !ok {
									return ""
								}
								c, ok = e.X.(*ast.CallExpr)
								if !ok {
									return ""
								}
							}
							sel, ok := c.Fun.(*ast.SelectorExpr)
							if !ok || sel.Sel.Name != want {
								return ""
							}
							return mutexName(sel.X)
						}
						l, u := lockOf(x.Body.List[0], false, "Lock"), lockOf(x.Body.List[1], true, "Unlock")
						if l != "" && l == u {
							locked[x.Name.Name] = true
						}
					}
					return true
				})
			}
		}
		if uses == 0 {
			bad = append(bad, pkg+": no rpc2 codec found")
		}
		for _, m := range []string{"WriteRequest", "WriteResponse"} {
			if !locked[m] {
				bad = append(bad, pkg+": serialCodec."+m+" does not hold the write mutex")
			}
		}
	}
	sort.Strings(bad)
	return bad
}

// initialismFacts: the string keys of the composite literal assigned to the package variable `initialisms`
func initialismFacts(repo string) []string {
	fset := token.NewFileSet()
	f, err := parser.ParseFile(fset, filepath.Join(repo, "modelgen", "table.go"), nil, 0)
	if err != nil {
		fmt.Fprintln(os.Stderr, err)
		os.Exit(1)
	}
	var out []string
	for _, d := range f.Decls {
		gd, ok := d.(*ast.GenDecl)
		if !ok || gd.Tok != token.VAR {
			continue
		}
		for _, sp := range gd.Specs {
			vs := sp.(*ast.ValueSpec)
			for i, n := range vs.Names {
				if n.Name != "initialisms" || i >= len(vs.Values) {
					continue
				}
				if cl, ok := vs.Values[i].(*ast.CompositeLit); ok {
					for _, e := range cl.Elts {
						if kv, ok := e.(*ast.KeyValueExpr); ok {
							if bl, ok := kv.Key.(*ast.BasicLit); ok && bl.Kind == token.STRING {
								if id, ok := kv.Value.(*ast.Ident); ok && id.Name == "true" {
									out = append(out, strings.Trim(bl.Value, "\""))
								}
							}
						}
					}
				}
			}
		}
	}
	return out
}

// isCacheIndex: r.cache[...] (the row map of a RowCache)
func isCacheIndex(e ast.Expr) bool {
	ix, ok := e.(*ast.IndexExpr)
	if !ok {
		return false
	}
	sel, ok := ix.X.(*ast.SelectorExpr)
	return ok && sel.Sel.Name == "cache"
}

func isCloneCall(e ast.Expr) bool {
	c, ok := e.(*ast.CallExpr)
	if !ok {
		return false
	}
	sel, ok := c.Fun.(*ast.SelectorExpr)
	if !ok {
		return false
	}
	id, ok := sel.X.(*ast.Ident)
	return ok && id.Name == "model" && (sel.Sel.Name == "Clone")
}

func cloneFacts(repo string) (stores, escapes, shallowUsers []string) {
	fset := token.NewFileSet()
	f, err := parser.ParseFile(fset, filepath.Join(repo, "cache", "cache.go"), nil, parser.ParseComments)
	if err != nil {
		fmt.Fprintln(os.Stderr, err)
		os.Exit(1)
	}
	for _, d := range f.Decls {
		fd, ok := d.(*ast.FuncDecl)
		if !ok || fd.Body == nil || fd.Recv == nil {
			continue
		}
		recvT := ""
		t := fd.Recv.List[0].Type
		if st, ok := t.(*ast.StarExpr); ok {
			t = st.X
		}
		if id, ok := t.(*ast.Ident); ok {
			recvT = id.Name
		}
		if recvT != "RowCache" {
			continue
		}
		name := recvT + "." + fd.Name.Name
		raw := map[string]bool{}
		escaped := false
		ast.Inspect(fd.Body, func(n ast.Node) bool {
			switch st := n.(type) {
			case *ast.AssignStmt:
				// stores
				for i, l := range st.Lhs {
					if isCacheIndex(l) && i < len(st.Rhs) && !isCloneCall(st.Rhs[i]) {
						stores = append(stores, fmt.Sprintf("%s:%d", name, fset.Position(st.Pos()).Line))
					}
				}
				// v := r.cache[k] / v, ok := r.cache[k]
				if len(st.Rhs) == 1 && isCacheIndex(st.Rhs[0]) {
					if id, ok := st.Lhs[0].(*ast.Ident); ok && id.Name != "_" {
						raw[id.Name] = true
					}
				}
				// X[...] = rawIdent (X not the row map itself)
				for i, l := range st.Lhs {
					if _, isIdx := l.(*ast.IndexExpr); isIdx && !isCacheIndex(l) && i < len(st.Rhs) {
						if id, ok := st.Rhs[i].(*ast.Ident); ok && raw[id.Name] {
							escaped = true
						}
						if isCacheIndex(st.Rhs[i]) {
							escaped = true
						}
					}
				}
			case *ast.RangeStmt:
				if sel, ok := st.X.(*ast.SelectorExpr); ok && sel.Sel.Name == "cache" {
					if id, ok := st.Value.(*ast.Ident); ok && id.Name != "_" {
						raw[id.Name] = true
					}
				}
			case *ast.ReturnStmt:
				for _, e := range st.Results {
					if id, ok := e.(*ast.Ident); ok && raw[id.Name] {
						escaped = true
					}
					if isCacheIndex(e) {
						escaped = true
					}
				}
			case *ast.CallExpr:
				if id, ok := st.Fun.(*ast.Ident); ok && id.Name == "append" {
					for _, a := range st.Args[1:] {
						if aid, ok := a.(*ast.Ident); ok && raw[aid.Name] {
							escaped = true
						}
					}
				}
			}
			return true
		})
		if escaped {
			escapes = append(escapes, name)
		}
	}
	sort.Strings(stores)
	sort.Strings(escapes)
	// users of RowsShallow outside the cache package
	for _, pkg := range []string{"client", "server", "database/inmemory", "database/transaction", "updates"} {
		pkgs, err := parser.ParseDir(fset, filepath.Join(repo, pkg), func(fi os.FileInfo) bool { return !strings.HasSuffix(fi.Name(), "_test.go") }, 0)
		if err != nil {
			continue
		}
		for _, p := range pkgs {
			var files []string
			for n := range p.Files {
				files = append(files, n)
			}
			sort.Strings(files)
			for _, fn := range files {
				for _, d := range p.Files[fn].Decls {
					fd, ok := d.(*ast.FuncDecl)
					if !ok || fd.Body == nil {
						continue
					}
					uses, clones := false, false
					ast.Inspect(fd.Body, func(n ast.Node) bool {
						if c, ok := n.(*ast.CallExpr); ok {
							if sel, ok := c.Fun.(*ast.SelectorExpr); ok && sel.Sel.Name == "RowsShallow" {
								uses = true
							}
							if isCloneCall(c) {
								clones = true
							}
						}
						return true
					})
					if uses && pkg == "client" { // the package that hands models to the application
						shallowUsers = append(shallowUsers, fmt.Sprintf("(%q, %v)", pkg+"."+fd.Name.Name, clones))
					}
				}
			}
		}
	}
	return
}

func quoteAll(xs []string) string {
	q := make([]string, len(xs))
	for i, x := range xs {
		q[i] = fmt.Sprintf("%q", x)
	}
	return strings.Join(q, ", ")
}
