module verif/extract

go 1.22
