import Ovsdb.Model.Basic
import Ovsdb.Model.Diff
import Ovsdb.Proofs.Diff
import Ovsdb.Model.Equiv
import Ovsdb.Theorems.C10
import Ovsdb.Model.Cache
import Ovsdb.Proofs.Cache
import Ovsdb.Theorems.C05
