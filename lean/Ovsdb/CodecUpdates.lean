import Ovsdb.Codec
import Ovsdb.Model.Updates
namespace Ovsdb
open Lean

def atypeOfString : String → P AType
  | "integer" => pure .integer | "real" => pure .real | "boolean" => pure .boolean
  | "string" => pure .string | "uuid" => pure .uuid
  | s => throw s!"bad atomic type {s}"

def kindOfString : String → P ColKind
  | "atom" => pure .atom | "opt" => pure .opt | "set" => pure .set | "map" => pure .map
  | s => throw s!"bad kind {s}"

/-- {"name":..,"type":{"kind","key","val","min","max"},"refTable","refType","valRefTable","valRefType","immutable","enum"} -/
def colSchemaOfJson (j : Json) : P (String × ColSchema) := do
  let name ← jStr (← jField j "name")
  let t ← jField j "type"
  let kind ← kindOfString (← jStr (← jField t "kind"))
  let key ← atypeOfString (← jStr (← jField t "key"))
  let val ← match jFieldOpt t "val" with
    | some (.str "") => pure AType.string
    | some v => atypeOfString (← jStr v)
    | none => pure AType.string
  let min ← jFieldD t "min" jNat 1
  let imm ← jFieldD j "immutable" jBool false
  let isEnum ← jFieldD j "enum" jBool false
  let refTable ← jFieldD j "refTable" jStr ""
  let refType ← jFieldD j "refType" jStr "strong"
  let valRefTable ← jFieldD j "valRefTable" jStr ""
  let valRefType ← jFieldD j "valRefType" jStr "strong"
  return (name, { kind, key, val, mutable := !imm, min, isEnum, refTable, refStrong := refType != "weak",
                  valRefTable, valRefStrong := valRefType != "weak" })

def tableSchemaOfJson (j : Json) : P (String × TableSchema) := do
  let name ← jStr (← jField j "name")
  let cols ← jList colSchemaOfJson (← jField j "cols")
  let indexes ← jFieldD j "indexes" (jList (jList jStr)) []
  let isRoot ← jFieldD j "isRoot" jBool true
  return (name, { cols, indexes, isRoot })

def dbSchemaOfJson (j : Json) : P DbSchema := do jList tableSchemaOfJson (← jField j "tables")

def ovsValOfJson (j : Json) : P OvsVal := do
  if let some v := jFieldOpt j "a" then return .atom (← atomOfJson v)
  if let .ok v := j.getObjVal? "S" then return .set (← jList atomOfJson v)
  if let .ok v := j.getObjVal? "M" then return .map (← jList (pairOfJson atomOfJson atomOfJson) v)
  throw s!"bad ovs value {j.compress}"

def ovsValToJson : OvsVal → Json
  | .atom a => Json.mkObj [("a", atomToJson a)]
  | .set l => Json.mkObj [("S", listToJson atomToJson l)]
  | .map m => Json.mkObj [("M", listToJson (fun p => .arr #[atomToJson p.1, atomToJson p.2]) m)]

def ovsRowOfJson (j : Json) : P OvsRow := jList (pairOfJson jStr ovsValOfJson) j
def ovsRowToJson (r : OvsRow) : Json := listToJson (fun p => .arr #[.str p.1, ovsValToJson p.2]) r

def mutatorOfString : String → P Mutator
  | "+=" => pure .add | "-=" => pure .sub | "*=" => pure .mul | "/=" => pure .div | "%=" => pure .mod
  | "insert" => pure .insert | "delete" => pure .delete
  | s => throw s!"bad mutator {s}"

def mutationOfJson (j : Json) : P Mutation := do
  return { col := ← jStr (← jField j "col"), mutator := ← mutatorOfString (← jStr (← jField j "mutator")),
           val := ← ovsValOfJson (← jField j "val") }

def rowOperationOfJson (j : Json) : P RowOperation := do
  match ← jStr (← jField j "op") with
  | "insert" => return .insert (← ovsRowOfJson (← jField j "row"))
  | "update" => return .update (← ovsRowOfJson (← jField j "row"))
  | "mutate" => return .mutate (← jList mutationOfJson (← jField j "mutations"))
  | "delete" => return .delete
  | s => throw s!"bad row operation {s}"

def modelOfJson (j : Json) : P Model := do
  return { uuid := ← jStr (← jField j "uuid"), row := ← jList (pairOfJson jStr valueOfJson) (← jField j "row") }

def modelToJson (m : Model) : Json :=
  Json.mkObj [("uuid", .str m.uuid), ("row", listToJson (fun p => .arr #[.str p.1, valueToJson p.2]) m.row)]

def ru2ToJson (r : RowUpdate2) : Json :=
  Json.mkObj [("initial", optToJson ovsRowToJson r.initial), ("insert", optToJson ovsRowToJson r.insert),
              ("modify", optToJson ovsRowToJson r.modify), ("delete", .bool r.delete),
              ("old", optToJson ovsRowToJson r.old), ("new", optToJson ovsRowToJson r.new)]

def ru2OfJson (j : Json) : P RowUpdate2 := do
  return { initial := ← jOpt ovsRowOfJson ((j.getObjVal? "initial").toOption.getD .null),
           insert := ← jOpt ovsRowOfJson ((j.getObjVal? "insert").toOption.getD .null),
           modify := ← jOpt ovsRowOfJson ((j.getObjVal? "modify").toOption.getD .null),
           delete := ← jFieldD j "delete" jBool false,
           old := ← jOpt ovsRowOfJson ((j.getObjVal? "old").toOption.getD .null),
           new := ← jOpt ovsRowOfJson ((j.getObjVal? "new").toOption.getD .null) }

def modelUpdateToJson (u : ModelUpdate) : Json :=
  Json.mkObj [("ru2", optToJson ru2ToJson u.ru2), ("old", optToJson modelToJson u.old), ("new", optToJson modelToJson u.new)]

def opErrToString : OpErr → String
  | .constraint => "constraint violation" | .referential => "referential integrity violation"
  | .domain => "domain error" | .range => "range error" | .notSupported => "not supported" | .timedOut => "timed out" | .other => "other"

end Ovsdb
