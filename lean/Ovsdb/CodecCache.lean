import Ovsdb.Codec
import Ovsdb.Model.Cache
import Ovsdb.Model.Cond
namespace Ovsdb
open Lean

def rowOfJson (j : Json) : P Row := jList (pairOfJson jStr valueOfJson) j
def rowToJson (r : Row) : Json := listToJson (fun p => .arr #[.str p.1, valueToJson p.2]) r

def columnKeyOfJson (j : Json) : P ColumnKey := do
  return { col := ← jStr (← jField j "col"),
           key := ← jOpt atomOfJson ((j.getObjVal? "key").toOption.getD .null),
           zero := ← jFieldD j "zero" atomOfJson (.str "") }

def specOfJson (j : Json) : P Spec := do
  return { name := ← jStr (← jField j "name"),
           cols := ← jList columnKeyOfJson (← jField j "cols"),
           isSchema := ← jBool (← jField j "schema") }

def rowOpOfJson (j : Json) : P RowOp := do
  let op ← jStr (← jField j "op")
  let u ← jStr (← jField j "uuid")
  match op with
  | "create" => return .create u (← rowOfJson (← jField j "row"))
  | "update" => return .update u (← rowOfJson (← jField j "row"))
  | "delete" => return .delete u
  | _ => throw s!"bad row op {op}"

def idxValToJson (v : IdxVal) : Json := listToJson (fun o => match o with | some a => atomToJson a | none => Json.null) v

def indexToJson (ix : Index) : Json :=
  listToJson (fun p => .arr #[idxValToJson p.1, listToJson Json.str p.2]) ix.m

def cerrToString : CErr → String
  | .inconsistent => "inconsistent"
  | .indexExists => "indexExists"
  | .other => "other"

/-- only the live bindings of an association map, each key once -/
def liveIndex (ix : Index) : Index :=
  { ix with m := (ix.m.foldl (fun (acc : List (IdxVal × List UUID)) p =>
      if acc.any (fun q => q.1 == p.1) then acc else acc ++ [p]) []) }

def cacheToJson (c : Cache) : Json :=
  Json.mkObj [("ixs", listToJson (fun ix => indexToJson (liveIndex ix)) c.ixs),
              ("rows", listToJson (fun u => .arr #[.str u, optToJson rowToJson (AMap.get? c.rows u)])
                 ((AMap.keys c.rows).eraseDups))]

end Ovsdb

namespace Ovsdb
open Lean

def condFnOfString : String → P CondFn
  | "<" => pure .lt | "<=" => pure .le | "==" => pure .eq | "!=" => pure .ne
  | ">" => pure .gt | ">=" => pure .ge | "includes" => pure .includes | "excludes" => pure .excludes
  | s => throw s!"bad condition function {s}"

def condOfJson (j : Json) : P Cond := do
  return { col := ← jStr (← jField j "col"), fn := ← condFnOfString (← jStr (← jField j "fn")),
           val := ← valueOfJson (← jField j "val") }

end Ovsdb
