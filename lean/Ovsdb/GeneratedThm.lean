import Ovsdb.Generated.Facts
import Ovsdb.Model.Naming
import Ovsdb.Model.Server
import Ovsdb.Model.Updates
import Ovsdb.Model.Cond
/-
  Theorems over the facts extracted from /repo's source on this run
  (Ovsdb/Generated/Facts.lean is rewritten by /verif/extract before every
  build).  They tie the concurrency models to the code:

  * `OvsdbServer.Transact` holds `txnMutex` from its first statement to its
    return and calls transact, processMonitors, Commit in that order: the
    micro-steps of Model/Server.lean (`step true`).
  * the three Monitor handlers read the database and register the monitor under
    the same mutex (C01: no transaction falls between a monitor's initial
    contents and its first notification).
  * in each package the "locked while held" relation between mutexes has no
    cycle (C18: no lock-order deadlock), and no function returns with a mutex
    held that no `defer` releases (C18: a failed call leaves no lock behind).
-/
namespace Ovsdb.GeneratedThm
open Ovsdb.Generated

/-- nodes reachable from `n` in at most `fuel` steps -/
def reach (edges : List (Nat × Nat)) : Nat → List Nat → List Nat
  | 0, front => front
  | fuel + 1, front =>
    let next := (edges.filter (fun e => front.contains e.1)).map (·.2)
    reach edges fuel (front ++ next.filter (fun x => !front.contains x))

/-- no mutex is (transitively) locked while it is itself held -/
def acyclic (edges : List (Nat × Nat)) : Bool :=
  let nodes := (edges.map (·.1) ++ edges.map (·.2)).eraseDups
  nodes.all (fun n =>
    let succ := (edges.filter (fun e => e.1 == n)).map (·.2)
    !(reach edges nodes.length succ).contains n)

theorem client_lock_order_acyclic : acyclic clientLockEdges = true := by decide
theorem server_lock_order_acyclic : acyclic serverLockEdges = true := by decide
theorem cache_lock_order_acyclic : acyclic cacheLockEdges = true := by decide

theorem client_no_lock_left_behind : clientUnbalanced = [] := by decide
theorem server_no_lock_left_behind : serverUnbalanced = [] := by decide
theorem cache_no_lock_left_behind : cacheUnbalanced = [] := by decide

/-- every use of the client's monitor table, its deferred-update state, `connected` and `activeEndpoint`
    is made under the mutex that guards the field, directly or because every caller in the package holds it -/
theorem client_guarded_fields_under_mutex : clientUnguarded = [] := by decide
/-- nowhere in the client or the server does a goroutine wait for other goroutines (a wait group) while it
    holds a mutex they may need -/
theorem client_waits_without_locks : clientWaitsHolding = [] := by decide
theorem server_waits_without_locks : serverWaitsHolding = [] := by decide
/-- every rpc2 codec of the client and the server is wrapped so that requests and responses are written one
    at a time (rpc2 writes responses under no lock, and its JSON encoder is not safe for concurrent use: D74) -/
theorem rpc_writes_serialized : rpcCodecsUnserialized = [] := by decide
/-- no mutex-guarded field of the client or the server is assigned while its mutex is held for reading only
    (two readers may hold it at once: such an assignment is a data race, and an append made there loses elements) -/
theorem client_no_write_under_read_lock : clientWritesUnderReadLock = [] := by decide
theorem server_no_write_under_read_lock : serverWritesUnderReadLock = [] := by decide
/-- the places where an unlock is deferred inside a loop body (the mutex then stays locked until the function
    returns, whatever the function does or waits for afterwards) are the two that mean it: the restart of the
    monitors in `connect` and the clean-up in `handleDisconnectNotification` (the non-reconnecting branch), which
    hold the mutexes of every database until they are done and return without waiting for anybody. A goroutine
    that loops for as long as the connection lives must not keep a mutex this way (mutant 16/C18) -/
def deferredUnlockInLoopAllowed : List (String × String) :=
  [("ovsdbClient.connect", "monitorsMutex"), ("ovsdbClient.handleDisconnectNotification", "monitorsMutex"),
   ("ovsdbClient.handleDisconnectNotification", "cacheMutex"), ("ovsdbClient.handleDisconnectNotification", "modelMutex")]
theorem client_deferred_unlocks_in_loops_are_the_known_ones :
    clientDeferredUnlockInLoop.all (fun p => deferredUnlockInLoopAllowed.contains p) = true := by decide
theorem server_no_deferred_unlock_in_loop : serverDeferredUnlockInLoop = [] := by decide
/-- every use of the server's monitor table is made under monitorMutex -/
theorem server_guarded_fields_under_mutex : serverUnguarded = [] := by decide

/-- every key of modelgen's initialism table is written in capitals (`expandInitilaisms` looks the
    upper-cased word up: a key with another character could never match) -/
theorem initialisms_are_capitals :
    (modelgenInitialisms.map Naming.ofString).all (fun s => !s.isEmpty && s.all Naming.isUpper) = true := by decide

/-- Transact: lock, deferred unlock, execute, notify, commit: exactly the
    micro-steps of the model, under the mutex -/
theorem transact_is_one_critical_section : transactShape = [1, 2, 3, 4, 5] := by decide

/-- the Monitor handlers read the database and register under txnMutex -/
theorem monitor_setup_is_serialised :
    shapeMonitor = [1, 2, 3, 4, 5, 6] ∧ shapeMonitorCond = [1, 2, 3, 4, 5, 6] ∧ shapeMonitorCondSince = [1, 2, 3, 4, 5, 6] := by
  decide

/-- C13: the row cache stores clones of what it is handed ... -/
theorem cache_stores_clones : cacheStoresUncloned = [] := by decide

/-- ... and hands out clones: the one function that lets a cached model out as it
    is, is the documented read-only `RowsShallow` -/
theorem cache_hands_out_clones : cacheRawEscapes = ["RowCache.RowsShallow"] := by decide

/-- the client package clones what it keeps of `RowsShallow` -/
theorem client_clones_shallow_rows :
    clientShallowUsers.all (fun u => u.2) = true := by decide

/-- `acyclic` does detect a cycle (the lock order of the pinned client:
    monitorsMutex -> rpcMutex in Monitor, rpcMutex -> monitorsMutex in connect) -/
example : acyclic [(2, 3), (3, 2)] = false := by decide
example : acyclic [(0, 1), (1, 2), (2, 0)] = false := by decide
example : acyclic [(3, 2), (2, 0), (0, 1)] = true := by decide


/-! ### the validation tables of ovsdb/bindings.go are the model's (C03, C08) -/

def goMutator : Mutator → String
  | .add => "MutateOperationAdd" | .sub => "MutateOperationSubtract" | .mul => "MutateOperationMultiply"
  | .div => "MutateOperationDivide" | .mod => "MutateOperationModulo"
  | .insert => "MutateOperationInsert" | .delete => "MutateOperationDelete"

def goAType : AType → String
  | .integer => "TypeInteger" | .real => "TypeReal" | .boolean => "TypeBoolean" | .string => "TypeString" | .uuid => "TypeUUID"

def goCondFn : CondFn → String
  | .lt => "ConditionLessThan" | .le => "ConditionLessThanOrEqual" | .eq => "ConditionEqual" | .ne => "ConditionNotEqual"
  | .gt => "ConditionGreaterThan" | .ge => "ConditionGreaterThanOrEqual" | .includes => "ConditionIncludes" | .excludes => "ConditionExcludes"

/-- does the extracted switch table accept `f` for the case labelled `k`? -/
def tableAccepts (tb : List (List String × List String)) (k f : String) : Bool :=
  match tb.find? (fun r => r.1.contains k) with
  | some r => r.2.contains "*" || r.2.contains f
  | none => false

def sampleAtom : AType → Atom
  | .integer => .int 1 | .real => .real 1 | .boolean => .bool true | .string => .str "a" | .uuid => .uuid "u"

def allATypes : List AType := [.integer, .real, .boolean, .string, .uuid]
def allMutators : List Mutator := [.add, .sub, .mul, .div, .mod, .insert, .delete]
def allCondFns : List CondFn := [.lt, .le, .eq, .ne, .gt, .ge, .includes, .excludes]

/-- the mutators `validateMutationAtomic` accepts for a column of an atomic type are
    the ones the model's `validateMutation` accepts (operand of the right type, not zero) -/
theorem mutation_table_is_the_models :
    ∀ t ∈ allATypes, ∀ m ∈ allMutators,
      (validateMutation { kind := .atom, key := t } m (.atom (sampleAtom t))).toBool =
        tableAccepts mutationAtomicTable (goAType t) (goMutator m) := by decide

/-- ... and likewise for the element type of a set column (arithmetic on a set is checked as on its elements) -/
theorem mutation_table_is_the_models_set :
    ∀ t ∈ allATypes, ∀ m ∈ allMutators, isArith m = true →
      (validateMutation { kind := .set, key := t } m (.atom (sampleAtom t))).toBool =
        tableAccepts mutationAtomicTable (goAType t) (goMutator m) := by decide

/-- the condition functions `ValidateCondition` accepts for a column are the ones the model's `evalCond`
    evaluates: all of them on integers and reals, `==`, `!=`, `includes`, `excludes` on everything else
    (other atoms, optional values, sets, maps) -/
theorem condition_table_is_the_models :
    (∀ t ∈ allATypes, ∀ f ∈ allCondFns,
      (evalCond f (.atom (sampleAtom t)) (.atom (sampleAtom t))).toBool = tableAccepts conditionTable (goAType t) (goCondFn f)) ∧
    (∀ f ∈ allCondFns,
      (evalCond f (.set [.int 1]) (.set [.int 1])).toBool = tableAccepts conditionTable "TypeSet" (goCondFn f) ∧
      (evalCond f (.opt (some (.int 1))) (.opt (some (.int 1)))).toBool = tableAccepts conditionTable "TypeSet" (goCondFn f) ∧
      (evalCond f (.map [(.int 1, .int 1)]) (.map [(.int 1, .int 1)])).toBool = tableAccepts conditionTable "TypeMap" (goCondFn f)) := by
  decide


/-! ### results and typed errors (ovsdb/error.go, C12: result -> error -> result) -/

def lookup (tb : List (String × String)) (k : String) : Option String := (tb.find? (·.1 == k)).map (·.2)

/-- every named error survives result -> typed error -> result: `errorFromResult` turns the text of a
    constant into a type that `ResultFromError` turns back into the same constant; the texts are pairwise
    different, and the other way round every typed error of `ResultFromError` is produced from its text -/
theorem error_tables_inverse :
    (∀ c ∈ errorConsts, ∃ ty, lookup errorFromResultTable c.1 = some ty ∧ lookup resultFromErrorTable ty = some c.1) ∧
    (∀ p ∈ resultFromErrorTable, lookup errorFromResultTable p.2 = some p.1) ∧
    (errorConsts.map (·.2)).Nodup ∧ (errorConsts.map (·.1)).Nodup ∧
    errorConsts.length = errorFromResultTable.length ∧ errorConsts.length = resultFromErrorTable.length := by
  decide

/-- the error classes the transaction model distinguishes are texts of the library -/
theorem model_error_classes_exist :
    ∀ e ∈ ["constraint violation", "referential integrity violation", "domain error", "range error", "not supported", "timed out"],
      e ∈ errorConsts.map (·.2) := by decide

end Ovsdb.GeneratedThm
