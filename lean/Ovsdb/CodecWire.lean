import Ovsdb.Codec
import Ovsdb.Model.Wire
/-
  Lean.Json <-> Wire.J, and the canonical rendering of decoded values for the
  correspondence check of the wire decoders (C19, C12).
-/
namespace Ovsdb
open Lean Ovsdb.Wire

partial def jOfJson : Json → J
  | .null => .null
  | .bool b => .bool b
  | .num n => .num (mkRatP n.mantissa (10 ^ n.exponent))
  | .str s => .str s
  | .arr a => .arr (a.toList.map jOfJson)
  | .obj kv => .obj (kv.toList.map (fun p => (p.1, jOfJson p.2)))

/-- a rational with a finite decimal expansion as a JSON number (others: rounded at 30 digits) -/
def ratToJsonNumber (r : Rat) : JsonNumber := Id.run do
  let mut e := 0
  let mut x := r
  while x.den ≠ 1 && e < 30 do
    x := x * 10
    e := e + 1
  return ⟨x.num / x.den, e⟩

partial def jToJson : J → Json
  | .null => .null
  | .bool b => .bool b
  | .num r => .num (ratToJsonNumber r)
  | .str s => .str s
  | .arr l => .arr (l.map jToJson).toArray
  | .obj m => Json.mkObj (m.map (fun p => (p.1, jToJson p.2)))

partial def goValToJson : GoVal → Json
  | .raw j => Json.mkObj [("raw", jToJson j)]
  | .uuid s => Json.mkObj [("uuid", .str s)]
  | .set l => Json.mkObj [("set", .arr (l.map goValToJson).toArray)]
  | .map m => Json.mkObj [("map", .arr (m.map (fun p => Json.arr #[goValToJson p.1, goValToJson p.2])).toArray)]

def outcomeToJson {α} (f : α → Json) : Outcome α → Json
  | .ok v => Json.mkObj [("class", .str "ok"), ("val", f v)]
  | .err e => Json.mkObj [("class", .str "err"), ("msg", .str e)]
  | .panic => Json.mkObj [("class", .str "panic")]

def wireFuel : Nat := 10000

def decodeWireFn (j : Json) : P Json := do
  let kind ← jStr (← jField j "kind")
  let t := jOfJson ((j.getObjVal? "json").toOption.getD .null)
  let triple := fun (x : String × String × GoVal) => Json.arr #[.str x.1, .str x.2.1, goValToJson x.2.2]
  match kind with
  | "value" => return outcomeToJson goValToJson (decodeVal wireFuel t)
  | "uuid" => return outcomeToJson (fun s => Json.str s) (decodeUUID t)
  | "set" => return outcomeToJson (fun l => Json.arr (l.map goValToJson).toArray) (decodeSet wireFuel t)
  | "map" => return outcomeToJson (fun m => Json.arr (m.map (fun p => Json.arr #[goValToJson p.1, goValToJson p.2])).toArray) (decodeMap wireFuel t)
  | "row" => return outcomeToJson (fun m => Json.mkObj (m.map (fun p => (p.1, goValToJson p.2)))) (decodeRow wireFuel t)
  | "condition" => return outcomeToJson triple (decodeCondition wireFuel t)
  | "mutation" => return outcomeToJson triple (decodeMutation wireFuel t)
  | _ => throw s!"unknown wire kind {kind}"

end Ovsdb
