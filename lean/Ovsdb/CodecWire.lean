import Ovsdb.Codec
import Ovsdb.Model.WireEnc
import Ovsdb.Model.Mapper
import Ovsdb.CodecUpdates
import Ovsdb.CodecCache
import Ovsdb.Model.Client
import Ovsdb.Model.Modelgen
import Ovsdb.Model.Naming
import Ovsdb.Generated.Facts
/-
  Lean.Json <-> Wire.J, and the canonical rendering of decoded values for the
  correspondence check of the wire decoders (C19, C12).
-/
namespace Ovsdb
open Lean Ovsdb.Wire

partial def jOfJson : Json → J
  | .null => .null
  | .bool b => .bool b
  | .num n => .num (mkRatP n.mantissa (10 ^ n.exponent))
  | .str s => .str s
  | .arr a => .arr (a.toList.map jOfJson)
  | .obj kv => .obj (kv.toList.map (fun p => (p.1, jOfJson p.2)))

/-- a rational with a finite decimal expansion as a JSON number (others: rounded at 30 digits) -/
def ratToJsonNumber (r : Rat) : JsonNumber := Id.run do
  let mut e := 0
  let mut x := r
  while x.den ≠ 1 && e < 30 do
    x := x * 10
    e := e + 1
  return ⟨x.num / x.den, e⟩

partial def jToJson : J → Json
  | .null => .null
  | .bool b => .bool b
  | .num r => .num (ratToJsonNumber r)
  | .str s => .str s
  | .arr l => .arr (l.map jToJson).toArray
  | .obj m => Json.mkObj (m.map (fun p => (p.1, jToJson p.2)))

partial def goValToJson : GoVal → Json
  | .raw j => Json.mkObj [("raw", jToJson j)]
  | .uuid s => Json.mkObj [("uuid", .str s)]
  | .set l => Json.mkObj [("set", .arr (l.map goValToJson).toArray)]
  | .map m => Json.mkObj [("map", .arr (m.map (fun p => Json.arr #[goValToJson p.1, goValToJson p.2])).toArray)]

def outcomeToJson {α} (f : α → Json) : Outcome α → Json
  | .ok v => Json.mkObj [("class", .str "ok"), ("val", f v)]
  | .err e => Json.mkObj [("class", .str "err"), ("msg", .str e)]
  | .panic => Json.mkObj [("class", .str "panic")]

def wireFuel : Nat := 10000

def decodeWireFn (j : Json) : P Json := do
  let kind ← jStr (← jField j "kind")
  let t := jOfJson ((j.getObjVal? "json").toOption.getD .null)
  let triple := fun (x : String × String × GoVal) => Json.arr #[.str x.1, .str x.2.1, goValToJson x.2.2]
  match kind with
  | "value" => return outcomeToJson goValToJson (decodeVal wireFuel t)
  | "uuid" => return outcomeToJson (fun s => Json.str s) (decodeUUID t)
  | "set" => return outcomeToJson (fun l => Json.arr (l.map goValToJson).toArray) (decodeSet wireFuel t)
  | "map" => return outcomeToJson (fun m => Json.arr (m.map (fun p => Json.arr #[goValToJson p.1, goValToJson p.2])).toArray) (decodeMap wireFuel t)
  | "row" => return outcomeToJson (fun m => Json.mkObj (m.map (fun p => (p.1, goValToJson p.2)))) (decodeRow wireFuel t)
  | "condition" => return outcomeToJson triple (decodeCondition wireFuel t)
  | "mutation" => return outcomeToJson triple (decodeMutation wireFuel t)
  | _ => throw s!"unknown wire kind {kind}"

end Ovsdb

/-! ### C12: encoders and schema codecs -/
namespace Ovsdb
open Lean Ovsdb.Wire

def isHexLowerC (c : Char) : Bool := (c ≥ '0' && c ≤ '9') || (c ≥ 'a' && c ≤ 'f')

/-- `ValidateUUID` (36 characters, 8-4-4-4-12 lower-case hex) -/
def validUUIDText (s : String) : Bool :=
  let cs := s.toList
  cs.length == 36 &&
  (List.range 36).all (fun i =>
    let c := cs.getD i ' '
    if i == 8 || i == 13 || i == 18 || i == 23 then c == '-' else isHexLowerC c)

def wAtomOfAtom : Atom → WAtom
  | .int i => .num i
  | .real r => .num r
  | .bool b => .bool b
  | .str s => .str s
  | .uuid u => .uuid u

def wValOfValue : Value → WVal
  | .atom a => .atom (wAtomOfAtom a)
  | .opt none => .set []
  | .opt (some a) => .set [wAtomOfAtom a]
  | .set l => .set (l.map wAtomOfAtom)
  | .map m => .map (m.map (fun p => (wAtomOfAtom p.1, wAtomOfAtom p.2)))

def wValOfJson (j : Json) : P WVal := do return wValOfValue (← valueOfJson j)

def wRowOfJson (j : Json) : P WRow := do
  match j with
  | .obj kv => kv.toList.mapM (fun p => do return (p.1, ← wValOfJson p.2))
  | .null => return []
  | _ => throw "bad row"

def wTripleOfJson (j : Json) : P (String × String × WVal) := do
  match ← jArr j with
  | [c, f, v] => return (← jStr c, ← jStr f, ← wValOfJson v)
  | _ => throw "bad triple"

def wOperationOfJson (j : Json) : P WOperation := do
  let str := fun k => jFieldD j k jStr ""
  return {
    op := ← str "op", table := ← str "table",
    row := ← jFieldD j "row" wRowOfJson [],
    rows := ← jFieldD j "rows" (jList wRowOfJson) [],
    columns := ← jFieldD j "columns" (jList jStr) [],
    mutations := ← jFieldD j "mutations" (jList wTripleOfJson) [],
    timeout := ← jFieldD j "timeout" (fun x => some <$> jInt x) none,
    where_ := ← jFieldD j "where" (jList wTripleOfJson) [],
    until_ := ← str "until",
    durable := ← jFieldD j "durable" (fun x => some <$> jBool x) none,
    comment := ← jFieldD j "comment" (fun x => some <$> jStr x) none,
    lock := ← jFieldD j "lock" (fun x => some <$> jStr x) none,
    uuid := ← str "uuid", uuidName := ← str "uuid-name" }

def encodeWireFn (j : Json) : P Json := do
  let kind ← jStr (← jField j "kind")
  let v ← jField j "v"
  match kind with
  | "value" => return jToJson (encodeWVal validUUIDText (← wValOfJson v))
  | "condition" | "mutation" => return jToJson (encodeCondition validUUIDText (← wTripleOfJson v))
  | "row" => return jToJson (encodeRow validUUIDText (← wRowOfJson v))
  | "operation" => return jToJson (encodeOperation validUUIDText (← wOperationOfJson v))
  | _ => throw s!"unknown wire kind {kind}"

def gTripleToJson (x : String × String × GoVal) : Json := Json.arr #[.str x.1, .str x.2.1, goValToJson x.2.2]
def gRowToJson (m : GRow) : Json := Json.mkObj (m.map (fun p => (p.1, goValToJson p.2)))
def optJ {α} (f : α → Json) : Option α → Json
  | none => .null
  | some a => f a

def gOperationToJson (o : GOperation) : Json := Json.mkObj [
  ("op", .str o.op), ("table", .str o.table), ("row", gRowToJson o.row), ("rows", listToJson gRowToJson o.rows),
  ("columns", listToJson Json.str o.columns), ("mutations", listToJson gTripleToJson o.mutations),
  ("timeout", optJ (fun (i : Int) => Json.num ⟨i, 0⟩) o.timeout), ("where", listToJson gTripleToJson o.where_),
  ("until", .str o.until_), ("durable", optJ Json.bool o.durable), ("comment", optJ Json.str o.comment),
  ("lock", optJ Json.str o.lock), ("uuid", .str o.uuid), ("uuid-name", .str o.uuidName)]

/-- decode with the model and, when it decodes, encode the result again -/
def recodeWireFn (j : Json) : P Json := do
  let kind ← jStr (← jField j "kind")
  let t := jOfJson ((j.getObjVal? "json").toOption.getD .null)
  let re {α} (o : Outcome α) (enc : α → J) : Json :=
    match o with
    | .ok v => Json.mkObj [("class", .str "ok"), ("reencoded", jToJson (enc v))]
    | .err e => Json.mkObj [("class", .str "err"), ("msg", .str e)]
    | .panic => Json.mkObj [("class", .str "panic")]
  match kind with
  | "basetype" => return re (decodeBaseType t) encodeBaseType
  | "columntype" => return re (decodeColumnType t) encodeColumnType
  | "columnschema" => return re (decodeColumnSchema t) encodeColumnSchema
  | "select" => return re (decodeMonitorSelect t) encodeMonitorSelect
  | "operation" => return outcomeToJson gOperationToJson (decodeOperation wireFuel t)
  | "result" => return outcomeToJson (fun (r : GResult) => Json.mkObj [("count", .num ⟨r.count, 0⟩), ("error", .str r.error),
      ("details", .str r.details), ("uuid", .str r.uuid), ("rows", listToJson gRowToJson r.rows)]) (decodeResult wireFuel t)
  | "updates" => return outcomeToJson (strMapToJson (strMapToJson (fun (u : GRowUpdate) =>
      Json.mkObj [("new", optJ gRowToJson u.new), ("old", optJ gRowToJson u.old)]))) (decodeTableUpdates (decodeRowUpdate wireFuel) t)
  | "updates2" => return outcomeToJson (strMapToJson (strMapToJson ru2J)) (decodeTableUpdates (decodeRowUpdate2 wireFuel) t)
  | "condsince" => return outcomeToJson (fun (x : Bool × String × List (String × List (String × GRowUpdate2))) =>
      Json.arr #[.bool x.1, .str x.2.1, strMapToJson (strMapToJson ru2J) x.2.2]) (decodeCondSince (decodeRowUpdate2 wireFuel) t)
  | "monitorreq" => return outcomeToJson (fun (r : GMonitorRequest) => Json.mkObj [("columns", listToJson Json.str r.columns),
      ("where", listToJson gTripleToJson r.where_), ("select", optJ selJ r.select)]) (decodeMonitorRequest wireFuel t)
  | "schema" => return re (decodeDatabaseSchema t) encodeDatabaseSchema
  | _ => throw s!"unknown wire kind {kind}"
where
  strMapToJson {α} (f : α → Json) (m : List (String × α)) : Json := Json.mkObj (m.map (fun p => (p.1, f p.2)))
  ru2J (u : GRowUpdate2) : Json := Json.mkObj [("initial", optJ gRowToJson u.initial), ("insert", optJ gRowToJson u.insert),
    ("modify", optJ gRowToJson u.modify), ("delete", optJ gRowToJson u.delete)]
  selJ (s : MonitorSelect) : Json := Json.mkObj [("initial", optJ Json.bool s.initial), ("insert", optJ Json.bool s.insert),
    ("delete", optJ Json.bool s.delete), ("modify", optJ Json.bool s.modify)]

end Ovsdb

/-! ### C09: mapper -/
namespace Ovsdb
open Lean Ovsdb.Wire Ovsdb.Mapper

def exceptToJson {α} (f : α → Json) : Except String α → Json
  | .ok v => Json.mkObj [("ok", f v)]
  | .error e => Json.mkObj [("err", .str e)]

/-- {table, model, base, fields (null | [col]), row (optional: use this OVS row instead of NewRow's)} -/
def mapperFn (j : Json) : P Json := do
  let (_, ts) ← tableSchemaOfJson (← jField j "table")
  let base ← modelOfJson (← jField j "base")
  let fields ← jOpt (jList jStr) ((j.getObjVal? "fields").toOption.getD .null)
  let row : Except String OvsRow ← match jFieldOpt j "row" with
    | some r => do pure (.ok (← ovsRowOfJson r))
    | none => do
      let m ← modelOfJson (← jField j "model")
      pure (match fields with
        | none => newRow ts m
        | some fs => newRowFields ts m fs)
  match row with
  | .error e => return Json.mkObj [("row", exceptToJson ovsRowToJson (.error e))]
  | .ok r =>
    let wired := if (jFieldOpt j "row").isSome then r else wireRow r
    let back := getRowData ts wired base
    let muuid ← match jFieldOpt j "model" with
      | some mj => do pure (← modelOfJson mj).uuid
      | none => pure base.uuid
    let created := createModel ts wired muuid
    return Json.mkObj [("row", exceptToJson ovsRowToJson (.ok r)),
      ("json", jToJson (encodeRow validUUIDText (toWRow r))),
      ("back", exceptToJson modelToJson back), ("created", exceptToJson modelToJson created)]

end Ovsdb

/-! ### C01 / C14 / C16: the client protocol model -/
namespace Ovsdb
open Lean Ovsdb.Client

def storeOfJson (j : Json) : P Store := do
  jList (fun r => do
    let t ← jStr (← jField r "table")
    let u ← jStr (← jField r "uuid")
    let row ← rowOfJson (← jField r "row")
    pure ((t, u), row)) j

def storeToJson (s : Store) : Json :=
  listToJson (fun (p : Key × Row) => Json.mkObj [("table", .str p.1.1), ("uuid", .str p.1.2), ("row", rowToJson p.2)])
    ((AMap.keys s).eraseDups.filterMap (fun k => (AMap.get? s k).map (fun r => (k, r))))

def eventToJson : Event → Json
  | .add k n => Json.mkObj [("ev", .str "add"), ("table", .str k.1), ("uuid", .str k.2), ("new", rowToJson n)]
  | .update k o n => Json.mkObj [("ev", .str "update"), ("table", .str k.1), ("uuid", .str k.2), ("old", rowToJson o), ("new", rowToJson n)]
  | .delete k o => Json.mkObj [("ev", .str "delete"), ("table", .str k.1), ("uuid", .str k.2), ("old", rowToJson o)]

def actionOfJson (j : Json) : P Action := do
  match ← jStr (← jField j "a") with
  | "start" => return .start
  | "notif" =>
    let tables ← jList jStr (← jField j "tables")
    return .notif (deltaOf tables (← storeOfJson (← jField j "from")) (← storeOfJson (← jField j "to")))
  | "reply" =>
    let tables ← jList jStr (← jField j "tables")
    return .reply (← jFieldD j "purge" jBool false) (initialOf tables (← storeOfJson (← jField j "db")))
  | "disconnect" => return .disconnect
  | "reBegin" => return .reBegin (← jNat (← jField j "monitors"))
  | "reReply" =>
    let tables ← jList jStr (← jField j "tables")
    return .reReply (← jNat (← jField j "monitors")) (← jFieldD j "found" jBool false)
      (initialOf tables (← storeOfJson (← jField j "db")))
  | "reEnd" => return .reEnd
  | s => throw s!"bad action {s}"

/-- {strict, pinned, deferring, actions} -> cache rows, failed flag and event log after the run -/
def clientProtocolFn (j : Json) : P Json := do
  let strict ← jFieldD j "strict" jBool true
  let pinned ← jFieldD j "pinned" jBool false
  let deferring ← jFieldD j "deferring" jBool true
  let acts ← jList actionOfJson (← jField j "actions")
  let rows ← jFieldD j "rows" storeOfJson []
  let s := run strict pinned { deferring := deferring, cache := { rows := rows } } acts
  return Json.mkObj [("rows", storeToJson s.cache.rows), ("failed", .bool s.failed), ("deferring", .bool s.deferring),
    ("events", listToJson eventToJson s.cache.log)]

/-- {existing: [[table]], tables: [table]} -> does `Monitor()` accept the new monitor? -/
def monitorAcceptedFn (j : Json) : P Json := do
  let existing ← jList (jList jStr) (← jField j "existing")
  let tables ← jList jStr (← jField j "tables")
  return .bool (monitorAccepted existing tables)

end Ovsdb

/-! ### C20: generated field types -/
namespace Ovsdb
open Lean Ovsdb.Wire Ovsdb.Modelgen

partial def goTypeToString : GoType → String
  | .int => "int" | .float64 => "float64" | .bool => "bool" | .string => "string"
  | .ptr t => "*" ++ goTypeToString t
  | .slice t => "[]" ++ goTypeToString t
  | .map k v => "map[" ++ goTypeToString k ++ "]" ++ goTypeToString v
  | .named a _ => a
  | .invalid => "<invalid>"

/-- {column: <column schema JSON>, alias} -> native type, generated type without and with enum types -/
def fieldTypeFn (j : Json) : P Json := do
  let alias ← jFieldD j "alias" jStr "Alias"
  match decodeColumnSchema (jOfJson (← jField j "column")) with
  | .ok c =>
    return Json.mkObj [("native", .str (goTypeToString (nativeType c))),
      ("plain", .str (goTypeToString (fieldType alias c false))),
      ("enums", .str (goTypeToString (fieldType alias c true))),
      ("enumsErased", .str (goTypeToString (fieldType alias c true).erase))]
  | .err e => return Json.mkObj [("err", .str e)]
  | .panic => return Json.mkObj [("err", .str "panic")]

/-- the identifiers modelgen derives from a table and a column name, with the initialism table the
    extractor read from modelgen/table.go -/
def namesFn (j : Json) : P Json := do
  let table ← jStr (← jField j "table")
  let column ← jStr (← jField j "column")
  let inits := Generated.modelgenInitialisms.map Naming.ofString
  let t := Naming.ofString table
  let c := Naming.ofString column
  return Json.mkObj [("field", .str (Naming.toString (Naming.fieldName inits c))),
    ("struct", .str (Naming.toString (Naming.structName t))),
    ("file", .str (Naming.toString (Naming.fileName t))),
    ("enum", .str (Naming.toString (Naming.enumName inits t c)))]

end Ovsdb
