import Ovsdb.Generated.Facts
/-
  A theorem of its own module over one extracted fact (so that C01 depends on this fact and not on the
  lock-order facts of GeneratedThm): wherever the client queues a notification (`deferredUpdates` appended to),
  it does so under the very acquisition of `cacheMutex` under which it looked at `deferUpdates`.

  The protocol model (Model/Client.lean) takes the handling of a notification as one step: it is either held
  back, and then applied when the monitor's reply has been applied, or applied at once. If the flag is read
  in one critical section and the notification queued in another, the reply can be applied in between and the
  queued notification is never applied (mutant 12/C01): the model's step would not be the code's.
-/
namespace Ovsdb.GeneratedDefer
open Ovsdb.Generated

theorem defer_decision_is_one_step : clientSplitDeferDecisions = [] := by decide

end Ovsdb.GeneratedDefer
