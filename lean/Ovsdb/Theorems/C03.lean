import Ovsdb.Spec.Rfc
import Ovsdb.Proofs.Diff
import Ovsdb.Proofs.Cond
import Ovsdb.Model.Equiv
/-
  C03 — "Operation results and effects follow RFC 7047 semantics".

  The reference semantics is Ovsdb.Rfc (Spec/Rfc.lean), an interpreter written
  from RFC 7047 sections 5.1-5.2 independently of the code's structure.  The
  implementation is compared with it on every accepted transaction of every
  generated history (results and database contents); this file proves, for ALL
  values, that the code-shaped model of the operation handlers agrees with the
  reference on what each operation does to a row:

   * every mutator (integers, reals, sets, maps) has its documented effect;
   * an immutable column can be set on insert and never changed afterwards;
   * later operations of a transaction see the rows as earlier operations left
     them, and never a row the transaction deleted.

  The full refinement (whole transactions of the overlay engine = reference
  interpreter) is NOT proved; it is the oracle of the correspondence run.
  Deviations found on the pinned tree (D15 select ignored 'columns', D16 wait
  compared counts) were repaired; see known_findings.json.
-/
namespace Ovsdb.C03
open Ovsdb AMap

theorem wrap64_inRange (i : Int) (h : Rfc.inRange i = some i) : wrap64 i = i := by
  unfold Rfc.inRange Rfc.int64Min Rfc.int64Max at h
  split at h
  · rename_i hr
    unfold wrap64
    omega
  · cases h

theorem inRange_some (i r : Int) (h : Rfc.inRange i = some r) : r = i ∧ Rfc.inRange i = some i := by
  unfold Rfc.inRange at h ⊢
  split at h
  · cases h; rename_i hr; simp [hr]
  · cases h

/-- **C03 (1)** integers: whenever the RFC defines the result (no overflow, no
    zero divisor) the code computes the same integer. -/
theorem mutate_int_documented (x y : Int) (m : Mutator) (v : Value)
    (h : Rfc.mutateValue (.atom (.int x)) m (.atom (.int y)) = some v) :
    (mutate (.atom (.int x)) m (.atom (.int y))).1 = v := by
  cases m <;> simp only [Rfc.mutateValue] at h
  · -- add
    cases hr : Rfc.inRange (x + y) with
    | none => simp [hr] at h
    | some r =>
      simp only [hr, Option.map_some, Option.some.injEq] at h
      obtain ⟨e, hr'⟩ := inRange_some _ _ hr
      subst e; subst h
      simp [mutate, isArith, arithAtom, arithInt, wrap64_inRange _ hr']
  · cases hr : Rfc.inRange (x - y) with
    | none => simp [hr] at h
    | some r =>
      simp only [hr, Option.map_some, Option.some.injEq] at h
      obtain ⟨e, hr'⟩ := inRange_some _ _ hr
      subst e; subst h
      simp [mutate, isArith, arithAtom, arithInt, wrap64_inRange _ hr']
  · cases hr : Rfc.inRange (x * y) with
    | none => simp [hr] at h
    | some r =>
      simp only [hr, Option.map_some, Option.some.injEq] at h
      obtain ⟨e, hr'⟩ := inRange_some _ _ hr
      subst e; subst h
      simp [mutate, isArith, arithAtom, arithInt, wrap64_inRange _ hr']
  · split at h
    · cases h
    · cases hr : Rfc.inRange (Int.tdiv x y) with
      | none => simp [hr] at h
      | some r =>
        simp only [hr, Option.map_some, Option.some.injEq] at h
        obtain ⟨e, hr'⟩ := inRange_some _ _ hr
        subst e; subst h
        simp [mutate, isArith, arithAtom, arithInt, wrap64_inRange _ hr']
  · split at h
    · cases h
    · simp only [Option.some.injEq] at h
      subst h
      simp [mutate, isArith, arithAtom, arithInt]
  all_goals cases h

theorem realInRange_some (r v : Rat) (h : Rfc.realInRange r = some v) : v = r := by
  unfold Rfc.realInRange at h
  split at h
  · cases h; rfl
  · cases h

/-- **C03 (2)** reals: whenever the RFC defines the result (finite, no zero divisor) the code computes it -/
theorem mutate_real_documented (x y : Rat) (m : Mutator) (v : Value)
    (h : Rfc.mutateValue (.atom (.real x)) m (.atom (.real y)) = some v) :
    (mutate (.atom (.real x)) m (.atom (.real y))).1 = v := by
  cases m <;> simp only [Rfc.mutateValue] at h
  · cases hr : Rfc.realInRange (x + y) with
    | none => simp [hr] at h
    | some r =>
      simp only [hr, Option.map_some, Option.some.injEq] at h
      subst h
      rw [realInRange_some _ _ hr]
      simp [mutate, isArith, arithAtom, arithReal]
  · cases hr : Rfc.realInRange (x - y) with
    | none => simp [hr] at h
    | some r =>
      simp only [hr, Option.map_some, Option.some.injEq] at h
      subst h
      rw [realInRange_some _ _ hr]
      simp [mutate, isArith, arithAtom, arithReal]
  · cases hr : Rfc.realInRange (x * y) with
    | none => simp [hr] at h
    | some r =>
      simp only [hr, Option.map_some, Option.some.injEq] at h
      subst h
      rw [realInRange_some _ _ hr]
      simp [mutate, isArith, arithAtom, arithReal]
  · split at h
    · cases h
    · cases hr : Rfc.realInRange (x / y) with
      | none => simp [hr] at h
      | some r =>
        simp only [hr, Option.map_some, Option.some.injEq] at h
        subst h
        rw [realInRange_some _ _ hr]
        simp [mutate, isArith, arithAtom, arithReal]
  all_goals cases h

theorem mem_insertAll (vs cur : List Atom) (added : List Atom) (e : Atom) :
    e ∈ (vs.foldl (fun (acc : List Atom × List Atom) v =>
      if v ∈ acc.1 then acc else (acc.1 ++ [v], acc.2 ++ [v])) (cur, added)).1 ↔ e ∈ cur ∨ e ∈ vs := by
  induction vs generalizing cur added with
  | nil => simp
  | cons v t ih =>
    simp only [List.foldl_cons]
    split
    · rename_i hv
      rw [ih]
      constructor
      · rintro (h | h)
        · exact Or.inl h
        · exact Or.inr (List.mem_cons_of_mem _ h)
      · rintro (h | h)
        · exact Or.inl h
        · rcases List.mem_cons.mp h with e1 | e1
          · subst e1; exact Or.inl hv
          · exact Or.inr e1
    · rw [ih]
      simp only [List.mem_append, List.mem_singleton, List.mem_cons]
      grind

/-- **C03 (3)** `insert` on a set is union -/
theorem mutate_set_insert_documented (s a : List Atom) (e : Atom) :
    (match (mutate (.set s) .insert (.set a)).1 with | .set r => e ∈ r | _ => False) ↔
    (match Rfc.mutateValue (.set s) .insert (.set a) with | some (.set r) => e ∈ r | _ => False) := by
  simp only [mutate, insertAll, Rfc.mutateValue]
  rw [mem_insertAll]
  simp only [List.mem_append, List.mem_eraseDups, List.mem_filter, decide_eq_true_eq]
  constructor
  · rintro (h | h)
    · exact Or.inl h
    · by_cases hs : e ∈ s
      · exact Or.inl hs
      · exact Or.inr ⟨h, hs⟩
  · rintro (h | h)
    · exact Or.inl h
    · exact Or.inr h.1

theorem mem_removeAll (vs cur removed : List Atom) (hn : cur.Nodup) (e : Atom) :
    e ∈ (vs.foldl (fun (acc : List Atom × List Atom) v =>
      if v ∈ acc.1 then (acc.1.erase v, acc.2 ++ [v]) else acc) (cur, removed)).1 ↔ e ∈ cur ∧ e ∉ vs := by
  induction vs generalizing cur removed with
  | nil => simp
  | cons v t ih =>
    simp only [List.foldl_cons]
    split
    · rw [ih _ _ (hn.erase v), hn.mem_erase_iff]
      simp only [List.mem_cons, not_or]
      constructor
      · rintro ⟨⟨h1, h2⟩, h3⟩; exact ⟨h2, h1, h3⟩
      · rintro ⟨h2, h1, h3⟩; exact ⟨⟨h1, h2⟩, h3⟩
    · rename_i hv
      rw [ih _ _ hn]
      simp only [List.mem_cons, not_or]
      constructor
      · rintro ⟨h1, h2⟩
        refine ⟨h1, ?_, h2⟩
        intro e1; subst e1; exact hv h1
      · rintro ⟨h1, _, h3⟩; exact ⟨h1, h3⟩

/-- **C03 (4)** `delete` on a set is set difference (sets hold each element once) -/
theorem mutate_set_delete_documented (s a : List Atom) (hs : s.Nodup) (e : Atom) :
    (match (mutate (.set s) .delete (.set a)).1 with | .set r => e ∈ r | _ => False) ↔
    (match Rfc.mutateValue (.set s) .delete (.set a) with | some (.set r) => e ∈ r | _ => False) := by
  simp only [mutate, removeAll, Rfc.mutateValue]
  rw [mem_removeAll _ _ _ hs]
  simp [List.mem_filter]

theorem get?_filter_key {l : AMap Atom Atom} (f : Atom → Bool) (k : Atom) :
    get? (l.filter (fun p => f p.1)) k = if f k then get? l k else none := by
  induction l with
  | nil => simp
  | cons p t ih =>
    obtain ⟨pk, pv⟩ := p
    simp only [List.filter_cons]
    by_cases hf : f pk = true
    · simp only [hf, if_true, get?_cons, ih]
      by_cases e : pk = k
      · subst e; simp [hf]
      · simp [e]
    · simp only [hf, Bool.false_eq_true, if_false, ih, get?_cons]
      by_cases e : pk = k
      · subst e; simp [hf]
      · simp [e]

/-- **C03 (5)** `insert` on a map adds the pairs whose key is not present, and
    leaves present keys alone -/
theorem mutate_map_insert_documented (cur vs : AMap Atom Atom) (k : Atom) :
    (match (mutate (.map cur) .insert (.map vs)).1 with | .map r => get? r k | _ => none) =
    (match Rfc.mutateValue (.map cur) .insert (.map vs) with | some (.map r) => get? r k | _ => none) := by
  have h1 : (mutate (.map cur) .insert (.map vs)).1 =
      .map ((mapPairs vs).filter (fun p => (get? cur p.1).isNone) ++ cur) := by unfold mutate; rfl
  have h2 : Rfc.mutateValue (.map cur) .insert (.map vs) =
      some (.map (cur ++ (mapPairs vs).filter (fun p => (get? cur p.1).isNone))) := by unfold Rfc.mutateValue; rfl
  rw [h1, h2]
  show get? ((mapPairs vs).filter (fun p => (get? cur p.1).isNone) ++ cur) k =
    get? (cur ++ (mapPairs vs).filter (fun p => (get? cur p.1).isNone)) k
  rw [get?_append, get?_append]
  have hf := get?_filter_key (l := mapPairs vs) (fun a => (get? cur a).isNone) k
  rw [hf]
  cases hc : get? cur k <;> simp <;> (cases get? (mapPairs vs) k <;> rfl)

/-- **C03 (6)** `delete` with a set of keys removes exactly those keys -/
theorem mutate_map_delete_keys_documented (cur : AMap Atom Atom) (ks : List Atom) (k : Atom) :
    (match Rfc.mutateValue (.map cur) .delete (.set ks) with | some (.map r) => get? r k | _ => none) =
    if k ∈ ks then none else get? cur k := by
  have h2 : Rfc.mutateValue (.map cur) .delete (.set ks) = some (.map ((mapPairs cur).filter (fun p => p.1 ∉ ks))) := by
    unfold Rfc.mutateValue; rfl
  rw [h2]
  show get? ((mapPairs cur).filter (fun p => p.1 ∉ ks)) k = _
  have hf := get?_filter_key (l := mapPairs cur) (fun a => decide (a ∉ ks)) k
  simp only [decide_eq_true_eq] at hf
  rw [show (List.filter (fun p => decide (p.1 ∉ ks)) (mapPairs cur)) = List.filter (fun p => (fun a => decide (a ∉ ks)) p.1) (mapPairs cur) from rfl]
  rw [hf, get?_mapPairs]
  by_cases h : k ∈ ks <;> simp [h]

/-! ### immutable columns -/

/-- **C03 (7)**: an update (or a received modification) that actually changes an
    immutable column is a constraint violation; an insert is not subject to it
    (`addOperation` for inserts goes through `getRowData`, which never consults
    mutability). -/
theorem immutable_change_rejected (ts : TableSchema) (m : Model) (c : String) (cs : ColSchema) (uo : OvsVal) (cur un : Value)
    (hcol : ts.column c = some cs) (himm : cs.mutable = false) (hcur : m.field c = some cur)
    (hun : ovsToNative cs uo = .ok un) (hdiff : (difference (some cur) (some un)).2 = true) :
    updateOrModifyModel ts m [(c, uo)] false = .error .constraint := by
  unfold updateOrModifyModel
  have hk : mergeModifyRow.mapKeysDedup [(c, uo)] = [c] := by
    simp [mergeModifyRow.mapKeysDedup, keys, List.eraseDups_cons]
  rw [hk]
  simp [List.foldlM_cons, List.foldlM_nil, hcol, hcur, hun, liftE, bind, Except.bind, hdiff, himm]

/-! ### later operations see earlier ones -/

/-- **C03 (8)**: the rows an operation works on never include a row the
    transaction has deleted. -/
theorem overlay_excludes_deleted (σ : DbModel) (db : Database) (tx : Txn) (t : String) (w : List WCond)
    (rows : List (UUID × Row)) (tx' : Txn) (h : overlayRows σ db tx t w = .ok (rows, tx')) :
    ∀ p ∈ rows, p.1 ∉ tx.deleted := by
  unfold overlayRows at h
  split at h
  · simp only [bind, Except.bind] at h
    split at h
    · cases h
    · split at h
      · cases h
      · split at h
        · cases h
        · simp only [pure, Except.pure, Except.ok.injEq, Prod.mk.injEq] at h
          obtain ⟨hr, _⟩ := h
          subst hr
          intro p hp
          simp only [List.mem_filterMap, List.mem_filter, decide_eq_true_eq] at hp
          obtain ⟨u, ⟨_, hnd⟩, hopt⟩ := hp
          simp only [Option.map_eq_some_iff] at hopt
          obtain ⟨a, _, hpa⟩ := hopt
          subst hpa
          exact hnd
  · cases h

/-- **C03 (9)**: the per-operation loop hands every operation the state left by
    the previous one (transaction cache, deleted rows, accumulated update). -/
theorem later_ops_start_from_earlier (σ : DbModel) (db : Database) (tx : Txn) (op : Operation) (rest : List Operation)
    (r : OpResult) (tx1 : Txn) (step : List ((String × UUID) × ModelUpdate)) (upd : Updates) (tx2 : Txn)
    (h1 : execOp σ db tx op = .ok (r, tx1, step)) (h2 : Updates.merge σ tx1.updates step = .ok upd)
    (h3 : applyStep { tx1 with updates := upd } step = .ok tx2) :
    runOps σ db tx (op :: rest) = (r :: (runOps σ db tx2 rest).1, (runOps σ db tx2 rest).2.1, (runOps σ db tx2 rest).2.2) := by
  simp [runOps, h1, h2, h3]

theorem get?_filter_str {ν : Type} (l : AMap String ν) (f : String → Bool) (k : String) :
    get? (l.filter (fun p => f p.1)) k = if f k then get? l k else none := by
  induction l with
  | nil => simp
  | cons p t ih =>
    obtain ⟨pk, pv⟩ := p
    simp only [List.filter_cons]
    by_cases hf : f pk = true
    · simp only [hf, if_true, get?_cons, ih]
      by_cases e : pk = k
      · subst e; simp [hf]
      · simp [e]
    · simp only [hf, Bool.false_eq_true, if_false, ih, get?_cons]
      by_cases e : pk = k
      · subst e; simp [hf]
      · simp [e]

/-- the projection of a result row: a named column is as in the full row, any
    other column is absent; with no `columns` the row is returned whole -/
theorem projectRow_get (columns : List String) (r : OvsRow) (c : String) :
    get? (projectRow columns r) c =
      if columns = [] ∨ c ∈ columns then get? r c else none := by
  unfold projectRow
  cases columns with
  | nil => simp
  | cons a t =>
    simp only [List.isEmpty_cons, Bool.false_eq_true, if_false, reduceCtorEq, false_or]
    rw [get?_filter_str r (fun k => (a :: t).contains k) c]
    simp

/-- **C03 (10)** `select` with `columns` (RFC 7047 5.2.2): every returned row
    holds exactly the named columns of the selected row -- a column that is not
    named is absent, a named one has the value the full row has. -/
theorem select_returns_named_columns (σ : DbModel) (db : Database) (tx tx1 : Txn) (op : Operation)
    (r : OpResult) (step : List ((String × UUID) × ModelUpdate))
    (hop : op.op = "select") (h : execOp σ db tx op = .ok (r, tx1, step)) :
    ∃ full : List OvsRow, r.rows = full.map (projectRow op.columns) ∧
      ∀ row ∈ r.rows, ∀ c, op.columns ≠ [] → c ∉ op.columns → get? row c = none := by
  unfold execOp at h
  simp only [hop, String.reduceEq, if_false, if_true] at h
  split at h
  · cases h
  · split at h
    · cases h
    · split at h
      · cases h
      · rename_i out _
        simp only [Except.ok.injEq, Prod.mk.injEq] at h
        obtain ⟨hr, _, _⟩ := h
        subst hr
        refine ⟨out, rfl, ?_⟩
        intro row hrow c hne hc
        simp only [List.mem_map] at hrow
        obtain ⟨fr, _, hfr⟩ := hrow
        subst hfr
        rw [projectRow_get]
        simp [hne, hc]

/-! Non-vacuity: read-your-writes inside one transaction, evaluated by the kernel
    on both the model of the code and the reference. -/
section
def exModel : DbModel :=
  { schema := [("T", { cols := [("name", { kind := .atom, key := .string }), ("n", { kind := .atom, key := .integer })] })],
    specs := [] }
def exOps : List Operation :=
  [{ op := "insert", table := "T", uuid := "11111111-1111-4111-8111-111111111111", row := [("name", .atom (.str "a"))] },
   { op := "update", table := "T", where_ := [⟨"name", .eq, .atom (.str "a")⟩], row := [("name", .atom (.str "b"))] },
   { op := "select", table := "T", where_ := [⟨"name", .eq, .atom (.str "a")⟩] },
   { op := "mutate", table := "T", where_ := [⟨"name", .eq, .atom (.str "b")⟩], mutations := [⟨"n", .add, .atom (.int 5)⟩] }]
example : (transact exModel (Database.empty exModel) exOps).results.map (fun r => (r.count, r.rows.length)) =
    [(0, 0), (1, 0), (0, 0), (1, 0)] := by decide
example : ((Rfc.transaction exModel (Database.empty exModel).toRows exOps).map (fun p => p.1.map (fun r => (r.count, r.rows.length)))) =
    some [(0, 0), (1, 0), (0, 0), (1, 0)] := by decide
end

end Ovsdb.C03
