import Ovsdb.Theorems.C16
namespace Ovsdb.C16
open Ovsdb Ovsdb.Client Ovsdb.C01 AMap

/-- **C16 (3)** `monitor_cond_since` answered with found = true.  The cache is NOT purged: it still
    mirrors the database as of the last transaction id the client recorded (`dbOld`), and the reply
    carries what changed since (`init`, any correct notification from `dbOld` to the database `dbk`
    at the time of the request).  Notifications that follow are queued whatever their position
    relative to the reply; the cache ends up mirroring the database. -/
theorem reconnect_since_found (strict : Bool) (S : List String) (s0 : ClientSt) (hf : s0.failed = false)
    (dbOld dbk dbm : Store) (hmir : Mirror S s0.cache dbOld) (init : List Change)
    (hinit : NotifOK strict S dbOld dbk init) (e1 e2 late : List (List Change))
    (hchain : Chain strict S dbk (e1 ++ e2 ++ late) dbm) :
    let s := run strict false s0 ([Action.disconnect, Action.reBegin 1] ++ e1.map Action.notif ++
      [Action.reReply 1 true init] ++ e2.map Action.notif ++ [Action.reEnd] ++ late.map Action.notif)
    s.failed = false ∧ s.deferring = false ∧ Mirror S s.cache dbm := by
  obtain ⟨m, hc1, hc2⟩ := chain_append (e1 ++ e2) late dbk dbm hchain
  simp only [run_append]
  have h0 : run strict false s0 [Action.disconnect, Action.reBegin 1] = { s0 with deferring := true, deferred := [] } := by
    simp [run, step, onDisconnect, reconnectBegin]
  rw [h0, run_notifs_queue strict e1 _ rfl]
  obtain ⟨c1, hi1, hi2⟩ := hinit.2 s0.cache hmir
  have hrep : run strict false { s0 with deferring := true, deferred := ([] : List (List Change)) ++ e1 }
      [Action.reReply 1 true init] = { s0 with cache := c1, deferring := true, deferred := e1 } := by
    simp [run, step, restartReply, hi1]
  rw [hrep, run_notifs_queue strict e2 _ rfl]
  obtain ⟨c2, hr1, hr2, _⟩ := replay_chain (e1 ++ e2) dbk m c1 hc1 hi2
  have hend : run strict false { s0 with cache := c1, deferring := true, deferred := e1 ++ e2 } [Action.reEnd]
      = { s0 with cache := c2, deferring := false, deferred := [] } := by
    simp [run, step, reconnectEnd, hr1]
  simp only
  rw [hend]
  have := run_notifs_direct strict false S late m dbm
    { s0 with cache := c2, deferring := false, deferred := [] } rfl hf hc2 hr2
  exact ⟨this.2.1, this.1, this.2.2.2.1⟩

/-- the reply a correct server computes: the difference between the two database states -/
theorem reconnect_since_found_delta (strict : Bool) (S : List String) (s0 : ClientSt) (hf : s0.failed = false)
    (dbOld dbk dbm : Store) (hmir : Mirror S s0.cache dbOld) (e1 e2 late : List (List Change))
    (hchain : Chain strict S dbk (e1 ++ e2 ++ late) dbm) :
    let s := run strict false s0 ([Action.disconnect, Action.reBegin 1] ++ e1.map Action.notif ++
      [Action.reReply 1 true (deltaOf S dbOld dbk)] ++ e2.map Action.notif ++ [Action.reEnd] ++ late.map Action.notif)
    s.failed = false ∧ s.deferring = false ∧ Mirror S s.cache dbm :=
  reconnect_since_found strict S s0 hf dbOld dbk dbm hmir _ (delta_ok strict S dbOld dbk) e1 e2 late hchain

/-- what goes wrong when the premise fails: the client recorded a transaction id it had not applied
    (its cache is one row behind `dbOld`); the difference the server sends cannot repair that -/
def behindWitness : ClientSt :=
  let dbOld : Store := [(("T", "u1"), rowA), (("T", "u2"), rowA)]
  let dbk : Store := [(("T", "u1"), rowA), (("T", "u2"), rowA), (("T", "u3"), rowA)]
  run true false { deferring := false, cache := { rows := [(("T", "u1"), rowA)] } }
    [.disconnect, .reBegin 1, .reReply 1 true (deltaOf ["T"] dbOld dbk), .reEnd]

theorem since_needs_the_recorded_state :
    (get? behindWitness.cache.rows ("T", "u2")).isNone = true ∧ (get? behindWitness.cache.rows ("T", "u3")).isSome = true := by
  decide

/-! ## the last-transaction-id half of the client (client.go: update3, monitor() for monitor_cond_since,
    connect(reconnect = true) with a single monitor): which id the client records, when, and what it asks
    the next server with -/

/-- the cache and `monitor.LastTransactionID` (ids are indices into the database's history; the all-zeros
    uuid the client starts with is an id no server knows) -/
structure SinceSt where
  cache : CacheSt := {}
  lastId : Option Nat := none
  failed : Bool := false
  deriving Repr

/-- an `update3` notification: applied, and only then its id recorded -/
def onUpdate3 (strict : Bool) (s : SinceSt) (id : Nat) (n : List Change) : SinceSt :=
  match applyAll strict s.cache n with
  | .ok c => { s with cache := c, lastId := some id }
  | .error _ => { s with failed := true }

/-- the reply `[found, id, updates]` to `monitor_cond_since` on reconnect, single monitor.
    `pinned`: the id of the reply is recorded only when found is true, and before the updates are applied.
    Repaired: the id is recorded whatever `found` says, once the updates are in; when they cannot be
    applied the cache corresponds to no id any more and the next request asks for everything. -/
def onSinceReply (strict pinned : Bool) (s : SinceSt) (found : Bool) (id : Nat) (updates : List Change) : SinceSt :=
  let c0 := if found then s.cache else purge s.cache
  match applyAll strict c0 updates with
  | .ok c1 => { s with cache := c1, lastId := if pinned && !found then s.lastId else some id }
  | .error _ =>
    if pinned then { s with cache := c0, lastId := if found then some id else s.lastId, failed := true }
    else { s with cache := c0, lastId := none, failed := true }

/-- what a server whose database went through the states `db 0, db 1, …` and is at `k` answers to a
    request with `since`: one that still has that id in its history sends what changed since, one that
    does not (restarted, compacted, or asked with the zero id) sends everything -/
def serverReply (S : List String) (db : Nat → Store) (remembers : Bool) (since : Option Nat) (k : Nat) :
    Bool × Nat × List Change :=
  match remembers, since with
  | true, some j => (true, k, deltaOf S (db j) (db k))
  | _, _ => (false, k, initialOf S (db k))

/-- what happens to the client, seen from outside -/
inductive SinceEv where
  | update (k : Nat)                       -- the database moved to state k and the client was notified
  | reconnect (remembers : Bool) (k : Nat) -- connection lost; the next server is at state k
  deriving Repr

def sinceStep (strict pinned : Bool) (S : List String) (db : Nat → Store) (s : SinceSt × Nat) : SinceEv → SinceSt × Nat
  | .update k => (onUpdate3 strict s.1 k (deltaOf S (db s.2) (db k)), k)
  | .reconnect r k =>
    let rep := serverReply S db r s.1.lastId k
    (onSinceReply strict pinned s.1 rep.1 rep.2.1 rep.2.2, k)

/-- the second component is the state the server last told the client about -/
def sinceRun (strict pinned : Bool) (S : List String) (db : Nat → Store) (s : SinceSt × Nat) (evs : List SinceEv) : SinceSt × Nat :=
  evs.foldl (sinceStep strict pinned S db) s

/-- the invariant of the repaired client: nothing failed, the cache mirrors the state the server last
    told it about, and the recorded id is the id of exactly that state -/
def SinceInv (S : List String) (db : Nat → Store) (s : SinceSt × Nat) : Prop :=
  s.1.failed = false ∧ Mirror S s.1.cache (db s.2) ∧ (s.1.lastId = some s.2 ∨ s.1.lastId = none)

theorem onSinceReply_ok {strict : Bool} {s : SinceSt} {found : Bool} {id : Nat} {u : List Change} {c1 : CacheSt}
    (h : applyAll strict (if found then s.cache else purge s.cache) u = .ok c1) :
    onSinceReply strict false s found id u = { s with cache := c1, lastId := some id } := by
  simp [onSinceReply, h]

theorem onUpdate3_ok {strict : Bool} {s : SinceSt} {id : Nat} {n : List Change} {c1 : CacheSt}
    (h : applyAll strict s.cache n = .ok c1) : onUpdate3 strict s id n = { s with cache := c1, lastId := some id } := by
  simp [onUpdate3, h]

theorem sinceStep_inv (strict : Bool) (S : List String) (db : Nat → Store) (s : SinceSt × Nat)
    (h : SinceInv S db s) (ev : SinceEv) : SinceInv S db (sinceStep strict false S db s ev) := by
  obtain ⟨hf, hm, hid⟩ := h
  cases ev with
  | update k =>
    obtain ⟨c', h1, h2⟩ := (delta_ok strict S (db s.2) (db k)).2 s.1.cache hm
    simp only [sinceStep, onUpdate3_ok h1]
    exact ⟨hf, h2, Or.inl rfl⟩
  | reconnect r k =>
    have hforget : SinceInv S db (onSinceReply strict false s.1 false k (initialOf S (db k)), k) := by
      obtain ⟨c', h1, h2, _⟩ := initial_mirror (strict := strict) S (db k) (purge s.1.cache) (fun k _ => purge_empty _ k)
      rw [onSinceReply_ok (found := false) (by simpa using h1)]
      exact ⟨hf, h2, Or.inl rfl⟩
    cases r with
    | false => simpa [sinceStep, serverReply] using hforget
    | true =>
      rcases hid with hid | hid
      · obtain ⟨c', h1, h2⟩ := (delta_ok strict S (db s.2) (db k)).2 s.1.cache hm
        simp only [sinceStep, serverReply, hid]
        rw [onSinceReply_ok (found := true) (by simpa using h1)]
        exact ⟨hf, h2, Or.inl rfl⟩
      · simpa [sinceStep, serverReply, hid] using hforget

/-- **C16 (4)** servers with different memories.  A client with one `monitor_cond_since` monitor whose
    cache mirrors the state it was last told about, and which has recorded that state's id or none:
    whatever sequence of notifications and reconnections follows, and whether each server it reaches
    remembers the id it is asked with or has forgotten every id, no reply ever fails to apply and the
    cache mirrors the database state of the last event. -/
theorem since_failover_mirror (strict : Bool) (S : List String) (db : Nat → Store) (evs : List SinceEv)
    (s : SinceSt × Nat) (h : SinceInv S db s) :
    SinceInv S db (sinceRun strict false S db s evs) := by
  induction evs generalizing s with
  | nil => exact h
  | cons ev t ih => exact ih _ (sinceStep_inv strict S db s h ev)

/-- a fresh client: empty cache, the zero id -/
theorem since_fresh (S : List String) (db : Nat → Store) (hempty : ∀ k : Key, k.1 ∈ S → get? (db 0) k = none) :
    SinceInv S db (({} : SinceSt), 0) :=
  ⟨rfl, fun k hk => by rw [hempty k hk]; rfl, Or.inr rfl⟩

/-! ### the pinned client after a fail-over (defect D63) -/

def histW : Nat → Store
  | 0 => []
  | 1 => [(("T", "u1"), rowA)]
  | 2 => [(("T", "u1"), rowA), (("T", "u2"), rowA)]
  | _ => [(("T", "u1"), rowA), (("T", "u2"), rowA), (("T", "u3"), rowA)]

/-- notified of state 1; a server that has lost its history sends state 2 in full; a server that remembers
    id 1 then sends what changed between 1 and 3; a last reconnection finds nothing new -/
def failoverW (pinned : Bool) : SinceSt × Nat :=
  sinceRun true pinned ["T"] histW (({} : SinceSt), 0) [.update 1, .reconnect false 2, .reconnect true 3, .reconnect true 3]

theorem pinned_failover_loses_a_row :
    (failoverW true).1.failed = true ∧ (get? (failoverW true).1.cache.rows ("T", "u3")).isNone = true ∧
      (failoverW true).1.lastId = some 3 := by
  decide

theorem repaired_failover_converges :
    (failoverW false).1.failed = false ∧ (get? (failoverW false).1.cache.rows ("T", "u3")).isSome = true ∧
      (failoverW false).1.lastId = some 3 := by
  decide

end Ovsdb.C16
