import Ovsdb.Model.Server
/-
  C17 — concurrent transactions are serialisable and observed in one order.

  For every schedule of the connection goroutines' micro-steps (wait for the
  mutex, execute, notify, commit, release) the database is the one obtained by
  running the requests one after another in the order the mutex was acquired,
  every monitor has been told of exactly the accepted requests in that order,
  and every finished request got the result it gets in that serial run.
  Without the mutex an update is lost on a concrete schedule.
-/
namespace Ovsdb.C17
open Ovsdb.Server

variable {σ ρ : Type}

theorem serialDb_append (exec : Nat → σ → ρ × Option σ) : ∀ (pre : List Nat) (db : σ) (i : Nat),
    serialDb exec db (pre ++ [i]) = match (exec i (serialDb exec db pre)).2 with
      | some d => d
      | none => serialDb exec db pre := by
  intro pre
  induction pre with
  | nil => intro db i; simp only [List.nil_append, serialDb]; cases (exec i db).2 <;> rfl
  | cons a t ih => intro db i; simp [serialDb, ih]

theorem serialNotified_append (exec : Nat → σ → ρ × Option σ) : ∀ (pre : List Nat) (db : σ) (i : Nat),
    serialNotified exec db (pre ++ [i]) = match (exec i (serialDb exec db pre)).2 with
      | some _ => serialNotified exec db pre ++ [i]
      | none => serialNotified exec db pre := by
  intro pre
  induction pre with
  | nil =>
    intro db i
    simp only [List.nil_append, serialNotified, serialDb]
    cases (exec i db).2 <;> simp [serialNotified]
  | cons a t ih =>
    intro db i
    simp only [List.cons_append, serialNotified, serialDb]
    cases h : (exec a db).2 with
    | none => simp only [ih]
    | some d =>
      simp only [ih]
      cases (exec i (serialDb exec d t)).2 <;> simp

theorem expected_append (exec : Nat → σ → ρ × Option σ) : ∀ (pre : List Nat) (db : σ) (i : Nat),
    expected exec db (pre ++ [i]) = expected exec db pre ++ [(i, (exec i (serialDb exec db pre)).1)] := by
  intro pre
  induction pre with
  | nil => intro db i; simp [expected, serialDb]
  | cons a t ih => intro db i; simp [expected, serialDb, ih]

theorem mem_expected (exec : Nat → σ → ρ × Option σ) : ∀ (l : List Nat) (db : σ) (p : Nat × ρ),
    p ∈ expected exec db l → p.1 ∈ l := by
  intro l
  induction l with
  | nil => intro db p h; simp [expected] at h
  | cons a t ih =>
    intro db p h
    simp only [expected, List.mem_cons] at h
    rcases h with h | h
    · subst h; simp
    · exact List.mem_cons_of_mem _ (ih _ p h)

theorem expected_covers (exec : Nat → σ → ρ × Option σ) : ∀ (l : List Nat) (db : σ) (j : Nat),
    j ∈ l → ∃ r, (j, r) ∈ expected exec db l := by
  intro l
  induction l with
  | nil => intro db j h; simp at h
  | cons a t ih =>
    intro db j h
    simp only [List.mem_cons] at h
    rcases h with h | h
    · subst h; exact ⟨(exec j db).1, by simp [expected]⟩
    · obtain ⟨r, hr⟩ := ih _ j h
      exact ⟨r, by simp only [expected, List.mem_cons]; exact Or.inr hr⟩

/-- what holds of the thread that has the mutex, `pre` being the requests served before it -/
def holderOK (exec : Nat → σ → ρ × Option σ) (db0 : σ) (s : State σ ρ) (pre : List Nat) (i : Nat) : Prop :=
  let dbp := serialDb exec db0 pre
  let np := serialNotified exec db0 pre
  match (s.threads i).phase with
  | .idle => False
  | .done => False
  | .locked => s.db = dbp ∧ ∀ m ∈ s.monitors, m = np
  | .executed => s.db = dbp ∧ (∀ m ∈ s.monitors, m = np) ∧ (s.threads i).res = some (exec i dbp).1 ∧
      (s.threads i).next = (exec i dbp).2
  | .notified => s.db = dbp ∧ (∀ m ∈ s.monitors, m = np ++ [i]) ∧ (s.threads i).res = some (exec i dbp).1 ∧
      (s.threads i).next = (exec i dbp).2 ∧ (exec i dbp).2.isSome
  | .committed => s.db = serialDb exec db0 (pre ++ [i]) ∧ (∀ m ∈ s.monitors, m = serialNotified exec db0 (pre ++ [i])) ∧
      (s.threads i).res = some (exec i dbp).1

def servedOK (exec : Nat → σ → ρ × Option σ) (db0 : σ) (s : State σ ρ) (l : List Nat) : Prop :=
  ∀ p ∈ expected exec db0 l, (s.threads p.1).phase = .done ∧ (s.threads p.1).res = some p.2

/-- the invariant of the server with the mutex -/
def Inv (exec : Nat → σ → ρ × Option σ) (db0 : σ) (s : State σ ρ) : Prop :=
  s.order.Nodup ∧ (∀ j, j ∉ s.order → (s.threads j).phase = .idle) ∧
  match s.lock with
  | none => servedOK exec db0 s s.order ∧ s.db = serialDb exec db0 s.order ∧
      ∀ m ∈ s.monitors, m = serialNotified exec db0 s.order
  | some i => ∃ pre, s.order = pre ++ [i] ∧ servedOK exec db0 s pre ∧ holderOK exec db0 s pre i

theorem inv_init (exec : Nat → σ → ρ × Option σ) (db0 : σ) (n : Nat) : Inv exec db0 (init db0 n : State σ ρ) := by
  refine ⟨by simp [init], fun _ _ => rfl, ?_⟩
  simp only [init]
  refine ⟨fun p hp => by simp [expected] at hp, rfl, fun m hm => ?_⟩
  simp only [List.mem_replicate] at hm
  simp [hm.2, serialNotified]

theorem servedOK_setThread_other (exec : Nat → σ → ρ × Option σ) (db0 : σ) (s : State σ ρ) (l : List Nat) (i : Nat)
    (t : Thread σ ρ) (hi : i ∉ l) (h : servedOK exec db0 s l) : servedOK exec db0 (setThread s i t) l := by
  intro p hp
  have hne : p.1 ≠ i := fun e => hi (e ▸ mem_expected exec l db0 p hp)
  simp only [setThread, hne, if_false]
  exact h p hp

theorem inv_step (exec : Nat → σ → ρ × Option σ) (db0 : σ) (s : State σ ρ) (i : Nat) (h : Inv exec db0 s) :
    Inv exec db0 (step true exec s i) := by
  obtain ⟨hnd, hidle, hrest⟩ := h
  cases hl : s.lock with
  | none =>
    simp only [hl] at hrest
    obtain ⟨hserved, hdb, hmon⟩ := hrest
    by_cases hin : i ∈ s.order
    · -- already served: nothing happens
      obtain ⟨r, hr⟩ := expected_covers exec s.order db0 i hin
      have hph := (hserved (i, r) hr).1
      have : step true exec s i = s := by simp [step, hph]
      rw [this]
      exact ⟨hnd, hidle, by simp only [hl]; exact ⟨hserved, hdb, hmon⟩⟩
    · -- takes the mutex
      have hph := hidle i hin
      have hstep : step true exec s i =
          { setThread s i { s.threads i with phase := .locked } with lock := some i, order := s.order ++ [i] } := by
        simp [step, hph, hl]
      rw [hstep]
      refine ⟨?_, ?_, ?_⟩
      · simp only
        exact List.nodup_append.mpr ⟨hnd, by simp, by intro a ha b hb; simp at hb; subst hb; exact fun e => hin (e ▸ ha)⟩
      · intro j hj
        simp only [List.mem_append, List.mem_singleton, not_or] at hj
        simp only [setThread, hj.2, if_false]
        exact hidle j hj.1
      · simp only
        refine ⟨s.order, rfl, servedOK_setThread_other exec db0 s s.order i _ hin hserved, ?_⟩
        simp only [holderOK, setThread, if_true]
        exact ⟨hdb, hmon⟩
  | some h' =>
    simp only [hl] at hrest
    obtain ⟨pre, hord, hserved, hhold⟩ := hrest
    have hh'pre : h' ∉ pre := by
      intro hmem
      rw [hord] at hnd
      have := (List.nodup_append.mp hnd).2.2 h' hmem h' (by simp)
      exact this rfl
    by_cases hih : i = h'
    · subst hih
      -- the holder moves on
      unfold holderOK at hhold
      cases hph : (s.threads i).phase with
      | idle => simp [hph] at hhold
      | done => simp [hph] at hhold
      | locked =>
        simp only [hph] at hhold
        have hstep : step true exec s i = setThread s i
            { phase := .executed, res := some (exec i s.db).1, next := (exec i s.db).2 } := by simp [step, hph]
        rw [hstep]
        refine ⟨hnd, fun j hj => ?_, ?_⟩
        · have : j ≠ i := fun e => hj (show j ∈ s.order by rw [e, hord]; simp)
          simp only [setThread, this, if_false]; exact hidle j (fun hm => hj hm)
        · simp only [setThread, hl]
          refine ⟨pre, hord, servedOK_setThread_other exec db0 s pre i _ hh'pre hserved, ?_⟩
          simp only [holderOK, if_true]
          rw [hhold.1]
          exact ⟨rfl, hhold.2, rfl, rfl⟩
      | executed =>
        simp only [hph] at hhold
        obtain ⟨hdb, hmon, hres, hnext⟩ := hhold
        cases hn : (s.threads i).next with
        | none =>
          have hstep : step true exec s i = setThread s i { s.threads i with phase := .committed } := by
            simp [step, hph, hn]
          rw [hstep]
          refine ⟨hnd, fun j hj => ?_, ?_⟩
          · have : j ≠ i := fun e => hj (show j ∈ s.order by rw [e, hord]; simp)
            simp only [setThread, this, if_false]; exact hidle j (fun hm => hj hm)
          · simp only [setThread, hl]
            refine ⟨pre, hord, servedOK_setThread_other exec db0 s pre i _ hh'pre hserved, ?_⟩
            have hex : (exec i (serialDb exec db0 pre)).2 = none := by rw [← hnext]; exact hn
            simp only [holderOK, if_true, serialDb_append, serialNotified_append, hex]
            exact ⟨hdb, hmon, hres⟩
        | some d =>
          have hstep : step true exec s i = { setThread s i { s.threads i with phase := .notified } with
              monitors := s.monitors.map (· ++ [i]) } := by simp [step, hph, hn]
          rw [hstep]
          refine ⟨hnd, fun j hj => ?_, ?_⟩
          · have : j ≠ i := fun e => hj (show j ∈ s.order by rw [e, hord]; simp)
            simp only [setThread, this, if_false]; exact hidle j (fun hm => hj hm)
          · simp only [setThread, hl]
            refine ⟨pre, hord, servedOK_setThread_other exec db0 s pre i _ hh'pre hserved, ?_⟩
            simp only [holderOK, if_true]
            refine ⟨hdb, fun m hm => ?_, hres, hnext, by rw [← hnext, hn]; rfl⟩
            simp only [List.mem_map] at hm
            obtain ⟨m0, hm0, rfl⟩ := hm
            rw [hmon m0 hm0]
      | notified =>
        simp only [hph] at hhold
        obtain ⟨hdb, hmon, hres, hnext, hsome⟩ := hhold
        cases hn : (s.threads i).next with
        | none => rw [hnext] at hn; simp [hn] at hsome
        | some d =>
          have hstep : step true exec s i = { setThread s i { s.threads i with phase := .committed } with db := d } := by
            simp [step, hph, hn]
          rw [hstep]
          refine ⟨hnd, fun j hj => ?_, ?_⟩
          · have : j ≠ i := fun e => hj (show j ∈ s.order by rw [e, hord]; simp)
            simp only [setThread, this, if_false]; exact hidle j (fun hm => hj hm)
          · simp only [setThread, hl]
            refine ⟨pre, hord, servedOK_setThread_other exec db0 s pre i _ hh'pre hserved, ?_⟩
            have hex : (exec i (serialDb exec db0 pre)).2 = some d := by rw [← hnext]; exact hn
            simp only [holderOK, if_true, serialDb_append, serialNotified_append, hex]
            exact ⟨trivial, hmon, hres⟩
      | committed =>
        simp only [hph] at hhold
        obtain ⟨hdb, hmon, hres⟩ := hhold
        have hstep : step true exec s i = { setThread s i { s.threads i with phase := .done } with lock := none } := by
          simp [step, hph]
        rw [hstep]
        refine ⟨hnd, fun j hj => ?_, ?_⟩
        · have : j ≠ i := fun e => hj (show j ∈ s.order by rw [e, hord]; simp)
          simp only [setThread, this, if_false]; exact hidle j (fun hm => hj hm)
        · simp only [setThread]
          refine ⟨?_, by rw [hord]; exact hdb, by rw [hord]; exact hmon⟩
          intro p hp
          rw [hord, expected_append] at hp
          simp only [List.mem_append, List.mem_singleton] at hp
          rcases hp with hp | hp
          · have hne : p.1 ≠ i := fun e => hh'pre (e ▸ mem_expected exec pre db0 p hp)
            simp only [hne, if_false]
            exact hserved p hp
          · subst hp
            simp only [if_true]
            exact ⟨trivial, hres⟩
    · -- another thread: served already (nothing to do) or waiting for the mutex (blocked)
      have hsame : step true exec s i = s := by
        by_cases hin : i ∈ s.order
        · rw [hord] at hin
          simp only [List.mem_append, List.mem_singleton] at hin
          rcases hin with hin | hin
          · obtain ⟨r, hr⟩ := expected_covers exec pre db0 i hin
            have hph := (hserved (i, r) hr).1
            simp [step, hph]
          · exact absurd hin hih
        · have hph := hidle i hin
          simp [step, hph, hl]
      rw [hsame]
      exact ⟨hnd, hidle, by simp only [hl]; exact ⟨pre, hord, hserved, hhold⟩⟩

theorem inv_run (exec : Nat → σ → ρ × Option σ) (db0 : σ) : ∀ (sched : List Nat) (s : State σ ρ),
    Inv exec db0 s → Inv exec db0 (run true exec s sched) := by
  intro sched
  induction sched with
  | nil => intro s h; exact h
  | cons i t ih => intro s h; exact ih _ (inv_step exec db0 s i h)

/-- **C17**: for every schedule of the connection goroutines, whenever no request
    is in the middle of being served: the database is the result of serving the
    requests one after another in the order `order` (the order the mutex was
    taken in); every monitor has been notified of exactly the accepted requests,
    in that same order; every served request got the result of that serial run. -/
theorem serialisable (exec : Nat → σ → ρ × Option σ) (db0 : σ) (nMonitors : Nat) (sched : List Nat) :
    let s := run true exec (init db0 nMonitors) sched
    s.lock = none →
      s.db = serialDb exec db0 s.order ∧
      (∀ m ∈ s.monitors, m = serialNotified exec db0 s.order) ∧
      (∀ p ∈ expected exec db0 s.order, (s.threads p.1).phase = .done ∧ (s.threads p.1).res = some p.2) ∧
      s.order.Nodup ∧ ∀ j, j ∉ s.order → (s.threads j).phase = .idle := by
  intro s hl
  have h := inv_run exec db0 sched (init db0 nMonitors) (inv_init exec db0 nMonitors)
  obtain ⟨hnd, hidle, hrest⟩ := h
  simp only [show (run true exec (init db0 nMonitors) sched).lock = none from hl] at hrest
  exact ⟨hrest.2.1, hrest.2.2, hrest.1, hnd, hidle⟩

/-! ### without the mutex an increment is lost -/

/-- every request increments a counter -/
def incr : Nat → Nat → Unit × Option Nat := fun _ n => ((), some (n + 1))

/-- two requests, both executed before either commits -/
theorem unlocked_loses_update :
    (run false incr (init 0 1 : State Nat Unit) [0, 1, 0, 1, 0, 0, 0, 1, 1, 1]).db = 1 ∧
    (run true incr (init 0 1 : State Nat Unit) [0, 1, 0, 1, 0, 0, 0, 0, 1, 1, 1, 1, 1, 1]).db = 2 := by
  decide

/-- exactly one of two requests claiming the same unique value succeeds, whatever the schedule:
    instance of `serialisable` with `exec` = insert-if-absent -/
def claim : Nat → Option Nat → Bool × Option (Option Nat) := fun i owner =>
  match owner with
  | none => (true, some (some i))
  | some _ => (false, none)

example : (run true claim (init none 1 : State (Option Nat) Bool) [0, 1, 1, 0, 0, 0, 0, 0, 1, 1, 1, 1, 1]).db = some 0 := by decide

end Ovsdb.C17
