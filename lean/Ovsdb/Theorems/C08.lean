import Ovsdb.Proofs.Cond
import Ovsdb.Theorems.C05
/-
  C08 — "Selecting rows by condition is exact, with or without indexes".

  Selecting rows of a cache or database table with a list of conditions returns
  exactly the rows for which every condition is true under RFC 7047 section
  5.1, and the answer does not depend on which schema or client indexes exist.

  Model: Ovsdb.evalCond (ConditionFunction.Evaluate) and Ovsdb.rowsByCondition
  (RowCache.RowsByCondition with its index pre-filter), Model/Cond.lean.
  The conditional-API clauses (WhereAll/WhereAny/Where(model)) are covered by
  the correspondence run only (see DESIGN.md).
-/
namespace Ovsdb.C08
open Ovsdb AMap Ovsdb.C05

/-- RFC 7047 section 5.1, written as a relation independently of the
    executable `evalCond`: `a` is the column value, `b` the condition value.
    An optional value is a set of zero or one element. -/
def RfcHolds : CondFn → Value → Value → Prop
  | .eq, a, b => a ≃ᵥ b
  | .ne, a, b => ¬ a ≃ᵥ b
  | .includes, .set x, .set y => ∀ e, e ∈ y → e ∈ x
  | .includes, .map x, .map y => ∀ k v, get? y k = some v → get? x k = some v
  | .includes, .atom x, .atom y => x = y
  | .includes, .opt x, .opt y => ∀ e, y = some e → x = some e
  | .excludes, .set x, .set y => ∀ e, e ∈ y → e ∉ x
  | .excludes, .map x, .map y => ∀ k v, get? y k = some v → get? x k ≠ some v
  | .excludes, .atom x, .atom y => x ≠ y
  | .excludes, .opt x, .opt y => ∀ e, y = some e → x ≠ some e
  | .lt, .atom (.int x), .atom (.int y) => x < y
  | .le, .atom (.int x), .atom (.int y) => x ≤ y
  | .gt, .atom (.int x), .atom (.int y) => x > y
  | .ge, .atom (.int x), .atom (.int y) => x ≥ y
  | .lt, .atom (.real x), .atom (.real y) => x < y
  | .le, .atom (.real x), .atom (.real y) => x ≤ y
  | .gt, .atom (.real x), .atom (.real y) => x > y
  | .ge, .atom (.real x), .atom (.real y) => x ≥ y
  | _, _, _ => False

theorem all_get_iff (x y : AMap Atom Atom) :
    ((keys y).all (fun k => get? y k == get? x k) = true) ↔ ∀ k v, get? y k = some v → get? x k = some v := by
  simp only [List.all_eq_true, beq_iff_eq]
  constructor
  · intro h k v hv
    rw [← h k (mem_keys_of_get? hv)]; exact hv
  · intro h k hk
    have := get?_isSome_of_mem_keys hk
    cases hg : get? y k with
    | none => simp [hg] at this
    | some v => exact (h k v hg).symm

theorem kindTag_atom_le (x : Atom) : (Value.atom x).kindTag ≤ 3 := by
  cases x <;> simp [Value.kindTag]

theorem valueEqB_iff (a b : Value) (hk : a.kindTag = b.kindTag) : valueEqB a b = true ↔ a ≃ᵥ b := by
  cases a with
  | atom x =>
    have hx := kindTag_atom_le x
    cases b with
    | atom y => simp [valueEqB, Value.Equiv]
    | opt y => simp only [Value.kindTag] at hk hx; omega
    | set y => simp only [Value.kindTag] at hk hx; omega
    | map y => simp only [Value.kindTag] at hk hx; omega
  | opt x =>
    cases b with
    | atom y => have hy := kindTag_atom_le y; simp only [Value.kindTag] at hk hy; omega
    | opt y => simp [valueEqB, Value.Equiv]
    | set y => simp [Value.kindTag] at hk
    | map y => simp [Value.kindTag] at hk
  | set x =>
    cases b with
    | atom y => have hy := kindTag_atom_le y; simp only [Value.kindTag] at hk hy; omega
    | opt y => simp [Value.kindTag] at hk
    | set y =>
      simp only [valueEqB, Value.Equiv, Bool.and_eq_true, List.all_eq_true, decide_eq_true_eq]
      constructor
      · intro h e; exact ⟨fun he => h.1 e he, fun he => h.2 e he⟩
      · intro h; exact ⟨fun e he => (h e).mp he, fun e he => (h e).mpr he⟩
    | map y => simp [Value.kindTag] at hk
  | map x =>
    cases b with
    | atom y => have hy := kindTag_atom_le y; simp only [Value.kindTag] at hk hy; omega
    | opt y => simp [Value.kindTag] at hk
    | set y => simp [Value.kindTag] at hk
    | map y =>
      simp only [valueEqB, Value.Equiv, Bool.and_eq_true, List.all_eq_true, beq_iff_eq]
      constructor
      · intro h k
        cases hx : get? x k with
        | some v => rw [← h.1 k (mem_keys_of_get? hx), hx]
        | none =>
          cases hy : get? y k with
          | none => rfl
          | some w => have := h.2 k (mem_keys_of_get? hy); rw [hx, hy] at this; exact this
      · intro h; exact ⟨fun k _ => h k, fun k _ => h k⟩

/-- **C08 (1)**: whenever `Evaluate` answers, its answer is the RFC's. -/
theorem evaluate_refines_rfc (f : CondFn) (a b : Value) (v : Bool) (h : evalCond f a b = .ok v) :
    v = true ↔ RfcHolds f a b := by
  unfold evalCond at h
  split at h
  · cases h
  · rename_i hk
    simp only [ne_eq, Decidable.not_not] at hk
    cases f
    case eq => simp only [Except.ok.injEq] at h; subst h; simpa [RfcHolds] using valueEqB_iff a b hk
    case ne =>
      simp only [Except.ok.injEq] at h; subst h
      simp only [RfcHolds, Bool.not_eq_true', ← valueEqB_iff a b hk]
      cases valueEqB a b <;> simp
    case includes =>
      cases a <;> cases b <;> simp only [Except.ok.injEq] at h <;> try cases h
      · simp [RfcHolds]
      · rename_i x y
        simp only [RfcHolds]
        cases y <;> simp
      · simp [RfcHolds, List.all_eq_true]
      · rename_i x y
        simp only [RfcHolds]
        exact all_get_iff x y
    case excludes =>
      cases a <;> cases b <;> simp only [Except.ok.injEq] at h <;> try cases h
      · simp [RfcHolds]
      · rename_i x y
        simp only [RfcHolds]
        cases y <;> cases x <;> simp
      · simp [RfcHolds, List.all_eq_true]
      · rename_i x y
        simp only [RfcHolds, List.all_eq_true, bne_iff_ne, ne_eq]
        constructor
        · intro hh k w hw hx
          exact hh k (mem_keys_of_get? hw) (by rw [hw, hx])
        · intro hh k hkm e
          have := get?_isSome_of_mem_keys hkm
          cases hg : get? y k with
          | none => simp [hg] at this
          | some w => exact hh k w hg (by rw [← e, hg])
    all_goals
      cases a <;> cases b <;> simp only at h <;> try cases h
      rename_i x y
      cases x <;> cases y <;> simp only [cmpAtoms] at h <;> try cases h
      all_goals simp [RfcHolds]

/-- **C08 (2)**: with exact indexes, `RowsByCondition` returns exactly the rows
    on which every condition evaluates to true — whatever indexes exist. -/
theorem rowsByCondition_exact (c : Cache) (hex : IndexExact c)
    (hwf : ∀ ix ∈ c.ixs, ∀ u row, get? c.rows u = some row → RowSpecOK row ix.spec)
    (z : Row) (hz : ZeroOK z) (conds : List Cond) (us : List UUID)
    (h : rowsByCondition c z conds = .ok us) (u : UUID) :
    u ∈ us ↔ Sat c conds u := by
  unfold rowsByCondition at h
  split at h
  · rename_i hemp
    cases h
    have : conds = [] := List.isEmpty_iff.mp hemp
    subst this
    rw [mem_allRows]
    constructor
    · intro hs
      cases hg : get? c.rows u with
      | none => simp [hg] at hs
      | some row => exact ⟨row, hg, by simp⟩
    · rintro ⟨row, hr, _⟩; simp [hr]
  · rename_i hne
    split at h
    · cases h
    · rename_i m hm
      cases h
      have hne' : conds ≠ [] := fun e => hne (by simp [e])
      have hpre := prefilter_sound c hex hwf z hz conds
      have := refine_spec c conds [] (prefilter c z conds) m
        ⟨fun _ => rfl, fun _ _ _ _ _ h => by simp at h, fun l hl x hx => hpre l hl x (by simpa using hx)⟩
        (by simpa using hne') hm u
      simpa using this

/-- **C08 (3)**: the answer does not depend on the index configuration: two
    caches holding the same rows (each with exact indexes of its own) select
    the same rows. -/
theorem index_independent (c₁ c₂ : Cache) (hrows : ∀ u, get? c₁.rows u = get? c₂.rows u)
    (hex₁ : IndexExact c₁) (hex₂ : IndexExact c₂)
    (hwf₁ : ∀ ix ∈ c₁.ixs, ∀ u row, get? c₁.rows u = some row → RowSpecOK row ix.spec)
    (hwf₂ : ∀ ix ∈ c₂.ixs, ∀ u row, get? c₂.rows u = some row → RowSpecOK row ix.spec)
    (z : Row) (hz : ZeroOK z) (conds : List Cond) (us₁ us₂ : List UUID)
    (h₁ : rowsByCondition c₁ z conds = .ok us₁) (h₂ : rowsByCondition c₂ z conds = .ok us₂) (u : UUID) :
    u ∈ us₁ ↔ u ∈ us₂ := by
  rw [rowsByCondition_exact c₁ hex₁ hwf₁ z hz conds us₁ h₁, rowsByCondition_exact c₂ hex₂ hwf₂ z hz conds us₂ h₂]
  unfold Sat
  rw [hrows u]

/-- **C08 (4)**: the index pre-selection never drops a satisfying row. -/
theorem prefilter_keeps_matches (c : Cache) (hex : IndexExact c)
    (hwf : ∀ ix ∈ c.ixs, ∀ u row, get? c.rows u = some row → RowSpecOK row ix.spec)
    (z : Row) (hz : ZeroOK z) (conds : List Cond) (l : List UUID) (h : prefilter c z conds = some l) (u : UUID)
    (hs : Sat c conds u) : u ∈ l :=
  prefilter_sound c hex hwf z hz conds l h u hs

/-! The pinned tree built the index probe by overwriting the column for every
    condition (defect D32).  With that rule the pre-filter is unsound: two
    `includes` conditions on different keys of one map column, served by a
    client index over both keys, lose the matching row. -/
def probeRowPinned (zeroRow : Row) (cs : List IndexableCond) : Row :=
  cs.foldl (fun r c => insert r c.col c.val) zeroRow

theorem pinned_probe_counterexample :
    let spec : Spec := ⟨"m|k1,m|k2", [⟨"m", some (.str "k1"), .str ""⟩, ⟨"m", some (.str "k2"), .str ""⟩], false⟩
    let row : Row := [("m", .map [(.str "k1", .str "v2"), (.str "k2", .str "v1")])]
    let cs : List IndexableCond :=
      [⟨"m", [.str "k1"], .map [(.str "k1", .str "v2")]⟩, ⟨"m", [.str "k2"], .map [(.str "k2", .str "v1")]⟩]
    idxVal spec (probeRowPinned [("m", .map [])] cs) ≠ idxVal spec row ∧
    idxVal spec (probeRow [("m", .map [])] cs) = idxVal spec row := by
  decide

/-! Non-vacuity: a concrete cache with a client index over two map keys meets
    the hypotheses, and the lookup evaluates to the matching row. -/
section
def exSpec : Spec := ⟨"m|k1,m|k2", [⟨"m", some (.str "k1"), .str ""⟩, ⟨"m", some (.str "k2"), .str ""⟩], false⟩
def exRow : Row := [("m", .map [(.str "k1", .str "v2"), (.str "k2", .str "v1")]), ("n", .atom (.int 1))]
def exCache : Cache := ⟨[("u5", exRow)], [⟨exSpec, [([some (.str "v2"), some (.str "v1")], ["u5"])]⟩]⟩
def exConds : List Cond :=
  [⟨"m", .includes, .map [(.str "k1", .str "v2")]⟩, ⟨"m", .includes, .map [(.str "k2", .str "v1")]⟩]

example : rowsByCondition exCache [("m", .map []), ("n", .atom (.int 0))] exConds = .ok ["u5"] := by rfl
example : ZeroOK [("m", .map []), ("n", .atom (.int 0))] := by
  intro col m h
  simp only [get?_cons, get?_nil] at h
  split at h
  · cases h; rfl
  · split at h <;> cases h
end

/-- two lists with the same members are the same set to every condition function: an element written twice,
    or the elements written in another order, change no answer (argument side) -/
theorem same_members_same_answer_arg (f : CondFn) (x y y' : List Atom) (h : ∀ e, e ∈ y ↔ e ∈ y') :
    evalCond f (.set x) (.set y') = evalCond f (.set x) (.set y) := by
  have hall : ∀ p : Atom → Bool, y'.all p = y.all p := by
    intro p
    rw [Bool.eq_iff_iff]
    simp only [List.all_eq_true]
    exact ⟨fun hh e he => hh e ((h e).mp he), fun hh e he => hh e ((h e).mpr he)⟩
  have hmem : ∀ e, decide (e ∈ y') = decide (e ∈ y) := by
    intro e; rw [Bool.eq_iff_iff]; simp [h e]
  unfold evalCond
  simp only [Value.kindTag, ne_eq, not_true_eq_false, ↓reduceIte]
  cases f <;> simp only [valueEqB, hall, hmem]

/-- and on the column's side -/
theorem same_members_same_answer_col (f : CondFn) (x x' y : List Atom) (h : ∀ e, e ∈ x ↔ e ∈ x') :
    evalCond f (.set x') (.set y) = evalCond f (.set x) (.set y) := by
  have hall : ∀ p : Atom → Bool, x'.all p = x.all p := by
    intro p
    rw [Bool.eq_iff_iff]
    simp only [List.all_eq_true]
    exact ⟨fun hh e he => hh e ((h e).mp he), fun hh e he => hh e ((h e).mpr he)⟩
  have hmem : ∀ e, decide (e ∈ x') = decide (e ∈ x) := by
    intro e; rw [Bool.eq_iff_iff]; simp [h e]
  have hnmem : ∀ e, decide (¬ e ∈ x') = decide (¬ e ∈ x) := by
    intro e; rw [Bool.eq_iff_iff]; simp [h e]
  unfold evalCond
  simp only [Value.kindTag, ne_eq, not_true_eq_false, ↓reduceIte]
  cases f <;> simp only [valueEqB, hall, hmem, hnmem]

theorem repeated_element_same_answer (f : CondFn) (x y : List Atom) (e : Atom) (he : e ∈ y) :
    evalCond f (.set x) (.set (y ++ [e])) = evalCond f (.set x) (.set y) :=
  same_members_same_answer_arg f x y (y ++ [e]) (by intro a; simp; intro h; subst h; exact he)

theorem element_order_irrelevant (f : CondFn) (x y y' : List Atom) (h : y.Perm y') :
    evalCond f (.set x) (.set y') = evalCond f (.set x) (.set y) :=
  same_members_same_answer_arg f x y y' (fun _ => h.mem_iff)

example : (evalCond .eq (.set [.str "a"]) (.set [.str "a", .str "a"])).toOption = some true := by decide
example : (evalCond .includes (.set [.str "a", .str "b"]) (.set [.str "b", .str "a", .str "b"])).toOption = some true := by decide

end Ovsdb.C08
