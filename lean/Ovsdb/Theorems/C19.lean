import Ovsdb.Model.Wire
import Ovsdb.Theorems.C02
/-
  C19 — "No input can crash the library".

  Decoding arbitrary bytes as any OVSDB wire value returns a value or an error
  and never panics; the built-in database answers any syntactically valid
  transact request with results or error results and keeps serving.

  Part 1: the model of the decoders (Model/Wire.lean) writes every slice index
  and type assertion of the Go code with primitives that panic when they would
  in Go.  The theorems below show that, with the checks the (repaired) code
  performs, no JSON tree whatsoever reaches a panicking primitive.  Text that
  is not JSON at all is rejected by encoding/json before these functions run.

  Part 2: the model of the transaction engine is a total function returning
  results for every operation list (its type has no panic outcome: every
  dereference of an optional member and every division is guarded in the
  repaired code, which the correspondence run checks on structurally corrupted
  requests); a request with errors leaves the database as it was (C02), so the
  server keeps serving from the same state.
-/
namespace Ovsdb.C19
open Ovsdb Ovsdb.Wire

def NoPanic {α} (o : Outcome α) : Prop := o ≠ .panic

theorem noPanic_ok {α} (v : α) : NoPanic (Outcome.ok v) := by simp [NoPanic]
theorem noPanic_err {α} (e : String) : NoPanic (Outcome.err e : Outcome α) := by simp [NoPanic]

theorem noPanic_bind {α β} (x : Outcome α) (f : α → Outcome β) (hx : NoPanic x) (hf : ∀ v, x = .ok v → NoPanic (f v)) :
    NoPanic (x >>= f) := by
  cases x with
  | ok v => exact hf v rfl
  | err e => exact noPanic_err e
  | panic => exact absurd rfl hx

theorem idx_noPanic {α} (l : List α) (i : Nat) (h : i < l.length) : NoPanic (idx l i) := by
  unfold idx
  rw [List.getElem?_eq_getElem h]
  exact noPanic_ok _

theorem assertStr_noPanic (j : J) (h : isStr j = true) : NoPanic (assertStr j) := by
  cases j <;> simp_all [isStr, assertStr, NoPanic]

theorem assertArr_noPanic (j : J) (h : isArr j = true) : NoPanic (assertArr j) := by
  cases j <;> simp_all [isArr, assertArr, NoPanic]

theorem mapO_noPanic {α β} (f : α → Outcome β) (l : List α) (h : ∀ a ∈ l, NoPanic (f a)) : NoPanic (mapO f l) := by
  induction l with
  | nil => exact noPanic_ok _
  | cons a t ih =>
    unfold mapO
    have ha := h a (by simp)
    have ht := ih (fun x hx => h x (by simp [hx]))
    cases hfa : f a with
    | ok b =>
      simp only
      cases hm : mapO f t with
      | ok bs => exact noPanic_ok _
      | err e => exact noPanic_err e
      | panic => exact absurd hm ht
    | err e => exact noPanic_err e
    | panic => exact absurd hfa ha

theorem unmarshalStrings_noPanic (j : J) : NoPanic (unmarshalStrings j) := by
  unfold unmarshalStrings
  split
  · exact noPanic_ok _
  · split
    · exact noPanic_ok _
    · exact noPanic_err _
  · exact noPanic_err _

theorem unmarshalStrings_ok_length (j : J) (l : List String) (h : unmarshalStrings j = .ok l) : True := trivial

/-- **C19 (1)**: decoding a UUID never panics -/
theorem decodeUUID_total (j : J) : NoPanic (decodeUUID j) := by
  unfold decodeUUID
  apply noPanic_bind _ _ (unmarshalStrings_noPanic j)
  intro l _
  split
  · exact noPanic_err _
  · rename_i hlen
    have h2 : l.length = 2 := by simpa using hlen
    apply noPanic_bind _ _ (idx_noPanic l 0 (by omega))
    intro tag _
    split
    · exact noPanic_err _
    · exact idx_noPanic l 1 (by omega)

theorem decodeMapPart_noPanic (dec : J → Outcome GoVal) (h : ∀ j, NoPanic (dec j)) (k0 : J) :
    NoPanic (decodeMapPart dec k0) := by
  unfold decodeMapPart
  split
  · split
    · exact noPanic_err _
    · exact h _
  · exact noPanic_ok _

theorem decodeMapPair_noPanic (dec : J → Outcome GoVal) (h : ∀ j, NoPanic (dec j)) (p : J) :
    NoPanic (decodeMapPair dec p) := by
  unfold decodeMapPair
  split
  · exact noPanic_err _
  · rename_i hparr
    apply noPanic_bind _ _ (assertArr_noPanic p (by simpa using hparr))
    intro f _
    split
    · exact noPanic_err _
    · rename_i hf2
      have hf : f.length = 2 := by simpa using hf2
      apply noPanic_bind _ _ (idx_noPanic f 0 (by omega))
      intro k0 _
      apply noPanic_bind _ _ (idx_noPanic f 1 (by omega))
      intro v0 _
      apply noPanic_bind _ _ (decodeMapPart_noPanic _ h k0)
      intro k _
      split
      · exact noPanic_err _
      · apply noPanic_bind _ _ (decodeMapPart_noPanic _ h v0)
        intro v _; exact noPanic_ok _

theorem decodeMapBody_noPanic (dec : J → Outcome GoVal) (h : ∀ j, NoPanic (dec j)) (sl : List J) :
    NoPanic (decodeMapBody dec sl) := by
  unfold decodeMapBody
  split
  · exact noPanic_ok _
  · rename_i hl1
    apply noPanic_bind _ _ (idx_noPanic sl 1 (by omega))
    intro second _
    split
    · exact noPanic_err _
    · rename_i harr
      have : isArr second = true := by
        cases hs : isArr second <;> simp_all
      apply noPanic_bind _ _ (assertArr_noPanic second this)
      intro inner _
      exact mapO_noPanic _ _ (fun p _ => decodeMapPair_noPanic dec h p)

theorem decodeSetBody_noPanic (dec : J → Outcome GoVal) (h : ∀ j, NoPanic (dec j)) (oSet : List J) :
    NoPanic (decodeSetBody dec oSet) := by
  unfold decodeSetBody
  split
  · rename_i h2
    have hl : oSet.length = 2 := by
      simp only [Bool.and_eq_true, beq_iff_eq] at h2; exact h2.1
    apply noPanic_bind _ _ (idx_noPanic oSet 1 (by omega))
    intro second _
    split
    · exact noPanic_err _
    · rename_i hs
      apply noPanic_bind _ _ (assertStr_noPanic second (by simpa using hs))
      intro u _; exact noPanic_ok _
  · split
    · exact noPanic_err _
    · rename_i hl2
      have hl : oSet.length = 2 := by
        cases hq : decide (oSet.length = 2) <;> simp_all
      apply noPanic_bind _ _ (idx_noPanic oSet 1 (by omega))
      intro second _
      split
      · exact noPanic_err _
      · rename_i harr
        apply noPanic_bind _ _ (assertArr_noPanic second (by simpa using harr))
        intro inner _
        exact mapO_noPanic _ _ (fun a _ => h a)

/-- **C19 (2)**: decoding any JSON tree as an OVSDB value (atom, uuid, set, map,
    nested to any depth) never panics -/
theorem decodeVal_total : ∀ (fuel : Nat) (j : J), NoPanic (decodeVal fuel j) := by
  intro fuel
  induction fuel with
  | zero => intro j; exact noPanic_err _
  | succ n ih =>
    intro j
    unfold decodeVal
    split
    · rename_i sl
      split
      · exact noPanic_ok _
      · rename_i hne
        have hlen : 0 < sl.length := by
          cases sl with
          | nil => simp at hne
          | cons _ _ => simp
        apply noPanic_bind _ _ (idx_noPanic sl 0 hlen)
        intro tag _
        split
        · apply noPanic_bind _ _ (decodeUUID_total _)
          intro u _; exact noPanic_ok _
        · split
          · apply noPanic_bind _ _ (decodeSetBody_noPanic _ ih sl)
            intro e _; exact noPanic_ok _
          · split
            · apply noPanic_bind _ _ (decodeMapBody_noPanic _ ih sl)
              intro e _; exact noPanic_ok _
            · exact noPanic_ok _
    · exact noPanic_ok _

/-- **C19 (3)** rows -/
theorem decodeRow_total (fuel : Nat) (j : J) : NoPanic (decodeRow fuel j) := by
  unfold decodeRow
  split
  · apply mapO_noPanic
    intro p _
    apply noPanic_bind _ _ (decodeVal_total fuel p.2)
    intro v _; exact noPanic_ok _
  · exact noPanic_ok _
  · exact noPanic_err _

theorem unmarshalArray_noPanic (j : J) : NoPanic (unmarshalArray j) := by
  unfold unmarshalArray
  split <;> first | exact noPanic_ok _ | exact noPanic_err _

/-- **C19 (4)** conditions: a column or function that is not a string, a wrong
    number of elements, an unknown function: all are errors -/
theorem decodeCondition_total (fuel : Nat) (j : J) : NoPanic (decodeCondition fuel j) := by
  unfold decodeCondition
  apply noPanic_bind _ _ (unmarshalArray_noPanic j)
  intro v _
  split
  · exact noPanic_err _
  · rename_i h3
    have hl : v.length = 3 := by simpa using h3
    apply noPanic_bind _ _ (idx_noPanic v 0 (by omega))
    intro c _
    split
    · exact noPanic_err _
    · rename_i hc
      apply noPanic_bind _ _ (idx_noPanic v 1 (by omega))
      intro f _
      split
      · exact noPanic_err _
      · rename_i hf
        apply noPanic_bind _ _ (assertStr_noPanic c (by simpa using hc))
        intro col _
        apply noPanic_bind _ _ (assertStr_noPanic f (by simpa using hf))
        intro fn _
        split
        · exact noPanic_err _
        · apply noPanic_bind _ _ (idx_noPanic v 2 (by omega))
          intro x _
          apply noPanic_bind _ _ (decodeVal_total fuel x)
          intro val _; exact noPanic_ok _

/-- **C19 (5)** mutations -/
theorem decodeMutation_total (fuel : Nat) (j : J) : NoPanic (decodeMutation fuel j) := by
  unfold decodeMutation
  apply noPanic_bind _ _ (unmarshalArray_noPanic j)
  intro v _
  split
  · exact noPanic_err _
  · rename_i h3
    have hl : v.length = 3 := by simpa using h3
    apply noPanic_bind _ _ (idx_noPanic v 0 (by omega))
    intro c _
    split
    · exact noPanic_err _
    · rename_i hc
      apply noPanic_bind _ _ (idx_noPanic v 1 (by omega))
      intro f _
      split
      · exact noPanic_err _
      · rename_i hf
        apply noPanic_bind _ _ (assertStr_noPanic c (by simpa using hc))
        intro col _
        apply noPanic_bind _ _ (assertStr_noPanic f (by simpa using hf))
        intro fn _
        split
        · exact noPanic_err _
        · apply noPanic_bind _ _ (idx_noPanic v 2 (by omega))
          intro x _
          apply noPanic_bind _ _ (decodeVal_total fuel x)
          intro val _; exact noPanic_ok _

/-- **C19 (6)** sets and maps decoded directly (`OvsSet.UnmarshalJSON`, `OvsMap.UnmarshalJSON`) -/
theorem decodeSet_total (fuel : Nat) (j : J) : NoPanic (decodeSet fuel j) := by
  unfold decodeSet
  split
  · exact decodeSetBody_noPanic _ (decodeVal_total fuel) _
  · apply noPanic_bind _ _ (decodeVal_total fuel j)
    intro v _; exact noPanic_ok _

theorem decodeMap_total (fuel : Nat) (j : J) : NoPanic (decodeMap fuel j) := by
  unfold decodeMap
  split
  · exact decodeMapBody_noPanic _ (decodeVal_total fuel) _
  · exact noPanic_ok _

/-- **C19 (7)**: the transaction engine answers every operation list: `transact`
    is a total function whose results always have the reply shape of C02, and a
    request with an error leaves the database unchanged, so the next request is
    served from the same state. -/
theorem transact_always_answers (σ : DbModel) (db : Database) (ops : List Operation) :
    ((transact σ db ops).results.length = ops.length ∨ (transact σ db ops).results.length ≤ ops.length + 1) ∧
    (C02.hasError (transact σ db ops).results = true → C02.dbStep σ db ops = db) := by
  refine ⟨?_, fun h => (C02.failed_txn_db_unchanged σ db ops h).1⟩
  rcases C02.reply_shape σ db ops with ⟨h, _⟩ | ⟨pre, last, hrs, hl, _, _, _⟩
  · exact Or.inl h
  · right
    rw [hrs]
    simp only [List.length_append, List.length_singleton]
    omega

/-! The unrepaired decoders are NOT total: the same primitives, without the
    checks, panic on concrete inputs (the witnesses of defect D24). -/
def decodeUUIDPinned (j : J) : Outcome String := do
  let l ← unmarshalStrings j
  idx l 1

theorem pinned_uuid_panics : decodeUUIDPinned (.arr [.str "uuid"]) = .panic ∧ decodeUUIDPinned .null = .panic := by
  constructor <;> rfl

def decodeConditionPinned (j : J) : Outcome String := do
  let v ← unmarshalArray j
  if v.length ≠ 3 then .err "expected a 3 element json array"
  else assertStr (← idx v 0)

theorem pinned_condition_panics : decodeConditionPinned (.arr [.num 1, .str "==", .num 2]) = .panic := by rfl

/-! Non-vacuity: values are decoded, not merely rejected. -/
example : (match decodeVal 8 (.arr [.str "set", .arr [.arr [.str "uuid", .str "x"], .num 2]]) with
    | .ok (.set [.uuid "x", .raw (.num _)]) => true | _ => false) = true := by rfl

end Ovsdb.C19
