import Ovsdb.Model.Txn
/-
  C02 — "Transactions are all-or-nothing".

  If any operation of a transaction fails, or the transaction is rejected at
  commit time, the database afterwards holds exactly the rows it held before,
  no monitor is notified of anything, and a later transaction behaves as if the
  failed one had never been submitted.  The reply contains one result per
  operation up to and including the failing one, or all operation results plus
  one extra error element for a commit-time rejection.

  Model: Ovsdb.transact (Model/Txn.lean; Transaction.Transact) and `dbStep`
  below (OvsdbServer.Transact: commit — and notify, see C07 — only if no result
  carries an error).  In the model a transaction has no access to the database
  except as an immutable input; that the implementation has no hidden side
  effect either (reference index, caches) is checked by the correspondence run.
-/
namespace Ovsdb.C02
open Ovsdb AMap

def hasError (rs : List OpResult) : Bool := rs.any (·.error.isSome)

/-- OvsdbServer.Transact: commit only if no result carries an error -/
def dbStep (σ : DbModel) (db : Database) (ops : List Operation) : Database :=
  let r := transact σ db ops
  if r.committed then
    match commit db r.updates with
    | .ok db' => db'
    | .error _ => db
  else db

/-- what monitors are told about: the update of a committed transaction -/
def notified (σ : DbModel) (db : Database) (ops : List Operation) : Updates :=
  let r := transact σ db ops
  if r.committed then r.updates else []

theorem rowOp_ok_noError (σ : DbModel) (db : Database) (tx : Txn) (op : Operation) (rop : RowOperation) (d : Bool)
    (r : OpResult) (tx' : Txn) (step : List ((String × UUID) × ModelUpdate))
    (h : rowOp σ db tx op rop d = .ok (r, tx', step)) : r.error = none := by
  unfold rowOp at h
  split at h
  · cases h
  · split at h
    · cases h
    · split at h
      · cases h
      · cases h; rfl

theorem waitOp_ok_noError (σ : DbModel) (db : Database) (tx : Txn) (op : Operation) (r : OpResult) (tx' : Txn)
    (h : waitOp σ db tx op = .ok (r, tx')) : r.error = none := by
  unfold waitOp at h
  split at h
  · cases h
  · split at h
    · cases h
    · split at h
      · cases h
      · split at h
        · cases h
        · split at h
          · cases h; rfl
          · cases h

theorem execOp_ok_noError (σ : DbModel) (db : Database) (tx : Txn) (op : Operation) (r : OpResult) (tx' : Txn)
    (step : List ((String × UUID) × ModelUpdate)) (h : execOp σ db tx op = .ok (r, tx', step)) : r.error = none := by
  unfold execOp at h
  split at h
  · split at h
    · cases h
    · split at h
      · cases h
      · split at h
        · split at h
          · cases h
          · cases h; rfl
        · cases h
  · split at h
    · split at h
      · cases h
      · split at h
        · cases h
        · split at h
          · cases h
          · cases h; rfl
    · split at h
      · exact rowOp_ok_noError _ _ _ _ _ _ _ _ _ h
      · split at h
        · exact rowOp_ok_noError _ _ _ _ _ _ _ _ _ h
        · split at h
          · exact rowOp_ok_noError _ _ _ _ _ _ _ _ _ h
          · split at h
            · split at h
              · cases h
              · rename_i r0 tx1 hw
                cases h
                exact waitOp_ok_noError _ _ _ _ _ _ hw
            · cases h

/-- shape of the results of the per-operation loop -/
theorem runOps_shape (σ : DbModel) (db : Database) (ops : List Operation) :
    ∀ (tx : Txn) (rs : List OpResult) (tx' : Txn) (ok : Bool), runOps σ db tx ops = (rs, tx', ok) →
      (ok = true → rs.length = ops.length ∧ ∀ r ∈ rs, r.error = none) ∧
      (ok = false → ∃ pre last, rs = pre ++ [last] ∧ rs.length ≤ ops.length ∧
        (∀ r ∈ pre, r.error = none) ∧ last.error.isSome) := by
  induction ops with
  | nil =>
    intro tx rs tx' ok h
    simp only [runOps] at h
    cases h
    simp
  | cons op rest ih =>
    intro tx rs tx' ok h
    simp only [runOps] at h
    split at h
    · cases h
      refine ⟨by simp, fun _ => ⟨[], _, rfl, by simp, by simp, by simp⟩⟩
    · rename_i r tx1 step hexec
      have hr := execOp_ok_noError σ db tx op r tx1 step hexec
      split at h
      · cases h
        refine ⟨by simp, fun _ => ⟨[], _, rfl, by simp, by simp, by simp⟩⟩
      · split at h
        · cases h
          refine ⟨by simp, fun _ => ⟨[], _, rfl, by simp, by simp, by simp⟩⟩
        · rename_i tx2 _
          generalize hrec : runOps σ db tx2 rest = res at h
          obtain ⟨rs0, txf, ok0⟩ := res
          simp only at h
          cases h
          obtain ⟨h1, h2⟩ := ih tx2 rs0 tx' ok hrec
          constructor
          · intro hok
            obtain ⟨hl, hall⟩ := h1 hok
            refine ⟨by simp [hl], ?_⟩
            intro x hx
            rcases List.mem_cons.mp hx with e | e
            · subst e; exact hr
            · exact hall x e
          · intro hok
            obtain ⟨pre, last, hrs, hlen, hpre, hlast⟩ := h2 hok
            refine ⟨r :: pre, last, by simp [hrs], by simp only [List.length_cons]; omega, ?_, hlast⟩
            intro x hx
            rcases List.mem_cons.mp hx with e | e
            · subst e; exact hr
            · exact hpre x e

/-- the commit phase either accepts with the given results or appends one error element -/
theorem commitPhase_spec (σ : DbModel) (db : Database) (results : List OpResult) (tx : Txn) :
    (∃ upd, commitPhase σ db results tx = ⟨results, upd, true⟩) ∨
    (∃ e : OpResult, e.error.isSome ∧ commitPhase σ db results tx = ⟨results ++ [e], [], false⟩) := by
  unfold commitPhase
  simp only
  split
  · exact Or.inr ⟨_, by simp, rfl⟩
  · split
    · exact Or.inr ⟨_, by simp, rfl⟩
    · split
      · exact Or.inr ⟨_, by simp, rfl⟩
      · split
        · exact Or.inr ⟨_, by simp, rfl⟩
        · split
          · exact Or.inr ⟨_, by simp, rfl⟩
          · exact Or.inl ⟨_, rfl⟩

theorem hasError_append_err (rs : List OpResult) (e : OpResult) (h : e.error.isSome) : hasError (rs ++ [e]) = true := by
  simp [hasError, h]

theorem hasError_false_of_all (rs : List OpResult) (h : ∀ r ∈ rs, r.error = none) : hasError rs = false := by
  unfold hasError
  rw [List.any_eq_false]
  intro x hx
  simp [h x hx]

/-- the four ways `transact` can go -/
theorem transact_cases (σ : DbModel) (db : Database) (ops : List Operation) :
    (∃ e, transact σ db ops = ⟨[{ error := some e }], [], false⟩) ∨
    (∃ ops' results tx, expandNamedUUIDs σ ops = .ok ops' ∧
      runOps σ db { cache := txnCacheEmpty σ } ops' = (results, tx, false) ∧ transact σ db ops = ⟨results, [], false⟩) ∨
    (∃ ops' results tx, expandNamedUUIDs σ ops = .ok ops' ∧
      runOps σ db { cache := txnCacheEmpty σ } ops' = (results, tx, true) ∧ transact σ db ops = ⟨results, [], true⟩) ∨
    (∃ ops' results tx, expandNamedUUIDs σ ops = .ok ops' ∧
      runOps σ db { cache := txnCacheEmpty σ } ops' = (results, tx, true) ∧
      transact σ db ops = commitPhase σ db results tx) := by
  unfold transact
  split
  · exact Or.inl ⟨_, rfl⟩
  · rename_i ops' hexp
    split
    · rename_i results tx hrun
      exact Or.inr (Or.inl ⟨ops', results, tx, hexp, hrun, rfl⟩)
    · rename_i results tx hrun
      split
      · exact Or.inr (Or.inr (Or.inl ⟨ops', results, tx, hexp, hrun, rfl⟩))
      · exact Or.inr (Or.inr (Or.inr ⟨ops', results, tx, hexp, hrun, rfl⟩))

/-- **C02 (1)**: a transaction any of whose results is an error produces no
    update and is not committed. -/
theorem failed_txn_is_noop (σ : DbModel) (db : Database) (ops : List Operation)
    (h : hasError (transact σ db ops).results = true) :
    (transact σ db ops).committed = false ∧ (transact σ db ops).updates = [] := by
  rcases transact_cases σ db ops with ⟨e, ht⟩ | ⟨ops', results, tx, _, hrun, ht⟩ | ⟨ops', results, tx, _, hrun, ht⟩ |
      ⟨ops', results, tx, _, hrun, ht⟩
  · rw [ht]; simp
  · rw [ht]; simp
  · rw [ht] at h
    have hall := ((runOps_shape σ db ops' _ results tx true hrun).1 rfl).2
    simp [hasError_false_of_all results hall] at h
  · rw [ht] at h ⊢
    have hall := ((runOps_shape σ db ops' _ results tx true hrun).1 rfl).2
    rcases commitPhase_spec σ db results tx with ⟨upd, hc⟩ | ⟨e, he', hc⟩
    · rw [hc] at h; simp [hasError_false_of_all results hall] at h
    · rw [hc]; simp

/-- **C02 (2)**: the database after a failed transaction is the database before. -/
theorem failed_txn_db_unchanged (σ : DbModel) (db : Database) (ops : List Operation)
    (h : hasError (transact σ db ops).results = true) :
    dbStep σ db ops = db ∧ notified σ db ops = [] := by
  have := failed_txn_is_noop σ db ops h
  simp [dbStep, notified, this.1]

/-- a history of transactions applied in sequence -/
def runHistory (σ : DbModel) (db : Database) (h : List (List Operation)) : Database :=
  h.foldl (fun d ops => dbStep σ d ops) db

/-- **C02 (3)**: a later transaction behaves as if the failed one had never
    been submitted: dropping the failed transaction from any history changes
    neither the database nor the results of anything that follows. -/
theorem failed_txn_invisible_later (σ : DbModel) (db : Database) (h₁ h₂ : List (List Operation))
    (bad : List Operation)
    (hbad : hasError (transact σ (runHistory σ db h₁) bad).results = true) :
    runHistory σ db (h₁ ++ [bad] ++ h₂) = runHistory σ db (h₁ ++ h₂) ∧
    ∀ ops, transact σ (runHistory σ db (h₁ ++ [bad])) ops = transact σ (runHistory σ db h₁) ops := by
  have hstep : runHistory σ db (h₁ ++ [bad]) = runHistory σ db h₁ := by
    simp only [runHistory, List.foldl_append, List.foldl_cons, List.foldl_nil]
    exact (failed_txn_db_unchanged σ _ bad hbad).1
  constructor
  · have : runHistory σ db (h₁ ++ [bad] ++ h₂) = h₂.foldl (fun d ops => dbStep σ d ops) (runHistory σ db (h₁ ++ [bad])) := by
      simp [runHistory, List.foldl_append]
    rw [this, hstep]
    simp [runHistory, List.foldl_append]
  · intro ops; rw [hstep]

theorem expandPass1_length (l : List Operation) :
    ∀ (acc res : List Operation × AMap String String), l.foldlM expandPass1Step acc = .ok res →
      res.1.length = acc.1.length + l.length := by
  induction l with
  | nil => intro acc res h; simp only [List.foldlM_nil, pure, Except.pure] at h; cases h; simp
  | cons op t ih =>
    intro acc res h
    simp only [List.foldlM_cons, bind, Except.bind] at h
    split at h
    · cases h
    · rename_i acc1 hstep
      have := ih acc1 res h
      have hl : acc1.1.length = acc.1.length + 1 := by
        unfold expandPass1Step at hstep
        split at hstep
        · cases hstep; simp
        · split at hstep
          · cases hstep
          · split at hstep
            · split at hstep
              · split at hstep
                · cases hstep
                · cases hstep; simp
              · cases hstep; simp
            · cases hstep; simp
      simp only [List.length_cons]; omega

theorem mapM_except_length {α β : Type} (f : α → Except String β) (l : List α) (r : List β)
    (h : l.mapM f = .ok r) : r.length = l.length := by
  induction l generalizing r with
  | nil => simp only [List.mapM_nil, pure, Except.pure] at h; cases h; rfl
  | cons a t ih =>
    simp only [List.mapM_cons, bind, Except.bind] at h
    split at h
    · cases h
    · split at h
      · cases h
      · rename_i b _ bs hbs
        simp only [pure, Except.pure] at h
        cases h
        simp [ih bs hbs]

theorem expand_length (σ : DbModel) (ops ops' : List Operation) (h : expandNamedUUIDs σ ops = .ok ops') :
    ops'.length = ops.length := by
  unfold expandNamedUUIDs at h
  split at h
  · cases h
  · rename_i ops1 m hfold
    have h1 := expandPass1_length ops ([], []) (ops1, m) hfold
    have h2 := mapM_except_length _ _ _ h
    simp at h1
    omega

/-- **C02 (4)**: the reply shape.  `results` holds one result per executed
    operation (the Go slice pads with nil up to the number of operations):
    either every operation has an error-free result, or results stop with the
    first failing operation, or all operations succeeded and one extra error
    element reports the commit-time rejection.  (A transaction that cannot be
    expanded/started reports a single error.) -/
theorem reply_shape (σ : DbModel) (db : Database) (ops : List Operation) :
    let rs := (transact σ db ops).results
    (rs.length = ops.length ∧ (∀ r ∈ rs, r.error = none)) ∨
    (∃ pre last, rs = pre ++ [last] ∧ pre.length ≤ ops.length ∧ (∀ r ∈ pre, r.error = none) ∧ last.error.isSome ∧
      (transact σ db ops).committed = false) := by
  simp only
  rcases transact_cases σ db ops with ⟨e, ht⟩ | ⟨ops', results, tx, hexp, hrun, ht⟩ | ⟨ops', results, tx, hexp, hrun, ht⟩ |
      ⟨ops', results, tx, hexp, hrun, ht⟩
  · right; rw [ht]
    exact ⟨[], _, rfl, by simp, by simp, by simp, rfl⟩
  · have hlen := expand_length σ ops ops' hexp
    obtain ⟨pre, last, hrs, hl, hpre, hlast⟩ := (runOps_shape σ db ops' _ results tx false hrun).2 rfl
    right; rw [ht]
    refine ⟨pre, last, hrs, ?_, hpre, hlast, rfl⟩
    rw [hrs] at hl
    simp only [List.length_append, List.length_singleton] at hl
    omega
  · have hlen := expand_length σ ops ops' hexp
    obtain ⟨hl, hall⟩ := (runOps_shape σ db ops' _ results tx true hrun).1 rfl
    left; rw [ht]; exact ⟨by simp only; omega, hall⟩
  · have hlen := expand_length σ ops ops' hexp
    obtain ⟨hl, hall⟩ := (runOps_shape σ db ops' _ results tx true hrun).1 rfl
    rw [ht]
    rcases commitPhase_spec σ db results tx with ⟨upd, hc⟩ | ⟨e, he, hc⟩
    · left; rw [hc]; exact ⟨by simp only; omega, hall⟩
    · right; rw [hc]; exact ⟨results, e, rfl, by omega, hall, he, rfl⟩

/-! Non-vacuity: a concrete transaction whose second operation fails. -/
section
def exModel : DbModel :=
  { schema := [("T", { cols := [("name", { kind := .atom, key := .string }), ("n", { kind := .atom, key := .integer })],
                       indexes := [["name"]], isRoot := true })],
    specs := [("T", [⟨"name", [⟨"name", none, .str ""⟩], true⟩])] }
def exOps : List Operation :=
  [{ op := "insert", table := "T", uuid := "11111111-1111-4111-8111-111111111111", row := [("name", .atom (.str "a"))] },
   { op := "mutate", table := "T", mutations := [⟨"n", .div, .atom (.int 0)⟩] }]
example : hasError (transact exModel (Database.empty exModel) exOps).results = true := by decide
end

/-- what is wrong with a where clause (an unknown column, a value of another type than the column's) is wrong
    whatever rows the table holds, in the database and in the transaction so far: the selection fails before
    any row is looked at (in particular when there is no row to look at) -/
theorem ill_formed_where_fails_whatever_the_rows (σ : DbModel) (db : Database) (tx : Txn) (table : String)
    (w : List WCond) (ts : TableSchema) (tc dc : Cache) (e : String)
    (hts : σ.table table = some ts) (htc : get? tx.cache table = some tc) (hdc : get? db table = some dc)
    (hw : w.isEmpty = false) (herr : nativeConds ts w = .error e) :
    overlayRows σ db tx table w = .error e := by
  unfold overlayRows
  simp only [hts, htc, hdc]
  simp [cacheRowsByCondition, hw, herr, bind, Except.bind]

/-- ... and it does not depend on the rows: two databases, two transactions -/
theorem ill_formed_where_same_failure (σ : DbModel) (db db' : Database) (tx tx' : Txn) (table : String)
    (w : List WCond) (ts : TableSchema) (tc dc tc' dc' : Cache) (e : String)
    (hts : σ.table table = some ts) (htc : get? tx.cache table = some tc) (hdc : get? db table = some dc)
    (htc' : get? tx'.cache table = some tc') (hdc' : get? db' table = some dc')
    (hw : w.isEmpty = false) (herr : nativeConds ts w = .error e) :
    overlayRows σ db tx table w = overlayRows σ db' tx' table w := by
  rw [ill_formed_where_fails_whatever_the_rows σ db tx table w ts tc dc e hts htc hdc hw herr,
      ill_formed_where_fails_whatever_the_rows σ db' tx' table w ts tc' dc' e hts htc' hdc' hw herr]

/-! Non-vacuity: a string column compared with an integer, and a column the table does not have. -/
def whereTs : TableSchema := { cols := [("name", { kind := .atom, key := .string }), ("n", { kind := .atom, key := .integer })] }
example : (nativeConds whereTs [⟨"name", .eq, .atom (.int 5)⟩]).toOption = none := by decide
example : (nativeConds whereTs [⟨"no_such_column", .eq, .atom (.int 5)⟩]).toOption = none := by decide
example : (nativeConds whereTs [⟨"name", .eq, .atom (.str "a")⟩]).toOption.isSome = true := by decide

end Ovsdb.C02
