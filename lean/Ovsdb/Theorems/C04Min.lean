import Ovsdb.Theorems.C04
import Ovsdb.Theorems.C09
/-
  C04, continued: the minimum-cardinality clause of weak-reference pruning
  ("the transaction is rejected instead if that would leave a column with fewer
  elements than its minimum").
-/
namespace Ovsdb.C04
open Ovsdb AMap

/-- one column of the weak-reference pruning of one row -/
def pruneStep (ts : TableSchema) (rs : Rows) (r : Row) (c : String) : Except OpErr Row :=
  match get? ts.cols c, get? r c with
  | some cs, some v =>
    let (v', changed) := pruneCol cs rs v
    if !changed then pure r
    else if valueCard v' < (if cs.kind == .opt then 0 else cs.min) then throw OpErr.constraint
    else pure (insert r c v')
  | _, _ => pure r

/-- the pruning of one row: every column in turn -/
def pruneRow (ts : TableSchema) (rs : Rows) (row : Row) : Except OpErr Row :=
  (keys ts.cols).eraseDups.foldlM (pruneStep ts rs) row

theorem pruneWeak_eq (σ : DbModel) (rs : Rows) :
    pruneWeak σ rs = rs.all.foldlM (fun (acc : Rows) p =>
      match σ.table p.1 with
      | none => pure acc
      | some ts => do
        let r' ← pruneRow ts rs p.2.2
        pure (if r' == p.2.2 then acc else acc.set p.1 p.2.1 r')) rs := rfl


/-- the value a column holds after pruning -/
def prunedVal (ts : TableSchema) (rs : Rows) (row : Row) (c : String) : Option Value :=
  match get? ts.cols c, get? row c with
  | some cs, some v => if (pruneCol cs rs v).2 then some (pruneCol cs rs v).1 else some v
  | _, _ => get? row c

/-- the minimum the pruning checks a column against -/
def minOf (cs : ColSchema) : Nat := if cs.kind == .opt then 0 else cs.min

theorem pruneStep_spec (ts : TableSchema) (rs : Rows) (r r1 : Row) (c : String) (h : pruneStep ts rs r c = .ok r1) :
    (∀ k, get? r1 k = if k = c then prunedVal ts rs r c else get? r k) ∧
    (∀ cs v, get? ts.cols c = some cs → get? r c = some v → (pruneCol cs rs v).2 = true →
      minOf cs ≤ valueCard (pruneCol cs rs v).1) := by
  unfold pruneStep at h
  unfold prunedVal
  cases hcs : get? ts.cols c with
  | none =>
    simp only [hcs, pure, Except.pure, Except.ok.injEq] at h
    subst h
    exact ⟨fun k => by by_cases hk : k = c <;> simp [hk], by intro cs v h0; cases h0⟩
  | some cs =>
    cases hv : get? r c with
    | none =>
      simp only [hcs, hv, pure, Except.pure, Except.ok.injEq] at h
      subst h
      exact ⟨fun k => by by_cases hk : k = c <;> simp [hk, hv], by intro _ v _ h0; cases h0⟩
    | some v =>
      simp only [hcs, hv] at h
      by_cases hch : (pruneCol cs rs v).2 = true
      · simp only [hch, Bool.not_true, Bool.false_eq_true, if_false] at h
        by_cases hmin : valueCard (pruneCol cs rs v).1 < (if cs.kind == .opt then 0 else cs.min)
        · rw [if_pos hmin] at h; cases h
        · rw [if_neg hmin] at h
          simp only [pure, Except.pure, Except.ok.injEq] at h
          subst h
          constructor
          · intro k
            by_cases hk : k = c
            · subst hk; simp [get?_insert, hch]
            · simp [get?_insert, hk]
          · intro cs' v' h1 h2 _
            cases h1; cases h2
            unfold minOf
            omega
      · have hch' : (pruneCol cs rs v).2 = false := by simpa using hch
        simp only [hch', Bool.not_false, if_true, pure, Except.pure, Except.ok.injEq] at h
        subst h
        constructor
        · intro k
          by_cases hk : k = c
          · subst hk; simp [hv, hch']
          · simp [hk]
        · intro cs' v' h1 h2 h3
          cases h1; cases h2
          rw [hch'] at h3; cases h3


theorem pruneRow_fold (ts : TableSchema) (rs : Rows) (l : List String) (hnd : l.Nodup) (row r' : Row)
    (h : l.foldlM (pruneStep ts rs) row = .ok r') :
    (∀ k, get? r' k = if k ∈ l then prunedVal ts rs row k else get? row k) ∧
    (∀ c ∈ l, ∀ cs v, get? ts.cols c = some cs → get? row c = some v → (pruneCol cs rs v).2 = true →
      minOf cs ≤ valueCard (pruneCol cs rs v).1) := by
  induction l generalizing row with
  | nil => simp [pure, Except.pure] at h; subst h; simp
  | cons a t ih =>
    simp only [List.foldlM_cons, bind, Except.bind] at h
    split at h
    · cases h
    · rename_i r1 h1
      obtain ⟨hs1, hs2⟩ := pruneStep_spec ts rs row r1 a h1
      have hat : a ∉ t := (List.nodup_cons.mp hnd).1
      obtain ⟨ih1, ih2⟩ := ih (List.nodup_cons.mp hnd).2 r1 h
      -- columns of t are untouched by the step on a
      have hsame : ∀ k, k ≠ a → get? r1 k = get? row k := fun k hk => by rw [hs1 k]; simp [hk]
      constructor
      · intro k
        rw [ih1 k]
        by_cases hka : k = a
        · subst hka
          simp [hat, hs1 k]
        · by_cases hkt : k ∈ t
          · simp only [hkt, if_true, List.mem_cons, or_true]
            unfold prunedVal
            rw [hsame k hka]
          · simp [hkt, hka, hsame k hka]
      · intro c hc cs v hcs hv hch
        rcases List.mem_cons.mp hc with rfl | hct
        · exact hs2 cs v hcs hv hch
        · have hca : c ≠ a := fun e => hat (e ▸ hct)
          exact ih2 c hct cs v hcs (by rw [hsame c hca]; exact hv) hch

/-- **C04 (5)** weak-reference pruning never takes a column below its minimum: when the
    pruning of a row succeeds, every column it changed still holds at least the minimum the
    schema asks for (0 for an optional column); otherwise the transaction is rejected with a
    constraint violation (that is the only error `pruneStep` raises). Every other column is left
    as it was. -/
theorem pruneRow_respects_min (ts : TableSchema) (rs : Rows) (row r' : Row) (h : pruneRow ts rs row = .ok r') :
    (∀ c cs v, get? ts.cols c = some cs → get? row c = some v → (pruneCol cs rs v).2 = true →
      get? r' c = some (pruneCol cs rs v).1 ∧ minOf cs ≤ valueCard (pruneCol cs rs v).1) ∧
    (∀ c, (∀ cs v, get? ts.cols c = some cs → get? row c = some v → (pruneCol cs rs v).2 = false) → get? r' c = get? row c) := by
  unfold pruneRow at h
  have hnd : (keys ts.cols).eraseDups.Nodup := Ovsdb.C09.nodup_eraseDups _ _ (Nat.le_refl _)
  obtain ⟨h1, h2⟩ := pruneRow_fold ts rs _ hnd row r' h
  constructor
  · intro c cs v hcs hv hch
    have hc : c ∈ (keys ts.cols).eraseDups := by rw [List.mem_eraseDups]; exact mem_keys_of_get? hcs
    refine ⟨?_, h2 c hc cs v hcs hv hch⟩
    rw [h1 c]
    simp [hc, prunedVal, hcs, hv, hch]
  · intro c hno
    rw [h1 c]
    by_cases hc : c ∈ (keys ts.cols).eraseDups
    · simp only [hc, if_true]
      unfold prunedVal
      cases hcs : get? ts.cols c with
      | none => rfl
      | some cs =>
        cases hv : get? row c with
        | none => rfl
        | some v => simp [hno cs v hcs hv]
    · simp [hc]

theorem pruneStep_error (ts : TableSchema) (rs : Rows) (r : Row) (c : String) (e : OpErr) (h : pruneStep ts rs r c = .error e) :
    e = .constraint := by
  unfold pruneStep at h
  cases hcs : get? ts.cols c with
  | none => simp [hcs, pure, Except.pure] at h
  | some cs =>
    cases hv : get? r c with
    | none => simp [hcs, hv, pure, Except.pure] at h
    | some v =>
      simp only [hcs, hv] at h
      by_cases hch : (pruneCol cs rs v).2 = true
      · simp only [hch, Bool.not_true, Bool.false_eq_true, if_false] at h
        by_cases hmin : valueCard (pruneCol cs rs v).1 < (if cs.kind == .opt then 0 else cs.min)
        · rw [if_pos hmin] at h; cases h; rfl
        · rw [if_neg hmin] at h; cases h
      · have hch' : (pruneCol cs rs v).2 = false := by simpa using hch
        simp [hch', pure, Except.pure] at h

end Ovsdb.C04
