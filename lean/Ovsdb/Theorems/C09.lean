import Ovsdb.Model.Schema
import Ovsdb.Model.Mapper
import Ovsdb.Theorems.C12
import Ovsdb.Proofs.Cond
/-
  C09 — model <-> row mapping is lossless for every column type.

  Mapper.NewRow -> JSON -> Row.UnmarshalJSON -> Mapper.GetRowData / CreateModel.
  The JSON leg is the codec of C12; at the level of OVS-notation values its
  whole effect is `wireVal`: integers come back as JSON numbers (float64) and a
  one-element set comes back as its element.  `wire_is_codec` proves that this
  is what decode . encode does.
-/
namespace Ovsdb.C09
open Ovsdb Ovsdb.Wire Ovsdb.Mapper AMap

/-- what the decoded Go value is as an OVS-notation value -/
def atomOfGo : GoVal → Option Atom
  | .raw (.num r) => some (.real r)
  | .raw (.str s) => some (.str s)
  | .raw (.bool b) => some (.bool b)
  | .uuid u => some (.uuid u)
  | _ => none

def atomsOfGo : List GoVal → Option (List Atom)
  | [] => some []
  | g :: t => match atomOfGo g, atomsOfGo t with
    | some a, some l => some (a :: l)
    | _, _ => none

def pairsOfGo : List (GoVal × GoVal) → Option (List (Atom × Atom))
  | [] => some []
  | g :: t => match atomOfGo g.1, atomOfGo g.2, pairsOfGo t with
    | some a, some b, some l => some ((a, b) :: l)
    | _, _, _ => none

def ovsOfGo : GoVal → Option OvsVal
  | .set l => (atomsOfGo l).map OvsVal.set
  | .map m => (pairsOfGo m).map OvsVal.map
  | g => (atomOfGo g).map OvsVal.atom

theorem atomOfGo_toW (a : Atom) : atomOfGo (toWAtom a).toGo = some (wireAtom a) := by
  cases a <;> rfl

theorem atomsOfGo_toW (l : List Atom) : atomsOfGo (l.map (fun a => (toWAtom a).toGo)) = some (l.map wireAtom) := by
  induction l with
  | nil => rfl
  | cons a t ih => simp [atomsOfGo, atomOfGo_toW, ih]

theorem pairsOfGo_toW (m : List (Atom × Atom)) :
    pairsOfGo (m.map (fun p => ((toWAtom p.1).toGo, (toWAtom p.2).toGo))) = some (m.map (fun p => (wireAtom p.1, wireAtom p.2))) := by
  induction m with
  | nil => rfl
  | cons a t ih => simp [pairsOfGo, atomOfGo_toW, ih]

/-- **C09 (1)**: `wireVal` is exactly what encoding to JSON and decoding does to
    an OVS-notation value (through the codec model of C12) -/
theorem wire_is_codec (p : String → Bool) (n : Nat) (o : OvsVal) :
    ∃ g, decodeVal (n + 2) (encodeWVal p (toW o)) = .ok g ∧ ovsOfGo g = some (wireVal o) := by
  refine ⟨_, C12.value_roundtrip p n (toW o), ?_⟩
  cases o with
  | atom a =>
    have := atomOfGo_toW a
    cases a <;> simp_all [toW, WVal.collapse, WVal.toGo, wireVal, ovsOfGo, toWAtom, WAtom.toGo, atomOfGo, wireAtom]
  | set l =>
    match l with
    | [] => rfl
    | [a] =>
      have := atomOfGo_toW a
      cases a <;> simp_all [toW, WVal.collapse, WVal.toGo, wireVal, ovsOfGo, toWAtom, WAtom.toGo, atomOfGo, wireAtom]
    | a :: b :: t =>
      have := atomsOfGo_toW (a :: b :: t)
      simp only [toW, WVal.collapse, WVal.toGo, wireVal, ovsOfGo, List.map_map, List.map_cons] at *
      simp only [Function.comp_def] at *
      rw [this]; rfl
  | map m =>
    have := pairsOfGo_toW m
    simp only [toW, WVal.collapse, WVal.toGo, wireVal, ovsOfGo, List.map_map] at *
    simp only [Function.comp_def] at *
    rw [this]; rfl

/-! ### values -/

theorem truncRat_int (i : Int) : truncRat (i : Rat) = i := by
  unfold truncRat
  split
  · have : (-(i : Rat)) = ((-i : Int) : Rat) := by simp
    rw [this, Rat.floor_intCast]; omega
  · exact Rat.floor_intCast i

theorem atom_back (t : AType) (a : Atom) (h : a.hasType t = true) : ovsToNativeAtomic t (wireAtom a) = .ok a := by
  cases t <;> cases a <;> simp_all [Atom.hasType, ovsToNativeAtomic, wireAtom, truncRat_int]

theorem mapM_atom_back (t : AType) (l : List Atom) (h : l.all (·.hasType t) = true) :
    (l.map wireAtom).mapM (ovsToNativeAtomic t) = .ok l := by
  induction l with
  | nil => rfl
  | cons a rest ih =>
    simp only [List.all_cons, Bool.and_eq_true] at h
    simp [List.mapM_cons, atom_back t a h.1, ih h.2, bind, Except.bind, pure, Except.pure]

theorem mapM_pair_back (kt vt : AType) (m : List (Atom × Atom))
    (h : m.all (fun p => p.1.hasType kt && p.2.hasType vt) = true) :
    (m.map (fun p => (wireAtom p.1, wireAtom p.2))).mapM (ovsPairToNative kt vt) = .ok m := by
  induction m with
  | nil => rfl
  | cons a rest ih =>
    simp only [List.all_cons, Bool.and_eq_true] at h
    simp [List.mapM_cons, ovsPairToNative, atom_back kt a.1 h.1.1, atom_back vt a.2 h.1.2, ih h.2, bind, Except.bind, pure, Except.pure]

/-- **C09 (2)**: every value of the column's native type (scalar, enum, uuid,
    optional, set of any size including one element, map) comes back from the
    wire as itself -/
theorem value_back (cs : ColSchema) (v : Value) (h : v.hasNativeType cs = true) :
    ∃ o, nativeToOvs cs v = .ok o ∧ ovsToNative cs (wireVal o) = .ok v := by
  unfold nativeToOvs
  simp only [h, Bool.not_true, Bool.false_eq_true, if_false]
  cases v with
  | atom a =>
    refine ⟨_, rfl, ?_⟩
    cases hk : cs.kind <;> simp [Value.hasNativeType, hk] at h
    simp [wireVal, ovsToNative, hk, atom_back cs.key a h, bind, Except.bind, pure, Except.pure]
  | opt o =>
    cases hk : cs.kind <;> simp [Value.hasNativeType, hk] at h
    cases o with
    | none => exact ⟨_, rfl, by simp [wireVal, ovsToNative, hk]⟩
    | some a =>
      simp [Value.hasNativeType, hk] at h
      exact ⟨_, rfl, by simp [wireVal, ovsToNative, hk, atom_back cs.key a h, bind, Except.bind, pure, Except.pure]⟩
  | set l =>
    cases hk : cs.kind <;> simp [Value.hasNativeType, hk] at h
    refine ⟨_, rfl, ?_⟩
    match l with
    | [] => simp [wireVal, ovsToNative, hk, pure, Except.pure, bind, Except.bind]
    | [a] =>
      have ha := h a (by simp)
      simp [wireVal, ovsToNative, hk, atom_back cs.key a ha, bind, Except.bind, pure, Except.pure]
    | a :: b :: t =>
      have := mapM_atom_back cs.key (a :: b :: t) (by simpa using h)
      simp only [wireVal, ovsToNative, hk]
      simp only [this, bind, Except.bind, pure, Except.pure]
  | map mp =>
    cases hk : cs.kind <;> simp [Value.hasNativeType, hk] at h
    refine ⟨_, rfl, ?_⟩
    have := mapM_pair_back cs.key cs.val mp (by simpa using h)
    simp only [wireVal, ovsToNative, hk, this]

/-! ### type mismatches are rejected, never converted -/

/-- **C09 (3a)**: a native value that does not have the column's native type is
    refused by `NativeToOvs` -/
theorem native_mismatch_rejected (cs : ColSchema) (v : Value) (h : v.hasNativeType cs = false) :
    nativeToOvs cs v = .error "wrong type" := by
  simp [nativeToOvs, h]

/-- **C09 (3b)**: whatever `OvsToNativeAtomic` accepts has the column's type: the
    only conversion is the one the wire forces (a JSON number for an integer) -/
theorem ovs_atom_typed (t : AType) (a b : Atom) (h : ovsToNativeAtomic t a = .ok b) : b.hasType t = true := by
  cases t <;> cases a <;> simp_all [ovsToNativeAtomic, Atom.hasType] <;> (subst h; rfl)

theorem ovs_atom_mismatch_rejected (t : AType) (a : Atom) (h : a.hasType t = false)
    (hnum : ¬ (t = .integer ∧ ∃ r, a = .real r)) : ovsToNativeAtomic t a = .error "wrong type" := by
  cases t <;> cases a <;> simp_all [ovsToNativeAtomic, Atom.hasType]

/-! ### rows: NewRow -> wire -> GetRowData -/

theorem setField_row (m : Model) (k : String) (v : Value) (hk : k ≠ "_uuid") (c : String) :
    get? (m.setField k v).row c = if c = k then some v else get? m.row c := by
  simp [Model.setField, hk]

theorem setField_uuid (m : Model) (k : String) (v : Value) (hk : k ≠ "_uuid") : (m.setField k v).uuid = m.uuid := by
  simp [Model.setField, hk]

/-- what `GetRowData` leaves in field `c` after visiting the columns `ks` -/
def grdSpec (ts : TableSchema) (row : OvsRow) (ks : List String) (m : Model) (c : String) : Option Value :=
  if c ∈ ks then
    match get? ts.cols c, get? row c with
    | some cs, some o =>
      match ovsToNative cs o with
      | .ok v => some v
      | .error _ => get? m.row c
    | _, _ => get? m.row c
  else get? m.row c

theorem grd_fold (ts : TableSchema) (row : OvsRow) : ∀ (ks : List String) (m : Model), ks.Nodup → "_uuid" ∉ ks →
    (∀ c ∈ ks, ∀ cs o, get? ts.cols c = some cs → get? row c = some o → ∃ v, ovsToNative cs o = .ok v) →
    ∃ m', ks.foldlM (getRowDataStep ts row) m = .ok m' ∧ m'.uuid = m.uuid ∧ ∀ c, get? m'.row c = grdSpec ts row ks m c := by
  intro ks
  induction ks with
  | nil => intro m _ _ _; exact ⟨m, rfl, rfl, fun c => by simp [grdSpec]⟩
  | cons k t ih =>
    intro m hnd hu hok
    have hk : k ≠ "_uuid" := fun e => hu (by simp [e])
    have hnd' := List.nodup_cons.mp hnd
    have hstep : ∃ m1, getRowDataStep ts row m k = .ok m1 ∧ m1.uuid = m.uuid ∧
        ∀ c, get? m1.row c = if c = k then grdSpec ts row [k] m k else get? m.row c := by
      unfold getRowDataStep
      cases hcs : get? ts.cols k with
      | none => exact ⟨m, rfl, rfl, fun c => by by_cases h : c = k <;> simp [h, grdSpec, hcs]⟩
      | some cs =>
        cases ho : get? row k with
        | none => exact ⟨m, rfl, rfl, fun c => by by_cases h : c = k <;> simp [h, grdSpec, hcs, ho]⟩
        | some o =>
          obtain ⟨v, hv⟩ := hok k (by simp) cs o hcs ho
          refine ⟨m.setField k v, by simp [hv], setField_uuid m k v hk, fun c => ?_⟩
          rw [setField_row m k v hk c]
          by_cases h : c = k <;> simp [h, grdSpec, hcs, ho, hv]
    obtain ⟨m1, h1, hu1, hr1⟩ := hstep
    obtain ⟨m', h2, hu2, hr2⟩ := ih m1 hnd'.2 (fun h => hu (by simp [h])) (fun c hc => hok c (by simp [hc]))
    refine ⟨m', by simp [List.foldlM_cons, h1, h2, bind, Except.bind], by rw [hu2, hu1], fun c => ?_⟩
    rw [hr2 c]
    unfold grdSpec
    by_cases hct : c ∈ t
    · have hck : c ≠ k := fun e => hnd'.1 (e ▸ hct)
      simp [hct, hr1 c, hck]
    · by_cases hck : c = k
      · subst hck; simp [hct, hr1 c, grdSpec]
      · simp [hct, hck, hr1 c]

def ovsOfNative : Value → OvsVal
  | .atom a => .atom a
  | .opt none => .set []
  | .opt (some a) => .set [a]
  | .set l => .set l
  | .map mm => .map mm

theorem nativeToOvs_ok (cs : ColSchema) (v : Value) (h : v.hasNativeType cs = true) : nativeToOvs cs v = .ok (ovsOfNative v) := by
  unfold nativeToOvs
  simp only [h, Bool.not_true, Bool.false_eq_true, if_false]
  cases v with
  | atom a => rfl
  | opt o => cases o <;> rfl
  | set l => rfl
  | map mm => rfl

theorem nodup_eraseDups {α} [BEq α] [LawfulBEq α] : ∀ (n : Nat) (l : List α), l.length ≤ n → l.eraseDups.Nodup := by
  intro n
  induction n with
  | zero =>
    intro l h
    have : l = [] := List.eq_nil_of_length_eq_zero (by omega)
    subst this; simp
  | succ n ih =>
    intro l h
    cases l with
    | nil => simp
    | cons a as =>
      rw [List.eraseDups_cons, List.nodup_cons]
      constructor
      · rw [List.mem_eraseDups, List.mem_filter]
        simp
      · apply ih
        have := List.length_filter_le (fun b => !b == a) as
        simp only [List.length_cons] at h
        omega

/-- what `NewRow` puts in the row for column `c` -/
def nrCol (skip : String → ColSchema → Value → Bool) (ts : TableSchema) (m : Model) (c : String) : Option OvsVal :=
  match get? ts.cols c, get? m.row c with
  | some cs, some v =>
    if skip c cs v then none
    else match nativeToOvs cs v with
      | .ok o => some o
      | .error _ => none
  | _, _ => none

theorem nr_fold (skip : String → ColSchema → Value → Bool) (ts : TableSchema) (m : Model) : ∀ (ks : List String) (acc : OvsRow), ks.Nodup →
    (∀ c ∈ ks, get? acc c = none) →
    (∀ c ∈ ks, ∀ cs v, get? ts.cols c = some cs → get? m.row c = some v → v.hasNativeType cs = true) →
    ∃ r, ks.foldlM (newRowStepG skip ts m) acc = .ok r ∧
      ∀ c, get? r c = match get? acc c with
        | some x => some x
        | none => if c ∈ ks then nrCol skip ts m c else none := by
  intro ks
  induction ks with
  | nil => intro acc _ _ _; exact ⟨acc, rfl, fun c => by cases get? acc c <;> simp⟩
  | cons k t ih =>
    intro acc hnd hacc hty
    have hnd' := List.nodup_cons.mp hnd
    have hstep : ∃ acc1, newRowStepG skip ts m acc k = .ok acc1 ∧
        ∀ c, get? acc1 c = match get? acc c with
          | some x => some x
          | none => if c = k then nrCol skip ts m k else none := by
      unfold newRowStepG
      cases hcs : get? ts.cols k with
      | none => exact ⟨acc, rfl, fun c => by cases get? acc c <;> simp [nrCol, hcs]⟩
      | some cs =>
        cases hv : get? m.row k with
        | none => exact ⟨acc, rfl, fun c => by cases get? acc c <;> simp [nrCol, hcs, hv]⟩
        | some v =>
          by_cases hd : skip k cs v = true
          · exact ⟨acc, by simp [hd], fun c => by cases get? acc c <;> simp [nrCol, hcs, hv, hd]⟩
          · have hnt := hty k (by simp) cs v hcs hv
            have hno := nativeToOvs_ok cs v hnt
            refine ⟨acc ++ [(k, ovsOfNative v)], by simp [hd, hno], fun c => ?_⟩
            rw [get?_append]
            cases hg : get? acc c with
            | some x => rfl
            | none =>
              by_cases h : c = k
              · subst h; simp [nrCol, hcs, hv, hd, hno]
              · have : ¬ k = c := fun e => h e.symm
                simp [h, this]
    obtain ⟨acc1, h1, hr1⟩ := hstep
    have hacc1 : ∀ c ∈ t, get? acc1 c = none := by
      intro c hc
      have hck : c ≠ k := fun e => hnd'.1 (e ▸ hc)
      rw [hr1 c, hacc c (by simp [hc])]
      simp [hck]
    obtain ⟨r, h2, hr2⟩ := ih acc1 hnd'.2 hacc1 (fun c hc => hty c (by simp [hc]))
    refine ⟨r, by simp [List.foldlM_cons, h1, h2, bind, Except.bind], fun c => ?_⟩
    rw [hr2 c, hr1 c]
    cases hg : get? acc c with
    | some x => rfl
    | none =>
      by_cases hck : c = k
      · subst hck
        simp only [if_true, List.mem_cons, true_or]
        cases nrCol skip ts m c with
        | some o => rfl
        | none => simp [hnd'.1]
      · simp [hck]

theorem get?_wireRow (r : OvsRow) (c : String) : get? (wireRow r) c = (get? r c).map wireVal := by
  induction r with
  | nil => rfl
  | cons p t ih =>
    obtain ⟨k, v⟩ := p
    simp only [wireRow, List.map_cons, get?_cons] at *
    by_cases h : k = c <;> simp [h, ih]

theorem nodup_dedupKeys (cols : AMap String ColSchema) : (dedupKeys cols).Nodup := by
  unfold dedupKeys; exact nodup_eraseDups _ _ (Nat.le_refl _)

theorem mem_dedupKeys (cols : AMap String ColSchema) (c : String) : c ∈ dedupKeys cols ↔ (get? cols c).isSome := by
  unfold dedupKeys; rw [List.mem_eraseDups, mem_keys_iff]

/-- a model of the table's struct type: every column has a field of the column's
    native type (what `mapper.NewInfo` checks) -/
def WellTyped (ts : TableSchema) (m : Model) : Prop :=
  ∀ c cs, get? ts.cols c = some cs → ∃ v, get? m.row c = some v ∧ v.hasNativeType cs = true

theorem row_roundtrip_G (skip : String → ColSchema → Value → Bool) (wu : Bool) (ts : TableSchema) (m m0 : Model)
    (hU : (get? ts.cols "_uuid") = none) (hT : WellTyped ts m) :
    ∃ r m', newRowG skip ts m wu = .ok r ∧ getRowData ts (wireRow r) m0 = .ok m' ∧ m'.uuid = m0.uuid ∧
      ∀ c cs v, get? ts.cols c = some cs → get? m.row c = some v →
        get? m'.row c = if skip c cs v then get? m0.row c else some v := by
  have hnd := nodup_dedupKeys ts.cols
  have hu : "_uuid" ∉ dedupKeys ts.cols := by rw [mem_dedupKeys]; simp [hU]
  obtain ⟨cols, hc1, hc2⟩ := nr_fold skip ts m (dedupKeys ts.cols) [] hnd (fun _ _ => rfl)
    (fun c _ cs v hcs hv => by
      obtain ⟨v', hv', ht⟩ := hT c cs hcs
      rw [hv] at hv'; cases hv'; exact ht)
  -- the row NewRow returns, with or without _uuid
  have hrow : ∃ r, newRowG skip ts m wu = .ok r ∧ ∀ c, c ≠ "_uuid" → get? r c = get? cols c := by
    unfold newRowG
    rw [hc1]
    cases wu with
    | false => exact ⟨cols, by simp, fun _ _ => rfl⟩
    | true =>
      refine ⟨("_uuid", .atom (.uuid m.uuid)) :: cols, by simp, fun c hc => ?_⟩
      have : ¬ "_uuid" = c := fun e => hc e.symm
      simp [this]
  obtain ⟨r, hr1, hr2⟩ := hrow
  have hconv : ∀ c ∈ dedupKeys ts.cols, ∀ cs o, get? ts.cols c = some cs → get? (wireRow r) c = some o →
      ∃ v, ovsToNative cs o = .ok v := by
    intro c hc cs o hcs ho
    have hcu : c ≠ "_uuid" := fun e => hu (e ▸ hc)
    rw [get?_wireRow, hr2 c hcu, hc2 c] at ho
    simp only [get?_nil, hc, if_true] at ho
    obtain ⟨v, hv, ht⟩ := hT c cs hcs
    obtain ⟨o', ho', hback⟩ := value_back cs v ht
    simp only [nrCol, hcs, hv] at ho
    by_cases hd : skip c cs v = true
    · simp [hd] at ho
    · simp [hd, ho'] at ho
      subst ho
      exact ⟨v, hback⟩
  obtain ⟨m', hm1, hm2, hm3⟩ := grd_fold ts (wireRow r) (dedupKeys ts.cols) m0 hnd hu hconv
  refine ⟨r, m', hr1, hm1, hm2, fun c cs v hcs hv => ?_⟩
  have hc : c ∈ dedupKeys ts.cols := by rw [mem_dedupKeys]; simp [hcs]
  have hcu : c ≠ "_uuid" := fun e => hu (e ▸ hc)
  rw [hm3 c]
  simp only [grdSpec, hc, if_true, hcs, get?_wireRow, hr2 c hcu, hc2 c, get?_nil, nrCol, hv]
  obtain ⟨v', hv', ht⟩ := hT c cs hcs
  rw [hv] at hv'; cases hv'
  obtain ⟨o', ho', hback⟩ := value_back cs v ht
  by_cases hd : skip c cs v = true
  · simp [hd]
  · simp [hd, ho', hback]

/-- **C09 (4)**: NewRow, the wire, GetRowData into any model `m0`: every mapped
    field that was sent comes back with the same value; a field that was not
    sent (NewRow leaves out default values) is left as it was in `m0` -/
theorem row_roundtrip (ts : TableSchema) (m m0 : Model) (hU : (get? ts.cols "_uuid") = none) (hT : WellTyped ts m) :
    ∃ r m', newRow ts m = .ok r ∧ getRowData ts (wireRow r) m0 = .ok m' ∧ m'.uuid = m0.uuid ∧
      ∀ c cs v, get? ts.cols c = some cs → get? m.row c = some v →
        get? m'.row c = if isDefaultValue cs v then get? m0.row c else some v :=
  row_roundtrip_G skipDefault _ ts m m0 hU hT

/-- **C09 (5)**: with an explicit field list exactly those columns are sent
    (default or not) and come back; every other field of the receiving model is
    untouched -/
theorem selected_fields_roundtrip (ts : TableSchema) (m m0 : Model) (fields : List String)
    (hU : (get? ts.cols "_uuid") = none) (hT : WellTyped ts m) :
    ∃ r m', newRowFields ts m fields = .ok r ∧ getRowData ts (wireRow r) m0 = .ok m' ∧ m'.uuid = m0.uuid ∧
      ∀ c cs v, get? ts.cols c = some cs → get? m.row c = some v →
        get? m'.row c = if fields.contains c then some v else get? m0.row c := by
  obtain ⟨r, m', h1, h2, h3, h4⟩ := row_roundtrip_G (skipUnselected fields) (fields.contains "_uuid") ts m m0 hU hT
  refine ⟨r, m', h1, h2, h3, fun c cs v hcs hv => ?_⟩
  rw [h4 c cs v hcs hv]
  simp only [skipUnselected]
  by_cases hf : fields.contains c = true
  · simp [hf]
  · simp [hf]

/-- a default value that `NewRow` leaves out is the zero value a fresh model
    holds, with one exception: the all-zeros UUID -/
theorem default_is_zero (cs : ColSchema) (v : Value) (ht : v.hasNativeType cs = true) (hd : isDefaultValue cs v = true)
    (hz : v ≠ .atom (.uuid zeroUUID)) : v = zeroValue cs := by
  cases v with
  | atom a =>
    cases hk : cs.kind <;> simp [Value.hasNativeType, hk] at ht
    cases a <;> cases hkey : cs.key <;> simp_all [Atom.hasType, isDefaultValue, zeroValue, zeroAtom]
  | opt o =>
    cases hk : cs.kind <;> simp [Value.hasNativeType, hk] at ht
    all_goals simp_all [isDefaultValue, zeroValue]
  | set l =>
    cases hk : cs.kind <;> simp [Value.hasNativeType, hk] at ht
    all_goals simp_all [isDefaultValue, zeroValue]
  | map mm =>
    cases hk : cs.kind <;> simp [Value.hasNativeType, hk] at ht
    all_goals simp_all [isDefaultValue, zeroValue]

theorem get?_newModel (ts : TableSchema) (c : String) : get? (newModel ts).row c = (get? ts.cols c).map zeroValue := by
  unfold newModel
  simp only
  induction ts.cols with
  | nil => rfl
  | cons p t ih =>
    obtain ⟨k, v⟩ := p
    simp only [List.map_cons, get?_cons]
    by_cases h : k = c <;> simp [h, ih]

/-- **C09 (6)**: the full path of the cache and of `Get`/`List`:
    NewRow -> JSON -> Row.UnmarshalJSON -> CreateModel.  The new model has the
    same `_uuid` and the same value in every mapped field, the all-zeros UUID
    being the one value `NewRow` treats as unset. -/
theorem createModel_roundtrip (ts : TableSchema) (m : Model) (hU : (get? ts.cols "_uuid") = none) (hT : WellTyped ts m)
    (hz : ∀ c, get? m.row c ≠ some (.atom (.uuid zeroUUID))) :
    ∃ r m', newRow ts m = .ok r ∧ createModel ts (wireRow r) m.uuid = .ok m' ∧ m'.uuid = m.uuid ∧
      ∀ c cs, get? ts.cols c = some cs → get? m'.row c = get? m.row c := by
  obtain ⟨r, m1, h1, h2, h3, h4⟩ := row_roundtrip ts m (newModel ts) hU hT
  have hfield : ∀ c cs, get? ts.cols c = some cs → get? m1.row c = get? m.row c := by
    intro c cs hcs
    obtain ⟨v, hv, ht⟩ := hT c cs hcs
    rw [h4 c cs v hcs hv, hv]
    by_cases hd : isDefaultValue cs v = true
    · have := default_is_zero cs v ht hd (fun e => hz c (e ▸ hv))
      simp [hd, get?_newModel, hcs, this]
    · simp [hd]
  by_cases hu : m.uuid = ""
  · refine ⟨r, m1, h1, by simp [createModel, h2, hu], ?_, hfield⟩
    rw [h3, hu]; rfl
  · exact ⟨r, { m1 with uuid := m.uuid }, h1, by simp [createModel, h2, hu], rfl, hfield⟩

/-- the exception is real: the all-zeros UUID in a uuid column does not come back -/
theorem zero_uuid_is_lost :
    let ts : TableSchema := { cols := [("ref", { kind := .atom, key := .uuid })] }
    let m : Model := ⟨"", [("ref", .atom (.uuid zeroUUID))]⟩
    (match newRow ts m with
     | .ok r => (match createModel ts (wireRow r) "" with
        | .ok m' => get? m'.row "ref" == some (.atom (.uuid ""))
        | _ => false)
     | _ => false) = true := by
  decide

/-! non-vacuity: a table with one column of every kind and a well-typed model of it -/
example : WellTyped { cols := [("a", { kind := .atom, key := .integer }), ("o", { kind := .opt, key := .string }),
      ("s", { kind := .set, key := .uuid }), ("m", { kind := .map, key := .string, val := .real })] }
    ⟨"u1", [("a", .atom (.int 7)), ("o", .opt (some (.str "x"))), ("s", .set [.uuid "p"]), ("m", .map [(.str "k", .real 1)])]⟩ := by
  intro c cs h
  simp only [get?_cons, get?_nil] at h
  split at h
  · cases h; subst_vars; exact ⟨_, rfl, rfl⟩
  · split at h
    · cases h; subst_vars; refine ⟨.opt (some (.str "x")), by simp [get?_cons], rfl⟩
    · split at h
      · cases h; subst_vars; refine ⟨.set [.uuid "p"], by simp [get?_cons], rfl⟩
      · split at h
        · cases h; subst_vars; refine ⟨.map [(.str "k", .real 1)], by simp [get?_cons], rfl⟩
        · cases h

end Ovsdb.C09
