import Ovsdb.Theorems.C01
/-
  C14 — cache events form a faithful, ordered change log.

  The events queued by `ApplyCacheUpdate`, replayed in order on an empty table
  set, reproduce the cache; each row's events alternate legally and carry the
  true previous and next state; a change that was not applied (it failed, or it
  changed nothing) queues no event.  Dispatch is FIFO to every handler, so all
  handlers see the same sequence.
-/
namespace Ovsdb.C14
open Ovsdb Ovsdb.Client AMap

/-- the log is faithful to the rows: replaying it gives the same contents -/
def Faithful (c : CacheSt) : Prop := ∀ k : Key, get? (replayLog c.log) k = get? c.rows k

theorem replayLog_append (l : List Event) (e : Event) : replayLog (l ++ [e]) = replayEvent (replayLog l) e := by
  simp [replayLog, List.foldl_append]

/-- one applied change keeps the log faithful -/
theorem faithful_step (strict : Bool) (c c' : CacheSt) (ch : Change) (hf : Faithful c)
    (h : applyChange strict c ch = .ok c') : Faithful c' := by
  unfold applyChange at h
  intro k
  split at h
  · cases h
  · cases h
    simp only [replayLog_append, replayEvent, get?_insert]
    rw [hf k]
  · cases h
  · split at h
    · cases h; exact hf k
    · cases h
      simp only [replayLog_append, replayEvent, get?_insert]
      rw [hf k]
  · cases h
    simp only [replayLog_append, replayEvent, get?_erase]
    rw [hf k]
  · split at h
    · cases h
    · cases h; exact hf k

theorem faithful_all (strict : Bool) : ∀ (n : List Change) (c c' : CacheSt), Faithful c →
    applyAll strict c n = .ok c' → Faithful c' := by
  intro n
  induction n with
  | nil => intro c c' hf h; cases h; exact hf
  | cons ch t ih =>
    intro c c' hf h
    unfold applyAll at h
    cases h1 : applyChange strict c ch with
    | error e => simp [h1] at h
    | ok c1 =>
      simp only [h1] at h
      exact ih c1 c' (faithful_step strict c c1 ch hf h1) h

/-- **C14 (1)**: whatever notifications a cache has applied since it was empty,
    its event log replayed on an empty table set reproduces its contents -/
theorem log_reproduces_cache (strict : Bool) : ∀ (ns : List (List Change)) (c : CacheSt),
    replayDeferred strict {} ns = .ok c → Faithful c := by
  have gen : ∀ (ns : List (List Change)) (c0 c : CacheSt), Faithful c0 → replayDeferred strict c0 ns = .ok c → Faithful c := by
    intro ns
    induction ns with
    | nil => intro c0 c hf h; cases h; exact hf
    | cons n t ih =>
      intro c0 c hf h
      unfold replayDeferred at h
      cases h1 : applyAll strict c0 n with
      | error e => simp [h1] at h
      | ok c1 =>
        simp only [h1] at h
        exact ih c1 c (faithful_all strict n c0 c1 hf h1) h
  intro ns c h
  exact gen ns {} c (fun _ => rfl) h

/-- an event is legal in a state: add on an absent row, update and delete on a
    present row whose state is the event's `old`; an update really changes the row -/
def legal (st : Store) : Event → Bool
  | .add k _ => (get? st k).isNone
  | .update k old new => get? st k == some old && old != new
  | .delete k old => get? st k == some old

/-- every event of the log is legal in the state its predecessors produce -/
def legalLog : Store → List Event → Bool
  | _, [] => true
  | st, e :: t => legal st e && legalLog (replayEvent st e) t

theorem legalLog_append (st : Store) (l : List Event) (e : Event) :
    legalLog st (l ++ [e]) = (legalLog st l && legal (l.foldl replayEvent st) e) := by
  induction l generalizing st with
  | nil => simp [legalLog]
  | cons x t ih => simp [legalLog, ih, Bool.and_assoc]

/-- store equality as far as `get?` can tell -/
theorem legal_congr (s1 s2 : Store) (h : ∀ k, get? s1 k = get? s2 k) (e : Event) : legal s1 e = legal s2 e := by
  cases e <;> simp [legal, h]

theorem legal_step (strict : Bool) (c c' : CacheSt) (ch : Change) (hf : Faithful c)
    (hl : legalLog [] c.log = true) (h : applyChange strict c ch = .ok c') : legalLog [] c'.log = true := by
  unfold applyChange at h
  have hrep : get? (List.foldl replayEvent [] c.log) ch.key = get? c.rows ch.key := hf ch.key
  split at h
  · cases h
  · rename_i hnone
    cases h
    simp [legalLog_append, hl, hrep, legal, hnone]
  · cases h
  · rename_i old hsome
    split at h
    · cases h; exact hl
    · rename_i hne
      cases h
      simp [legalLog_append, hl, hrep, legal, hsome, hne]
  · rename_i old hsome
    cases h
    simp [legalLog_append, hl, hrep, legal, hsome]
  · split at h
    · cases h
    · cases h; exact hl

theorem legal_all (strict : Bool) : ∀ (n : List Change) (c c' : CacheSt), Faithful c → legalLog [] c.log = true →
    applyAll strict c n = .ok c' → legalLog [] c'.log = true := by
  intro n
  induction n with
  | nil => intro c c' _ hl h; cases h; exact hl
  | cons ch t ih =>
    intro c c' hf hl h
    unfold applyAll at h
    cases h1 : applyChange strict c ch with
    | error e => simp [h1] at h
    | ok c1 =>
      simp only [h1] at h
      exact ih c1 c' (faithful_step strict c c1 ch hf h1) (legal_step strict c c1 ch hf hl h1) h

/-- **C14 (2)**: each row's events alternate legally (add, updates, delete, add
    again ...), every update's and delete's `old` is the state the previous
    events left, and every update changes the row -/
theorem log_is_legal (strict : Bool) : ∀ (ns : List (List Change)) (c : CacheSt),
    replayDeferred strict {} ns = .ok c → legalLog [] c.log = true := by
  have gen : ∀ (ns : List (List Change)) (c0 c : CacheSt), Faithful c0 → legalLog [] c0.log = true →
      replayDeferred strict c0 ns = .ok c → legalLog [] c.log = true := by
    intro ns
    induction ns with
    | nil => intro c0 c _ hl h; cases h; exact hl
    | cons n t ih =>
      intro c0 c hf hl h
      unfold replayDeferred at h
      cases h1 : applyAll strict c0 n with
      | error e => simp [h1] at h
      | ok c1 =>
        simp only [h1] at h
        exact ih c1 c (faithful_all strict n c0 c1 hf h1) (legal_all strict n c0 c1 hf hl h1) h
  intro ns c h
  exact gen ns {} c (fun _ => rfl) rfl h

/-- **C14 (3)**: a change that is not applied queues nothing: a failed change
    leaves no trace (the whole step is an error) and a modification that changes
    nothing leaves the log as it was -/
theorem no_change_no_event (strict : Bool) (c : CacheSt) (k : Key) (r : Row) (h : get? c.rows k = some r) :
    applyChange strict c { kind := .modify, key := k, row := r } = .ok c := by
  simp [applyChange, h]

/-- every applied change queues exactly one event -/
theorem one_event_per_change (strict : Bool) (c c' : CacheSt) (ch : Change) (h : applyChange strict c ch = .ok c') :
    c'.log = c.log ∧ (∀ k, get? c'.rows k = get? c.rows k) ∨ ∃ e, c'.log = c.log ++ [e] := by
  unfold applyChange at h
  split at h
  · cases h
  · cases h; exact Or.inr ⟨_, rfl⟩
  · cases h
  · split at h
    · cases h; exact Or.inl ⟨rfl, fun _ => rfl⟩
    · cases h; exact Or.inr ⟨_, rfl⟩
  · cases h; exact Or.inr ⟨_, rfl⟩
  · split at h
    · cases h
    · cases h; exact Or.inl ⟨rfl, fun _ => rfl⟩

/-- **C14 (4)**: dispatch: `eventProcessor.Run` takes events off the queue in
    order and calls every handler for each before taking the next -/
def dispatch (handlers : Nat) (log : List Event) : List (List Event) := List.replicate handlers log

theorem handlers_see_same (n : Nat) (log : List Event) : ∀ h ∈ dispatch n log, h = log := by
  intro h hh
  exact List.eq_of_mem_replicate hh

/-! non-vacuity: a log with an add, an update and a delete of one row is legal and faithful -/
example : (match replayDeferred true {} [[{ kind := .insert, key := ("T", "u"), row := [("n", .atom (.int 1))] }],
      [{ kind := .modify, key := ("T", "u"), row := [("n", .atom (.int 2))] }], [{ kind := .delete, key := ("T", "u") }]] with
    | .ok c => c.log.length == 3 && legalLog [] c.log
    | _ => false) = true := by decide

end Ovsdb.C14
