import Ovsdb.Model.Modelgen
/-
  C20 — generated models fit the schema they were generated from: for every
  column schema the field type the generator writes is, up to the enum type
  aliases it introduces, exactly the type the mapper requires.
-/
namespace Ovsdb.C20
open Ovsdb.Wire Ovsdb.Modelgen

theorem atomicGo_erase (t : String) : (atomicGo t).erase = atomicGo t := by
  unfold atomicGo
  split <;> rfl

/-- **C20**: with or without enum types, for every column schema (every atomic
    type in key and value position, any min/max, enum or not), the generated
    field has the column's native type -/
theorem fieldType_is_nativeType (alias : String) (c : ColumnSchema) (enumTypes : Bool) :
    (fieldType alias c enumTypes).erase = nativeType c := by
  unfold fieldType nativeType
  cases ext c with
  | enum => cases enumTypes <;> simp [GoType.erase, atomicGo_erase]
  | map => simp [GoType.erase, atomicGo_erase]
  | set =>
    by_cases hk : (enumTypes && c.type.key.enumSet) = true <;>
    by_cases h1 : (c.type.minV = 0 && c.type.maxV = 1) = true <;>
    by_cases h2 : (c.type.minV = 1 && c.type.maxV = 1) = true <;>
    simp only [hk, h1, h2, if_true, if_false, GoType.erase, atomicGo_erase] <;> simp_all [GoType.erase, atomicGo_erase]
  | atomic t => simp [atomicGo_erase]

/-- without enum types the generated type is the native type itself -/
theorem fieldType_plain (alias : String) (c : ColumnSchema) : fieldType alias c false = nativeType c := by
  unfold fieldType nativeType
  cases ext c <;> simp

/-- the datatype `ext` is the string `extType` of the decoder model -/
theorem ext_is_extType (c : ColumnSchema) :
    c.extType = match ext c with
      | .map => "map" | .set => "set" | .enum => "enum" | .atomic t => t := by
  unfold ColumnSchema.extType ext
  by_cases h1 : c.type.value.isSome = true
  · simp [h1]
  · by_cases h2 : (c.type.minV ≠ 1 || c.type.maxV ≠ 1) = true
    · simp only [h1, h2, if_true]; simp
    · by_cases h3 : (!c.type.key.enum.isEmpty) = true
      · simp only [h1, h2, h3, if_true]; simp
      · simp only [h1, h2, h3]; simp

end Ovsdb.C20
