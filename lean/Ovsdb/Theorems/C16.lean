import Ovsdb.Theorems.C01
/-
  C16 — after losing its connection the client resynchronises completely
  (protocol level): whatever the cache held when the connection was lost and
  whatever happened to the database meanwhile, after the monitors are restarted
  the cache mirrors the database on every monitored table; with one monitor and
  with two.  The pinned client (a purge per restarted monitor) loses the tables
  of the monitor restarted first.
-/
namespace Ovsdb.C16
open Ovsdb Ovsdb.Client Ovsdb.C01 AMap

theorem purge_empty (c : CacheSt) (k : Key) : get? (purge c).rows k = none := rfl

/-- while the monitors are being restarted every notification is queued -/
theorem run_notifs_queue (strict : Bool) (ns : List (List Change)) (s : ClientSt) (h : s.deferring = true) :
    run strict false s (ns.map Action.notif) = { s with deferred := s.deferred ++ ns } :=
  run_notifs_deferred strict false ns s h

/-- **C16 (1)** one monitor.  The connection is lost with the cache in ANY state;
    the monitor is restarted when the database is `dbk`; notifications that
    follow its reply are handled before (`early`), or after (`late`), the
    reconnect completes.  The cache mirrors the database: no stale row survives,
    none is missing. -/
theorem reconnect_one_monitor (strict : Bool) (S : List String) (s0 : ClientSt) (hf : s0.failed = false)
    (dbk dbm : Store) (e1 e2 late : List (List Change))
    (hchain : Chain strict S dbk (e1 ++ e2 ++ late) dbm) :
    let s := run strict false s0 ([Action.disconnect, Action.reBegin 1] ++ e1.map Action.notif ++
      [Action.reReply 1 false (initialOf S dbk)] ++ e2.map Action.notif ++ [Action.reEnd] ++ late.map Action.notif)
    s.failed = false ∧ s.deferring = false ∧ Mirror S s.cache dbm := by
  obtain ⟨m, hc1, hc2⟩ := chain_append (e1 ++ e2) late dbk dbm hchain
  simp only [run_append]
  have h0 : run strict false s0 [Action.disconnect, Action.reBegin 1] = { s0 with deferring := true, deferred := [] } := by
    simp [run, step, onDisconnect, reconnectBegin]
  rw [h0, run_notifs_queue strict e1 _ rfl]
  obtain ⟨c1, hi1, hi2, _⟩ := initial_mirror (strict := strict) S dbk (purge s0.cache) (fun k _ => purge_empty _ k)
  have hrep : run strict false { s0 with deferring := true, deferred := ([] : List (List Change)) ++ e1 }
      [Action.reReply 1 false (initialOf S dbk)] = { s0 with cache := c1, deferring := true, deferred := e1 } := by
    simp [run, step, restartReply, hi1]
  rw [hrep, run_notifs_queue strict e2 _ rfl]
  obtain ⟨c2, hr1, hr2, _⟩ := replay_chain (e1 ++ e2) dbk m c1 hc1 hi2
  have hend : run strict false { s0 with cache := c1, deferring := true, deferred := e1 ++ e2 } [Action.reEnd]
      = { s0 with cache := c2, deferring := false, deferred := [] } := by
    simp [run, step, reconnectEnd, hr1]
  simp only
  rw [hend]
  have := run_notifs_direct strict false S late m dbm
    { s0 with cache := c2, deferring := false, deferred := [] } rfl hf hc2 hr2
  exact ⟨this.2.1, this.1, this.2.2.2.1⟩

/-- **C16 (2)** two monitors.  Monitor 1 (tables `S1`) is restarted when the
    database is `db1`, monitor 2 (`S2`) when it is `db2`; between the two only
    monitor 1 exists at the server, so the notifications `na` speak of `S1`
    only; `nb` and `late` speak of both.  Where the replies are applied relative
    to the notifications does not matter: everything is queued until the
    reconnect completes. -/
theorem reconnect_two_monitors (strict : Bool) (S1 S2 : List String) (hdisj : ∀ t, t ∈ S1 → t ∉ S2)
    (s0 : ClientSt) (hf : s0.failed = false) (db1 db2 dbm : Store)
    (na nb late x1 x2 x3 : List (List Change)) (hsplit : x1 ++ x2 ++ x3 = na ++ nb)
    (ha : Chain strict S1 db1 na db2) (hb : Chain strict (S1 ++ S2) db2 (nb ++ late) dbm) :
    let s := run strict false s0 ([Action.disconnect, Action.reBegin 2] ++ x1.map Action.notif ++
      [Action.reReply 2 false (initialOf S1 db1)] ++ x2.map Action.notif ++
      [Action.reReply 2 false (initialOf S2 db2)] ++ x3.map Action.notif ++ [Action.reEnd] ++ late.map Action.notif)
    s.failed = false ∧ s.deferring = false ∧ Mirror (S1 ++ S2) s.cache dbm := by
  obtain ⟨m, hb1, hb2⟩ := chain_append nb late db2 dbm hb
  simp only [run_append]
  have h0 : run strict false s0 [Action.disconnect, Action.reBegin 2] =
      { s0 with cache := purge s0.cache, deferring := true, deferred := [] } := by
    simp [run, step, onDisconnect, reconnectBegin]
  rw [h0, run_notifs_queue strict x1 _ rfl]
  -- monitor 1's contents
  obtain ⟨c1, hi1, hi2, hi3⟩ := initial_mirror (strict := strict) S1 db1 (purge s0.cache) (fun k _ => purge_empty _ k)
  have hrep1 : run strict false { s0 with cache := purge s0.cache, deferring := true, deferred := ([] : List (List Change)) ++ x1 }
      [Action.reReply 2 false (initialOf S1 db1)] = { s0 with cache := c1, deferring := true, deferred := x1 } := by
    simp [run, step, restartReply, hi1]
  rw [hrep1, run_notifs_queue strict x2 _ rfl]
  -- monitor 2's contents: the cache holds nothing of S2 yet
  have hnone2 : ∀ k : Key, k.1 ∈ S2 → get? c1.rows k = none := by
    intro k hk
    rw [hi3 k (fun h => hdisj _ h hk)]; rfl
  obtain ⟨c2, hj1, hj2, hj3⟩ := initial_mirror (strict := strict) S2 db2 c1 hnone2
  have hrep2 : run strict false { s0 with cache := c1, deferring := true, deferred := x1 ++ x2 }
      [Action.reReply 2 false (initialOf S2 db2)] = { s0 with cache := c2, deferring := true, deferred := x1 ++ x2 } := by
    simp [run, step, restartReply, hj1]
  rw [hrep2, run_notifs_queue strict x3 _ rfl]
  -- the queue: na (S1 only), then nb
  have hq : x1 ++ x2 ++ x3 = na ++ nb := hsplit
  have hc2S1 : Mirror S1 c2 db1 := fun k hk => by rw [hj3 k (hdisj _ hk)]; exact hi2 k hk
  obtain ⟨c3, hr1, hr2, hr3⟩ := replay_chain na db1 db2 c2 ha hc2S1
  have hc3S2 : Mirror S2 c3 db2 := fun k hk => by rw [hr3 k (fun h => hdisj _ h hk)]; exact hj2 k hk
  obtain ⟨c4, hs1, hs2, _⟩ := replay_chain nb db2 m c3 hb1 (mirror_append hr2 hc3S2)
  have hreplay : replayDeferred strict c2 (x1 ++ (x2 ++ x3)) = .ok c4 := by
    rw [← List.append_assoc, hq, replay_append, hr1]; exact hs1
  have hend : run strict false { s0 with cache := c2, deferring := true, deferred := x1 ++ x2 ++ x3 } [Action.reEnd]
      = { s0 with cache := c4, deferring := false, deferred := [] } := by
    simp [run, step, reconnectEnd, hreplay]
  simp only
  rw [hend]
  have := run_notifs_direct strict false (S1 ++ S2) late m dbm
    { s0 with cache := c4, deferring := false, deferred := [] } rfl hf hb2 hs2
  exact ⟨this.2.1, this.1, this.2.2.2.1⟩


/-- **C16 (2')** the same with the disjointness of the two table sets discharged by
    the guard of `Monitor()`: the monitors a client has were accepted one after the
    other, so no table is covered twice -/
theorem reconnect_two_monitors_guarded (strict : Bool) (S1 S2 : List String) (hacc : monitorAccepted [S1] S2 = true)
    (s0 : ClientSt) (hf : s0.failed = false) (db1 db2 dbm : Store)
    (na nb late x1 x2 x3 : List (List Change)) (hsplit : x1 ++ x2 ++ x3 = na ++ nb)
    (ha : Chain strict S1 db1 na db2) (hb : Chain strict (S1 ++ S2) db2 (nb ++ late) dbm) :
    let s := run strict false s0 ([Action.disconnect, Action.reBegin 2] ++ x1.map Action.notif ++
      [Action.reReply 2 false (initialOf S1 db1)] ++ x2.map Action.notif ++
      [Action.reReply 2 false (initialOf S2 db2)] ++ x3.map Action.notif ++ [Action.reEnd] ++ late.map Action.notif)
    s.failed = false ∧ s.deferring = false ∧ Mirror (S1 ++ S2) s.cache dbm :=
  reconnect_two_monitors strict S1 S2
    (fun t ht => (C01.monitorAccepted_iff [S1] S2).mp hacc S1 (List.mem_singleton.mpr rfl) t ht)
    s0 hf db1 db2 dbm na nb late x1 x2 x3 hsplit ha hb

/-! ### the pinned client loses the first monitor's tables (defect D8) -/

def rowA : Row := [("name", .atom (.str "a"))]

/-- two monitors (T1; T2), each table holding one row; reconnect with nothing
    changed meanwhile -/
def lostWitness (pinned : Bool) : ClientSt :=
  let db : Store := [(("T1", "u1"), rowA), (("T2", "u2"), rowA)]
  run true pinned { deferring := false, cache := { rows := db } }
    [.disconnect, .reBegin 2, .reReply 2 false (initialOf ["T1"] db), .reReply 2 false (initialOf ["T2"] db), .reEnd]

theorem pinned_loses_first_monitor :
    (get? (lostWitness true).cache.rows ("T1", "u1")).isNone = true ∧ (get? (lostWitness true).cache.rows ("T2", "u2")).isSome = true := by
  decide

theorem repaired_keeps_both :
    (get? (lostWitness false).cache.rows ("T1", "u1")).isSome = true ∧ (get? (lostWitness false).cache.rows ("T2", "u2")).isSome = true ∧
    (lostWitness false).failed = false ∧ (lostWitness false).deferring = false := by
  decide

end Ovsdb.C16
