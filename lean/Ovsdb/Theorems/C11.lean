import Ovsdb.Theorems.C10
import Ovsdb.Model.Updates
/-
  C11 — "Aggregating successive updates equals the single net update".

  When several changes to the same row are accumulated, the accumulated update
  has the first old value and the last new value, its modify difference
  applied to the first old value gives the last new value, and it disappears
  entirely if the row ends as it began or is inserted and deleted again.
  Insert followed by changes is reported as one insert of the final row; any
  change followed by delete is reported as one delete of the original row.

  Part 1 (per column, any chain length): folding `mergeDifference` over the
  successive differences of a column starting from `o` yields exactly the
  difference from `o` to the last value — in particular for maps, where the
  difference is NOT transitive and the original value must be consulted.
  Part 2 (per row): the insert / modify / delete algebra of `mergeRowUpdate`
  and `mergeUpdate` over chains of any length.
-/
namespace Ovsdb.C11
open Ovsdb AMap Ovsdb.C10

/-- `acc` is the difference that turns `o` into `cur` (none = no difference),
    in the representation the code keeps it -/
def IsDiff (o cur : Value) (acc : Option Value) : Prop :=
  match o, cur, acc with
  | .set so, .set sc, none => ∀ e, e ∈ so ↔ e ∈ sc
  | .set so, .set sc, some (.set d) => d ≠ [] ∧ d.Nodup ∧ ∀ e, e ∈ d ↔ (e ∈ so ∧ e ∉ sc) ∨ (e ∈ sc ∧ e ∉ so)
  | .map mo, .map mc, none => ∀ k, get? mo k = get? mc k
  | .map mo, .map mc, some (.map d) => d ≠ [] ∧ ∀ k, get? d k = mapDiffSpec mo mc k
  | .atom a, .atom c, none => a = c
  | .atom a, .atom c, some (.atom d) => d = c ∧ a ≠ c
  | .opt a, .opt c, none => a = c
  | .opt a, .opt c, some (.opt d) => d = c ∧ a ≠ c
  | _, _, _ => False

/-- the difference of one step as the code hands it to `mergeDifference`: for
    sets and maps nothing when the step changes nothing; for other kinds always
    the new value -/
def stepDiff (x y : Value) : Option Value :=
  match y with
  | .set _ | .map _ => if (difference (some x) (some y)).2 then (difference (some x) (some y)).1 else none
  | _ => some y

/-- one accumulation step (`addMutateOperation`, `mergeModifyRow`) -/
def accStep (o : Value) (acc : Option Value) (x y : Value) : Option Value :=
  let r := mergeDifference (some o) acc (stepDiff x y)
  if r.2 then r.1 else none

/-- fold over a chain of successive values of one column -/
def foldChain (o : Value) : Value → Option Value → List Value → Option Value
  | _, acc, [] => acc
  | x, acc, y :: rest => foldChain o y (accStep o acc x y) rest

theorem stepDiff_set (x y : List Atom) (hx : x.Nodup) (hy : y.Nodup) :
    (stepDiff (.set x) (.set y) = none ∧ ∀ e, e ∈ x ↔ e ∈ y) ∨
    (∃ d, stepDiff (.set x) (.set y) = some (.set d) ∧ d ≠ [] ∧ d.Nodup ∧
      ∀ e, e ∈ d ↔ (e ∈ x ∧ e ∉ y) ∨ (e ∈ y ∧ e ∉ x)) := by
  obtain ⟨d, hd, hn, hm⟩ := difference_set x y hx hy
  unfold stepDiff
  simp only [hd]
  by_cases he : d = []
  · left
    subst he
    refine ⟨by simp, ?_⟩
    intro e
    have := hm e
    simp only [List.not_mem_nil, false_iff, not_or, not_and, Decidable.not_not] at this
    exact ⟨this.1, this.2⟩
  · right
    exact ⟨d, by simp [he], he, hn, hm⟩

theorem stepDiff_map (x y : AMap Atom Atom) :
    (stepDiff (.map x) (.map y) = none ∧ ∀ k, get? x k = get? y k) ∨
    (∃ d, stepDiff (.map x) (.map y) = some (.map d) ∧ d ≠ [] ∧ ∀ k, get? d k = mapDiffSpec x y k) := by
  obtain ⟨d, hd, hm⟩ := difference_map x y
  unfold stepDiff
  simp only [hd]
  by_cases he : d = []
  · left
    subst he
    refine ⟨by simp, ?_⟩
    apply (mapDiffSpec_none_iff x y).mp
    intro k; rw [← hm k]; rfl
  · right
    exact ⟨d, by simp [he], he, hm⟩

theorem setDifference_some_some (a d : List Atom) (ha : a ≠ []) (hd : d ≠ []) (han : a.Nodup) :
    ∃ r, setDifference (some a) (some d) = (some r, decide (r ≠ [])) ∧ r.Nodup ∧
      ∀ e, e ∈ r ↔ (e ∈ a ∧ e ∉ d) ∨ (e ∈ d ∧ e ∉ a) := by
  have h1 : ¬ a.length = 0 := fun e => ha (List.length_eq_zero_iff.mp e)
  have h2 : ¬ d.length = 0 := fun e => hd (List.length_eq_zero_iff.mp e)
  simp only [setDifference, h1, h2, if_false]
  by_cases h3 : (setDiffCore a d).length = 0
  · have e3 : setDiffCore a d = [] := List.length_eq_zero_iff.mp h3
    refine ⟨[], by simp [h3], by simp, ?_⟩
    intro e; rw [← mem_setDiffCore a d han e, e3]
  · have : setDiffCore a d ≠ [] := fun e => h3 (by simp [e])
    exact ⟨_, by simp [h3, this], nodup_setDiffCore a d han, mem_setDiffCore a d han⟩

theorem mergeMap_some_some (o a d : AMap Atom Atom) (ha : a ≠ []) (hd : d ≠ []) :
    ∃ r, mergeMapDifference (some o) (some a) (some d) = (some r, decide (r ≠ [])) ∧
      ∀ k, get? r k = match get? d k with
        | some bv => mergeMapVal o a k bv
        | none => get? a k := by
  have h1 : ¬ mapLen a = 0 := fun e => ha ((mapLen_eq_zero a).mp e)
  have h2 : ¬ mapLen d = 0 := fun e => hd ((mapLen_eq_zero d).mp e)
  simp only [mergeMapDifference, h1, h2, if_false, Option.getD_some]
  by_cases h3 : mapLen (mergeMapCore o a d) = 0
  · have e3 := (mapLen_eq_zero _).mp h3
    refine ⟨[], by simp [h3], ?_⟩
    intro k
    have := get?_mergeMapCore o a d k
    rw [e3] at this
    exact this
  · have : mergeMapCore o a d ≠ [] := fun e => h3 ((mapLen_eq_zero _).mpr e)
    exact ⟨_, by simp [h3, this], get?_mergeMapCore o a d⟩

/-- the non-transitive case: merging the difference o→x with the difference
    x→y with respect to the original `o` gives the difference o→y, key by key -/
theorem map_merge_pointwise (o x y a d : AMap Atom Atom)
    (ha : ∀ k, get? a k = mapDiffSpec o x k) (hd : ∀ k, get? d k = mapDiffSpec x y k) (k : Atom) :
    (match get? d k with
      | some bv => mergeMapVal o a k bv
      | none => get? a k) = mapDiffSpec o y k := by
  rw [hd k]
  unfold mergeMapVal
  rw [ha k]
  unfold mapDiffSpec
  cases ho : get? o k <;> cases hx : get? x k <;> cases hy : get? y k <;> simp <;> grind

/-- **one accumulation step keeps the accumulated difference exact** -/
theorem accStep_isDiff (o x y : Value) (acc : Option Value) (hk1 : o.SameKind x) (hk2 : x.SameKind y)
    (ho : o.WF) (hx : x.WF) (hy : y.WF) (h : IsDiff o x acc) : IsDiff o y (accStep o acc x y) := by
  cases o <;> cases x <;> simp only [Value.SameKind] at hk1 <;> cases y <;> simp only [Value.SameKind] at hk2
  · -- atoms
    rename_i a b c
    cases acc with
    | none =>
      simp only [IsDiff] at h
      subst h
      simp only [accStep, stepDiff, mergeDifference, Value.kind, mergeAtomicDifference, deepEqualOpt, deepEqual]
      by_cases e : a = c
      · subst e; simp [IsDiff]
      · have : ¬ Value.atom a = Value.atom c := by simp [e]
        simp [IsDiff, e, this]
    | some v =>
      cases v <;> simp only [IsDiff] at h
      simp only [accStep, stepDiff, mergeDifference, Value.kind, mergeAtomicDifference, deepEqualOpt, deepEqual]
      by_cases e : a = c
      · subst e; simp [IsDiff]
      · have : ¬ Value.atom a = Value.atom c := by simp [e]
        simp [IsDiff, e, this]
  · -- optionals
    rename_i a b c
    cases acc with
    | none =>
      simp only [IsDiff] at h
      subst h
      simp only [accStep, stepDiff, mergeDifference, Value.kind, mergeAtomicDifference, deepEqualOpt, deepEqual]
      by_cases e : a = c
      · subst e; simp [IsDiff]
      · have : ¬ Value.opt a = Value.opt c := by simp [e]
        simp [IsDiff, e, this]
    | some v =>
      cases v <;> simp only [IsDiff] at h
      simp only [accStep, stepDiff, mergeDifference, Value.kind, mergeAtomicDifference, deepEqualOpt, deepEqual]
      by_cases e : a = c
      · subst e; simp [IsDiff]
      · have : ¬ Value.opt a = Value.opt c := by simp [e]
        simp [IsDiff, e, this]
  · -- sets
    rename_i so sx sy
    simp only [Value.WF] at ho hx hy
    rcases stepDiff_set sx sy hx hy with ⟨hs, heq⟩ | ⟨d, hs, hdne, hdn, hdm⟩
    · -- this step changes nothing
      cases acc with
      | none =>
        simp only [IsDiff] at h
        simp only [accStep, hs, mergeDifference, IsDiff]
        intro e; rw [h e, heq e]
      | some v =>
        cases v <;> simp only [IsDiff] at h
        rename_i a
        obtain ⟨hane, han, ham⟩ := h
        have hlen : a.length ≠ 0 := fun e => hane (List.length_eq_zero_iff.mp e)
        simp only [accStep, hs, mergeDifference, Value.kind, asSet, setDifference]
        simp only [hlen, ne_eq, not_false_eq_true, bne_iff_ne, decide_true, Option.map_some, if_true, IsDiff]
        exact ⟨hane, han, fun e => by rw [ham e, heq e]⟩
    · cases acc with
      | none =>
        simp only [IsDiff] at h
        have hlen : d.length ≠ 0 := fun e => hdne (List.length_eq_zero_iff.mp e)
        simp only [accStep, hs, mergeDifference, Value.kind, asSet, setDifference]
        simp only [hlen, ne_eq, not_false_eq_true, bne_iff_ne, decide_true, Option.map_some, if_true, IsDiff]
        exact ⟨hdne, hdn, fun e => by rw [hdm e, h e]⟩
      | some v =>
        cases v <;> simp only [IsDiff] at h
        rename_i a
        obtain ⟨hane, han, ham⟩ := h
        obtain ⟨r, hr, hrn, hrm⟩ := setDifference_some_some a d hane hdne han
        simp only [accStep, hs, mergeDifference, Value.kind, asSet, hr, Option.map_some]
        have hmem : ∀ e, e ∈ r ↔ (e ∈ so ∧ e ∉ sy) ∨ (e ∈ sy ∧ e ∉ so) := by
          intro e
          rw [hrm e, ham e, hdm e]
          by_cases h1 : e ∈ so <;> by_cases h2 : e ∈ sx <;> by_cases h3 : e ∈ sy <;> simp [h1, h2, h3]
        by_cases hre : r = []
        · subst hre
          simp only [ne_eq, not_true_eq_false, decide_false, Bool.false_eq_true, if_false, IsDiff]
          intro e
          have := hmem e
          simp only [List.not_mem_nil, false_iff, not_or, not_and, Decidable.not_not] at this
          exact ⟨this.1, this.2⟩
        · simp only [ne_eq, hre, not_false_eq_true, decide_true, if_true, IsDiff]
          exact ⟨trivial, hrn, hmem⟩
  · -- maps
    rename_i mo mx my
    rcases stepDiff_map mx my with ⟨hs, heq⟩ | ⟨d, hs, hdne, hdm⟩
    · cases acc with
      | none =>
        simp only [IsDiff] at h
        simp only [accStep, hs, mergeDifference, IsDiff]
        intro k; rw [h k, heq k]
      | some v =>
        cases v <;> simp only [IsDiff] at h
        rename_i a
        obtain ⟨hane, ham⟩ := h
        have hlen : mapLen a ≠ 0 := fun e => hane ((mapLen_eq_zero a).mp e)
        simp only [accStep, hs, mergeDifference, Value.kind, asMap, mergeMapDifference]
        simp only [hlen, ne_eq, not_false_eq_true, bne_iff_ne, decide_true, Option.map_some, if_true, IsDiff]
        refine ⟨hane, fun k => ?_⟩
        rw [ham k]
        unfold mapDiffSpec
        rw [heq k]
    · cases acc with
      | none =>
        simp only [IsDiff] at h
        have hlen : mapLen d ≠ 0 := fun e => hdne ((mapLen_eq_zero d).mp e)
        simp only [accStep, hs, mergeDifference, Value.kind, asMap, mergeMapDifference]
        simp only [hlen, ne_eq, not_false_eq_true, bne_iff_ne, decide_true, Option.map_some, if_true, IsDiff]
        refine ⟨hdne, fun k => ?_⟩
        rw [hdm k]
        unfold mapDiffSpec
        rw [h k]
      | some v =>
        cases v <;> simp only [IsDiff] at h
        rename_i a
        obtain ⟨hane, ham⟩ := h
        obtain ⟨r, hr, hrm⟩ := mergeMap_some_some mo a d hane hdne
        simp only [accStep, hs, mergeDifference, Value.kind, asMap, hr, Option.map_some]
        have hmem : ∀ k, get? r k = mapDiffSpec mo my k := by
          intro k
          rw [hrm k]
          exact map_merge_pointwise mo mx my a d ham hdm k
        by_cases hre : r = []
        · subst hre
          simp only [ne_eq, not_true_eq_false, decide_false, Bool.false_eq_true, if_false, IsDiff]
          apply (mapDiffSpec_none_iff mo my).mp
          intro k; rw [← hmem k]; rfl
        · simp only [ne_eq, hre, not_false_eq_true, decide_true, if_true, IsDiff]
          exact ⟨trivial, hmem⟩

/-- a chain of successive values of one column, all of one kind and well-formed -/
def ChainOK (x : Value) : List Value → Prop
  | [] => True
  | y :: rest => x.SameKind y ∧ y.WF ∧ ChainOK y rest

def lastOf (x : Value) : List Value → Value
  | [] => x
  | y :: rest => lastOf y rest

theorem sameKind_trans {a b c : Value} (h1 : a.SameKind b) (h2 : b.SameKind c) : a.SameKind c := by
  cases a <;> cases b <;> simp only [Value.SameKind] at h1 <;> cases c <;> simp only [Value.SameKind] at h2 ⊢

/-- **C11 (1)**: for a chain of ANY length, the accumulated difference is the
    difference from the first old value to the last new value. -/
theorem fold_isDiff (o : Value) (ho : o.WF) (xs : List Value) :
    ∀ (x : Value) (acc : Option Value), o.SameKind x → x.WF → ChainOK x xs → IsDiff o x acc →
      IsDiff o (lastOf x xs) (foldChain o x acc xs) := by
  induction xs with
  | nil => intro x acc _ _ _ h; exact h
  | cons y rest ih =>
    intro x acc hk hx hc h
    obtain ⟨hk2, hy, hrest⟩ := hc
    simp only [foldChain, lastOf]
    exact ih y _ (sameKind_trans hk hk2) hy hrest (accStep_isDiff o x y acc hk hk2 ho hx hy h)

theorem isDiff_refl (o : Value) : IsDiff o o none := by
  cases o <;> simp [IsDiff]

/-- what an exact accumulated difference means: it is absent exactly when the
    column ends as it began, and applied to the first old value it yields the
    last new value -/
theorem isDiff_meaning (o cur : Value) (acc : Option Value) (ho : o.WF) (h : IsDiff o cur acc) :
    (acc = none ↔ cur ≃ᵥ o) ∧
    (∀ d, acc = some d → ∃ r, (applyDifference (some o) (some d)).1 = some r ∧ r ≃ᵥ cur) := by
  cases o <;> cases cur <;> cases acc <;> simp only [IsDiff] at h
  all_goals try (rename_i v; cases v <;> simp only [IsDiff] at h)
  · rename_i a c
    exact ⟨by simp [Value.Equiv, h], by simp⟩
  · rename_i a c d
    refine ⟨by simp [Value.Equiv]; exact fun e => h.2 e.symm, ?_⟩
    intro d' hd'; cases hd'
    exact ⟨_, rfl, by simp [Value.Equiv, h.1]⟩
  · rename_i a c
    exact ⟨by simp [Value.Equiv, h], by simp⟩
  · rename_i a c d
    refine ⟨by simp [Value.Equiv]; exact fun e => h.2 e.symm, ?_⟩
    intro d' hd'; cases hd'
    exact ⟨_, rfl, by simp [Value.Equiv, h.1]⟩
  · rename_i so sc
    exact ⟨by simp [Value.Equiv]; exact fun e => (h e).symm, by simp⟩
  · rename_i so sc d
    obtain ⟨hne, hdn, hm⟩ := h
    simp only [Value.WF] at ho
    constructor
    · simp only [reduceCtorEq, Value.Equiv, false_iff]
      intro heq
      cases d with
      | nil => exact hne rfl
      | cons d0 dt =>
        have := (hm d0).mp (by simp)
        rcases this with ⟨h1, h2⟩ | ⟨h1, h2⟩
        · exact h2 ((heq d0).mpr h1)
        · exact h2 ((heq d0).mp h1)
    · intro d' hd'; cases hd'
      obtain ⟨r, hr, _, hrm, _⟩ := apply_set so d ho hdn
      refine ⟨_, hr, ?_⟩
      intro e
      rw [hrm e, hm e]
      by_cases h1 : e ∈ so <;> by_cases h2 : e ∈ sc <;> simp [h1, h2]
  · rename_i mo mc
    exact ⟨by simp [Value.Equiv]; exact fun k => (h k).symm, by simp⟩
  · rename_i mo mc d
    obtain ⟨hne, hm⟩ := h
    constructor
    · simp only [reduceCtorEq, Value.Equiv, false_iff]
      intro heq
      have : ∀ k, get? d k = none := by
        intro k; rw [hm k]
        exact (mapDiffSpec_none_iff mo mc).mpr (fun k => (heq k).symm) k
      exact hne (get?_none_of_forall this)
    · intro d' hd'; cases hd'
      obtain ⟨r, hr, hrm, _⟩ := apply_map mo d
      refine ⟨_, hr, ?_⟩
      intro k
      rw [hrm k]
      unfold mapDiffSpec
      rw [hm k]
      unfold mapDiffSpec
      cases h1 : get? mo k <;> cases h2 : get? mc k <;> simp <;> grind

/-- **C11 (2)**: the accumulated modify difference of a column, over a chain of
    any length, (a) disappears exactly when the column ends as it began and
    (b) applied to the first old value gives the last new value. -/
theorem merge_net (o : Value) (ho : o.WF) (xs : List Value) (hc : ChainOK o xs) :
    (foldChain o o none xs = none ↔ lastOf o xs ≃ᵥ o) ∧
    (∀ d, foldChain o o none xs = some d →
      ∃ r, (applyDifference (some o) (some d)).1 = some r ∧ r ≃ᵥ lastOf o xs) := by
  have hk : o.SameKind o := by cases o <;> simp [Value.SameKind]
  exact isDiff_meaning o _ _ ho (fold_isDiff o ho xs o none hk ho hc (isDiff_refl o))

/-! ### Part 2: the insert / modify / delete algebra of a row -/

/-- **C11 (3)**: insert followed by a change is one insert of the final row -/
theorem insert_then_modify (ts : TableSchema) (a b : RowUpdate2) (ha : a.insert.isSome) (hb : b.modify.isSome) :
    mergeRowUpdate ts (some a) (some b) = some (some { a with new := b.new, insert := b.new }) := by
  simp [mergeRowUpdate, ha, hb]

/-- **C11 (4)**: insert followed by delete disappears entirely -/
theorem insert_then_delete (ts : TableSchema) (a b : RowUpdate2) (ha : a.insert.isSome) (hbm : b.modify.isNone)
    (hb : b.delete = true) : mergeRowUpdate ts (some a) (some b) = some none := by
  have : b.modify.isSome = false := by cases h : b.modify <;> simp_all
  simp [mergeRowUpdate, ha, hb, this]

/-- **C11 (5)**: any change followed by delete is one delete carrying the
    ORIGINAL row (`a.old`) -/
theorem modify_then_delete (ts : TableSchema) (a b : RowUpdate2) (ha : a.insert.isNone) (hbm : b.modify.isNone)
    (hb : b.delete = true) :
    mergeRowUpdate ts (some a) (some b) =
      some (some { a with initial := none, insert := none, modify := none, new := none, delete := true }) := by
  have h1 : b.modify.isSome = false := by cases h : b.modify <;> simp_all
  have h2 : a.insert.isSome = false := by cases h : a.insert <;> simp_all
  simp [mergeRowUpdate, hb, h1, h2]

/-- **C11 (6)**: two modifications merge into one whose modify row is
    `mergeModifyRow` w.r.t. the ORIGINAL row, or disappear if that is empty -/
theorem modify_then_modify (ts : TableSchema) (a b : RowUpdate2) (o am bm : OvsRow) (hai : a.insert.isNone)
    (hao : a.old = some o) (ham : a.modify = some am) (hbm : b.modify = some bm) :
    mergeRowUpdate ts (some a) (some b) =
      match mergeModifyRow ts o am bm with
      | none => some none
      | some m => some (some { a with new := b.new, modify := some m }) := by
  have h2 : a.insert.isSome = false := by cases h : a.insert <;> simp_all
  simp only [mergeRowUpdate, h2, ham, hbm, hao, Option.isSome_some, Bool.false_and, Bool.and_self, if_true,
    Bool.false_eq_true, if_false]
  cases mergeModifyRow ts o am bm <;> rfl

/-- **C11 (7)**: the model half: the accumulated update keeps the first old
    model and takes the last new model -/
theorem models_first_old_last_new (ts : TableSchema) (a b r : ModelUpdate) (h : mergeUpdate ts a b = some r)
    (hr : r ≠ {}) (ha : ¬ (a.old.isNone ∧ a.new.isNone)) (hb : ¬ (b.old.isNone ∧ b.new.isNone)) :
    r.old = a.old ∧ r.new = b.new := by
  unfold mergeUpdate at h
  simp only at h
  split at h
  · cases h
  · rename_i o n hmodels
    split at h
    · cases h
    · cases h; exact absurd rfl hr
    · cases h
      simp only
      split at hmodels
      · rename_i hc; exact absurd hc (by simpa using hb)
      · split at hmodels
        · rename_i hc; exact absurd hc (by simpa using ha)
        · split at hmodels
          · cases hmodels; exact ⟨rfl, rfl⟩
          · split at hmodels
            · rename_i hc
              cases hmodels
              refine ⟨rfl, ?_⟩
              cases hbn : b.new <;> simp_all
            · cases hmodels

/-! Non-vacuity: a concrete map chain in which an intermediate value restores
    one key and the differences overlap (o = {a:1,b:2}; x = {a:9,b:2}; y = {a:1,b:3}). -/
section
def exO : Value := .map [(.str "a", .int 1), (.str "b", .int 2)]
def exX : Value := .map [(.str "a", .int 9), (.str "b", .int 2)]
def exY : Value := .map [(.str "a", .int 1), (.str "b", .int 3)]
example : ChainOK exO [exX, exY] := by simp [ChainOK, exO, exX, exY, Value.SameKind, Value.WF]
example : foldChain exO exO none [exX, exY] = some (.map [(.str "b", .int 3)]) := by decide
end

end Ovsdb.C11
