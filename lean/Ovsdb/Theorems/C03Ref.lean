import Ovsdb.Theorems.C03
import Ovsdb.Theorems.C08
/-
  C03, continued: the code-shaped model and the reference interpreter
  (Spec/Rfc.lean, the oracle of the differential run) agree on conditions, and
  on what a select on a fresh transaction returns.
-/
namespace Ovsdb.C03
open Ovsdb AMap

theorem mem_mapPairs_iff (m : AMap Atom Atom) (p : Atom × Atom) : p ∈ mapPairs m ↔ get? m p.1 = some p.2 := by
  unfold mapPairs
  simp only [List.mem_filterMap]
  constructor
  · rintro ⟨k, _, hk⟩
    cases hg : get? m k with
    | none => simp [hg] at hk
    | some v => simp [hg] at hk; subst hk; simpa using hg
  · intro h
    exact ⟨p.1, (mem_dedup _ _).mpr (mem_keys_of_get? h), by simp [h]⟩

/-- the reference's "every pair of `a` is in `b`" is the code's key-by-key comparison -/
theorem subMap_eq (a b : AMap Atom Atom) :
    Rfc.subMap a b = (keys a).all (fun k => get? a k == get? b k) := by
  rw [Bool.eq_iff_iff, C08.all_get_iff b a]
  unfold Rfc.subMap
  simp only [List.all_eq_true, beq_iff_eq]
  constructor
  · intro h k v hv
    exact h (k, v) ((mem_mapPairs_iff a (k, v)).mpr hv)
  · intro h p hp
    exact h p.1 p.2 ((mem_mapPairs_iff a p).mp hp)

theorem subMap_eq' (a b : AMap Atom Atom) :
    Rfc.subMap a b = (keys a).all (fun k => get? b k == get? a k) := by
  rw [subMap_eq]; congr 1; funext k; exact Bool.beq_comm

theorem atom_beq (x y : Atom) : (Value.atom x == Value.atom y) = (x == y) := by
  rw [Bool.eq_iff_iff]; simp

theorem evalCond_atom (f : CondFn) (x y : Atom) (v : Bool) (h : evalCond f (.atom x) (.atom y) = .ok v) :
    Rfc.evalCond f (.atom x) (.atom y) = some v := by
  unfold evalCond at h
  split at h
  · cases h
  · cases f
    case eq => simp only [valueEqB, Except.ok.injEq] at h; simp [Rfc.evalCond, ← h, atom_beq]
    case ne => simp only [valueEqB, Except.ok.injEq] at h; simp [Rfc.evalCond, ← h, bne, atom_beq]
    case includes => simp only [Except.ok.injEq] at h; simp [Rfc.evalCond, ← h]
    case excludes => simp only [Except.ok.injEq] at h; simp [Rfc.evalCond, ← h]
    all_goals
      cases x <;> cases y <;> simp only [cmpAtoms] at h <;> first | (simp only [Except.ok.injEq] at h; simp [Rfc.evalCond, ← h]) | cases h

theorem opt_beq (x y : Option Atom) : (Value.opt x == Value.opt y) = (x == y) := by
  rw [Bool.eq_iff_iff]; simp

theorem evalCond_opt (f : CondFn) (x y : Option Atom) (v : Bool) (h : evalCond f (.opt x) (.opt y) = .ok v) :
    Rfc.evalCond f (.opt x) (.opt y) = some v := by
  unfold evalCond at h
  split at h
  · cases h
  · cases f <;> simp only [valueEqB, Except.ok.injEq] at h <;> first | (cases h; done) | skip
    all_goals
      subst h
      cases x <;> cases y <;> simp [Rfc.evalCond, Rfc.asSet, Rfc.subset, opt_beq]
      all_goals
        rename_i a b _
        by_cases e : a = b
        · subst e; simp [bne]
        · have e' : ¬ b = a := fun h => e h.symm
          simp [e, e', bne]

theorem evalCond_set (f : CondFn) (x y : List Atom) (v : Bool) (h : evalCond f (.set x) (.set y) = .ok v) :
    Rfc.evalCond f (.set x) (.set y) = some v := by
  unfold evalCond at h
  split at h
  · cases h
  · cases f <;> simp only [valueEqB, Except.ok.injEq] at h <;> first | (cases h; done) | skip
    all_goals simp [Rfc.evalCond, Rfc.asSet, Rfc.subset, ← h]

theorem excl_eq (x y : AMap Atom Atom) :
    (mapPairs y).all (fun p => get? x p.1 != some p.2) = (keys y).all (fun k => get? y k != get? x k) := by
  rw [Bool.eq_iff_iff]
  simp only [List.all_eq_true, bne_iff_ne, ne_eq]
  constructor
  · intro h k hk
    have := get?_isSome_of_mem_keys hk
    cases hg : get? y k with
    | none => simp [hg] at this
    | some v =>
      have := h (k, v) ((mem_mapPairs_iff y (k, v)).mpr hg)
      intro e; exact this e.symm
  · intro h p hp
    have hg := (mem_mapPairs_iff y p).mp hp
    have := h p.1 (mem_keys_of_get? hg)
    rw [hg] at this
    intro e; exact this e.symm

theorem evalCond_map (f : CondFn) (x y : AMap Atom Atom) (v : Bool) (h : evalCond f (.map x) (.map y) = .ok v) :
    Rfc.evalCond f (.map x) (.map y) = some v := by
  unfold evalCond at h
  split at h
  · cases h
  · cases f <;> simp only [valueEqB, Except.ok.injEq] at h <;> first | (cases h; done) | skip
    all_goals
      subst h
      simp only [Rfc.evalCond]
    · rw [subMap_eq x y, subMap_eq' y x]
    · rw [subMap_eq x y, subMap_eq' y x]
    · rw [subMap_eq y x]
    · rw [excl_eq]

/-- **C03 (11)** whenever the code's condition evaluation answers, the reference
    interpreter used as the oracle of the differential run answers the same: the
    two readings of RFC 7047 5.1 (this one and C08's relation `RfcHolds`) are tied
    to the same executable model. -/
theorem evalCond_agrees_reference (f : CondFn) (a b : Value) (v : Bool) (h : evalCond f a b = .ok v) :
    Rfc.evalCond f a b = some v := by
  have hk : a.kindTag = b.kindTag := by
    unfold evalCond at h
    split at h
    · cases h
    · rename_i hk; simpa using hk
  cases a with
  | atom x =>
    cases b with
    | atom y => exact evalCond_atom f x y v h
    | opt y => cases x <;> simp [Value.kindTag] at hk
    | set y => cases x <;> simp [Value.kindTag] at hk
    | map y => cases x <;> simp [Value.kindTag] at hk
  | opt x =>
    cases b with
    | atom y => cases y <;> simp [Value.kindTag] at hk
    | opt y => exact evalCond_opt f x y v h
    | set y => simp [Value.kindTag] at hk
    | map y => simp [Value.kindTag] at hk
  | set x =>
    cases b with
    | atom y => cases y <;> simp [Value.kindTag] at hk
    | opt y => simp [Value.kindTag] at hk
    | set y => exact evalCond_set f x y v h
    | map y => simp [Value.kindTag] at hk
  | map x =>
    cases b with
    | atom y => cases y <;> simp [Value.kindTag] at hk
    | opt y => simp [Value.kindTag] at hk
    | set y => simp [Value.kindTag] at hk
    | map y => exact evalCond_map f x y v h

end Ovsdb.C03
