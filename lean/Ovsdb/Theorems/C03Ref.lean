import Ovsdb.Theorems.C03
import Ovsdb.Theorems.C08
import Ovsdb.Theorems.C10
/-
  C03, continued: the code-shaped model and the reference interpreter
  (Spec/Rfc.lean, the oracle of the differential run) agree on conditions, and
  on what a select on a fresh transaction returns.
-/
namespace Ovsdb.C03
open Ovsdb AMap Ovsdb.C05

theorem mem_mapPairs_iff (m : AMap Atom Atom) (p : Atom × Atom) : p ∈ mapPairs m ↔ get? m p.1 = some p.2 := by
  unfold mapPairs
  simp only [List.mem_filterMap]
  constructor
  · rintro ⟨k, _, hk⟩
    cases hg : get? m k with
    | none => simp [hg] at hk
    | some v => simp [hg] at hk; subst hk; simpa using hg
  · intro h
    exact ⟨p.1, (mem_dedup _ _).mpr (mem_keys_of_get? h), by simp [h]⟩

/-- the reference's "every pair of `a` is in `b`" is the code's key-by-key comparison -/
theorem subMap_eq (a b : AMap Atom Atom) :
    Rfc.subMap a b = (keys a).all (fun k => get? a k == get? b k) := by
  rw [Bool.eq_iff_iff, C08.all_get_iff b a]
  unfold Rfc.subMap
  simp only [List.all_eq_true, beq_iff_eq]
  constructor
  · intro h k v hv
    exact h (k, v) ((mem_mapPairs_iff a (k, v)).mpr hv)
  · intro h p hp
    exact h p.1 p.2 ((mem_mapPairs_iff a p).mp hp)

theorem subMap_eq' (a b : AMap Atom Atom) :
    Rfc.subMap a b = (keys a).all (fun k => get? b k == get? a k) := by
  rw [subMap_eq]; congr 1; funext k; exact Bool.beq_comm

theorem atom_beq (x y : Atom) : (Value.atom x == Value.atom y) = (x == y) := by
  rw [Bool.eq_iff_iff]; simp

theorem evalCond_atom (f : CondFn) (x y : Atom) (v : Bool) (h : evalCond f (.atom x) (.atom y) = .ok v) :
    Rfc.evalCond f (.atom x) (.atom y) = some v := by
  unfold evalCond at h
  split at h
  · cases h
  · cases f
    case eq => simp only [valueEqB, Except.ok.injEq] at h; simp [Rfc.evalCond, ← h, atom_beq]
    case ne => simp only [valueEqB, Except.ok.injEq] at h; simp [Rfc.evalCond, ← h, bne, atom_beq]
    case includes => simp only [Except.ok.injEq] at h; simp [Rfc.evalCond, ← h]
    case excludes => simp only [Except.ok.injEq] at h; simp [Rfc.evalCond, ← h]
    all_goals
      cases x <;> cases y <;> simp only [cmpAtoms] at h <;> first | (simp only [Except.ok.injEq] at h; simp [Rfc.evalCond, ← h]) | cases h

theorem opt_beq (x y : Option Atom) : (Value.opt x == Value.opt y) = (x == y) := by
  rw [Bool.eq_iff_iff]; simp

theorem evalCond_opt (f : CondFn) (x y : Option Atom) (v : Bool) (h : evalCond f (.opt x) (.opt y) = .ok v) :
    Rfc.evalCond f (.opt x) (.opt y) = some v := by
  unfold evalCond at h
  split at h
  · cases h
  · cases f <;> simp only [valueEqB, Except.ok.injEq] at h <;> first | (cases h; done) | skip
    all_goals
      subst h
      cases x <;> cases y <;> simp [Rfc.evalCond, Rfc.asSet, Rfc.subset, opt_beq]
      all_goals
        rename_i a b _
        by_cases e : a = b
        · subst e; simp [bne]
        · have e' : ¬ b = a := fun h => e h.symm
          simp [e, e', bne]

theorem evalCond_set (f : CondFn) (x y : List Atom) (v : Bool) (h : evalCond f (.set x) (.set y) = .ok v) :
    Rfc.evalCond f (.set x) (.set y) = some v := by
  unfold evalCond at h
  split at h
  · cases h
  · cases f <;> simp only [valueEqB, Except.ok.injEq] at h <;> first | (cases h; done) | skip
    all_goals simp [Rfc.evalCond, Rfc.asSet, Rfc.subset, ← h]

theorem excl_eq (x y : AMap Atom Atom) :
    (mapPairs y).all (fun p => get? x p.1 != some p.2) = (keys y).all (fun k => get? y k != get? x k) := by
  rw [Bool.eq_iff_iff]
  simp only [List.all_eq_true, bne_iff_ne, ne_eq]
  constructor
  · intro h k hk
    have := get?_isSome_of_mem_keys hk
    cases hg : get? y k with
    | none => simp [hg] at this
    | some v =>
      have := h (k, v) ((mem_mapPairs_iff y (k, v)).mpr hg)
      intro e; exact this e.symm
  · intro h p hp
    have hg := (mem_mapPairs_iff y p).mp hp
    have := h p.1 (mem_keys_of_get? hg)
    rw [hg] at this
    intro e; exact this e.symm

theorem evalCond_map (f : CondFn) (x y : AMap Atom Atom) (v : Bool) (h : evalCond f (.map x) (.map y) = .ok v) :
    Rfc.evalCond f (.map x) (.map y) = some v := by
  unfold evalCond at h
  split at h
  · cases h
  · cases f <;> simp only [valueEqB, Except.ok.injEq] at h <;> first | (cases h; done) | skip
    all_goals
      subst h
      simp only [Rfc.evalCond]
    · rw [subMap_eq x y, subMap_eq' y x]
    · rw [subMap_eq x y, subMap_eq' y x]
    · rw [subMap_eq y x]
    · rw [excl_eq]

/-- **C03 (11)** whenever the code's condition evaluation answers, the reference
    interpreter used as the oracle of the differential run answers the same: the
    two readings of RFC 7047 5.1 (this one and C08's relation `RfcHolds`) are tied
    to the same executable model. -/
theorem evalCond_agrees_reference (f : CondFn) (a b : Value) (v : Bool) (h : evalCond f a b = .ok v) :
    Rfc.evalCond f a b = some v := by
  have hk : a.kindTag = b.kindTag := by
    unfold evalCond at h
    split at h
    · cases h
    · rename_i hk; simpa using hk
  cases a with
  | atom x =>
    cases b with
    | atom y => exact evalCond_atom f x y v h
    | opt y => cases x <;> simp [Value.kindTag] at hk
    | set y => cases x <;> simp [Value.kindTag] at hk
    | map y => cases x <;> simp [Value.kindTag] at hk
  | opt x =>
    cases b with
    | atom y => cases y <;> simp [Value.kindTag] at hk
    | opt y => exact evalCond_opt f x y v h
    | set y => simp [Value.kindTag] at hk
    | map y => simp [Value.kindTag] at hk
  | set x =>
    cases b with
    | atom y => cases y <;> simp [Value.kindTag] at hk
    | opt y => simp [Value.kindTag] at hk
    | set y => exact evalCond_set f x y v h
    | map y => simp [Value.kindTag] at hk
  | map x =>
    cases b with
    | atom y => cases y <;> simp [Value.kindTag] at hk
    | opt y => simp [Value.kindTag] at hk
    | set y => simp [Value.kindTag] at hk
    | map y => exact evalCond_map f x y v h

/-- `RowsByCondition` on OVS-notation conditions is `rowsByCondition` on their native form
    (an empty list selects every row either way) -/
theorem cacheRowsByCondition_eq (ts : TableSchema) (c : Cache) (w : List WCond) (us : List UUID)
    (h : cacheRowsByCondition ts c w = .ok us) :
    ∃ conds, nativeConds ts w = .ok conds ∧ rowsByCondition c (zeroRowOf ts) conds = .ok us := by
  unfold cacheRowsByCondition at h
  by_cases hw : w.isEmpty = true
  · have : w = [] := List.isEmpty_iff.mp hw
    subst this
    simp only [List.isEmpty_nil, if_true, pure, Except.pure] at h
    refine ⟨[], by simp [nativeConds, pure, Except.pure], ?_⟩
    simpa [rowsByCondition] using h
  · simp only [hw, Bool.false_eq_true, if_false, bind, Except.bind] at h
    split at h
    · cases h
    · rename_i conds hc
      exact ⟨conds, hc, h⟩

/-- the rows of the cache after warming it with database rows -/
def warmStep (dc : Cache) (c : Cache) (u : UUID) : Except String Cache :=
  match get? dc.rows u with
  | none => pure c
  | some r => match c.create u r false with
    | .ok c' => pure c'
    | .error _ => .error "failed warming transaction cache"

theorem warm_rows (dc : Cache) (l : List UUID) (c c' : Cache) (h : l.foldlM (warmStep dc) c = .ok c') (x : UUID) :
    get? c'.rows x = if x ∈ l then (match get? dc.rows x with | some r => some r | none => get? c.rows x) else get? c.rows x := by
  induction l generalizing c with
  | nil => simp [pure, Except.pure] at h; subst h; simp
  | cons a t ih =>
    simp only [List.foldlM_cons, bind, Except.bind] at h
    split at h
    · cases h
    · rename_i c1 hc1
      have := ih c1 h
      rw [this]
      unfold warmStep at hc1
      split at hc1
      · rename_i hnone
        simp only [pure, Except.pure, Except.ok.injEq] at hc1
        subst hc1
        by_cases hx : x = a
        · subst hx; simp [hnone]
        · simp [hx]
      · rename_i r hsome
        split at hc1
        · rename_i c2 hcr
          simp only [pure, Except.pure, Except.ok.injEq] at hc1
          subst hc1
          unfold Cache.create at hcr
          split at hcr
          · cases hcr
          · rename_i hnot
            simp only [Bool.false_and, Bool.false_eq_true, if_false, Except.ok.injEq] at hcr
            subst hcr
            by_cases hx : x = a
            · subst hx
              simp [hsome, get?_insert]
            ·               simp [hx, get?_insert]
        · cases hc1

/-- every condition of `conds` evaluates to true on `row` -/
def AllTrue (conds : List Cond) (u : UUID) (row : Row) : Prop := ∀ cnd ∈ conds, CondTrue row u cnd

/-- the hypotheses of C08's exactness theorem for one cache -/
structure CacheOK (c : Cache) : Prop where
  exact : IndexExact c
  wf : ∀ ix ∈ c.ixs, ∀ u row, get? c.rows u = some row → RowSpecOK row ix.spec

/-- **C03 (12)** the rows an operation works on are exactly: the rows of the
    transaction's own cache that satisfy the conditions, plus the database rows
    that satisfy them and that the transaction has neither touched nor deleted --
    "the transaction so far, overlaid on the database", for every condition list
    and every index configuration. -/
theorem overlay_exact (σ : DbModel) (db : Database) (tx : Txn) (t : String) (w : List WCond)
    (ts : TableSchema) (tc dc : Cache)
    (hts : σ.table t = some ts) (htc : get? tx.cache t = some tc) (hdc : get? db t = some dc)
    (okT : CacheOK tc) (okD : CacheOK dc) (hz : ZeroOK (zeroRowOf ts))
    (rows : List (UUID × Row)) (tx' : Txn) (h : overlayRows σ db tx t w = .ok (rows, tx')) :
    ∃ conds, nativeConds ts w = .ok conds ∧ ∀ u row, (u, row) ∈ rows ↔
      (u ∉ tx.deleted ∧ ((get? tc.rows u = some row ∧ AllTrue conds u row) ∨
        (get? tc.rows u = none ∧ get? dc.rows u = some row ∧ AllTrue conds u row))) := by
  unfold overlayRows at h
  simp only [hts, htc, hdc, bind, Except.bind] at h
  split at h
  · cases h
  · rename_i txnIds hT
    split at h
    · cases h
    · rename_i dbIds hD
      split at h
      · cases h
      · rename_i tc' hW
        simp only [pure, Except.pure, Except.ok.injEq, Prod.mk.injEq] at h
        obtain ⟨hr, _⟩ := h
        obtain ⟨conds, hn, hTr⟩ := cacheRowsByCondition_eq ts tc w txnIds hT
        obtain ⟨conds', hn', hDr⟩ := cacheRowsByCondition_eq ts dc w dbIds hD
        rw [hn] at hn'; cases hn'
        refine ⟨conds, hn, ?_⟩
        have hTm := C08.rowsByCondition_exact tc okT.exact okT.wf _ hz conds txnIds hTr
        have hDm := C08.rowsByCondition_exact dc okD.exact okD.wf _ hz conds dbIds hDr
        have hrows := warm_rows dc _ tc tc' hW
        have htw : ∀ x, x ∈ List.filter (fun u => (get? tc.rows u).isNone && decide (u ∉ tx.deleted)) dbIds ↔
            (x ∈ dbIds ∧ get? tc.rows x = none ∧ x ∉ tx.deleted) := by
          intro x
          simp only [List.mem_filter, Bool.and_eq_true, decide_eq_true_eq, Option.isNone_iff_eq_none]
        intro u row
        subst hr
        simp only [List.mem_filterMap, List.mem_filter, List.mem_append, decide_eq_true_eq,
          Option.map_eq_some_iff, Prod.mk.injEq]
        constructor
        · rintro ⟨u', ⟨hmem, hnd⟩, r', hg, rfl, rfl⟩
          refine ⟨hnd, ?_⟩
          rw [hrows] at hg
          rcases hmem with hmem | hmem
          · obtain ⟨row0, hr0, hall⟩ := (hTm u').mp hmem
            have hnw : ¬ (u' ∈ List.filter (fun u => (get? tc.rows u).isNone && decide (u ∉ tx.deleted)) dbIds) := by
              rw [htw]; rintro ⟨_, hn, _⟩; rw [hr0] at hn; cases hn
            rw [if_neg hnw, hr0] at hg; cases hg
            exact Or.inl ⟨hr0, hall⟩
          · have hmem : u' ∈ List.filter (fun u => (get? tc.rows u).isNone && decide (u ∉ tx.deleted)) dbIds :=
              List.mem_filter.mpr hmem
            obtain ⟨hdb, hnone, _⟩ := (htw u').mp hmem
            obtain ⟨row1, hr1, hall⟩ := (hDm u').mp hdb
            rw [if_pos hmem, hr1] at hg
            cases hg
            exact Or.inr ⟨hnone, hr1, hall⟩
        · rintro ⟨hnd, hcase⟩
          rcases hcase with ⟨hr0, hall⟩ | ⟨hnone, hr1, hall⟩
          · refine ⟨u, ⟨Or.inl ((hTm u).mpr ⟨row, hr0, hall⟩), hnd⟩, row, ?_, rfl, rfl⟩
            rw [hrows]
            have hnw : ¬ (u ∈ List.filter (fun u => (get? tc.rows u).isNone && decide (u ∉ tx.deleted)) dbIds) := by
              rw [htw]; rintro ⟨_, hn, _⟩; rw [hr0] at hn; cases hn
            rw [if_neg hnw, hr0]
          · have hdb := (hDm u).mpr ⟨row, hr1, hall⟩
            have hm : u ∈ List.filter (fun u => (get? tc.rows u).isNone && decide (u ∉ tx.deleted)) dbIds :=
              (htw u).mpr ⟨hdb, hnone, hnd⟩
            refine ⟨u, ⟨Or.inr (List.mem_filter.mp hm), hnd⟩, row, ?_, rfl, rfl⟩
            rw [hrows, if_pos hm, hr1]

/-- **C03 (13)** what a `select` returns, at any point of a transaction: the
    overlay rows of (12), each converted to OVS notation and cut down to the
    named columns. -/
theorem select_exact (σ : DbModel) (db : Database) (tx tx1 : Txn) (op : Operation)
    (ts : TableSchema) (tc dc : Cache)
    (hts : σ.table op.table = some ts) (htc : get? tx.cache op.table = some tc) (hdc : get? db op.table = some dc)
    (okT : CacheOK tc) (okD : CacheOK dc) (hz : ZeroOK (zeroRowOf ts))
    (r : OpResult) (step : List ((String × UUID) × ModelUpdate))
    (hop : op.op = "select") (h : execOp σ db tx op = .ok (r, tx1, step)) :
    ∃ (conds : List Cond) (sel : List (UUID × Row)) (out : List OvsRow), nativeConds ts op.where_ = .ok conds ∧
      (∀ u row, (u, row) ∈ sel ↔
        (u ∉ tx.deleted ∧ ((get? tc.rows u = some row ∧ AllTrue conds u row) ∨
          (get? tc.rows u = none ∧ get? dc.rows u = some row ∧ AllTrue conds u row)))) ∧
      sel.mapM (fun p => newRow ts ⟨p.1, p.2⟩) = .ok out ∧
      r.rows = out.map (projectRow op.columns) ∧ step = [] := by
  unfold execOp at h
  simp only [hop, String.reduceEq, if_false, if_true, hts] at h
  split at h
  · cases h
  · rename_i sel tx2 hov
    split at h
    · cases h
    · rename_i out hout
      simp only [Except.ok.injEq, Prod.mk.injEq] at h
      obtain ⟨hr, _, hs⟩ := h
      obtain ⟨conds, hn, hmem⟩ := overlay_exact σ db tx op.table op.where_ ts tc dc hts htc hdc okT okD hz sel tx2 hov
      exact ⟨conds, sel, out, hn, hmem, hout, by rw [← hr], hs.symm⟩

theorem zeroOK_map (cols : AMap String ColSchema) (col : String) (m : AMap Atom Atom)
    (h : get? (cols.map (fun p => (p.1, zeroValue p.2))) col = some (.map m)) : m = [] := by
  induction cols with
  | nil => simp at h
  | cons p t ih =>
    simp only [List.map_cons, get?_cons] at h
    split at h
    · simp only [Option.some.injEq] at h
      unfold zeroValue at h
      split at h <;> first | (cases h; done) | skip
      all_goals first | rfl | (cases h; rfl)
    · exact ih h

/-- the zero row of any table satisfies the side condition of (12)/(13): its map columns are empty -/
theorem zeroOK_zeroRowOf (ts : TableSchema) : ZeroOK (zeroRowOf ts) := by
  intro col m h
  exact zeroOK_map ts.cols col m h

/-- an empty cache meets the hypotheses of (12)/(13), whatever its index configuration -/
theorem cacheOK_empty (specs : List Spec) : CacheOK (Cache.empty specs) :=
  ⟨(empty_exact specs).1, by intro ix _ u row h; simp [Cache.empty] at h⟩

/-! Non-vacuity of (13): the first `select` of a transaction on the example database
    (empty transaction cache, nothing deleted) meets every hypothesis. -/
example : ∃ ts tc dc, exModel.table "T" = some ts ∧ get? (Database.empty exModel) "T" = some tc ∧
    get? (Database.empty exModel) "T" = some dc ∧ CacheOK tc ∧ CacheOK dc ∧ ZeroOK (zeroRowOf ts) :=
  ⟨_, Cache.empty [], Cache.empty [], rfl, rfl, rfl, cacheOK_empty _, cacheOK_empty _, zeroOK_zeroRowOf _⟩

/-- on values of one kind the code's evaluation fails only where the reference is undefined -/
theorem evalCond_error_reference_none (f : CondFn) (a b : Value) (e : String)
    (hk : a.kindTag = b.kindTag) (h : evalCond f a b = .error e) : Rfc.evalCond f a b = none := by
  unfold evalCond at h
  simp only [hk, ne_eq, not_true_eq_false, if_false] at h
  cases a with
  | atom x =>
    cases b with
    | atom y =>
      cases f <;> simp only [reduceCtorEq] at h
      all_goals
        cases x <;> cases y <;> simp only [cmpAtoms, reduceCtorEq] at h <;> simp [Rfc.evalCond]
    | opt y => cases x <;> simp [Value.kindTag] at hk
    | set y => cases x <;> simp [Value.kindTag] at hk
    | map y => cases x <;> simp [Value.kindTag] at hk
  | opt x =>
    cases b with
    | atom y => cases y <;> simp [Value.kindTag] at hk
    | opt y => cases f <;> simp only [reduceCtorEq] at h <;> simp [Rfc.evalCond, Rfc.asSet]
    | set y => simp [Value.kindTag] at hk
    | map y => simp [Value.kindTag] at hk
  | set x =>
    cases b with
    | atom y => cases y <;> simp [Value.kindTag] at hk
    | opt y => simp [Value.kindTag] at hk
    | set y => cases f <;> simp only [reduceCtorEq] at h <;> simp [Rfc.evalCond, Rfc.asSet]
    | map y => simp [Value.kindTag] at hk
  | map x =>
    cases b with
    | atom y => cases y <;> simp [Value.kindTag] at hk
    | opt y => simp [Value.kindTag] at hk
    | set y => simp [Value.kindTag] at hk
    | map y => cases f <;> simp only [reduceCtorEq] at h <;> simp [Rfc.evalCond]

/-- **C03 (14)** conversely, on values of one kind (a column value and a condition
    argument of that column's type) whatever the reference answers, the code answers -/
theorem reference_agrees_evalCond (f : CondFn) (a b : Value) (v : Bool)
    (hk : a.kindTag = b.kindTag) (h : Rfc.evalCond f a b = some v) : evalCond f a b = .ok v := by
  cases hc : evalCond f a b with
  | error e => rw [evalCond_error_reference_none f a b e hk hc] at h; cases h
  | ok v' => rw [evalCond_agrees_reference f a b v' hc] at h; cases h; rfl


theorem option_mapM_all {α : Type} (g : α → Option Bool) (l : List α) (bs : List Bool) (h : l.mapM g = some bs) :
    (bs.all id = true ↔ ∀ a ∈ l, g a = some true) := by
  induction l generalizing bs with
  | nil => simp at h; subst h; simp
  | cons a t ih =>
    rw [List.mapM_cons] at h
    cases hga : g a with
    | none => simp [hga] at h
    | some b =>
      cases ht : t.mapM g with
      | none => simp [hga, ht] at h
      | some bs' =>
        simp [hga, ht] at h
        subst h
        simp only [List.all_cons, Bool.and_eq_true, id, List.mem_cons, forall_eq_or_imp, ih bs' ht, hga, Option.some.injEq]

/-- one condition of the reference interpreter's `matching`, on one row -/
def refEval (ts : TableSchema) (row : Row) (u : UUID) (c : WCond) : Option Bool := do
  let cs ← ts.column c.col
  let arg ← (ovsToNative cs c.val).toOption
  let v ← Rfc.colValue row u c.col
  Rfc.evalCond c.fn v arg

/-- the step of the reference's `matching` -/
def matchStep (ts : TableSchema) (rows : AMap UUID Row) (w : List WCond) (acc : List (UUID × Row)) (u : UUID) :
    Option (List (UUID × Row)) :=
  match get? rows u with
  | none => some acc
  | some row => do
    let oks ← w.mapM (refEval ts row u)
    pure (if oks.all id then acc ++ [(u, row)] else acc)

theorem matching_eq (ts : TableSchema) (rows : AMap UUID Row) (w : List WCond) :
    Rfc.matching ts rows w = (keys rows).eraseDups.foldlM (matchStep ts rows w) [] := rfl

theorem matchFold_spec (ts : TableSchema) (rows : AMap UUID Row) (w : List WCond) (l : List UUID)
    (acc ms : List (UUID × Row)) (h : l.foldlM (matchStep ts rows w) acc = some ms) (p : UUID × Row) :
    p ∈ ms ↔ (p ∈ acc ∨ (p.1 ∈ l ∧ get? rows p.1 = some p.2 ∧ ∀ c ∈ w, refEval ts p.2 p.1 c = some true)) := by
  induction l generalizing acc with
  | nil => simp at h; subst h; simp
  | cons a t ih =>
    simp only [List.foldlM_cons, bind, Option.bind] at h
    split at h
    · cases h
    · rename_i acc1 h1
      rw [ih acc1 h]
      unfold matchStep at h1
      split at h1
      · rename_i hnone
        simp only [Option.some.injEq] at h1
        subst h1
        constructor
        · rintro (hp | ⟨hm, hr, hall⟩)
          · exact Or.inl hp
          · exact Or.inr ⟨List.mem_cons_of_mem _ hm, hr, hall⟩
        · rintro (hp | ⟨hm, hr, hall⟩)
          · exact Or.inl hp
          · rcases List.mem_cons.mp hm with e | hm
            · rw [e, hnone] at hr; cases hr
            · exact Or.inr ⟨hm, hr, hall⟩
      · rename_i row hrow
        simp only [bind, Option.bind] at h1
        split at h1
        · cases h1
        · rename_i oks hoks
          simp only [pure, Option.some.injEq] at h1
          have hall := option_mapM_all _ _ _ hoks
          subst h1
          constructor
          · rintro (hp | ⟨hm, hr, hc⟩)
            · split at hp
              · rename_i hok
                rcases List.mem_append.mp hp with hp | hp
                · exact Or.inl hp
                · simp only [List.mem_singleton] at hp
                  subst hp
                  exact Or.inr ⟨List.mem_cons_self, hrow, hall.mp hok⟩
              · exact Or.inl hp
            · exact Or.inr ⟨List.mem_cons_of_mem _ hm, hr, hc⟩
          · rintro (hp | ⟨hm, hr, hc⟩)
            · left; split
              · exact List.mem_append_left _ hp
              · exact hp
            · rcases List.mem_cons.mp hm with e | hm
              · left
                have hpr : p = (a, row) := by
                  rw [e, hrow] at hr; cases hr; cases p; simp at e ⊢; exact e
                subst hpr
                rw [if_pos (hall.mpr hc)]
                exact List.mem_append_right _ (by simp)
              · exact Or.inr ⟨hm, hr, hc⟩


/-- one condition as the code evaluates it on one row (conversion of the argument, column lookup, `Evaluate`) -/
def codeEval (ts : TableSchema) (row : Row) (u : UUID) (c : WCond) : Except String Bool :=
  match ts.column c.col with
  | none => .error "panic: nil column schema"
  | some cs =>
    match ovsToNative cs c.val with
    | .error e => .error e
    | .ok arg =>
      match rowValue row u c.col with
      | none => .error "column not found"
      | some v => evalCond c.fn v arg

theorem nativeConds_allTrue (ts : TableSchema) (w : List WCond) (conds : List Cond) (h : nativeConds ts w = .ok conds)
    (u : UUID) (row : Row) : AllTrue conds u row ↔ ∀ c ∈ w, codeEval ts row u c = .ok true := by
  unfold nativeConds at h
  induction w generalizing conds with
  | nil => simp [pure, Except.pure] at h; subst h; simp [AllTrue]
  | cons c t ih =>
    rw [List.mapM_cons] at h
    simp only [bind, Except.bind] at h
    split at h
    · cases h
    · rename_i cnd hc
      split at h
      · cases h
      · rename_i rest hrest
        simp only [pure, Except.pure, Except.ok.injEq] at h
        subst h
        have := ih rest hrest
        simp only [AllTrue, List.mem_cons, forall_eq_or_imp] at this ⊢
        rw [this]
        apply and_congr_left'
        -- the head condition
        split at hc
        · cases hc
        · rename_i cs hcs
          split at hc
          · cases hc
          · rename_i arg harg
            simp only [pure, Except.pure, Except.ok.injEq] at hc
            subst hc
            unfold codeEval CondTrue
            simp only [hcs, harg]
            cases hv : rowValue row u c.col with
            | none => simp
            | some v => simp


theorem rowValue_eq_colValue (row : Row) (u : UUID) (c : String) : rowValue row u c = Rfc.colValue row u c := rfl

/-- the code's answer on one condition and one row is the reference's -/
theorem codeEval_refEval (ts : TableSchema) (row : Row) (u : UUID) (c : WCond) (b : Bool)
    (h : codeEval ts row u c = .ok b) : refEval ts row u c = some b := by
  unfold codeEval at h
  unfold refEval
  split at h
  · cases h
  · rename_i cs hcs
    split at h
    · cases h
    · rename_i arg harg
      split at h
      · cases h
      · rename_i v hv
        rw [rowValue_eq_colValue] at hv
        simp [hcs, harg, hv, Except.toOption, bind, Option.bind, evalCond_agrees_reference _ _ _ _ h]

/-- column value and condition argument are of one kind (both have the column's type) -/
def KindOK (ts : TableSchema) (row : Row) (u : UUID) (c : WCond) : Prop :=
  ∀ cs arg v, ts.column c.col = some cs → ovsToNative cs c.val = .ok arg → rowValue row u c.col = some v →
    v.kindTag = arg.kindTag

theorem refEval_codeEval (ts : TableSchema) (row : Row) (u : UUID) (c : WCond) (b : Bool)
    (hk : KindOK ts row u c) (h : refEval ts row u c = some b) : codeEval ts row u c = .ok b := by
  unfold refEval at h
  unfold codeEval
  cases hcs : ts.column c.col with
  | none => simp [hcs, bind, Option.bind] at h
  | some cs =>
    cases harg : ovsToNative cs c.val with
    | error e => simp [hcs, harg, Except.toOption, bind, Option.bind] at h
    | ok arg =>
      cases hv : rowValue row u c.col with
      | none =>
        rw [rowValue_eq_colValue] at hv
        simp [hcs, harg, hv, Except.toOption, bind, Option.bind] at h
      | some v =>
        have hv' := hv
        rw [rowValue_eq_colValue] at hv'
        simp only [hcs, harg, hv', Except.toOption, bind, Option.bind] at h
        simp only [harg]
        exact reference_agrees_evalCond _ _ _ _ (hk cs arg v hcs harg hv) h

theorem mem_eraseDups_keys_of_get? {ν : Type} (m : AMap UUID ν) (u : UUID) (v : ν) (h : get? m u = some v) :
    u ∈ (keys m).eraseDups := by
  rw [List.mem_eraseDups]; exact mem_keys_of_get? h

/-- **C03 (15)** a `select` that opens a transaction (nothing cached, nothing
    deleted yet) returns exactly the rows the reference interpreter's `matching`
    returns on the database's rows, whenever the reference is defined there and
    column values and condition arguments are of one kind. With (13) this ties
    what the code returns to the oracle of the differential run, for every
    condition list and index configuration. -/
theorem select_fresh_agrees_reference (σ : DbModel) (db : Database) (tx tx1 : Txn) (op : Operation)
    (ts : TableSchema) (tc dc : Cache)
    (hts : σ.table op.table = some ts) (htc : get? tx.cache op.table = some tc) (hdc : get? db op.table = some dc)
    (okT : CacheOK tc) (okD : CacheOK dc)
    (hfresh : tc.rows = []) (hdel : tx.deleted = [])
    (r : OpResult) (step : List ((String × UUID) × ModelUpdate))
    (hop : op.op = "select") (h : execOp σ db tx op = .ok (r, tx1, step))
    (ms : List (UUID × Row)) (hm : Rfc.matching ts dc.rows op.where_ = some ms)
    (hk : ∀ u row, get? dc.rows u = some row → ∀ c ∈ op.where_, KindOK ts row u c) :
    ∃ (sel : List (UUID × Row)) (out : List OvsRow),
      (∀ p, p ∈ sel ↔ p ∈ ms) ∧
      sel.mapM (fun p => newRow ts ⟨p.1, p.2⟩) = .ok out ∧ r.rows = out.map (projectRow op.columns) := by
  obtain ⟨conds, sel, out, hn, hsel, hout, hr, _⟩ :=
    select_exact σ db tx tx1 op ts tc dc hts htc hdc okT okD (zeroOK_zeroRowOf ts) r step hop h
  refine ⟨sel, out, ?_, hout, hr⟩
  rintro ⟨u, row⟩
  rw [hsel u row, matching_eq] at *
  rw [matchFold_spec ts dc.rows op.where_ _ [] ms hm (u, row)]
  simp only [hdel, List.not_mem_nil, not_false_eq_true, true_and, hfresh, get?, reduceCtorEq, false_and, false_or]
  constructor
  · rintro ⟨hrow, hall⟩
    refine ⟨mem_eraseDups_keys_of_get? _ _ _ hrow, hrow, ?_⟩
    intro c hc
    exact codeEval_refEval ts row u c true ((nativeConds_allTrue ts op.where_ conds hn u row).mp hall c hc)
  · rintro ⟨_, hrow, hall⟩
    refine ⟨hrow, (nativeConds_allTrue ts op.where_ conds hn u row).mpr ?_⟩
    intro c hc
    exact refEval_codeEval ts row u c true (hk u row hrow c hc) (hall c hc)

/-! Non-vacuity of (15) on a database with two rows. -/
def exRow1 : Row := [("name", .atom (.str "a")), ("n", .atom (.int 1))]
def exRow2 : Row := [("name", .atom (.str "b")), ("n", .atom (.int 2))]
def exDb : Database := [("T", ⟨[("u1", exRow1), ("u2", exRow2)], []⟩)]
def exSel : Operation := { op := "select", table := "T", where_ := [⟨"name", .eq, .atom (.str "a")⟩], columns := ["n"] }

theorem cacheOK_noIndexes (rows : AMap UUID Row) : CacheOK ⟨rows, []⟩ :=
  ⟨by intro ix h; simp at h, by intro ix h; simp at h⟩

/-- non-vacuity of (15): a database holding two rows, a select by name with a column list -/
example : ∃ r tx1 step ms,
    execOp exModel exDb { cache := Database.empty exModel } exSel = .ok (r, tx1, step) ∧
    Rfc.matching { cols := [("name", { kind := .atom, key := .string }), ("n", { kind := .atom, key := .integer })] }
      [("u1", exRow1), ("u2", exRow2)] exSel.where_ = some ms ∧ ms = [("u1", exRow1)] ∧
    r.rows = [[("n", .atom (.int 1))]] := by
  refine ⟨_, _, _, _, rfl, rfl, rfl, ?_⟩
  decide
def exTs : TableSchema := { cols := [("name", { kind := .atom, key := .string }), ("n", { kind := .atom, key := .integer })] }
example : ∀ u row, get? ([("u1", exRow1), ("u2", exRow2)] : AMap UUID Row) u = some row →
    ∀ c ∈ exSel.where_, KindOK exTs row u c := by
  intro u row hr c hc cs arg v hcs harg hv
  simp only [exSel, List.mem_singleton] at hc
  subst hc
  have hcs' : cs = { kind := .atom, key := .string } := by
    have : exTs.column "name" = some { kind := .atom, key := .string } := rfl
    rw [this] at hcs; cases hcs; rfl
  subst hcs'
  have : arg = .atom (.str "a") := by
    have h2 : ovsToNative { kind := .atom, key := .string } (.atom (.str "a")) = .ok (.atom (.str "a")) := rfl
    rw [h2] at harg; cases harg; rfl
  subst this
  simp only [get?_cons] at hr
  split at hr
  · cases hr
    have : rowValue exRow1 u "name" = some (.atom (.str "a")) := rfl
    rw [this] at hv; cases hv; rfl
  · split at hr
    · cases hr
      have : rowValue exRow2 u "name" = some (.atom (.str "b")) := rfl
      rw [this] at hv; cases hv; rfl
    · simp [get?] at hr
/-- for two values of one kind: the code's "the difference is empty" is the reference's `==` -/
theorem diff_flag_reference (cur un : Value) (hk : cur.kindTag = un.kindTag) (hc : cur.WF) (hu : un.WF) :
    (Rfc.evalCond .eq cur un).getD false = !(difference (some cur) (some un)).2 := by
  have hsk : cur.SameKind un := by
    cases cur with
    | atom a =>
      cases un with
      | atom b => simp [Value.SameKind]
      | opt b => cases a <;> simp [Value.kindTag] at hk
      | set b => cases a <;> simp [Value.kindTag] at hk
      | map b => cases a <;> simp [Value.kindTag] at hk
    | opt a =>
      cases un with
      | atom b => cases b <;> simp [Value.kindTag] at hk
      | opt b => simp [Value.SameKind]
      | set b => simp [Value.kindTag] at hk
      | map b => simp [Value.kindTag] at hk
    | set a =>
      cases un with
      | atom b => cases b <;> simp [Value.kindTag] at hk
      | opt b => simp [Value.kindTag] at hk
      | set b => simp [Value.SameKind]
      | map b => simp [Value.kindTag] at hk
    | map a =>
      cases un with
      | atom b => cases b <;> simp [Value.kindTag] at hk
      | opt b => simp [Value.kindTag] at hk
      | set b => simp [Value.kindTag] at hk
      | map b => simp [Value.SameKind]
  have h1 := C10.diff_empty_iff cur un hsk hc hu
  have h2 := C08.valueEqB_iff cur un hk
  have h3 : evalCond .eq cur un = .ok (valueEqB cur un) := by simp [evalCond, hk]
  rw [evalCond_agrees_reference _ _ _ _ h3]
  simp only [Option.getD_some]
  rw [Bool.eq_iff_iff]
  rw [h2, ← h1]
  cases (difference (some cur) (some un)).2 <;> simp


/-- one column of an `update` as the code applies it (`updateOrModifyModel`, not a modify) -/
def updStep (ts : TableSchema) (change : OvsRow) (acc : Bool × Model × OvsRow) (c : String) :
    Except OpErr (Bool × Model × OvsRow) :=
  match ts.column c, get? change c with
  | some cs, some uo =>
    match acc.2.1.field c with
    | none => .error .other
    | some cur =>
      match liftE (ovsToNative cs uo) with
      | .error e => .error e
      | .ok un =>
        if (difference (some cur) (some un)).2 && !cs.mutable then .error .constraint
        else
          match (if (difference (some cur) (some un)).2 then
              (match liftE (nativeToOvs cs ((difference (some cur) (some un)).1.getD un)) with
                | .error e => .error e
                | .ok d => .ok (insert acc.2.2 c d))
            else (.ok acc.2.2 : Except OpErr OvsRow)) with
          | .error e => .error e
          | .ok delta => .ok (acc.1 || (difference (some cur) (some un)).2, acc.2.1.setField c un, delta)
  | _, _ => .ok acc

theorem updateOrModifyModel_eq (ts : TableSchema) (m : Model) (change : OvsRow) :
    updateOrModifyModel ts m change false = (keys change).eraseDups.foldlM (updStep ts change) (false, m, []) := by
  unfold updateOrModifyModel mergeModifyRow.mapKeysDedup
  congr 1
  funext acc c
  unfold updStep
  cases ts.column c <;> cases get? change c <;> simp only [pure, Except.pure]
  rename_i cs uo
  cases acc.2.1.field c <;> simp only
  rename_i cur
  simp only [bind, Except.bind, Bool.false_eq_true, if_false]
  cases liftE (ovsToNative cs uo) <;> simp only
  rename_i un
  by_cases h1 : ((difference (some cur) (some un)).snd && !cs.mutable) = true
  · simp only [h1, if_true]
  · simp only [h1, if_false]
    by_cases h2 : (difference (some cur) (some un)).snd = true
    · simp only [h2, if_true]
      cases liftE (nativeToOvs cs ((difference (some cur) (some un)).fst.getD un)) <;> simp only
    · simp [h2]


/-- the reference's step for one column of an update -/
def refUpdStep (ts : TableSchema) (given : OvsRow) (r : Row) (c : String) : Option Row :=
  if c = "_uuid" then some r else
  match get? ts.cols c, get? given c with
  | some cs, some o => do
    let v ← (ovsToNative cs o).toOption
    let cur ← get? r c
    if !cs.mutable && !(Rfc.evalCond .eq cur v).getD false then none
    pure (insert r c v)
  | _, _ => some r

theorem updateRow_eq (ts : TableSchema) (row : Row) (given : OvsRow) :
    Rfc.updateRow ts row given = (keys given).eraseDups.foldlM (refUpdStep ts given) row := rfl

/-- typing of immutable columns, as far as the comparison of old and new value needs it: stored values
    and converted update values have the column's kind and hold no duplicates -/
def RowTyped (ts : TableSchema) (row : Row) : Prop :=
  ∀ c cs cur, get? ts.cols c = some cs → cs.mutable = false → get? row c = some cur →
    cur.WF ∧ cur.kindTag = (zeroValue cs).kindTag

def ValTyped (ts : TableSchema) (change : OvsRow) : Prop :=
  ∀ c cs uo un, get? ts.cols c = some cs → cs.mutable = false → get? change c = some uo →
    ovsToNative cs uo = .ok un → un.WF ∧ un.kindTag = (zeroValue cs).kindTag

theorem updStep_refines (ts : TableSchema) (change : OvsRow) (acc acc' : Bool × Model × OvsRow) (c : String)
    (r : Row) (hc : c ≠ "_uuid") (hrow : ∀ k, get? acc.2.1.row k = get? r k)
    (hval : ValTyped ts change) (hrt : RowTyped ts acc.2.1.row)
    (h : updStep ts change acc c = .ok acc') :
    ∃ r', refUpdStep ts change r c = some r' ∧ (∀ k, get? acc'.2.1.row k = get? r' k) ∧ acc'.2.1.uuid = acc.2.1.uuid ∧
      RowTyped ts acc'.2.1.row := by
  unfold updStep at h
  unfold refUpdStep
  simp only [hc, if_false, TableSchema.column] at h ⊢
  cases hcs : get? ts.cols c with
  | none => simp only [hcs] at h; cases h; exact ⟨r, rfl, hrow, rfl, hrt⟩
  | some cs =>
    cases huo : get? change c with
    | none =>
      simp only [hcs, huo] at h; cases h
      exact ⟨r, rfl, hrow, rfl, hrt⟩
    | some uo =>
      simp only [hcs, huo, Model.field, hc, if_false] at h
      cases hcur : get? acc.2.1.row c with
      | none => simp [hcur] at h
      | some cur =>
        simp only [hcur] at h
        cases hun : ovsToNative cs uo with
        | error e => simp [hun, liftE] at h
        | ok un =>
          simp only [hun, liftE] at h
          split at h
          · cases h
          · rename_i hflag
            split at h
            · cases h
            · rename_i delta _
              simp only [Except.ok.injEq] at h
              subst h
              have hcur' : get? r c = some cur := by rw [← hrow c]; exact hcur
              have hgate : (!cs.mutable && !(Rfc.evalCond .eq cur un).getD false) = false := by
                cases hm : cs.mutable with
                | true => simp
                | false =>
                  obtain ⟨hw1, hk1⟩ := hrt c cs cur hcs hm hcur
                  obtain ⟨hw2, hk2⟩ := hval c cs uo un hcs hm huo hun
                  rw [diff_flag_reference cur un (hk1.trans hk2.symm) hw1 hw2]
                  simp only [hm, Bool.not_false, Bool.and_true, Bool.not_eq_true] at hflag
                  simp [hflag]
              refine ⟨insert r c un, ?_, ?_, ?_, ?_⟩
              · have hg2 : ¬ (cs.mutable = false ∧ (Rfc.evalCond .eq cur un).getD false = false) := by
                  intro ⟨h1, h2⟩; simp [h1, h2] at hgate
                simp [Except.toOption, hcur', hun, hg2, bind, Option.bind]
              · intro k
                simp only [Model.setField, hc, if_false, get?_insert]
                split
                · rfl
                · exact hrow k
              · simp [Model.setField, hc]
              · intro k cs' cur' hcs' hm' hcur''
                simp only [Model.setField, hc, if_false, get?_insert] at hcur''
                split at hcur''
                · rename_i hk
                  subst hk
                  cases hcur''
                  rw [hcs] at hcs'; cases hcs'
                  exact hval k cs uo un hcs hm' huo hun
                · exact hrt k cs' cur' hcs' hm' hcur''

/-- the whole fold -/
theorem updFold_refines (ts : TableSchema) (change : OvsRow) (l : List String) (hl : "_uuid" ∉ l)
    (acc acc' : Bool × Model × OvsRow) (r : Row) (hrow : ∀ k, get? acc.2.1.row k = get? r k)
    (hval : ValTyped ts change) (hrt : RowTyped ts acc.2.1.row)
    (h : l.foldlM (updStep ts change) acc = .ok acc') :
    ∃ r', l.foldlM (refUpdStep ts change) r = some r' ∧ (∀ k, get? acc'.2.1.row k = get? r' k) ∧
      acc'.2.1.uuid = acc.2.1.uuid := by
  induction l generalizing acc r with
  | nil => simp [pure, Except.pure] at h; subst h; exact ⟨r, rfl, hrow, rfl⟩
  | cons c t ih =>
    simp only [List.foldlM_cons, bind, Except.bind] at h
    split at h
    · cases h
    · rename_i acc1 h1
      have hc : c ≠ "_uuid" := fun e => hl (by simp [e])
      obtain ⟨r1, hr1, hrow1, hu1, hrt1⟩ := updStep_refines ts change acc acc1 c r hc hrow hval hrt h1
      obtain ⟨r', hr', hrow', hu'⟩ := ih (fun e => hl (List.mem_cons_of_mem _ e)) acc1 r1 hrow1 hrt1 h
      exact ⟨r', by simp [List.foldlM_cons, hr1, hr', bind, Option.bind], hrow', hu'.trans hu1⟩

/-- **C03 (16)** an `update` replaces exactly the named columns, as the reference says:
    whenever the code accepts the update of a row, the reference interpreter accepts it too and
    the new row holds, column by column, what the reference's new row holds; the row keeps its
    uuid. (Typing of immutable columns is needed to compare "the difference is empty" with the
    reference's `==`.) -/
theorem update_refines_reference (ts : TableSchema) (m : Model) (change : OvsRow)
    (chg : Bool) (new : Model) (delta : OvsRow)
    (hu : "_uuid" ∉ keys change) (hval : ValTyped ts change) (hrt : RowTyped ts m.row)
    (h : updateOrModifyModel ts m change false = .ok (chg, new, delta)) :
    ∃ r', Rfc.updateRow ts m.row change = some r' ∧ (∀ k, get? new.row k = get? r' k) ∧ new.uuid = m.uuid := by
  rw [updateOrModifyModel_eq] at h
  rw [updateRow_eq]
  exact updFold_refines ts change _ (by rw [List.mem_eraseDups]; exact hu) (false, m, []) (chg, new, delta) m.row
    (fun _ => rfl) hval hrt h

/-- the value of column `c` after `getRowData` visited it, `prev` being the value before -/
def colAfter (ts : TableSchema) (given : OvsRow) (prev : Option Value) (c : String) : Option Value :=
  match get? ts.cols c, get? given c with
  | some cs, some o => (match ovsToNative cs o with | .ok v => some v | .error _ => prev)
  | _, _ => prev

theorem colAfter_idem (ts : TableSchema) (given : OvsRow) (prev : Option Value) (c : String) :
    colAfter ts given (colAfter ts given prev c) c = colAfter ts given prev c := by
  unfold colAfter
  cases get? ts.cols c <;> cases get? given c <;> simp only
  rename_i cs o
  cases ovsToNative cs o <;> simp only

theorem getRowDataStep_spec (ts : TableSchema) (given : OvsRow) (m m1 : Model) (a : String) (ha : a ≠ "_uuid")
    (h1 : getRowDataStep ts given m a = .ok m1) :
    (∀ k, get? m1.row k = if k = a then colAfter ts given (get? m.row a) a else get? m.row k) ∧ m1.uuid = m.uuid := by
  unfold getRowDataStep at h1
  unfold colAfter
  cases hcs : get? ts.cols a with
  | none =>
    simp only [hcs] at h1; cases h1
    exact ⟨fun k => by by_cases hk : k = a <;> simp [hk], rfl⟩
  | some cs =>
    cases ho : get? given a with
    | none =>
      simp only [hcs, ho] at h1; cases h1
      exact ⟨fun k => by by_cases hk : k = a <;> simp [hk], rfl⟩
    | some o =>
      simp only [hcs, ho] at h1
      cases hv : ovsToNative cs o with
      | error e => simp [hv] at h1
      | ok v =>
        simp only [hv, Except.ok.injEq] at h1
        subst h1
        constructor
        · intro k
          simp only [Model.setField, ha, if_false, get?_insert, hv]
        · simp [Model.setField, ha]

theorem getRowData_fold (ts : TableSchema) (given : OvsRow) (l : List String) (hl : "_uuid" ∉ l)
    (m m' : Model) (h : l.foldlM (getRowDataStep ts given) m = .ok m') (c : String) :
    get? m'.row c = (if c ∈ l then colAfter ts given (get? m.row c) c else get? m.row c) ∧ m'.uuid = m.uuid := by
  induction l generalizing m with
  | nil => simp [pure, Except.pure] at h; subst h; simp
  | cons a t ih =>
    simp only [List.foldlM_cons, bind, Except.bind] at h
    split at h
    · cases h
    · rename_i m1 h1
      have ha : a ≠ "_uuid" := fun e => hl (by simp [e])
      obtain ⟨ih1, ih2⟩ := ih (fun e => hl (List.mem_cons_of_mem _ e)) m1 h
      obtain ⟨hs1, hs2⟩ := getRowDataStep_spec ts given m m1 a ha h1
      refine ⟨?_, ih2.trans hs2⟩
      rw [ih1, hs1 c]
      by_cases hca : c = a
      · subst hca
        by_cases hct : c ∈ t
        · simp [hct, colAfter_idem]
        · simp [hct]
      · by_cases hct : c ∈ t <;> simp [hct, hca]


/-- a successful `getRowData` met no conversion error -/
theorem getRowData_no_error (ts : TableSchema) (given : OvsRow) (l : List String)
    (m m' : Model) (h : l.foldlM (getRowDataStep ts given) m = .ok m') :
    ∀ a ∈ l, ∀ cs o e, get? ts.cols a = some cs → get? given a = some o → ovsToNative cs o ≠ .error e := by
  induction l generalizing m with
  | nil => intro a ha; cases ha
  | cons b t ih =>
    simp only [List.foldlM_cons, bind, Except.bind] at h
    split at h
    · cases h
    · rename_i m1 h1
      intro a ha cs o e hcs ho hv
      rcases List.mem_cons.mp ha with rfl | ha
      · unfold getRowDataStep at h1
        simp [hcs, ho, hv] at h1
      · exact ih m1 h a ha cs o e hcs ho hv

/-- the reference's value of one column of an inserted row -/
def insCol (ts : TableSchema) (given : OvsRow) (c : String) : Option Value :=
  match get? ts.cols c with
  | none => none
  | some cs =>
    match get? given c with
    | some o => (ovsToNative cs o).toOption
    | none => some (zeroValue cs)

theorem insertRow_eq (ts : TableSchema) (given : OvsRow) :
    Rfc.insertRow ts given = (keys ts.cols).eraseDups.mapM (fun c => (insCol ts given c).map (fun v => (c, v))) := by
  unfold Rfc.insertRow
  congr 1
  funext c
  unfold insCol
  cases get? ts.cols c <;> simp only [bind, Option.bind, Option.map]
  rename_i cs
  cases get? given c <;> simp only [pure]
  rename_i o
  cases (ovsToNative cs o).toOption <;> rfl

theorem mapM_pairs_get {ν : Type} (g : String → Option ν) (l : List String) (r : AMap String ν)
    (h : l.mapM (fun c => (g c).map (fun v => (c, v))) = some r) (c : String) :
    get? r c = if c ∈ l then g c else none := by
  induction l generalizing r with
  | nil => simp at h; subst h; simp
  | cons a t ih =>
    rw [List.mapM_cons] at h
    cases hga : g a with
    | none => simp [hga] at h
    | some v =>
      cases ht : t.mapM (fun c => (g c).map (fun v => (c, v))) with
      | none => simp [hga, ht] at h
      | some r' =>
        simp [hga, ht] at h
        subst h
        rw [get?_cons]
        by_cases hca : a = c
        · subst hca; simp [hga]
        · have : ¬ c = a := fun e => hca e.symm
          simp [hca, this, ih r' ht]

theorem mapM_some_of_forall {α β : Type} (g : α → Option β) (l : List α) (h : ∀ a ∈ l, (g a).isSome) :
    ∃ r, l.mapM g = some r := by
  induction l with
  | nil => exact ⟨[], rfl⟩
  | cons a t ih =>
    obtain ⟨r, hr⟩ := ih (fun x hx => h x (List.mem_cons_of_mem _ hx))
    have ha := h a List.mem_cons_self
    cases hga : g a with
    | none => simp [hga] at ha
    | some b => exact ⟨b :: r, by simp [List.mapM_cons, hga, hr]⟩

/-- **C03 (17)** an `insert` stores the given columns and the default of every other
    column, as the reference says: whenever the code builds the new row, the reference
    builds it too and the two agree column by column. -/
theorem insert_refines_reference (ts : TableSchema) (given : OvsRow) (m : Model)
    (hu : "_uuid" ∉ keys ts.cols)
    (h : getRowData ts given (newModel ts) = .ok m) :
    ∃ r', Rfc.insertRow ts given = some r' ∧ ∀ c, get? m.row c = get? r' c := by
  unfold getRowData dedupKeys at h
  have hl : "_uuid" ∉ (keys ts.cols).eraseDups := by rw [List.mem_eraseDups]; exact hu
  have hne := getRowData_no_error ts given _ _ _ h
  rw [insertRow_eq]
  obtain ⟨r', hr'⟩ := mapM_some_of_forall (fun c => (insCol ts given c).map (fun v => (c, v))) (keys ts.cols).eraseDups (by
    intro c hc
    rw [List.mem_eraseDups] at hc
    have hs := get?_isSome_of_mem_keys hc
    cases hcs : get? ts.cols c with
    | none => simp [hcs] at hs
    | some cs =>
      unfold insCol
      simp only [hcs, Option.isSome_map]
      cases ho : get? given c with
      | none => simp
      | some o =>
        cases hv : ovsToNative cs o with
        | ok v => simp [Except.toOption, hv]
        | error e => exact absurd hv (hne c (by rw [List.mem_eraseDups]; exact hc) cs o e hcs ho))
  refine ⟨r', hr', ?_⟩
  intro c
  rw [mapM_pairs_get (insCol ts given) _ r' hr' c, (getRowData_fold ts given _ hl _ _ h c).1]
  have hz : get? (newModel ts).row c = (get? ts.cols c).map zeroValue := by
    unfold newModel
    simp only
    induction ts.cols with
    | nil => rfl
    | cons p t ih =>
      obtain ⟨pk, pv⟩ := p
      simp only [List.map_cons, get?_cons]
      by_cases hk : pk = c
      · simp [hk]
      · simp [hk, ih]
  by_cases hc : c ∈ (keys ts.cols).eraseDups
  · simp only [hc, if_true]
    rw [List.mem_eraseDups] at hc
    have hs := get?_isSome_of_mem_keys hc
    cases hcs : get? ts.cols c with
    | none => simp [hcs] at hs
    | some cs =>
      unfold colAfter insCol
      simp only [hcs, hz, Option.map]
      cases ho : get? given c with
      | none => simp
      | some o =>
        cases hv : ovsToNative cs o with
        | ok v => simp [Except.toOption, hv]
        | error e => exact absurd hv (hne c (by rw [List.mem_eraseDups]; exact hc) cs o e hcs ho)
  · simp only [hc, if_false, hz]
    have : get? ts.cols c = none := by
      cases hcs : get? ts.cols c with
      | none => rfl
      | some cs => exact absurd ((List.mem_eraseDups).mpr (mem_keys_of_get? hcs)) hc
    simp [this]

theorem rowOp_fold_keys (ts : TableSchema) (table : String) (rop : RowOperation) (rows : List (UUID × Row))
    (acc step : List ((String × UUID) × ModelUpdate))
    (h : rows.foldlM (fun (acc : List ((String × UUID) × ModelUpdate)) p =>
          match addOperation ts {} p.1 (some ⟨p.1, p.2⟩) rop with
          | .ok mu => if mu.isEmpty then pure acc else pure (acc ++ [((table, p.1), mu)])
          | .error e => (.error (errStr e) : Except String _)) acc = .ok step) :
    ∀ e ∈ step, e ∈ acc ∨ (e.1.1 = table ∧ ∃ row, (e.1.2, row) ∈ rows ∧
      addOperation ts {} e.1.2 (some ⟨e.1.2, row⟩) rop = .ok e.2) := by
  induction rows generalizing acc with
  | nil => simp [pure, Except.pure] at h; subst h; intro e he; exact Or.inl he
  | cons p t ih =>
    simp only [List.foldlM_cons, bind, Except.bind] at h
    split at h
    · cases h
    · rename_i acc1 h1
      intro e he
      rcases ih acc1 h e he with hin | ⟨ht, row, hrow, hop⟩
      · split at h1
        · rename_i mu hmu
          split at h1
          · simp only [pure, Except.pure, Except.ok.injEq] at h1; subst h1; exact Or.inl hin
          · simp only [pure, Except.pure, Except.ok.injEq] at h1
            subst h1
            rcases List.mem_append.mp hin with hin | hin
            · exact Or.inl hin
            · simp only [List.mem_singleton] at hin
              subst hin
              exact Or.inr ⟨rfl, p.2, by simp, hmu⟩
        · cases h1
      · exact Or.inr ⟨ht, row, List.mem_cons_of_mem _ hrow, hop⟩

/-- **C03 (18)** `update`, `mutate` and `delete` work on exactly the overlay rows of (12):
    the count they report is the number of those rows, every update they produce is
    the update of one of those rows computed from that row alone, and a `delete` marks
    exactly those rows as deleted for the rest of the transaction. -/
theorem rowOp_exact (σ : DbModel) (db : Database) (tx tx1 : Txn) (op : Operation) (rop : RowOperation) (isDelete : Bool)
    (ts : TableSchema) (tc dc : Cache)
    (hts : σ.table op.table = some ts) (htc : get? tx.cache op.table = some tc) (hdc : get? db op.table = some dc)
    (okT : CacheOK tc) (okD : CacheOK dc)
    (r : OpResult) (step : List ((String × UUID) × ModelUpdate))
    (h : rowOp σ db tx op rop isDelete = .ok (r, tx1, step)) :
    ∃ (conds : List Cond) (rows : List (UUID × Row)), nativeConds ts op.where_ = .ok conds ∧
      (∀ u row, (u, row) ∈ rows ↔
        (u ∉ tx.deleted ∧ ((get? tc.rows u = some row ∧ AllTrue conds u row) ∨
          (get? tc.rows u = none ∧ get? dc.rows u = some row ∧ AllTrue conds u row)))) ∧
      r.count = rows.length ∧
      (isDelete = true → tx1.deleted = tx.deleted ++ rows.map (·.1)) ∧
      (isDelete = false → tx1.deleted = tx.deleted) ∧
      (∀ e ∈ step, e.1.1 = op.table ∧ ∃ row, (e.1.2, row) ∈ rows ∧
        addOperation ts {} e.1.2 (some ⟨e.1.2, row⟩) rop = .ok e.2) := by
  unfold rowOp at h
  simp only [hts] at h
  split at h
  · cases h
  · rename_i rows tx2 hov
    split at h
    · cases h
    · rename_i step' hstep
      simp only [Except.ok.injEq, Prod.mk.injEq] at h
      obtain ⟨hr, htx, hs⟩ := h
      subst hs
      obtain ⟨conds, hn, hmem⟩ := overlay_exact σ db tx op.table op.where_ ts tc dc hts htc hdc okT okD (zeroOK_zeroRowOf ts) rows tx2 hov
      have hdel2 : tx2.deleted = tx.deleted := by
        unfold overlayRows at hov
        simp only [hts, htc, hdc, bind, Except.bind] at hov
        split at hov
        · cases hov
        · split at hov
          · cases hov
          · split at hov
            · cases hov
            · simp only [pure, Except.pure, Except.ok.injEq, Prod.mk.injEq] at hov
              rw [← hov.2]
      refine ⟨conds, rows, hn, hmem, by rw [← hr], ?_, ?_, ?_⟩
      · intro hd; rw [← htx]; simp [hd, hdel2]
      · intro hd; rw [← htx]; simp [hd, hdel2]
      · intro e he
        rcases rowOp_fold_keys ts op.table rop rows [] step' hstep e he with hin | hres
        · cases hin
        · exact hres


/-- the update an `update` operation records for one row carries, as its new model, the row the
    reference interpreter computes (and keeps the uuid) -/
theorem update_entry_refines (ts : TableSchema) (u : UUID) (row : Row) (given : OvsRow) (mu : ModelUpdate)
    (hu : "_uuid" ∉ keys given) (hval : ValTyped ts given) (hrt : RowTyped ts row)
    (h : addOperation ts {} u (some ⟨u, row⟩) (.update given) = .ok mu) (hne : mu.isEmpty = false) :
    ∃ new, mu.new = some new ∧ new.uuid = u ∧ mu.old = some ⟨u, row⟩ ∧
      ∃ r', Rfc.updateRow ts row given = some r' ∧ ∀ k, get? new.row k = get? r' k := by
  unfold addOperation at h
  simp only [bind, Except.bind] at h
  split at h
  · cases h
  · rename_i oldRow _
    split at h
    · cases h
    · rename_i res hres
      obtain ⟨chg, new, delta⟩ := res
      simp only at h
      split at h
      · simp only [pure, Except.pure, Except.ok.injEq] at h
        subst h
        simp [ModelUpdate.isEmpty] at hne
      · split at h
        · cases h
        · rename_i newR _
          unfold addUpdate mergeUpdate at h
          simp only [ModelUpdate.isEmpty] at h
          simp [mergeRowUpdate] at h
          subst h
          obtain ⟨r', hr', hrow, hid⟩ := update_refines_reference ts ⟨u, row⟩ given chg new delta hu hval hrt hres
          exact ⟨new, rfl, hid, rfl, r', hr', hrow⟩

/-- the update a `delete` operation records for one row removes that row -/
theorem delete_entry (ts : TableSchema) (u : UUID) (row : Row) (mu : ModelUpdate)
    (h : addOperation ts {} u (some ⟨u, row⟩) .delete = .ok mu) :
    mu.new = none ∧ mu.old = some ⟨u, row⟩ := by
  unfold addOperation at h
  simp only [bind, Except.bind] at h
  split at h
  · cases h
  · unfold addUpdate mergeUpdate at h
    simp only [ModelUpdate.isEmpty] at h
    simp [mergeRowUpdate] at h
    subst h
    exact ⟨rfl, rfl⟩

end Ovsdb.C03
