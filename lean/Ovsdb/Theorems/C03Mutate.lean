import Ovsdb.Theorems.C03Ref
/-
  C03 (continued) — `mutate` at row level: the fold of `ModelUpdates.AddOperation` over the mutations of
  one operation computes, column by column and up to the equality of sets as sets and of maps as maps,
  the row the RFC 7047 reference interpreter computes.
-/
namespace Ovsdb.C03
open Ovsdb AMap

/-! ### one value -/

theorem mem_insertAll' (cur vs : List Atom) (e : Atom) : e ∈ (insertAll cur vs).1 ↔ e ∈ cur ∨ e ∈ vs :=
  mem_insertAll vs cur [] e

theorem mem_removeAll' (cur vs : List Atom) (hn : cur.Nodup) (e : Atom) : e ∈ (removeAll cur vs).1 ↔ e ∈ cur ∧ e ∉ vs :=
  mem_removeAll vs cur [] hn e

theorem get?_foldl_erase (ps : List (Atom × Atom)) (m : AMap Atom Atom) (k : Atom) :
    get? (ps.foldl (fun acc p => erase acc p.1) m) k = if k ∈ ps.map Prod.fst then none else get? m k := by
  induction ps generalizing m with
  | nil => simp
  | cons p t ih =>
    simp only [List.foldl_cons, ih, List.map_cons, List.mem_cons]
    by_cases h1 : k ∈ t.map Prod.fst
    · simp [h1]
    · simp only [h1, if_false, or_false]
      by_cases h2 : k = p.1
      · subst h2; simp
      · simp [h2, get?_erase, Ne.symm h2]

theorem get?_filter_pair (l : AMap Atom Atom) (hn : (l.map Prod.fst).Nodup) (q : Atom × Atom → Bool) (k : Atom) :
    get? (l.filter q) k = (get? l k).bind (fun v => if q (k, v) then some v else none) := by
  induction l with
  | nil => simp
  | cons p t ih =>
    obtain ⟨pk, pv⟩ := p
    simp only [List.map_cons, List.nodup_cons] at hn
    by_cases e : pk = k
    · subst e
      have hnone : get? t pk = none := by
        cases hg : get? t pk with
        | none => rfl
        | some v => exact absurd (mem_keys_of_get? hg) hn.1
      by_cases hq : q (pk, pv) = true
      · simp [List.filter_cons, hq, get?_cons]
      · simp only [List.filter_cons, hq, Bool.false_eq_true, if_false, get?_cons, if_true, Option.bind_some]
        rw [ih hn.2, hnone]; rfl
    · by_cases hq : q (pk, pv) = true
      · simp [List.filter_cons, hq, get?_cons, e, ih hn.2]
      · simp [List.filter_cons, hq, get?_cons, e, ih hn.2]

theorem mem_keys_filter_pairs (a mp : AMap Atom Atom) (k : Atom) :
    k ∈ ((mapPairs a).filter (fun p => get? mp p.1 == some p.2)).map Prod.fst ↔
      ∃ v, get? a k = some v ∧ get? mp k = some v := by
  simp only [List.mem_map, List.mem_filter, beq_iff_eq]
  constructor
  · rintro ⟨⟨pk, pv⟩, ⟨hm, hg⟩, rfl⟩
    exact ⟨pv, (mem_mapPairs_iff a (pk, pv)).mp hm, hg⟩
  · rintro ⟨v, ha, hm⟩
    exact ⟨(k, v), ⟨(mem_mapPairs_iff a (k, v)).mpr ha, hm⟩, rfl⟩

/-- the code's new value is the reference's, whenever the reference defines one -/
theorem mutate_agrees (cur nv r : Value) (m : Mutator) (hwf : cur.WF)
    (h : Rfc.mutateValue cur m nv = some r) : (mutate cur m nv).1 ≃ᵥ r := by
  cases cur with
  | atom a =>
    cases nv with
    | atom b =>
      cases a <;> cases b <;> try (simp [Rfc.mutateValue] at h)
      · rename_i x y
        rw [mutate_int_documented x y m r h]; exact Value.Equiv.refl r
      · rename_i x y
        rw [mutate_real_documented x y m r h]; exact Value.Equiv.refl r
    | _ => cases a <;> simp [Rfc.mutateValue] at h
  | opt o => simp [Rfc.mutateValue] at h
  | set s =>
    cases nv with
    | set a =>
      cases m <;> simp only [Rfc.mutateValue, Option.some.injEq] at h <;> try (cases h)
      · simp only [mutate, Value.Equiv]
        intro x
        rw [mem_insertAll']
        simp only [List.mem_append, List.mem_eraseDups, List.mem_filter, decide_eq_true_eq]
        constructor
        · rintro (h | h)
          · exact Or.inl h
          · by_cases hs : x ∈ s
            · exact Or.inl hs
            · exact Or.inr ⟨h, hs⟩
        · rintro (h | h)
          · exact Or.inl h
          · exact Or.inr h.1
      · simp only [mutate, Value.Equiv]
        intro x
        rw [mem_removeAll' _ _ hwf]
        simp [List.mem_filter]
    | atom b =>
      cases m <;> simp only [Rfc.mutateValue, Option.some.injEq] at h <;> try (cases h)
      · simp only [mutate, Value.Equiv]
        intro x
        rw [mem_insertAll']
        by_cases hb : b ∈ s
        · simp only [hb, if_true, List.mem_singleton]
          constructor
          · rintro (h | h)
            · exact h
            · subst h; exact hb
          · exact Or.inl
        · simp [hb]
      · simp only [mutate, Value.Equiv]
        intro x
        rw [mem_removeAll' _ _ hwf]
        simp [List.mem_filter]
    | _ => simp [Rfc.mutateValue] at h
  | map mp =>
    cases nv with
    | map a =>
      cases m <;> simp only [Rfc.mutateValue, Option.some.injEq] at h <;> try (cases h)
      · simp only [mutate, Value.Equiv]
        intro k
        rw [get?_append, get?_append]
        have hf := get?_filter_key (l := mapPairs a) (fun x => (get? mp x).isNone) k
        rw [hf]
        cases hc : get? mp k <;> simp <;> (cases get? (mapPairs a) k <;> rfl)
      · simp only [mutate, Value.Equiv]
        intro k
        rw [get?_foldl_erase, get?_filter_pair _ (nodup_keys_mapPairs mp), get?_mapPairs]
        by_cases hk : k ∈ ((mapPairs a).filter (fun p => get? mp p.1 == some p.2)).map Prod.fst
        · rw [if_pos hk]
          obtain ⟨v, ha, hm⟩ := (mem_keys_filter_pairs a mp k).mp hk
          simp [hm, ha]
        · rw [if_neg hk]
          cases hm : get? mp k with
          | none => rfl
          | some v =>
            have : get? a k ≠ some v := fun ha => hk ((mem_keys_filter_pairs a mp k).mpr ⟨v, ha, hm⟩)
            simp [this]
    | set ks =>
      cases m <;> simp only [Rfc.mutateValue, Option.some.injEq] at h <;> try (cases h)
      simp only [mutate, Value.Equiv]
      intro k
      rw [get?_foldl_erase]
      have hf := get?_filter_key (l := mapPairs mp) (fun x => decide (x ∉ ks)) k
      simp only [decide_eq_true_eq] at hf
      rw [show (List.filter (fun p => decide (p.1 ∉ ks)) (mapPairs mp)) =
        List.filter (fun p => (fun x => decide (x ∉ ks)) p.1) (mapPairs mp) from rfl, hf, get?_mapPairs]
      have hmem : k ∈ ((dedup ks).filterMap (fun k => (get? mp k).map (fun v => (k, v)))).map Prod.fst ↔
          k ∈ ks ∧ (get? mp k).isSome = true := by
        simp only [List.mem_map, List.mem_filterMap, mem_dedup, Option.map_eq_some_iff]
        constructor
        · rintro ⟨p, ⟨k', hk', v, hv, rfl⟩, rfl⟩
          exact ⟨hk', by simp [hv]⟩
        · rintro ⟨hk, hs⟩
          obtain ⟨v, hv⟩ := Option.isSome_iff_exists.mp hs
          exact ⟨(k, v), ⟨k, hk, v, hv, rfl⟩, rfl⟩
      by_cases hk : k ∈ ks
      · cases hm : get? mp k with
        | none => simp [hk, hm, hmem]
        | some v => simp [hk, hm, hmem]
      · simp [hk, hmem]
    | _ => simp [Rfc.mutateValue] at h


/-! ### sets stay duplicate-free -/

theorem nodup_insertAll_aux (vs cur added : List Atom) (hn : cur.Nodup) :
    (vs.foldl (fun (acc : List Atom × List Atom) v =>
      if v ∈ acc.1 then acc else (acc.1 ++ [v], acc.2 ++ [v])) (cur, added)).1.Nodup := by
  induction vs generalizing cur added with
  | nil => exact hn
  | cons v t ih =>
    simp only [List.foldl_cons]
    split
    · exact ih _ _ hn
    · rename_i hv
      apply ih
      rw [List.nodup_append]
      exact ⟨hn, by simp, by intro a ha b hb; simp at hb; subst hb; intro e; exact hv (e ▸ ha)⟩

theorem nodup_removeAll_aux (vs cur removed : List Atom) (hn : cur.Nodup) :
    (vs.foldl (fun (acc : List Atom × List Atom) v =>
      if v ∈ acc.1 then (acc.1.erase v, acc.2 ++ [v]) else acc) (cur, removed)).1.Nodup := by
  induction vs generalizing cur removed with
  | nil => exact hn
  | cons v t ih =>
    simp only [List.foldl_cons]
    split
    · exact ih _ _ (hn.erase v)
    · exact ih _ _ hn

/-- where the reference defines a result, the code's new value is well-formed again -/
theorem mutate_wf (cur nv r : Value) (m : Mutator) (hwf : cur.WF) (h : Rfc.mutateValue cur m nv = some r) :
    (mutate cur m nv).1.WF := by
  cases cur with
  | atom a =>
    cases nv with
    | atom b => simp only [mutate]; split <;> exact trivial
    | _ => exact trivial
  | opt o => simp [Rfc.mutateValue] at h
  | map mp => cases nv <;> cases m <;> simp [mutate, Value.WF]
  | set s =>
    cases nv with
    | set a =>
      cases m <;> simp only [Rfc.mutateValue] at h <;> try (cases h)
      · exact nodup_insertAll_aux a s [] hwf
      · exact nodup_removeAll_aux a s [] hwf
    | atom b =>
      cases m <;> simp only [Rfc.mutateValue] at h <;> try (cases h)
      · exact nodup_insertAll_aux [b] s [] hwf
      · exact nodup_removeAll_aux [b] s [] hwf
    | _ => simp [Rfc.mutateValue] at h

/-! ### the reference respects the equality of sets as sets and maps as maps -/

theorem rfc_mutate_congr (c c' nv r' : Value) (m : Mutator) (he : c ≃ᵥ c')
    (h : Rfc.mutateValue c' m nv = some r') : ∃ r, Rfc.mutateValue c m nv = some r ∧ r ≃ᵥ r' := by
  cases c with
  | atom a =>
    cases c' <;> simp only [Value.Equiv] at he
    subst he
    exact ⟨r', h, Value.Equiv.refl _⟩
  | opt o =>
    cases c' <;> simp only [Value.Equiv] at he
    subst he
    exact ⟨r', h, Value.Equiv.refl _⟩
  | set s =>
    cases c' with
    | set s' =>
      simp only [Value.Equiv] at he
      cases nv with
      | set a =>
        cases m <;> simp only [Rfc.mutateValue, Option.some.injEq] at h ⊢ <;> try (cases h)
        · refine ⟨_, rfl, ?_⟩
          intro x
          simp only [List.mem_append, List.mem_eraseDups, List.mem_filter, decide_eq_true_eq, he x]
        · refine ⟨_, rfl, ?_⟩
          intro x
          simp only [List.mem_filter, he x]
      | atom b =>
        cases m <;> simp only [Rfc.mutateValue, Option.some.injEq] at h ⊢ <;> try (cases h)
        · refine ⟨_, rfl, ?_⟩
          intro x
          by_cases hb : b ∈ s
          · have hb' : b ∈ s' := (he b).mp hb
            simp [hb, hb', he x]
          · have hb' : b ∉ s' := fun e => hb ((he b).mpr e)
            simp [hb, hb', he x]
        · refine ⟨_, rfl, ?_⟩
          intro x
          simp only [List.mem_filter, he x]
      | _ => simp [Rfc.mutateValue] at h
    | _ => simp only [Value.Equiv] at he
  | map mp =>
    cases c' with
    | map mp' =>
      simp only [Value.Equiv] at he
      cases nv with
      | map a =>
        cases m <;> simp only [Rfc.mutateValue, Option.some.injEq] at h ⊢ <;> try (cases h)
        · refine ⟨_, rfl, ?_⟩
          intro k
          rw [get?_append, get?_append, get?_filter_key (l := mapPairs a) (fun x => (get? mp x).isNone) k,
            get?_filter_key (l := mapPairs a) (fun x => (get? mp' x).isNone) k, he k]
        · refine ⟨_, rfl, ?_⟩
          intro k
          rw [get?_filter_pair _ (nodup_keys_mapPairs mp), get?_filter_pair _ (nodup_keys_mapPairs mp'),
            get?_mapPairs, get?_mapPairs, he k]
      | set ks =>
        cases m <;> simp only [Rfc.mutateValue, Option.some.injEq] at h ⊢ <;> try (cases h)
        refine ⟨_, rfl, ?_⟩
        intro k
        have h1 := get?_filter_key (l := mapPairs mp) (fun x => decide (x ∉ ks)) k
        have h2 := get?_filter_key (l := mapPairs mp') (fun x => decide (x ∉ ks)) k
        rw [show (List.filter (fun p => decide (p.1 ∉ ks)) (mapPairs mp)) =
          List.filter (fun p => (fun x => decide (x ∉ ks)) p.1) (mapPairs mp) from rfl, h1,
          show (List.filter (fun p => decide (p.1 ∉ ks)) (mapPairs mp')) =
          List.filter (fun p => (fun x => decide (x ∉ ks)) p.1) (mapPairs mp') from rfl, h2,
          get?_mapPairs, get?_mapPairs, he k]
      | _ => simp [Rfc.mutateValue] at h
    | _ => simp only [Value.Equiv] at he

/-- **C03 (17)** one mutation of one column: the code's new value, computed from a well-formed value
    that equals the reference's current value as a set / map, equals the reference's new value -/
theorem mutate_value_refines (cur cur' nv r' : Value) (m : Mutator) (hwf : cur.WF) (he : cur ≃ᵥ cur')
    (h : Rfc.mutateValue cur' m nv = some r') : (mutate cur m nv).1 ≃ᵥ r' ∧ (mutate cur m nv).1.WF := by
  obtain ⟨r, hr, hrr⟩ := rfc_mutate_congr cur cur' nv r' m he h
  exact ⟨(mutate_agrees cur nv r m hwf hr).trans hrr, mutate_wf cur nv r m hwf hr⟩

end Ovsdb.C03

namespace Ovsdb.C03
open Ovsdb AMap

/-! ### one row: the fold over the mutations of an operation -/

/-- division and modulo by zero are domain errors -/
def domainCheck (nv : Value) (m : Mutator) : Except OpErr Unit :=
  match nv, m with
  | .atom (.int 0), .div => throw OpErr.domain
  | .atom (.int 0), .mod => throw OpErr.domain
  | .atom (.real r), .div => if r == 0 then throw OpErr.domain else pure ()
  | _, _ => pure ()

/-- the step of the fold in `addOperation` (`.mutate`) -/
def mutStep (ts : TableSchema) (old : Model) (acc : Model × AMap String Value) (mu : Mutation) :
    Except OpErr (Model × AMap String Value) :=
  match get? ts.cols mu.col with
  | none => pure acc
  | some cs => do
    let nv ← liftE (mutationValue cs mu.mutator mu.val)
    liftE (validateMutation cs mu.mutator nv)
    domainCheck nv mu.mutator
    match acc.1.field mu.col, old.field mu.col with
    | some cur, some o =>
      if outOfRange cur mu.mutator nv then throw OpErr.range
      else
        let (newV, diff) := mutate cur mu.mutator nv
        let r := mergeDifference (some o) (get? acc.2 mu.col) diff
        let diffs := match r.2, r.1 with
          | true, some d => insert acc.2 mu.col d
          | _, _ => erase acc.2 mu.col
        pure (acc.1.setField mu.col newV, diffs)
    | _, _ => throw OpErr.other

/-- what a successful step did -/
theorem mutStep_ok (ts : TableSchema) (old : Model) (acc acc' : Model × AMap String Value) (mu : Mutation)
    (cs : ColSchema) (hcs : get? ts.cols mu.col = some cs) (h : mutStep ts old acc mu = .ok acc') :
    ∃ nv cur o, mutationValue cs mu.mutator mu.val = .ok nv ∧ validateMutation cs mu.mutator nv = .ok () ∧
      acc.1.field mu.col = some cur ∧ old.field mu.col = some o ∧
      acc'.1 = acc.1.setField mu.col (mutate cur mu.mutator nv).1 := by
  unfold mutStep at h
  simp only [hcs, bind, Except.bind] at h
  cases hmv : mutationValue cs mu.mutator mu.val with
  | error e => simp [hmv, liftE] at h
  | ok nv =>
    simp only [hmv, liftE] at h
    cases hval : validateMutation cs mu.mutator nv with
    | error e => simp [hval] at h
    | ok u =>
      simp only [hval] at h
      cases hdc : domainCheck nv mu.mutator with
      | error e => simp [hdc] at h
      | ok u' =>
        simp only [hdc] at h
        cases hf : acc.1.field mu.col with
        | none => simp [hf, throw, throwThe, MonadExceptOf.throw] at h
        | some cur =>
          cases ho : old.field mu.col with
          | none => simp [hf, ho, throw, throwThe, MonadExceptOf.throw] at h
          | some o =>
            simp only [hf, ho] at h
            split at h
            · simp [throw, throwThe, MonadExceptOf.throw] at h
            · simp only [pure, Except.pure, Except.ok.injEq] at h
              exact ⟨nv, cur, o, rfl, hval, rfl, rfl, by rw [← h]⟩

/-- arithmetic on a set column takes an atom where the conversion wrapped it in a set -/
def adjArg (k : ColKind) (m : Mutator) (arg : Value) : Value :=
  match k, arg with
  | .set, .set [a] => if isArith m then .atom a else arg
  | _, a => a

/-- the step of the reference's fold (`Rfc.applyMutations`) -/
def refMutStep (ts : TableSchema) (r : Row) (mu : Mutation) : Option Row :=
  match get? ts.cols mu.col with
  | none => none
  | some cs =>
    if !cs.mutable || cs.isEnum then none else
    match Rfc.mutationArg cs mu.mutator mu.val with
    | none => none
    | some arg =>
      match get? r mu.col with
      | none => none
      | some cur =>
        match Rfc.mutateValue cur mu.mutator (adjArg cs.kind mu.mutator arg) with
        | none => none
        | some nv => some (insert r mu.col nv)

theorem refMutStep_eq (ts : TableSchema) (r : Row) (mu : Mutation) :
    (do
      let cs ← get? ts.cols mu.col
      if !cs.mutable || cs.isEnum then none
      let arg ← Rfc.mutationArg cs mu.mutator mu.val
      let cur ← get? r mu.col
      let nv ← Rfc.mutateValue cur mu.mutator (match cs.kind, arg with
        | .set, .set [a] => if isArith mu.mutator then .atom a else arg
        | _, a => a)
      pure (insert r mu.col nv) : Option Row) = refMutStep ts r mu := by
  unfold refMutStep
  cases get? ts.cols mu.col with
  | none => rfl
  | some cs =>
    simp only [bind, Option.bind]
    split
    · rfl
    · cases Rfc.mutationArg cs mu.mutator mu.val with
      | none => rfl
      | some arg =>
        cases get? r mu.col with
        | none => rfl
        | some cur =>
          simp only
          have : (match cs.kind, arg with
              | .set, .set [a] => if isArith mu.mutator then Value.atom a else arg
              | _, a => a) = adjArg cs.kind mu.mutator arg := rfl
          rw [this]
          cases Rfc.mutateValue cur mu.mutator (adjArg cs.kind mu.mutator arg) <;> rfl

theorem applyMutations_eq (ts : TableSchema) (row : Row) (ms : List Mutation) :
    Rfc.applyMutations ts row ms = ms.foldlM (refMutStep ts) row := by
  unfold Rfc.applyMutations
  congr 1
  funext r mu
  exact refMutStep_eq ts r mu

/-- the rows agree column by column, sets as sets and maps as maps, and the code's values are well formed -/
def RowsAgree (m : Row) (r : Row) : Prop :=
  ∀ k, match get? m k, get? r k with
    | some a, some b => a ≃ᵥ b ∧ a.WF
    | none, none => True
    | _, _ => False

end Ovsdb.C03

namespace Ovsdb.C03
open Ovsdb AMap

theorem validate_set_singleton_not_arith (cs : ColSchema) (m : Mutator) (a : Atom)
    (hk : cs.kind = .set) (h : validateMutation cs m (.set [a]) = .ok ()) : isArith m = false := by
  unfold validateMutation at h
  split at h
  · cases h
  · simp only [hk] at h
    cases m <;> simp [isArith] at h ⊢

theorem adj_eq (cs : ColSchema) (m : Mutator) (nv : Value) (hval : validateMutation cs m nv = .ok ()) :
    adjArg cs.kind m nv = nv := by
  unfold adjArg
  split
  · rename_i a hk
    rw [validate_set_singleton_not_arith cs m a hk hval]; rfl
  · rfl

theorem rowsAgree_insert {m r : Row} (h : RowsAgree m r) (c : String) {a b : Value} (hab : a ≃ᵥ b) (hwf : a.WF) :
    RowsAgree (insert m c a) (insert r c b) := by
  intro k
  rw [get?_insert, get?_insert]
  by_cases hk : k = c
  · rw [if_pos hk, if_pos hk]; exact ⟨hab, hwf⟩
  · rw [if_neg hk, if_neg hk]; exact h k

theorem mutStep_refines (ts : TableSchema) (old : Model) (acc acc' : Model × AMap String Value) (mu : Mutation)
    (r r1 : Row) (hu : get? ts.cols "_uuid" = none) (hag : RowsAgree acc.1.row r)
    (h : mutStep ts old acc mu = .ok acc') (href : refMutStep ts r mu = some r1) :
    RowsAgree acc'.1.row r1 ∧ acc'.1.uuid = acc.1.uuid := by
  unfold refMutStep at href
  cases hcs : get? ts.cols mu.col with
  | none => simp [hcs] at href
  | some cs =>
    have hc : mu.col ≠ "_uuid" := fun e => by rw [e, hu] at hcs; cases hcs
    obtain ⟨nv, cur, o, hmv, hval, hfield, _, hacc⟩ := mutStep_ok ts old acc acc' mu cs hcs h
    have harg : Rfc.mutationArg cs mu.mutator mu.val = some nv := by
      simp [Rfc.mutationArg, hmv, Except.toOption]
    simp only [hcs, harg, adj_eq cs mu.mutator nv hval] at href
    split at href
    · cases href
    · cases hcur' : get? r mu.col with
      | none => simp [hcur'] at href
      | some cur' =>
        simp only [hcur'] at href
        cases hnv : Rfc.mutateValue cur' mu.mutator nv with
        | none => simp [hnv] at href
        | some nv' =>
          simp only [hnv, Option.some.injEq] at href
          subst href
          have hk := hag mu.col
          have hcur : get? acc.1.row mu.col = some cur := by simpa [Model.field, hc] using hfield
          rw [hcur', hcur] at hk
          obtain ⟨hrel, hwf⟩ := hk
          obtain ⟨hr1, hr2⟩ := mutate_value_refines cur cur' nv nv' mu.mutator hwf hrel hnv
          rw [hacc]
          simp only [Model.setField, hc, if_false]
          exact ⟨rowsAgree_insert hag mu.col hr1 hr2, trivial⟩

/-- **C03 (18)** `mutate` on one row.  Whenever the code's fold over the mutations of an operation succeeds
    and the reference interpreter accepts the same mutations on a row that agrees with the code's row (sets
    as sets, maps as maps), the resulting rows agree again, column by column, and the row keeps its uuid. -/
theorem mutFold_refines (ts : TableSchema) (old : Model) (hu : get? ts.cols "_uuid" = none) (ms : List Mutation)
    (acc acc' : Model × AMap String Value) (r r' : Row) (hag : RowsAgree acc.1.row r)
    (h : ms.foldlM (mutStep ts old) acc = .ok acc') (href : ms.foldlM (refMutStep ts) r = some r') :
    RowsAgree acc'.1.row r' ∧ acc'.1.uuid = acc.1.uuid := by
  induction ms generalizing acc r with
  | nil =>
    simp only [List.foldlM_nil, pure, Except.pure, Except.ok.injEq, Option.some.injEq] at h href
    subst h; subst href
    exact ⟨hag, rfl⟩
  | cons mu t ih =>
    simp only [List.foldlM_cons, bind, Except.bind, Option.bind] at h href
    cases h1 : mutStep ts old acc mu with
    | error e => simp [h1] at h
    | ok acc1 =>
      cases hr1 : refMutStep ts r mu with
      | none => simp [hr1] at href
      | some r1 =>
        simp only [h1, hr1] at h href
        obtain ⟨hag1, hu1⟩ := mutStep_refines ts old acc acc1 mu r r1 hu hag h1 hr1
        obtain ⟨hag', hu'⟩ := ih acc1 r1 hag1 h href
        exact ⟨hag', hu'.trans hu1⟩

/-- the statement for a stored row: the code starts from the stored model, the reference from its row -/
theorem mutate_refines_reference (ts : TableSchema) (old : Model) (hu : get? ts.cols "_uuid" = none)
    (hwf : ∀ k v, get? old.row k = some v → v.WF) (ms : List Mutation) (new : Model) (diffs : AMap String Value)
    (r' : Row) (h : ms.foldlM (mutStep ts old) (old, []) = .ok (new, diffs))
    (href : Rfc.applyMutations ts old.row ms = some r') :
    RowsAgree new.row r' ∧ new.uuid = old.uuid := by
  rw [applyMutations_eq] at href
  refine mutFold_refines ts old hu ms (old, []) (new, diffs) old.row r' ?_ h href
  intro k
  cases hk : get? old.row k with
  | none => trivial
  | some v => exact ⟨Value.Equiv.refl v, hwf k v hk⟩

/-- the step of the fold exactly as `addOperation` writes it -/
def mutStepRaw (ts : TableSchema) (old : Model) (acc : Model × AMap String Value) (mu : Mutation) :
    Except OpErr (Model × AMap String Value) :=
      match get? ts.cols mu.col with
      | none => pure acc
      | some cs => do
        let nv ← liftE (mutationValue cs mu.mutator mu.val)
        liftE (validateMutation cs mu.mutator nv)
        match nv, mu.mutator with
        | .atom (.int 0), .div => throw OpErr.domain
        | .atom (.int 0), .mod => throw OpErr.domain
        | .atom (.real r), .div => if r == 0 then throw OpErr.domain
        | _, _ => pure ()
        match acc.1.field mu.col, old.field mu.col with
        | some cur, some o =>
          if outOfRange cur mu.mutator nv then throw OpErr.range
          let (newV, diff) := mutate cur mu.mutator nv
          let r := mergeDifference (some o) (get? acc.2 mu.col) diff
          let diffs := match r.2, r.1 with
            | true, some d => insert acc.2 mu.col d
            | _, _ => erase acc.2 mu.col
          pure (acc.1.setField mu.col newV, diffs)
        | _, _ => throw OpErr.other

theorem mutStepRaw_eq (ts : TableSchema) (old : Model) : mutStepRaw ts old = mutStep ts old := by
  funext acc mu
  unfold mutStepRaw mutStep domainCheck
  cases get? ts.cols mu.col with
  | none => rfl
  | some cs =>
    simp only [bind, Except.bind]
    cases liftE (mutationValue cs mu.mutator mu.val) with
    | error e => rfl
    | ok nv =>
      simp only
      cases liftE (validateMutation cs mu.mutator nv) with
      | error e => rfl
      | ok u =>
        simp only
        split <;> (first | rfl | (split <;> rfl) | (split <;> split <;> rfl) | (split <;> (try split) <;> (try split) <;> rfl))

/-- the tie to the model of the code: `addOperation` for a `mutate` runs exactly this fold -/
theorem addOperation_mutate_eq (ts : TableSchema) (acc : ModelUpdate) (u : UUID) (old : Model) (ms : List Mutation) :
    addOperation ts acc u (some old) (.mutate ms) = (do
      let oldRow ← liftE (newRow ts old)
      let (new, diffs) ← ms.foldlM (mutStepRaw ts old) (old, [])
      if diffs.isEmpty then pure acc
      else do
        let delta ← (mergeModifyRow.mapKeysDedup (diffs.map (fun p => (p.1, OvsVal.set [])))).foldlM
          (fun (d : OvsRow) c =>
            match get? ts.cols c, get? diffs c with
            | some cs, some v => do
              let o ← liftE (nativeToOvs cs v)
              pure (insert d c o)
            | _, _ => pure d) []
        let newR ← liftE (newRow ts new)
        addUpdate ts acc { old := some old, new := some new,
                           ru2 := some { modify := some delta, old := some oldRow, new := some newR } }) := rfl

/-- a `mutate` that the code accepts ran the fold to the end -/
theorem addOperation_mutate_fold (ts : TableSchema) (acc : ModelUpdate) (u : UUID) (old : Model) (ms : List Mutation)
    (mu : ModelUpdate) (h : addOperation ts acc u (some old) (.mutate ms) = .ok mu) :
    ∃ new diffs, ms.foldlM (mutStep ts old) (old, []) = .ok (new, diffs) := by
  rw [addOperation_mutate_eq, mutStepRaw_eq] at h
  simp only [bind, Except.bind] at h
  split at h
  · cases h
  · split at h
    · cases h
    · rename_i p hp
      exact ⟨p.1, p.2, hp⟩

/-! ### range errors -/

theorem inRange_none_iff (r : Int) : Rfc.inRange r = none ↔ (r < int64Lo ∨ r > int64Hi) := by
  unfold Rfc.inRange Rfc.int64Min Rfc.int64Max int64Lo int64Hi
  split
  · constructor
    · intro h; cases h
    · intro h; omega
  · constructor
    · intro _; omega
    · intro _; rfl

/-- **C03 (20)** range errors, integers: the code refuses an arithmetic mutation exactly when the
    reference has no result for it because of overflow (the zero divisor is refused before, as a domain
    error) -/
theorem outOfRange_int_iff (x y : Int) (m : Mutator) (hm : isArith m = true) (hz : (m = .div ∨ m = .mod) → y ≠ 0) :
    outOfRange (.atom (.int x)) m (.atom (.int y)) = true ↔ Rfc.mutateValue (.atom (.int x)) m (.atom (.int y)) = none := by
  cases m <;> simp only [isArith] at hm <;>
    simp only [outOfRange, Rfc.mutateValue, Bool.or_eq_true, decide_eq_true_eq, Option.map_eq_none_iff]
  · exact (inRange_none_iff _).symm
  · exact (inRange_none_iff _).symm
  · exact (inRange_none_iff _).symm
  · have := hz (Or.inl rfl)
    simp only [this, if_false, Option.map_eq_none_iff]
    exact (inRange_none_iff _).symm
  · have := hz (Or.inr rfl)
    simp [this]
  all_goals cases hm

/-- the same for reals: a result that is not a finite float64 -/
theorem outOfRange_real_iff (x y : Rat) (m : Mutator) (hm : isArith m = true) (hmod : m ≠ .mod) (hz : m = .div → y ≠ 0) :
    outOfRange (.atom (.real x)) m (.atom (.real y)) = true ↔ Rfc.mutateValue (.atom (.real x)) m (.atom (.real y)) = none := by
  have hr : ∀ r : Rat, Rfc.realInRange r = none ↔ (r < -maxFloat64 ∨ r > maxFloat64) := by
    intro r
    unfold Rfc.realInRange
    split
    · rename_i h
      constructor
      · intro h'; cases h'
      · intro h'
        rcases h' with h' | h'
        · exact absurd h.1 (Rat.not_le.mpr h')
        · exact absurd h.2 (Rat.not_le.mpr h')
    · rename_i h
      constructor
      · intro _
        by_cases h1 : -maxFloat64 ≤ r
        · right
          exact Rat.not_le.mp (fun h2 => h ⟨h1, h2⟩)
        · left; exact Rat.not_le.mp h1
      · intro _; rfl
  cases m <;> simp only [isArith] at hm <;>
    simp only [outOfRange, Rfc.mutateValue, Bool.or_eq_true, decide_eq_true_eq, Option.map_eq_none_iff]
  · exact (hr _).symm
  · exact (hr _).symm
  · exact (hr _).symm
  · have := hz rfl
    simp only [this, if_false, Option.map_eq_none_iff]
    exact (hr _).symm
  · exact absurd rfl hmod
  all_goals cases hm

end Ovsdb.C03
