import Ovsdb.Model.Txn
import Ovsdb.Theorems.C05
/-
  C06 — "Unique indexes are enforced at commit, and only at commit".

  After every committed transaction no two rows of a table have equal values
  in all columns of any index declared by the schema; a transaction whose final
  state would contain such a pair is rejected with a constraint violation.  A
  transaction that creates a duplicate only transiently is accepted.

  Model: Ovsdb.checkIndexes (Transaction.checkIndexes as repaired, defects
  D2/D40): the final rows of the transaction are indexed anew, and every
  schema index of every such row is looked up in the database, ignoring
  database rows the transaction deleted or holds a newer version of.

  `FinalView` is what the table holds if the transaction commits: the rows of
  the transaction cache, plus the database rows the transaction neither
  deleted nor holds.  That the committed database equals this view is tied by
  the correspondence run (database dump after every commit), not proved here.
-/
namespace Ovsdb.C06
open Ovsdb AMap

/-- row `u` of table cache `tc` / database cache `dbc` as the transaction leaves it -/
def FinalView (tx : Txn) (tc dbc : Cache) (u : UUID) : Option Row :=
  match get? tc.rows u with
  | some r => some r
  | none => if u ∈ tx.deleted then none else get? dbc.rows u

theorem mem_eraseDups_keys_of_get? {m : AMap UUID Row} {u : UUID} {r : Row} (h : get? m u = some r) :
    u ∈ (keys m).eraseDups := by
  rw [List.mem_eraseDups]; exact mem_keys_of_get? h

/-- **C06 (1)** soundness: if the commit-time check passes, no two distinct rows
    of the final view that involve a row of the transaction agree on a schema
    index. -/
theorem check_passes_no_duplicate (σ : DbModel) (db : Database) (tx : Txn) (h : checkIndexes σ db tx = false)
    (t : String) (tc : Cache) (htc : (t, tc) ∈ tx.cache) (u : UUID) (row : Row) (hu : get? tc.rows u = some row) :
    (∀ s ∈ σ.specsOf t, s.isSchema = true → ∀ u' row', u' ≠ u → get? tc.rows u' = some row' →
        idxVal s row' ≠ idxVal s row) ∧
    (∀ ix ∈ ((get? db t).getD (Cache.empty [])).ixs, ix.spec.isSchema = true → ∀ e erow, e ≠ u → e ∉ tx.deleted →
        get? tc.rows e = none → get? ((get? db t).getD (Cache.empty [])).rows e = some erow →
        idxVal ix.spec erow ≠ idxVal ix.spec row) := by
  unfold checkIndexes at h
  rw [List.any_eq_false] at h
  have h1 := h (t, tc) htc
  simp only [Bool.not_eq_true] at h1
  rw [List.any_eq_false] at h1
  have h2 := h1 u (mem_eraseDups_keys_of_get? hu)
  simp only [hu, Bool.or_eq_true, not_or, Bool.not_eq_true] at h2
  obtain ⟨ha, hb⟩ := h2
  constructor
  · intro ix hix hs u' row' hne hu' heq
    rw [List.any_eq_false] at ha
    have := ha ix hix
    simp only [hs, Bool.true_and, Bool.not_eq_true] at this
    rw [List.any_eq_false] at this
    have h3 := this u' (mem_eraseDups_keys_of_get? hu')
    simp [hne, hu', heq] at h3
  · intro ix hix hs e erow hne hnd hnt he heq
    rw [List.any_eq_false] at hb
    have := hb ix hix
    simp only [hs, Bool.true_and, Bool.not_eq_true] at this
    rw [List.any_eq_false] at this
    have h3 := this e (mem_eraseDups_keys_of_get? he)
    simp [hne, hnd, hnt, he, heq] at h3

/-- **C06 (2)** completeness: a final state in which a row of the transaction
    agrees with another row of the final view on a schema index is rejected. -/
theorem duplicate_rejected (σ : DbModel) (db : Database) (tx : Txn)
    (t : String) (tc : Cache) (htc : (t, tc) ∈ tx.cache) (u : UUID) (row : Row) (hu : get? tc.rows u = some row)
    (hdup :
      (∃ s ∈ σ.specsOf t, s.isSchema = true ∧ ∃ u' row', u' ≠ u ∧ get? tc.rows u' = some row' ∧
        idxVal s row' = idxVal s row) ∨
      (∃ ix ∈ ((get? db t).getD (Cache.empty [])).ixs, ix.spec.isSchema = true ∧ ∃ e erow, e ≠ u ∧ e ∉ tx.deleted ∧
        get? tc.rows e = none ∧ get? ((get? db t).getD (Cache.empty [])).rows e = some erow ∧
        idxVal ix.spec erow = idxVal ix.spec row)) :
    checkIndexes σ db tx = true := by
  unfold checkIndexes
  rw [List.any_eq_true]
  refine ⟨(t, tc), htc, ?_⟩
  rw [List.any_eq_true]
  refine ⟨u, mem_eraseDups_keys_of_get? hu, ?_⟩
  simp only [hu, Bool.or_eq_true]
  rcases hdup with ⟨ix, hix, hs, u', row', hne, hu', heq⟩ | ⟨ix, hix, hs, e, erow, hne, hnd, hnt, he, heq⟩
  · left
    rw [List.any_eq_true]
    refine ⟨ix, hix, ?_⟩
    simp only [hs, Bool.true_and]
    rw [List.any_eq_true]
    exact ⟨u', mem_eraseDups_keys_of_get? hu', by simp [hne, hu', heq]⟩
  · right
    rw [List.any_eq_true]
    refine ⟨ix, hix, ?_⟩
    simp only [hs, Bool.true_and]
    rw [List.any_eq_true]
    exact ⟨e, mem_eraseDups_keys_of_get? he, by simp [hne, hnd, hnt, he, heq]⟩

/-- **C06 (3)**: with a duplicate-free database, a passing check means the whole
    final view of the table is duplicate-free. -/
theorem final_view_unique (σ : DbModel) (db : Database) (tx : Txn) (h : checkIndexes σ db tx = false)
    (t : String) (tc : Cache) (htc : (t, tc) ∈ tx.cache)
    (hspecs : ∀ s, s ∈ σ.specsOf t → s.isSchema = true → (∃ ix ∈ ((get? db t).getD (Cache.empty [])).ixs, ix.spec = s))
    (hdb : ∀ ix ∈ ((get? db t).getD (Cache.empty [])).ixs, ix.spec.isSchema = true → ∀ a b ra rb, a ≠ b →
      get? ((get? db t).getD (Cache.empty [])).rows a = some ra → get? ((get? db t).getD (Cache.empty [])).rows b = some rb →
      idxVal ix.spec ra ≠ idxVal ix.spec rb)
    (s : Spec) (hs : s.isSchema = true) (hsin : s ∈ σ.specsOf t)
    (a b : UUID) (ra rb : Row) (hab : a ≠ b)
    (ha : FinalView tx tc ((get? db t).getD (Cache.empty [])) a = some ra)
    (hb : FinalView tx tc ((get? db t).getD (Cache.empty [])) b = some rb) :
    idxVal s ra ≠ idxVal s rb := by
  obtain ⟨ixd, hixd, hsd⟩ := hspecs s hsin hs
  unfold FinalView at ha hb
  cases hta : get? tc.rows a with
  | some r1 =>
    rw [hta] at ha; cases ha
    obtain ⟨p1, p2⟩ := check_passes_no_duplicate σ db tx h t tc htc a ra hta
    cases htb : get? tc.rows b with
    | some r2 =>
      rw [htb] at hb; cases hb
      have := p1 s hsin hs b rb (fun e => hab e.symm) htb
      exact fun e => this e.symm
    | none =>
      rw [htb] at hb
      simp only at hb
      split at hb
      · cases hb
      · rename_i hnd
        have := p2 ixd hixd (by rw [hsd]; exact hs) b rb (fun e => hab e.symm) hnd htb hb
        rw [hsd] at this
        exact fun e => this e.symm
  | none =>
    rw [hta] at ha
    simp only at ha
    split at ha
    · cases ha
    · rename_i hnda
      cases htb : get? tc.rows b with
      | some r2 =>
        rw [htb] at hb; cases hb
        obtain ⟨_, p2⟩ := check_passes_no_duplicate σ db tx h t tc htc b rb htb
        have := p2 ixd hixd (by rw [hsd]; exact hs) a ra hab hnda hta ha
        rw [hsd] at this
        exact this
      | none =>
        rw [htb] at hb
        simp only at hb
        split at hb
        · cases hb
        · have := hdb ixd hixd (by rw [hsd]; exact hs) a b ra rb hab ha hb
          rw [hsd] at this
          exact this

/-- **C06 (4)**: a transient duplicate is not an error: swapping the indexed
    values of two rows inside one transaction is accepted (concrete run of the
    whole model; the general statement is `final_view_unique` + completeness:
    only the FINAL view is examined). -/
def exModel : DbModel :=
  { schema := [("T", { cols := [("name", { kind := .atom, key := .string })], indexes := [["name"]], isRoot := true })],
    specs := [("T", [⟨"name", [⟨"name", none, .str ""⟩], true⟩])] }
def u1 : UUID := "11111111-1111-4111-8111-111111111111"
def u2 : UUID := "22222222-2222-4222-8222-222222222222"
def setup : List Operation :=
  [{ op := "insert", table := "T", uuid := u1, row := [("name", .atom (.str "a"))] },
   { op := "insert", table := "T", uuid := u2, row := [("name", .atom (.str "b"))] }]
def swap : List Operation :=
  [{ op := "update", table := "T", where_ := [⟨"_uuid", .eq, .atom (.uuid u1)⟩], row := [("name", .atom (.str "tmp"))] },
   { op := "update", table := "T", where_ := [⟨"_uuid", .eq, .atom (.uuid u2)⟩], row := [("name", .atom (.str "a"))] },
   { op := "update", table := "T", where_ := [⟨"_uuid", .eq, .atom (.uuid u1)⟩], row := [("name", .atom (.str "b"))] }]
def dupInsert : List Operation :=
  [{ op := "insert", table := "T", uuid := "33333333-3333-4333-8333-333333333333", row := [("name", .atom (.str "a"))] }]

def dbAfter (ops : List (List Operation)) : Database :=
  ops.foldl (fun d o => match commit d (transact exModel d o).updates with | .ok d' => d' | .error _ => d) (Database.empty exModel)

theorem transient_duplicate_accepted : (transact exModel (dbAfter [setup]) swap).committed = true := by decide
theorem duplicate_after_swap_rejected :
    (transact exModel (dbAfter [setup, swap]) dupInsert).results.map (·.error) = [none, some "constraint violation"] := by
  decide

/-! ### what "agree on a schema index" means -/

/-- two rows have the same index value exactly when they agree on every column (and map key) of the
    index, an unset optional agreeing with an unset optional only -/
theorem idxVal_eq_iff (s : Spec) (a b : Row) :
    idxVal s a = idxVal s b ↔ ∀ ck ∈ s.cols, valueFromColumnKey a ck = valueFromColumnKey b ck := by
  unfold idxVal
  constructor
  · intro h ck hck
    have := List.map_inj_left.mp h
    exact this ck hck
  · intro h
    exact List.map_congr_left h

/-- the pinned index value (defect D68) left unset optionals out of the tuple: over two optional
    columns, (unset, a) and (a, unset) were one value -/
def idxValPinned (spec : Spec) (row : Row) : List Atom := spec.cols.filterMap (valueFromColumnKey row)

theorem pinned_index_value_collides :
    let s : Spec := ⟨"t1,t2", [⟨"t1", none, .str ""⟩, ⟨"t2", none, .str ""⟩], true⟩
    let r1 : Row := [("t1", .opt none), ("t2", .opt (some (.str "a")))]
    let r2 : Row := [("t1", .opt (some (.str "a"))), ("t2", .opt none)]
    idxValPinned s r1 = idxValPinned s r2 ∧ idxVal s r1 ≠ idxVal s r2 := by
  decide

end Ovsdb.C06
