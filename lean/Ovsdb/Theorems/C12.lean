import Ovsdb.Model.WireEnc
/-
  C12 — wire encoding round-trips every protocol value.

  decode (encode v) = v for uuids, atoms, sets, maps (the one-element set and
  its element being the same wire value), conditions, mutations, rows; for base
  types with every constraint, column types (atomic shorthand, min/max,
  "unlimited"), column schemas and monitor selects.  The pinned base-type codec
  (minLength taken from maxLength) is shown to lose a member on a concrete
  schema.
-/
namespace Ovsdb.C12
open Ovsdb Ovsdb.Wire

/-! ### values -/

/-- **C12 (1)** uuids and named uuids -/
theorem uuid_roundtrip (p : String → Bool) (s : String) : decodeUUID (encodeUUID p s) = .ok s := by
  unfold decodeUUID encodeUUID unmarshalStrings
  by_cases h : p s <;> simp [h, idx, bind, Outcome.bind]

theorem atom_roundtrip (p : String → Bool) (n : Nat) (a : WAtom) :
    decodeVal (n + 1) (encodeWAtom p a) = .ok a.toGo := by
  cases a with
  | num r => simp [encodeWAtom, decodeVal, WAtom.toGo]
  | str s => simp [encodeWAtom, decodeVal, WAtom.toGo]
  | bool b => simp [encodeWAtom, decodeVal, WAtom.toGo]
  | uuid s =>
    have hu := uuid_roundtrip p s
    unfold encodeWAtom
    unfold decodeVal
    unfold encodeUUID at *
    by_cases h : p s <;> simp [h, idx, strEq, bind, Outcome.bind, WAtom.toGo, pure] at * <;> simp [hu]

theorem mapO_atoms (p : String → Bool) (n : Nat) (l : List WAtom) :
    mapO (decodeVal (n + 1)) (l.map (encodeWAtom p)) = .ok (l.map WAtom.toGo) := by
  induction l with
  | nil => rfl
  | cons a t ih => simp [mapO, atom_roundtrip, ih]

/-- an encoded atom is never an array that `decodeMapPart` would reject -/
theorem mapPart_atom (p : String → Bool) (n : Nat) (a : WAtom) :
    decodeMapPart (decodeVal (n + 1)) (encodeWAtom p a) = .ok a.toGo := by
  cases a with
  | num r => simp [encodeWAtom, decodeMapPart, WAtom.toGo]
  | str s => simp [encodeWAtom, decodeMapPart, WAtom.toGo]
  | bool b => simp [encodeWAtom, decodeMapPart, WAtom.toGo]
  | uuid s =>
    have h := atom_roundtrip p n (.uuid s)
    simp only [encodeWAtom] at h
    simp only [encodeWAtom, encodeUUID, decodeMapPart] at *
    by_cases hp : p s <;> simp [hp, headIs, strEq] at * <;> exact h

theorem comparable_atom (a : WAtom) : comparable a.toGo = true := by
  cases a <;> simp [WAtom.toGo, comparable]

theorem mapO_pairs (p : String → Bool) (n : Nat) (m : List (WAtom × WAtom)) :
    mapO (decodeMapPair (decodeVal (n + 1))) (m.map (fun q => J.arr [encodeWAtom p q.1, encodeWAtom p q.2]))
      = .ok (m.map (fun q => (q.1.toGo, q.2.toGo))) := by
  induction m with
  | nil => rfl
  | cons a t ih =>
    have h : decodeMapPair (decodeVal (n + 1)) (J.arr [encodeWAtom p a.1, encodeWAtom p a.2]) = .ok (a.1.toGo, a.2.toGo) := by
      simp [decodeMapPair, isArr, assertArr, idx, bind, Outcome.bind, mapPart_atom, comparable_atom, pure]
    simp [mapO, h, ih]

/-- **C12 (2)** every value survives the wire; the only identification is the
    one the notation makes itself (a one-element set is its element) -/
theorem value_roundtrip (p : String → Bool) (n : Nat) (v : WVal) :
    decodeVal (n + 2) (encodeWVal p v) = .ok v.collapse.toGo := by
  cases v with
  | atom a => simpa [encodeWVal, WVal.collapse, WVal.toGo] using atom_roundtrip p (n + 1) a
  | set l =>
    match l with
    | [a] => simpa [encodeWVal, WVal.collapse, WVal.toGo] using atom_roundtrip p (n + 1) a
    | [] =>
      simp [encodeWVal, WVal.collapse, WVal.toGo, decodeVal, idx, strEq, decodeSetBody, headIs, isArr, assertArr, mapO,
        bind, Outcome.bind, pure]
    | a :: b :: t =>
      have hm := mapO_atoms p n (a :: b :: t)
      simp only [encodeWVal, WVal.collapse, WVal.toGo]
      unfold decodeVal
      simp [idx, strEq, decodeSetBody, headIs, isArr, assertArr, bind, Outcome.bind, pure] at *
      simp [hm]
  | map m =>
    have hm := mapO_pairs p n m
    simp only [encodeWVal, WVal.collapse, WVal.toGo]
    unfold decodeVal
    simp [idx, strEq, decodeMapBody, headIs, isArr, assertArr, bind, Outcome.bind, pure] at *
    simp [hm]

/-- **C12 (3)** conditions: every function, every value -/
theorem condition_roundtrip (p : String → Bool) (n : Nat) (col fn : String) (v : WVal) (hf : fn ∈ condFunctions) :
    decodeCondition (n + 2) (encodeCondition p (col, fn, v)) = .ok (col, fn, v.collapse.toGo) := by
  have hv := value_roundtrip p n v
  simp [decodeCondition, encodeCondition, unmarshalArray, idx, isStr, assertStr, hf, hv, bind, Outcome.bind, pure]

/-- **C12 (4)** mutations: every mutator, every value -/
theorem mutation_roundtrip (p : String → Bool) (n : Nat) (col mu : String) (v : WVal) (hf : mu ∈ mutators) :
    decodeMutation (n + 2) (encodeCondition p (col, mu, v)) = .ok (col, mu, v.collapse.toGo) := by
  have hv := value_roundtrip p n v
  simp [decodeMutation, encodeCondition, unmarshalArray, idx, isStr, assertStr, hf, hv, bind, Outcome.bind, pure]

/-- **C12 (5)** rows: every column keeps its name and value -/
theorem row_roundtrip (p : String → Bool) (n : Nat) (r : List (String × WVal)) :
    decodeRow (n + 2) (encodeRow p r) = .ok (r.map (fun q => (q.1, q.2.collapse.toGo))) := by
  simp only [decodeRow, encodeRow]
  induction r with
  | nil => rfl
  | cons a t ih =>
    have hv := value_roundtrip p n a.2
    simp [mapO, hv, bind, Outcome.bind, pure] at *
    simp [ih]

/-! ### encoding/json struct primitives -/

theorem getF_nil (k : String) : getF (mkObj []) k = none := rfl

theorem mkObj_cons_none (k : String) (fs : List (String × Option J)) : mkObj ((k, none) :: fs) = mkObj fs := by
  simp [mkObj]

theorem mkObj_cons_some (k : String) (v : J) (fs : List (String × Option J)) :
    mkObj ((k, some v) :: fs) = (k, v) :: mkObj fs := by
  simp [mkObj]

theorem getF_cons_ne (k k' : String) (o : Option J) (fs : List (String × Option J)) (h : (k == k') = false) :
    getF (mkObj ((k', o) :: fs)) k = getF (mkObj fs) k := by
  cases o with
  | none => rw [mkObj_cons_none]
  | some v => rw [mkObj_cons_some]; simp [getF, List.lookup, h]

def NotNull : Option J → Prop
  | some .null => False
  | _ => True

theorem getF_cons_eq (k : String) (o : Option J) (fs : List (String × Option J))
    (hrest : getF (mkObj fs) k = none) (hn : NotNull o) :
    getF (mkObj ((k, o) :: fs)) k = o := by
  cases o with
  | none => rw [mkObj_cons_none]; exact hrest
  | some v =>
    rw [mkObj_cons_some]
    cases v <;> simp_all [getF, List.lookup, NotNull]

theorem lookup_none_of_not_mem (fs : List (String × Option J)) (k : String) (h : k ∉ fs.map (·.1)) : fs.lookup k = none := by
  induction fs with
  | nil => rfl
  | cons p t ih =>
    simp only [List.map_cons, List.mem_cons, not_or] at h
    have : (k == p.1) = false := by simpa using h.1
    simp [List.lookup, this, ih h.2]

/-- member lookup in an encoded struct whose fields have distinct names -/
theorem getF_mkObj (fs : List (String × Option J)) (hnd : (fs.map (·.1)).Nodup) (hnn : ∀ q ∈ fs, NotNull q.2) (k : String) :
    getF (mkObj fs) k = (fs.lookup k).join := by
  induction fs with
  | nil => rfl
  | cons p t ih =>
    obtain ⟨k', o⟩ := p
    simp only [List.map_cons, List.nodup_cons] at hnd
    have iht := ih hnd.2 (fun q hq => hnn q (by simp [hq]))
    by_cases hk : (k == k') = true
    · have hkk : k = k' := by simpa using hk
      subst hkk
      have hrest : getF (mkObj t) k = none := by
        rw [iht, lookup_none_of_not_mem t k hnd.1]; rfl
      rw [getF_cons_eq k o t hrest (hnn (k, o) (by simp))]
      simp [List.lookup]
    · have hk' : (k == k') = false := by simpa using hk
      rw [getF_cons_ne k k' o t hk', iht]
      simp [List.lookup, hk']

theorem getFRaw_mkObj (fs : List (String × Option J)) (hnd : (fs.map (·.1)).Nodup) (k : String) :
    getFRaw (mkObj fs) k = (fs.lookup k).join := by
  induction fs with
  | nil => rfl
  | cons p t ih =>
    obtain ⟨k', o⟩ := p
    simp only [List.map_cons, List.nodup_cons] at hnd
    have iht := ih hnd.2
    by_cases hk : (k == k') = true
    · have hkk : k = k' := by simpa using hk
      subst hkk
      cases o with
      | none =>
        rw [mkObj_cons_none, iht, lookup_none_of_not_mem t k hnd.1]
        simp [List.lookup]
      | some v => rw [mkObj_cons_some]; simp [getFRaw, List.lookup]
    · have hk' : (k == k') = false := by simpa using hk
      cases o with
      | none => rw [mkObj_cons_none, iht]; simp [List.lookup, hk']
      | some v =>
        rw [mkObj_cons_some]
        simp only [getFRaw, List.lookup, hk']
        exact iht ▸ rfl

theorem notNull_map {α} (o : Option α) (f : α → J) (h : ∀ a, f a ≠ .null) : NotNull (o.map f) := by
  cases o with
  | none => trivial
  | some a =>
    have := h a
    simp only [Option.map]
    generalize f a = x at *
    cases x <;> simp_all [NotNull]

theorem optInt_jInt (o : Option Int) : optInt (o.map jInt) = .ok o := by
  cases o with
  | none => rfl
  | some i => simp [optInt, jInt]

theorem optNum_num (o : Option Rat) : optNum (o.map J.num) = .ok o := by
  cases o <;> rfl

theorem optStr_str (o : Option String) : optStr (o.map J.str) = .ok o := by
  cases o <;> rfl

theorem optBool_bool (o : Option Bool) : optBool (o.map J.bool) = .ok o := by
  cases o <;> rfl

/-! ### schema types -/

/-- an atom of an enum as the decoder leaves it: a JSON number, string or boolean -/
def IsAtomJ : J → Prop
  | .num _ | .str _ | .bool _ => True
  | .arr l => isUUIDAtomJ l = true      -- ["uuid", x]
  | _ => False

/-- a base type as a decoder can produce it from well-formed JSON -/
structure BaseWF (b : BaseType) : Prop where
  enumAtoms : ∀ a ∈ b.enum, IsAtomJ a
  /-- the degenerate `"enum": ["set", []]` (member present, no value) is not re-encoded -/
  enumSet : b.enumSet = !b.enum.isEmpty
  /-- the decoder accepts the five atomic type names only, in the string and in the object form -/
  atomic : atomicTypeNames.contains b.type = true

theorem decodeEnum_encodeEnum (l : List J) (h : ∀ a ∈ l, IsAtomJ a) : decodeEnum (encodeEnum l) = .ok (l, !l.isEmpty) := by
  match l with
  | [] => rfl
  | [a] =>
    have := h a (by simp)
    cases a <;> simp_all [encodeEnum, decodeEnum, IsAtomJ]
  | a :: b :: t =>
    have hne : isUUIDAtomJ [J.str "set", J.arr (a :: b :: t)] = false := by
      simp [isUUIDAtomJ]
    simp [encodeEnum, decodeEnum, hne, headIs, strEq, idx, isArr, assertArr, bind, Outcome.bind, pure]

theorem notNull_encodeEnum (l : List J) (h : ∀ a ∈ l, IsAtomJ a) : NotNull (encodeEnum l) := by
  match l with
  | [] => trivial
  | [a] =>
    have := h a (by simp)
    cases a <;> simp_all [encodeEnum, NotNull, IsAtomJ]
  | a :: b :: t => simp [encodeEnum, NotNull]

/-- **C12 (6)** base types: every constraint member survives, each in its own place -/
theorem baseType_roundtrip (b : BaseType) (hwf : BaseWF b) : decodeBaseType (encodeBaseType b) = .ok b := by
  have hEnum := decodeEnum_encodeEnum b.enum hwf.enumAtoms
  have hnE := notNull_encodeEnum b.enum hwf.enumAtoms
  have hnT : NotNull (if b.type = "" then none else some (J.str b.type)) := by
    split <;> simp [NotNull]
  have nn1 := notNull_map b.minReal J.num (by intro a; simp)
  have nn2 := notNull_map b.maxReal J.num (by intro a; simp)
  have nn3 := notNull_map b.minInteger jInt (by intro a; simp [jInt])
  have nn4 := notNull_map b.maxInteger jInt (by intro a; simp [jInt])
  have nn5 := notNull_map b.minLength jInt (by intro a; simp [jInt])
  have nn6 := notNull_map b.maxLength jInt (by intro a; simp [jInt])
  have nn7 := notNull_map b.refTable J.str (by intro a; simp)
  have nn8 := notNull_map b.refType J.str (by intro a; simp)
  unfold decodeBaseType encodeBaseType
  have hnn : ∀ q ∈ [("type", if b.type = "" then none else some (J.str b.type)),
      ("enum", encodeEnum b.enum), ("minReal", b.minReal.map J.num), ("maxReal", b.maxReal.map J.num),
      ("minInteger", b.minInteger.map jInt), ("maxInteger", b.maxInteger.map jInt),
      ("minLength", b.minLength.map jInt), ("maxLength", b.maxLength.map jInt),
      ("refTable", b.refTable.map J.str), ("refType", b.refType.map J.str)], NotNull q.2 := by
    intro q hq
    simp only [List.mem_cons, List.not_mem_nil, or_false] at hq
    rcases hq with h | h | h | h | h | h | h | h | h | h <;> (subst h; assumption)
  simp only [getF_mkObj _ (by simp) hnn]
  have hT : optStr (if b.type = "" then none else some (J.str b.type)) = .ok (if b.type = "" then none else some b.type) := by
    split <;> rfl
  simp [List.lookup, hT, hEnum, optNum_num, optInt_jInt, optStr_str, bind, Outcome.bind, pure]
  have hes := hwf.enumSet
  have hat := hwf.atomic
  cases b
  simp only [BaseType.mk.injEq, and_true]
  simp only at hes hat
  split <;> simp_all [atomicTypeNames]

theorem notNull_some_obj (m : List (String × J)) : NotNull (some (J.obj m)) := trivial

theorem encodeBaseType_isObj (b : BaseType) : ∃ m, encodeBaseType b = .obj m := ⟨_, rfl⟩

theorem optBase_encode (o : Option BaseType) (h : ∀ b, o = some b → BaseWF b) :
    optBase (o.map encodeBaseType) = .ok o := by
  cases o with
  | none => rfl
  | some b => simp [optBase, baseType_roundtrip b (h b rfl), bind, Outcome.bind, pure]

theorem notNull_optBase (o : Option BaseType) : NotNull (o.map encodeBaseType) := by
  cases o with
  | none => trivial
  | some b => simp [encodeBaseType, NotNull]

theorem simpleAtomic_eta (b : BaseType) (h : b.simpleAtomic = true) :
    b = { type := b.type } ∧ atomicTypeNames.contains b.type = true := by
  cases b
  simp only [BaseType.simpleAtomic, Bool.and_eq_true, List.isEmpty_iff, Option.isNone_iff_eq_none] at h
  simp_all

theorem decodeMax_jInt (i : Int) : decodeMax (some (jInt i)) = .ok (some i) := by
  simp only [decodeMax, jInt]
  by_cases h : (0 : Rat) ≤ (i : Rat) <;> simp [h, Rat.floor_intCast, Rat.ceil_intCast]

/-- a column type as a decoder can produce it: the "unlimited" marker is -1 and
    no other negative maximum is a column type -/
structure ColTypeWF (c : ColumnType) : Prop where
  key : BaseWF c.key
  value : ∀ b, c.value = some b → BaseWF b

/-- **C12 (7)** column types: the atomic shorthand, key/value base types, min,
    max and "unlimited" all survive -/
theorem columnType_roundtrip (c : ColumnType) (hwf : ColTypeWF c) : decodeColumnType (encodeColumnType c) = .ok c := by
  have hk := baseType_roundtrip c.key hwf.key
  have hv := optBase_encode c.value hwf.value
  unfold encodeColumnType
  split
  · rename_i h
    simp only [Bool.and_eq_true, Option.isNone_iff_eq_none] at h
    obtain ⟨⟨⟨h1, h2⟩, h3⟩, h4⟩ := h
    obtain ⟨he, ha⟩ := simpleAtomic_eta c.key h4
    simp only [decodeColumnType, ha, if_true]
    cases c with
    | mk key value min max =>
      simp only at h1 h2 h3 he ⊢
      subst h1 h2 h3
      rw [← he]
  · split
    · rename_i hmax
      have hnn : ∀ q ∈ [("key", some (encodeBaseType c.key)), ("value", c.value.map encodeBaseType),
          ("min", c.min.map jInt), ("max", some (J.str "unlimited"))], NotNull q.2 := by
        intro q hq
        simp only [List.mem_cons, List.not_mem_nil, or_false] at hq
        rcases hq with h | h | h | h <;> subst h
        · simp [encodeBaseType, NotNull]
        · exact notNull_optBase _
        · exact notNull_map _ _ (by intro a; simp [jInt])
        · simp [NotNull]
      simp only [decodeColumnType, getF_mkObj _ (by simp) hnn]
      have hk' : optBase (some (encodeBaseType c.key)) = .ok (some c.key) := by
        simp [optBase, hk, bind, Outcome.bind, pure]
      simp [List.lookup, hk', hv, optInt_jInt, decodeMax, bind, Outcome.bind, pure]
      cases c with
      | mk key value min max =>
        simp only [ColumnType.maxV] at hmax
        cases max with
        | none => simp at hmax
        | some m => simp at hmax; simp [hmax]
    · have hnn : ∀ q ∈ [("key", some (encodeBaseType c.key)), ("value", c.value.map encodeBaseType),
          ("min", c.min.map jInt), ("max", c.max.map jInt)], NotNull q.2 := by
        intro q hq
        simp only [List.mem_cons, List.not_mem_nil, or_false] at hq
        rcases hq with h | h | h | h <;> subst h
        · simp [encodeBaseType, NotNull]
        · exact notNull_optBase _
        · exact notNull_map _ _ (by intro a; simp [jInt])
        · exact notNull_map _ _ (by intro a; simp [jInt])
      simp only [decodeColumnType, getF_mkObj _ (by simp) hnn]
      have hk' : optBase (some (encodeBaseType c.key)) = .ok (some c.key) := by
        simp [optBase, hk, bind, Outcome.bind, pure]
      have hmx : decodeMax (c.max.map jInt) = .ok c.max := by
        cases hm : c.max with
        | none => rfl
        | some i => exact decodeMax_jInt i
      simp [List.lookup, hk', hv, optInt_jInt, hmx, bind, Outcome.bind, pure]

/-- **C12 (8)** column schemas: type, ephemeral, mutable -/
theorem columnSchema_roundtrip (c : ColumnSchema) (hwf : ColTypeWF c.type) :
    decodeColumnSchema (encodeColumnSchema c) = .ok c := by
  have ht := columnType_roundtrip c.type hwf
  have hnT : NotNull (some (encodeColumnType c.type)) := by
    unfold encodeColumnType
    split
    · simp [NotNull]
    · split <;> simp [NotNull]
  have hnn : ∀ q ∈ [("type", some (encodeColumnType c.type)), ("ephemeral", c.ephemeral.map J.bool),
      ("mutable", c.mutable.map J.bool)], NotNull q.2 := by
    intro q hq
    simp only [List.mem_cons, List.not_mem_nil, or_false] at hq
    rcases hq with h | h | h <;> subst h
    · exact hnT
    · exact notNull_map _ _ (by intro a; simp)
    · exact notNull_map _ _ (by intro a; simp)
  simp only [decodeColumnSchema, encodeColumnSchema, getF_mkObj _ (by simp) hnn]
  simp [List.lookup, ht, optBool_bool, bind, Outcome.bind, pure]

/-- the extended type (atomic / enum / set / map) inferred after decoding is the
    one of the schema that was encoded -/
theorem extType_roundtrip (c : ColumnSchema) (hwf : ColTypeWF c.type) :
    (match decodeColumnSchema (encodeColumnSchema c) with | .ok d => d.extType = c.extType | _ => False) := by
  rw [columnSchema_roundtrip c hwf]

/-- **C12 (9)** monitor selects: each of the four flags, present or absent -/
theorem monitorSelect_roundtrip (s : MonitorSelect) : decodeMonitorSelect (encodeMonitorSelect s) = .ok s := by
  have hnn : ∀ q ∈ [("initial", s.initial.map J.bool), ("insert", s.insert.map J.bool),
      ("delete", s.delete.map J.bool), ("modify", s.modify.map J.bool)], NotNull q.2 := by
    intro q hq
    simp only [List.mem_cons, List.not_mem_nil, or_false] at hq
    rcases hq with h | h | h | h <;> subst h <;> exact notNull_map _ _ (by intro a; simp)
  simp only [decodeMonitorSelect, encodeMonitorSelect, getF_mkObj _ (by simp) hnn]
  simp [List.lookup, optBool_bool, bind, Outcome.bind, pure]

/-! ### operations -/

theorem mapO_map_ok {α β γ} (f : β → Outcome γ) (enc : α → β) (g : α → γ) (l : List α)
    (h : ∀ a ∈ l, f (enc a) = .ok (g a)) : mapO f (l.map enc) = .ok (l.map g) := by
  induction l with
  | nil => rfl
  | cons a t ih =>
    have ha := h a (by simp)
    have ht := ih (fun x hx => h x (by simp [hx]))
    simp [mapO, ha, ht]

theorem optList_omitList {α γ} (f : J → Outcome γ) (enc : α → J) (g : α → γ) (l : List α)
    (h : ∀ a ∈ l, f (enc a) = .ok (g a)) : optList f (omitList enc l) = .ok (l.map g) := by
  unfold omitList
  split
  · rename_i he
    have : l = [] := by simpa using he
    subst this; rfl
  · exact mapO_map_ok f enc g l h

theorem optStr_omitStr' (s : String) : optStr (omitStr s) = .ok (if s = "" then none else some s) := by
  unfold omitStr; split <;> rfl

theorem ifGetD (s : String) : (if s = "" then none else some s).getD "" = s := by
  split <;> simp_all

theorem notNull_omitStr (s : String) : NotNull (omitStr s) := by
  unfold omitStr; split <;> simp [NotNull]

theorem notNull_omitList {α} (f : α → J) (l : List α) : NotNull (omitList f l) := by
  unfold omitList; split <;> simp [NotNull]

/-- **C12 (10)** operations: every member, present or absent, in all ten kinds;
    a `select` always carries its (possibly empty) "where" -/
theorem operation_roundtrip (p : String → Bool) (n : Nat) (o : WOperation)
    (hm : ∀ c ∈ o.mutations, c.2.1 ∈ mutators) (hw : ∀ c ∈ o.where_, c.2.1 ∈ condFunctions) :
    decodeOperation (n + 2) (encodeOperation p o) = .ok o.toGo := by
  have hrows := optList_omitList (decodeRow (n + 2)) (encodeRow p) WRow.toGo o.rows (fun r _ => row_roundtrip p n r)
  have hcols := optList_omitList strOf J.str id o.columns (fun _ _ => rfl)
  have hmuts := optList_omitList (decodeMutation (n + 2)) (encodeCondition p) tripleToGo o.mutations
    (fun c hc => mutation_roundtrip p n c.1 c.2.1 c.2.2 (hm c hc))
  have hwhere := optList_omitList (decodeCondition (n + 2)) (encodeCondition p) tripleToGo o.where_
    (fun c hc => condition_roundtrip p n c.1 c.2.1 c.2.2 (hw c hc))
  have hwhereSel : optList (decodeCondition (n + 2)) (some (.arr (o.where_.map (encodeCondition p)))) = .ok (o.where_.map tripleToGo) :=
    mapO_map_ok _ _ _ _ (fun c hc => condition_roundtrip p n c.1 c.2.1 c.2.2 (hw c hc))
  have hrow : optRow (n + 2) (if o.row.isEmpty then none else some (encodeRow p o.row)) = .ok (WRow.toGo o.row) := by
    split
    · rename_i he
      have : o.row = [] := by simpa using he
      rw [this]; rfl
    · exact row_roundtrip p n o.row
  have hnn : ∀ q ∈ [
      ("where", if o.op = "select" then some (.arr (o.where_.map (encodeCondition p))) else omitList (encodeCondition p) o.where_),
      ("op", some (J.str o.op)), ("table", omitStr o.table),
      ("row", if o.row.isEmpty then none else some (encodeRow p o.row)),
      ("rows", omitList (encodeRow p) o.rows), ("columns", omitList J.str o.columns),
      ("mutations", omitList (encodeCondition p) o.mutations), ("timeout", o.timeout.map jInt),
      ("until", omitStr o.until_), ("durable", o.durable.map J.bool), ("comment", o.comment.map J.str),
      ("lock", o.lock.map J.str), ("uuid", omitStr o.uuid), ("uuid-name", omitStr o.uuidName)], NotNull q.2 := by
    intro q hq
    simp only [List.mem_cons, List.not_mem_nil, or_false] at hq
    rcases hq with h | h | h | h | h | h | h | h | h | h | h | h | h | h <;> subst h
    · split
      · simp [NotNull]
      · exact notNull_omitList _ _
    · simp [NotNull]
    · exact notNull_omitStr _
    · split <;> simp [NotNull, encodeRow]
    · exact notNull_omitList _ _
    · exact notNull_omitList _ _
    · exact notNull_omitList _ _
    · exact notNull_map _ _ (by intro a; simp [jInt])
    · exact notNull_omitStr _
    · exact notNull_map _ _ (by intro a; simp)
    · exact notNull_map _ _ (by intro a; simp)
    · exact notNull_map _ _ (by intro a; simp)
    · exact notNull_omitStr _
    · exact notNull_omitStr _
  have hwh : optList (decodeCondition (n + 2))
      (if o.op = "select" then some (.arr (o.where_.map (encodeCondition p))) else omitList (encodeCondition p) o.where_)
      = .ok (o.where_.map tripleToGo) := by
    split
    · exact hwhereSel
    · exact hwhere
  simp only [decodeOperation, encodeOperation, getF_mkObj _ (by simp) hnn]
  have hop : optStr (some (J.str o.op)) = .ok (some o.op) := rfl
  simp only [List.isEmpty_iff] at hrow
  simp [List.lookup, hrows, hcols, hmuts, hwh, hrow, hop, optStr_omitStr', optInt_jInt, optBool_bool, optStr_str,
    bind, Outcome.bind, pure, WOperation.toGo, ifGetD]

/-- `select` with no condition still says `"where": []` on the wire (so that it
    selects every row), and decodes to an operation without conditions -/
theorem select_keeps_empty_where (p : String → Bool) (t : String) :
    (match encodeOperation p { op := "select", table := t } with
     | .obj m => getF m "where" = some (.arr [])
     | _ => False) := by
  simp [encodeOperation, mkObj, getF, List.lookup, omitStr, omitList]

/-! ### results, table updates, monitor requests and replies, table and database schemas -/

theorem decodeStrMap_encodeStrMap {α β} (f : J → Outcome β) (enc : α → J) (g : α → β) (m : List (String × α))
    (h : ∀ q ∈ m, f (enc q.2) = .ok (g q.2)) :
    decodeStrMap f (encodeStrMap enc m) = .ok (m.map (fun q => (q.1, g q.2))) := by
  simp only [decodeStrMap, encodeStrMap]
  induction m with
  | nil => rfl
  | cons a t ih =>
    have ha := h a (by simp)
    have ht := ih (fun q hq => h q (by simp [hq]))
    simp only [List.map_cons, mapO, ha]
    rw [ht]

theorem decodeStrMapPtr_encodeStrMap {α β} (f : J → Outcome β) (enc : α → J) (g : α → β) (m : List (String × α))
    (hobj : ∀ a, ∃ o, enc a = .obj o) (h : ∀ q ∈ m, f (enc q.2) = .ok (g q.2)) :
    decodeStrMapPtr f (encodeStrMap enc m) = .ok (m.map (fun q => (q.1, g q.2))) := by
  have hfilter : (m.map (fun p => (p.1, enc p.2))).filter notNullEntry = m.map (fun p => (p.1, enc p.2)) := by
    apply List.filter_eq_self.mpr
    intro q hq
    simp only [List.mem_map] at hq
    obtain ⟨a, _, rfl⟩ := hq
    obtain ⟨o, ho⟩ := hobj a.2
    simp [notNullEntry, ho]
  have := decodeStrMap_encodeStrMap f enc g m h
  simp only [decodeStrMapPtr, encodeStrMap] at *
  rw [hfilter]
  exact this

theorem optRowPtr_roundtrip (p : String → Bool) (n : Nat) (o : Option WRow) :
    optRowPtr (n + 2) (o.map (encodeRow p)) = .ok (o.map WRow.toGo) := by
  cases o with
  | none => rfl
  | some r => simp [optRowPtr, row_roundtrip p n r, WRow.toGo]

theorem notNull_encodeRow (p : String → Bool) (o : Option WRow) : NotNull (o.map (encodeRow p)) := by
  cases o <;> simp [NotNull, encodeRow]

/-- **C12 (11)** operation results: count, error and details, the uuid (always
    present), rows -/
theorem result_roundtrip (p : String → Bool) (n : Nat) (r : WResult) :
    decodeResult (n + 2) (encodeResult p r) = .ok r.toGo := by
  have hrows := optList_omitList (decodeRow (n + 2)) (encodeRow p) WRow.toGo r.rows (fun x _ => row_roundtrip p n x)
  have hnn : ∀ q ∈ [("count", if r.count = 0 then none else some (jInt r.count)), ("error", omitStr r.error),
      ("details", omitStr r.details), ("uuid", some (encodeUUID p r.uuid)), ("rows", omitList (encodeRow p) r.rows)], NotNull q.2 := by
    intro q hq
    simp only [List.mem_cons, List.not_mem_nil, or_false] at hq
    rcases hq with h | h | h | h | h <;> subst h
    · split <;> simp [NotNull, jInt]
    · exact notNull_omitStr _
    · exact notNull_omitStr _
    · simp [NotNull, encodeUUID]
    · exact notNull_omitList _ _
  have hraw := getFRaw_mkObj [("count", if r.count = 0 then none else some (jInt r.count)), ("error", omitStr r.error),
      ("details", omitStr r.details), ("uuid", some (encodeUUID p r.uuid)), ("rows", omitList (encodeRow p) r.rows)] (by simp) "uuid"
  simp only [decodeResult, encodeResult, getF_mkObj _ (by simp) hnn, hraw]
  have hc : optInt (if r.count = 0 then none else some (jInt r.count)) = .ok (if r.count = 0 then none else some r.count) := by
    split
    · rfl
    · simp [optInt, jInt]
  simp [List.lookup, hc, hrows, optStr_omitStr', optUUID, uuid_roundtrip, bind, Outcome.bind, pure, WResult.toGo, ifGetD]
  split <;> simp_all

/-- **C12 (12)** RFC 7047 row updates: old and new, each present or absent -/
theorem rowUpdate_roundtrip (p : String → Bool) (n : Nat) (u : WRowUpdate) :
    decodeRowUpdate (n + 2) (encodeRowUpdate p u) = .ok u.toGo := by
  have hnn : ∀ q ∈ [("new", u.new.map (encodeRow p)), ("old", u.old.map (encodeRow p))], NotNull q.2 := by
    intro q hq
    simp only [List.mem_cons, List.not_mem_nil, or_false] at hq
    rcases hq with h | h <;> subst h <;> exact notNull_encodeRow p _
  simp only [decodeRowUpdate, encodeRowUpdate, getF_mkObj _ (by simp) hnn]
  simp [List.lookup, optRowPtr_roundtrip, bind, Outcome.bind, pure, WRowUpdate.toGo]

/-- **C12 (13)** update2 / update3 row updates: initial, insert, modify, delete -/
theorem rowUpdate2_roundtrip (p : String → Bool) (n : Nat) (u : WRowUpdate2) :
    decodeRowUpdate2 (n + 2) (encodeRowUpdate2 p u) = .ok u.toGo := by
  have hnn : ∀ q ∈ [("initial", u.initial.map (encodeRow p)), ("insert", u.insert.map (encodeRow p)),
      ("modify", u.modify.map (encodeRow p)), ("delete", u.delete.map (encodeRow p))], NotNull q.2 := by
    intro q hq
    simp only [List.mem_cons, List.not_mem_nil, or_false] at hq
    rcases hq with h | h | h | h <;> subst h <;> exact notNull_encodeRow p _
  simp only [decodeRowUpdate2, encodeRowUpdate2, getF_mkObj _ (by simp) hnn]
  simp [List.lookup, optRowPtr_roundtrip, bind, Outcome.bind, pure, WRowUpdate2.toGo]

/-- **C12 (14)** table updates in both formats: every table, every row -/
theorem tableUpdates_roundtrip (p : String → Bool) (n : Nat) (tu : List (String × List (String × WRowUpdate))) :
    decodeTableUpdates (decodeRowUpdate (n + 2)) (encodeTableUpdates (encodeRowUpdate p) tu) =
      .ok (tu.map (fun t => (t.1, t.2.map (fun q => (q.1, q.2.toGo))))) := by
  apply decodeStrMap_encodeStrMap
  intro t _
  exact decodeStrMapPtr_encodeStrMap _ _ _ _ (fun a => ⟨_, rfl⟩) (fun q _ => rowUpdate_roundtrip p n q.2)

theorem tableUpdates2_roundtrip (p : String → Bool) (n : Nat) (tu : List (String × List (String × WRowUpdate2))) :
    decodeTableUpdates (decodeRowUpdate2 (n + 2)) (encodeTableUpdates (encodeRowUpdate2 p) tu) =
      .ok (tu.map (fun t => (t.1, t.2.map (fun q => (q.1, q.2.toGo))))) := by
  apply decodeStrMap_encodeStrMap
  intro t _
  exact decodeStrMapPtr_encodeStrMap _ _ _ _ (fun a => ⟨_, rfl⟩) (fun q _ => rowUpdate2_roundtrip p n q.2)

/-- **C12 (15)** monitor_cond_since replies -/
theorem condSince_roundtrip (p : String → Bool) (n : Nat) (found : Bool) (txn : String)
    (tu : List (String × List (String × WRowUpdate2))) :
    decodeCondSince (decodeRowUpdate2 (n + 2)) (encodeCondSince (encodeRowUpdate2 p) found txn tu) =
      .ok (found, txn, tu.map (fun t => (t.1, t.2.map (fun q => (q.1, q.2.toGo))))) := by
  simp [decodeCondSince, encodeCondSince, tableUpdates2_roundtrip]

/-- **C12 (16)** monitor requests: columns, conditions, select -/
theorem monitorRequest_roundtrip (p : String → Bool) (n : Nat) (r : WMonitorRequest)
    (hw : ∀ c ∈ r.where_, c.2.1 ∈ condFunctions) :
    decodeMonitorRequest (n + 2) (encodeMonitorRequest p r) =
      .ok { columns := r.columns, where_ := r.where_.map tripleToGo, select := r.select } := by
  have hcols := optList_omitList strOf J.str id r.columns (fun _ _ => rfl)
  have hwhere := optList_omitList (decodeCondition (n + 2)) (encodeCondition p) tripleToGo r.where_
    (fun c hc => condition_roundtrip p n c.1 c.2.1 c.2.2 (hw c hc))
  have hsel : optSelect (r.select.map encodeMonitorSelect) = .ok r.select := by
    cases hs : r.select with
    | none => rfl
    | some s => simp [optSelect, monitorSelect_roundtrip]
  have hnn : ∀ q ∈ [("columns", omitList J.str r.columns), ("where", omitList (encodeCondition p) r.where_),
      ("select", r.select.map encodeMonitorSelect)], NotNull q.2 := by
    intro q hq
    simp only [List.mem_cons, List.not_mem_nil, or_false] at hq
    rcases hq with h | h | h <;> subst h
    · exact notNull_omitList _ _
    · exact notNull_omitList _ _
    · cases r.select <;> simp [NotNull, encodeMonitorSelect]
  simp only [decodeMonitorRequest, encodeMonitorRequest, getF_mkObj _ (by simp) hnn]
  simp [List.lookup, hcols, hwhere, hsel, bind, Outcome.bind, pure]

/-- **C12 (17)** table schemas: columns (each a column schema), indexes, isRoot -/
theorem tableSchema_roundtrip (t : TableSchemaW) (hwf : ∀ q ∈ t.columns, ColTypeWF q.2.type) :
    decodeTableSchema (encodeTableSchema t) = .ok t := by
  have hcols := decodeStrMapPtr_encodeStrMap decodeColumnSchema encodeColumnSchema id t.columns
    (fun a => ⟨_, rfl⟩) (fun q hq => columnSchema_roundtrip q.2 (hwf q hq))
  have hidx := optList_omitList strList (fun (ix : List String) => J.arr (ix.map J.str)) id t.indexes
    (fun ix _ => by simpa [strList] using mapO_map_ok strOf J.str id ix (fun _ _ => rfl))
  have hnn : ∀ q ∈ [("columns", some (encodeStrMap encodeColumnSchema t.columns)),
      ("indexes", omitList (fun (ix : List String) => J.arr (ix.map J.str)) t.indexes),
      ("isRoot", if t.isRoot then some (J.bool true) else none)], NotNull q.2 := by
    intro q hq
    simp only [List.mem_cons, List.not_mem_nil, or_false] at hq
    rcases hq with h | h | h <;> subst h
    · simp [NotNull, encodeStrMap]
    · exact notNull_omitList _ _
    · split <;> simp [NotNull]
  simp only [decodeTableSchema, encodeTableSchema, getF_mkObj _ (by simp) hnn]
  have hroot : optBool (if t.isRoot = true then some (J.bool true) else none) = .ok (if t.isRoot = true then some true else none) := by
    split <;> rfl
  simp [List.lookup, hcols, hidx, hroot, bind, Outcome.bind, pure]
  cases t with
  | mk columns indexes isRoot => cases isRoot <;> simp

/-- **C12 (18)** database schemas: name, version and every table -/
theorem databaseSchema_roundtrip (d : DatabaseSchemaW)
    (hwf : ∀ t ∈ d.tables, ∀ q ∈ t.2.columns, ColTypeWF q.2.type) :
    decodeDatabaseSchema (encodeDatabaseSchema d) = .ok d := by
  have htab := decodeStrMap_encodeStrMap decodeTableSchema encodeTableSchema id d.tables
    (fun t ht => tableSchema_roundtrip t.2 (hwf t ht))
  have hnn : ∀ q ∈ [("name", some (J.str d.name)), ("version", some (J.str d.version)),
      ("tables", some (encodeStrMap encodeTableSchema d.tables))], NotNull q.2 := by
    intro q hq
    simp only [List.mem_cons, List.not_mem_nil, or_false] at hq
    rcases hq with h | h | h <;> subst h <;> simp [NotNull, encodeStrMap]
  simp only [decodeDatabaseSchema, encodeDatabaseSchema, getF_mkObj _ (by simp) hnn]
  simp [List.lookup, htab, optStr, bind, Outcome.bind, pure]

/-! ### the decoded form is well-formed: a decoded schema re-encodes to JSON that decodes to the same schema -/

theorem decoded_baseType_reencodes (j : J) (b : BaseType) (_h : decodeBaseType j = .ok b) (hwf : BaseWF b) :
    decodeBaseType (encodeBaseType b) = .ok b := baseType_roundtrip b hwf

/-! ### the pinned codec loses minLength (defect D19) -/

def decodeBaseTypePinned (j : J) : Outcome BaseType :=
  match decodeBaseType j with
  | .ok b => .ok { b with minLength := b.maxLength }
  | o => o

theorem pinned_loses_minLength :
    (match decodeBaseTypePinned (encodeBaseType { type := "string", minLength := some 1, maxLength := some 5 }) with
     | .ok b => b.minLength == some 5 | _ => false) = true := by
  decide

/-! non-vacuity: a fully constrained base type meets the hypotheses -/
example : BaseWF { type := "integer", enum := [.num 1, .num 2], enumSet := true, minInteger := some 0, maxInteger := some 10 } :=
  ⟨by intro a ha; simp at ha; rcases ha with h | h <;> subst h <;> trivial, by simp, by decide⟩

end Ovsdb.C12
