import Ovsdb.Model.Client
import Ovsdb.Theorems.C09
import Ovsdb.Model.Diff
/-
  C01 — a monitor-fed cache mirrors the database it monitors (protocol level).

  Whatever the point at which the client applies a monitor reply relative to
  the notifications around it, the cache ends up equal to the database on the
  monitored tables: for the first monitor of a connection and for an additional
  one.  Row-level exactness of a single notification (contents of insert /
  modify / delete rows, application of a modify difference) is C07, C10, C11.
-/
namespace Ovsdb.C01
open Ovsdb Ovsdb.Client AMap

/-- the cache holds, for every table of `S`, exactly the rows of `db` -/
def Mirror (S : List String) (c : CacheSt) (db : Store) : Prop :=
  ∀ k : Key, k.1 ∈ S → get? c.rows k = get? db k

/-- `n` is a correct notification for a monitor of the tables `S` when the
    database goes from `a` to `b`: it only speaks of tables of `S` and takes any
    cache that mirrors `a` to one that mirrors `b` -/
def NotifOK (strict : Bool) (S : List String) (a b : Store) (n : List Change) : Prop :=
  (∀ ch ∈ n, ch.key.1 ∈ S) ∧
  ∀ c : CacheSt, Mirror S c a → ∃ c', applyAll strict c n = .ok c' ∧ Mirror S c' b

/-- a sequence of correct notifications from `a` to `b` -/
def Chain (strict : Bool) (S : List String) : Store → List (List Change) → Store → Prop
  | a, [], b => a = b
  | a, n :: ns, b => ∃ m, NotifOK strict S a m n ∧ Chain strict S m ns b

theorem chain_append {strict S} : ∀ (x y : List (List Change)) (a b : Store),
    Chain strict S a (x ++ y) b → ∃ m, Chain strict S a x m ∧ Chain strict S m y b := by
  intro x
  induction x with
  | nil => intro y a b h; exact ⟨a, rfl, h⟩
  | cons n t ih =>
    intro y a b h
    obtain ⟨m, hn, ht⟩ := h
    obtain ⟨m', h1, h2⟩ := ih y m b ht
    exact ⟨m', ⟨m, hn, h1⟩, h2⟩

/-! ### frame: a change touches one key -/

theorem frame_change {strict c c'} {ch : Change} (h : applyChange strict c ch = .ok c') (k : Key) (hk : k ≠ ch.key) :
    get? c'.rows k = get? c.rows k := by
  unfold applyChange at h
  split at h
  · cases h
  · cases h; simp [hk]
  · cases h
  · split at h
    · cases h; rfl
    · cases h; simp [hk]
  · cases h; simp [hk]
  · split at h
    · cases h
    · cases h; rfl

theorem frame_all {strict} (S : List String) : ∀ (n : List Change) (c c' : CacheSt), (∀ ch ∈ n, ch.key.1 ∈ S) →
    applyAll strict c n = .ok c' → ∀ k : Key, k.1 ∉ S → get? c'.rows k = get? c.rows k := by
  intro n
  induction n with
  | nil => intro c c' _ h k _; cases h; rfl
  | cons ch t ih =>
    intro c c' hS h k hk
    unfold applyAll at h
    cases h1 : applyChange strict c ch with
    | error e => simp [h1] at h
    | ok c1 =>
      simp only [h1] at h
      have hne : k ≠ ch.key := fun e => hk (e ▸ hS ch (by simp))
      rw [ih c1 c' (fun x hx => hS x (by simp [hx])) h k hk, frame_change h1 k hne]

theorem chain_tables {strict S} : ∀ (ns : List (List Change)) (a b : Store), Chain strict S a ns b →
    ∀ n ∈ ns, ∀ ch ∈ n, ch.key.1 ∈ S := by
  intro ns
  induction ns with
  | nil => intro _ _ _ n hn; simp at hn
  | cons x t ih =>
    intro a b h n hn
    obtain ⟨m, hx, ht⟩ := h
    simp only [List.mem_cons] at hn
    rcases hn with rfl | hn
    · exact hx.1
    · exact ih m b ht n hn

/-- replaying a chain on a mirror gives a mirror, and leaves other tables alone -/
theorem replay_chain {strict S} : ∀ (ns : List (List Change)) (a b : Store) (c : CacheSt),
    Chain strict S a ns b → Mirror S c a →
    ∃ c', replayDeferred strict c ns = .ok c' ∧ Mirror S c' b ∧
      ∀ k : Key, k.1 ∉ S → get? c'.rows k = get? c.rows k := by
  intro ns
  induction ns with
  | nil => intro a b c h hm; cases h; exact ⟨c, rfl, hm, fun _ _ => rfl⟩
  | cons n t ih =>
    intro a b c h hm
    obtain ⟨m, hn, ht⟩ := h
    obtain ⟨c1, h1, hm1⟩ := hn.2 c hm
    obtain ⟨c2, h2, hm2, hf2⟩ := ih m b c1 ht hm1
    refine ⟨c2, by simp [replayDeferred, h1, h2], hm2, fun k hk => ?_⟩
    rw [hf2 k hk, frame_all S n c c1 hn.1 h1 k hk]

theorem replay_append (strict : Bool) : ∀ (x y : List (List Change)) (c : CacheSt),
    replayDeferred strict c (x ++ y) = match replayDeferred strict c x with
      | .ok c' => replayDeferred strict c' y
      | .error e => .error e := by
  intro x
  induction x with
  | nil => intro y c; rfl
  | cons n t ih =>
    intro y c
    simp only [List.cons_append, replayDeferred]
    cases applyAll strict c n with
    | error e => rfl
    | ok c1 => exact ih y c1

/-! ### the initial contents -/

theorem applyAll_inserts {strict} (S : List String) (db : Store) : ∀ (ks : List Key) (c : CacheSt), ks.Nodup →
    (∀ k ∈ ks, get? c.rows k = none) →
    ∃ c', applyAll strict c (ks.filterMap (fun k => match get? db k with
        | some r => some ({ kind := .insert, key := k, row := r } : Change)
        | none => none)) = .ok c' ∧
      ∀ k, get? c'.rows k = if k ∈ ks then (match get? db k with | some r => some r | none => get? c.rows k) else get? c.rows k := by
  intro ks
  induction ks with
  | nil => intro c _ _; exact ⟨c, rfl, fun k => by simp⟩
  | cons k0 t ih =>
    intro c hnd hnone
    have hnd' := List.nodup_cons.mp hnd
    cases hdb : get? db k0 with
    | none =>
      obtain ⟨c', h1, h2⟩ := ih c hnd'.2 (fun k hk => hnone k (by simp [hk]))
      refine ⟨c', by simpa [List.filterMap_cons, hdb] using h1, fun k => ?_⟩
      rw [h2 k]
      by_cases hk : k = k0
      · subst hk; simp [hnd'.1, hdb]
      · simp [hk]
    | some r =>
      have hk0 : get? c.rows k0 = none := hnone k0 (by simp)
      let c1 : CacheSt := { rows := insert c.rows k0 r, log := c.log ++ [.add k0 r] }
      have hstep : applyChange strict c { kind := .insert, key := k0, row := r } = .ok c1 := by
        simp [applyChange, hk0, c1]
      have hnone1 : ∀ k ∈ t, get? c1.rows k = none := by
        intro k hk
        have hne : k ≠ k0 := fun e => hnd'.1 (e ▸ hk)
        simp [c1, hne, hnone k (by simp [hk])]
      obtain ⟨c', h1, h2⟩ := ih c1 hnd'.2 hnone1
      refine ⟨c', by simp [List.filterMap_cons, hdb, applyAll, hstep, h1], fun k => ?_⟩
      rw [h2 k]
      by_cases hk : k = k0
      · subst hk; simp [hnd'.1, hdb, c1]
      · simp [hk, c1]

/-- the reply of a monitor of `S`, applied to a cache that holds nothing of
    `S`, makes it mirror the database on `S` and leaves the rest alone -/
theorem initial_mirror {strict} (S : List String) (db : Store) (c : CacheSt)
    (hempty : ∀ k : Key, k.1 ∈ S → get? c.rows k = none) :
    ∃ c', applyAll strict c (initialOf S db) = .ok c' ∧ Mirror S c' db ∧
      ∀ k : Key, k.1 ∉ S → get? c'.rows k = get? c.rows k := by
  have hnd : ((keys db).eraseDups.filter (fun k => S.contains k.1)).Nodup :=
    List.Nodup.sublist List.filter_sublist (C09.nodup_eraseDups _ _ (Nat.le_refl _))
  obtain ⟨c', h1, h2⟩ := applyAll_inserts (strict := strict) S db _ c hnd (fun k hk => by
    simp only [List.mem_filter, List.contains_iff_mem] at hk
    exact hempty k (by simpa using hk.2))
  refine ⟨c', h1, fun k hk => ?_, fun k hk => ?_⟩
  · rw [h2 k]
    by_cases hin : k ∈ (keys db).eraseDups.filter (fun k => S.contains k.1)
    · simp only [hin, if_true]
      cases hg : get? db k <;> simp [hempty k hk]
    · simp only [hin, if_false]
      have : get? db k = none := by
        cases hg : get? db k with
        | none => rfl
        | some r =>
          exfalso; apply hin
          simp only [List.mem_filter, List.mem_eraseDups, List.contains_iff_mem]
          exact ⟨mem_keys_of_get? hg, by simpa using hk⟩
      rw [this, hempty k hk]
  · rw [h2 k]
    have : k ∉ (keys db).eraseDups.filter (fun k => S.contains k.1) := by
      simp only [List.mem_filter, List.contains_iff_mem, not_and]
      intro _ h
      exact hk (by simpa using h)
    rw [if_neg this]

/-! ### every change of the database has a correct notification -/

theorem applyAll_delta {strict} (a b : Store) : ∀ (ks : List Key) (c : CacheSt), ks.Nodup →
    (∀ k ∈ ks, get? c.rows k = get? a k) →
    ∃ c', applyAll strict c (ks.filterMap (deltaStep a b)) = .ok c' ∧
      ∀ k, get? c'.rows k = if k ∈ ks then get? b k else get? c.rows k := by
  intro ks
  induction ks with
  | nil => intro c _ _; exact ⟨c, rfl, fun k => by simp⟩
  | cons k0 t ih =>
    intro c hnd hm
    have hnd' := List.nodup_cons.mp hnd
    have hk0 := hm k0 (by simp)
    -- one step
    have hstep : ∃ c1, (match deltaStep a b k0 with
          | some ch => applyChange strict c ch
          | none => .ok c) = .ok c1 ∧ get? c1.rows k0 = get? b k0 ∧ ∀ k, k ≠ k0 → get? c1.rows k = get? c.rows k := by
      unfold deltaStep
      cases ha : get? a k0 with
      | none =>
        cases hb : get? b k0 with
        | none => exact ⟨c, rfl, by rw [hk0, ha], fun _ _ => rfl⟩
        | some r =>
          refine ⟨{ rows := insert c.rows k0 r, log := c.log ++ [.add k0 r] }, ?_, by simp, fun k hk => by simp [hk]⟩
          simp [applyChange, hk0, ha]
      | some o =>
        cases hb : get? b k0 with
        | none =>
          refine ⟨{ rows := erase c.rows k0, log := c.log ++ [.delete k0 o] }, ?_, by simp, fun k hk => by simp [hk]⟩
          simp [applyChange, hk0, ha]
        | some r =>
          by_cases hor : o = r
          · subst hor
            exact ⟨c, by simp, by rw [hk0, ha], fun _ _ => rfl⟩
          · refine ⟨{ rows := insert c.rows k0 r, log := c.log ++ [.update k0 o r] }, ?_, by simp, fun k hk => by simp [hk]⟩
            simp [hor, applyChange, hk0, ha]
    obtain ⟨c1, h1, h2, h3⟩ := hstep
    have hm1 : ∀ k ∈ t, get? c1.rows k = get? a k := by
      intro k hk
      have hne : k ≠ k0 := fun e => hnd'.1 (e ▸ hk)
      rw [h3 k hne]; exact hm k (by simp [hk])
    obtain ⟨c', g1, g2⟩ := ih c1 hnd'.2 hm1
    refine ⟨c', ?_, fun k => ?_⟩
    · simp only [List.filterMap_cons]
      cases hd : deltaStep a b k0 with
      | none => simp only [hd] at h1; cases h1; exact g1
      | some ch => simp only [hd] at h1; simp [applyAll, h1, g1]
    · rw [g2 k]
      by_cases hk : k = k0
      · subst hk; simp [hnd'.1, h2]
      · simp [hk, h3 k hk]

theorem deltaStep_key (a b : Store) (k : Key) (ch : Change) (h : deltaStep a b k = some ch) : ch.key = k := by
  unfold deltaStep at h
  split at h
  · cases h; rfl
  · split at h
    · cases h
    · cases h; rfl
  · cases h; rfl
  · cases h

/-- `deltaOf S a b` is a correct notification for a monitor of `S` when the
    database goes from `a` to `b` -/
theorem delta_ok (strict : Bool) (S : List String) (a b : Store) : NotifOK strict S a b (deltaOf S a b) := by
  constructor
  · intro ch hch
    simp only [deltaOf, List.mem_filterMap, List.mem_filter, List.contains_iff_mem] at hch
    obtain ⟨k, ⟨_, hk⟩, hd⟩ := hch
    rw [deltaStep_key a b k ch hd]
    simpa using hk
  · intro c hm
    have hnd : (((keys a ++ keys b).eraseDups).filter (fun k => S.contains k.1)).Nodup :=
      List.Nodup.sublist List.filter_sublist (C09.nodup_eraseDups _ _ (Nat.le_refl _))
    obtain ⟨c', h1, h2⟩ := applyAll_delta (strict := strict) a b _ c hnd (fun k hk => by
      simp only [List.mem_filter, List.contains_iff_mem] at hk
      exact hm k (by simpa using hk.2))
    refine ⟨c', h1, fun k hk => ?_⟩
    rw [h2 k]
    by_cases hin : k ∈ ((keys a ++ keys b).eraseDups).filter (fun k => S.contains k.1)
    · rw [if_pos hin]
    · rw [if_neg hin]
      have hmem : k ∉ keys a ++ keys b := by
        intro h
        apply hin
        simp only [List.mem_filter, List.mem_eraseDups, List.contains_iff_mem]
        exact ⟨h, by simpa using hk⟩
      simp only [List.mem_append, not_or] at hmem
      have ha : get? a k = none := by
        cases hg : get? a k with
        | none => rfl
        | some r => exact absurd (mem_keys_of_get? hg) hmem.1
      have hb : get? b k = none := by
        cases hg : get? b k with
        | none => rfl
        | some r => exact absurd (mem_keys_of_get? hg) hmem.2
      rw [hm k hk, ha, hb]

/-- the notifications of a history of database states -/
def notifsOf (S : List String) : Store → List Store → List (List Change)
  | _, [] => []
  | a, d :: t => deltaOf S a d :: notifsOf S d t

def lastOf : Store → List Store → Store
  | a, [] => a
  | _, d :: t => lastOf d t

/-- a history of database states has a chain of correct notifications -/
theorem chain_of_history (strict : Bool) (S : List String) : ∀ (dbs : List Store) (a : Store),
    Chain strict S a (notifsOf S a dbs) (lastOf a dbs) := by
  intro dbs
  induction dbs with
  | nil => intro a; rfl
  | cons d t ih => intro a; exact ⟨d, delta_ok strict S a d, ih d⟩

/-! ### runs of the client -/

theorem run_append (strict pinned : Bool) (s : ClientSt) (x y : List Action) :
    run strict pinned s (x ++ y) = run strict pinned (run strict pinned s x) y := by
  simp [run, List.foldl_append]

/-- while updates are held back, handling notifications only queues them -/
theorem run_notifs_deferred (strict pinned : Bool) : ∀ (ns : List (List Change)) (s : ClientSt), s.deferring = true →
    run strict pinned s (ns.map Action.notif) = { s with deferred := s.deferred ++ ns } := by
  intro ns
  induction ns with
  | nil => intro s _; simp [run]
  | cons n t ih =>
    intro s hd
    have h1 : step strict pinned s (.notif n) = { s with deferred := s.deferred ++ [n] } := by
      simp [step, onNotification, hd]
    simp only [List.map_cons, run, List.foldl_cons, h1]
    have := ih { s with deferred := s.deferred ++ [n] } hd
    simp only [run] at this
    rw [this]
    simp [List.append_assoc]

/-- while updates flow, handling a chain of notifications keeps the mirror -/
theorem run_notifs_direct (strict pinned : Bool) (S : List String) : ∀ (ns : List (List Change)) (a b : Store) (s : ClientSt),
    s.deferring = false → s.failed = false → Chain strict S a ns b → Mirror S s.cache a →
    let s' := run strict pinned s (ns.map Action.notif)
    s'.deferring = false ∧ s'.failed = false ∧ s'.deferred = s.deferred ∧ Mirror S s'.cache b ∧
      ∀ k : Key, k.1 ∉ S → get? s'.cache.rows k = get? s.cache.rows k := by
  intro ns
  induction ns with
  | nil => intro a b s hd hf h hm; cases h; exact ⟨hd, hf, rfl, hm, fun _ _ => rfl⟩
  | cons n t ih =>
    intro a b s hd hf h hm
    obtain ⟨m, hn, ht⟩ := h
    obtain ⟨c1, h1, hm1⟩ := hn.2 s.cache hm
    have hs1 : step strict pinned s (.notif n) = { s with cache := c1 } := by
      simp [step, onNotification, hd, h1]
    have := ih m b { s with cache := c1 } hd hf ht hm1
    simp only [List.map_cons, run, List.foldl_cons, hs1] at this ⊢
    obtain ⟨g1, g2, g3, g4, g5⟩ := this
    refine ⟨g1, g2, g3, g4, fun k hk => ?_⟩
    rw [g5 k hk]
    exact frame_all S n s.cache c1 hn.1 h1 k hk

theorem mirror_append {S1 S2 : List String} {c : CacheSt} {db : Store} (h1 : Mirror S1 c db) (h2 : Mirror S2 c db) :
    Mirror (S1 ++ S2) c db := by
  intro k hk
  rcases List.mem_append.mp hk with h | h
  · exact h1 k h
  · exact h2 k h

/-- **C01 (1)** the first monitor of a connection.  The request is sent, any
    number of notifications that follow the reply on the wire are handled
    before the reply is applied (`early`), the reply is applied, the others are
    handled after (`late`): the cache mirrors the database. -/
theorem first_monitor_mirror (strict : Bool) (S : List String) (dbk dbm : Store) (early late : List (List Change))
    (hchain : Chain strict S dbk (early ++ late) dbm) :
    let s := run strict false {} ([Action.start] ++ early.map Action.notif ++
      [Action.reply false (initialOf S dbk)] ++ late.map Action.notif)
    s.failed = false ∧ s.deferring = false ∧ Mirror S s.cache dbm := by
  obtain ⟨m, hc1, hc2⟩ := chain_append early late dbk dbm hchain
  simp only [run_append]
  have h0 : run strict false {} [Action.start] = ({} : ClientSt) := rfl
  rw [h0, run_notifs_deferred strict false early {} rfl]
  -- the reply
  obtain ⟨c1, hi1, hi2, _⟩ := initial_mirror (strict := strict) S dbk ({} : CacheSt) (fun _ _ => rfl)
  obtain ⟨c2, hr1, hr2, _⟩ := replay_chain early dbk m c1 hc1 hi2
  have hrep : run strict false { ({} : ClientSt) with deferred := ([] : List (List Change)) ++ early }
      [Action.reply false (initialOf S dbk)] = { cache := c2, deferring := false, deferred := [], failed := false } := by
    simp only [run, List.foldl_cons, List.foldl_nil, step, replyApplied, List.nil_append]
    have : (if false = true then purge ({} : ClientSt).cache else ({} : ClientSt).cache) = ({} : CacheSt) := rfl
    simp only [Bool.false_eq_true, if_false]
    rw [hi1]
    simp only
    rw [hr1]
  rw [hrep]
  have := run_notifs_direct strict false S late m dbm
    { cache := c2, deferring := false, deferred := [], failed := false } rfl rfl hc2 hr2
  exact ⟨this.2.1, this.1, this.2.2.2.1⟩

/-- **C01 (2)** an additional monitor on a live connection.  The cache mirrors
    the tables `S1` of the existing monitor.  Notifications of the existing
    monitor may still be in flight (`pre` handled before `Monitor` is called,
    `mid` after); those that follow the new monitor's reply on the wire speak of
    `S1` and `S2` (`early` handled before the reply is applied, `late` after).
    The cache ends up mirroring the database on both table sets. -/
theorem additional_monitor_mirror (strict : Bool) (S1 S2 : List String) (hdisj : ∀ t, t ∈ S1 → t ∉ S2)
    (dbj dbk dbm : Store) (pre mid early late : List (List Change))
    (s0 : ClientSt) (hd0 : s0.deferring = false) (hf0 : s0.failed = false) (hq0 : s0.deferred = [])
    (hm0 : Mirror S1 s0.cache dbj) (hnone : ∀ k : Key, k.1 ∈ S2 → get? s0.cache.rows k = none)
    (hold : Chain strict S1 dbj (pre ++ mid) dbk)
    (hnew : Chain strict (S1 ++ S2) dbk (early ++ late) dbm) :
    let s := run strict false s0 (pre.map Action.notif ++ [Action.start] ++ mid.map Action.notif ++
      early.map Action.notif ++ [Action.reply false (initialOf S2 dbk)] ++ late.map Action.notif)
    s.failed = false ∧ s.deferring = false ∧ Mirror (S1 ++ S2) s.cache dbm := by
  obtain ⟨m1, ho1, ho2⟩ := chain_append pre mid dbj dbk hold
  obtain ⟨m2, hn1, hn2⟩ := chain_append early late dbk dbm hnew
  simp only [run_append]
  -- notifications handled before Monitor() is called
  obtain ⟨p1, p2, p3, p4, p5⟩ := run_notifs_direct strict false S1 pre dbj m1 s0 hd0 hf0 ho1 hm0
  generalize hs1 : run strict false s0 (pre.map Action.notif) = s1 at p1 p2 p3 p4 p5
  have hnone1 : ∀ k : Key, k.1 ∈ S2 → get? s1.cache.rows k = none := by
    intro k hk
    rw [p5 k (fun h => hdisj _ h hk)]
    exact hnone k hk
  -- Monitor(): updates are held back
  have hstart : run strict false s1 [Action.start] = { s1 with deferring := true } := rfl
  rw [hstart, run_notifs_deferred strict false mid _ rfl, run_notifs_deferred strict false early _ rfl]
  simp only [p3, hq0, List.nil_append]
  -- the reply: initial contents of S2, then the queue
  obtain ⟨c1, hi1, hi2, hi3⟩ := initial_mirror (strict := strict) S2 dbk s1.cache hnone1
  have hc1S1 : Mirror S1 c1 m1 := fun k hk => by rw [hi3 k (hdisj _ hk)]; exact p4 k hk
  obtain ⟨c2, hr1, hr2, hr3⟩ := replay_chain mid m1 dbk c1 ho2 hc1S1
  have hc2S2 : Mirror S2 c2 dbk := fun k hk => by
    rw [hr3 k (fun h => hdisj _ h hk)]; exact hi2 k hk
  have hc2 : Mirror (S1 ++ S2) c2 dbk := mirror_append hr2 hc2S2
  obtain ⟨c3, hq1, hq2, _⟩ := replay_chain early dbk m2 c2 hn1 hc2
  have hreplay : replayDeferred strict c1 (mid ++ early) = .ok c3 := by
    rw [replay_append, hr1]; exact hq1
  have hrep : run strict false { s1 with deferring := true, deferred := mid ++ early }
      [Action.reply false (initialOf S2 dbk)] = { cache := c3, deferring := false, deferred := [], failed := s1.failed } := by
    simp only [run, List.foldl_cons, List.foldl_nil, step, replyApplied, Bool.false_eq_true, if_false]
    rw [hi1]
    simp only
    rw [hreplay]
  rw [hrep]
  have := run_notifs_direct strict false (S1 ++ S2) late m2 dbm
    { cache := c3, deferring := false, deferred := [], failed := s1.failed } rfl p2 hn2 hq2
  exact ⟨this.2.1, this.1, this.2.2.2.1⟩

/-! ### the guard on overlapping monitors (defect D72) -/

theorem monitorAccepted_iff (existing : List (List String)) (S : List String) :
    monitorAccepted existing S = true ↔ ∀ S' ∈ existing, ∀ t, t ∈ S' → t ∉ S := by
  constructor
  · intro h S' hS' t ht hts
    have := List.all_eq_true.mp (List.all_eq_true.mp h S' hS') t ht
    simp [hts] at this
  · intro h
    unfold monitorAccepted
    refine List.all_eq_true.mpr fun S' hS' => List.all_eq_true.mpr fun t ht => ?_
    simp [h S' hS' t ht]

/-- **C01 (2')** the additional monitor, with the disjointness of the table sets
    discharged by the guard the client applies: whatever additional monitor the
    client accepts ends up mirrored -/
theorem additional_monitor_mirror_guarded (strict : Bool) (S1 S2 : List String)
    (hacc : monitorAccepted [S1] S2 = true)
    (dbj dbk dbm : Store) (pre mid early late : List (List Change))
    (s0 : ClientSt) (hd0 : s0.deferring = false) (hf0 : s0.failed = false) (hq0 : s0.deferred = [])
    (hm0 : Mirror S1 s0.cache dbj) (hnone : ∀ k : Key, k.1 ∈ S2 → get? s0.cache.rows k = none)
    (hold : Chain strict S1 dbj (pre ++ mid) dbk)
    (hnew : Chain strict (S1 ++ S2) dbk (early ++ late) dbm) :
    let s := run strict false s0 (pre.map Action.notif ++ [Action.start] ++ mid.map Action.notif ++
      early.map Action.notif ++ [Action.reply false (initialOf S2 dbk)] ++ late.map Action.notif)
    s.failed = false ∧ s.deferring = false ∧ Mirror (S1 ++ S2) s.cache dbm :=
  additional_monitor_mirror strict S1 S2
    (fun t ht => (monitorAccepted_iff [S1] S2).mp hacc S1 (List.mem_singleton.mpr rfl) t ht)
    dbj dbk dbm pre mid early late s0 hd0 hf0 hq0 hm0 hnone hold hnew

example : monitorAccepted [["A", "B"]] ["C"] = true := by decide
example : monitorAccepted [["A", "B"]] ["C", "B"] = false := by decide

def dbT : Store := [(("T", "u1"), [("name", .atom (.str "a"))])]

/-- what the guard prevents: the initial contents of a second monitor of a table
    are rows the cache already holds (the call fails, the server keeps the
    monitor) ... -/
theorem overlapping_monitor_reply_fails :
    (run true false { deferring := false, cache := { rows := dbT } }
      [Action.start, Action.reply false (initialOf ["T"] dbT)]).failed = true := by decide

/-- ... and where the table was empty when the second monitor was set up, every
    later change is notified twice: the same update2 difference applied twice to
    a set column gives back the value it had before the change -/
theorem same_difference_twice_restores :
    (applyDifference (applyDifference (some (.set [.str "p"])) (some (.set [.str "q"]))).1 (some (.set [.str "q"]))).1
      = some (.set [.str "p"]) := by decide

/-! ### the pinned client loses a delete (defect D22) -/

def rowA : Row := [("name", .atom (.str "a"))]

/-- `Monitor` of table T2 on a connection that already has a monitor; the row is
    in the initial contents; it is deleted and the delete is handled before the
    reply is applied.  Pinned: the delete meets an empty cache and is dropped
    (RFC 7047 `update`) or fails (update2), and the row stays for good. -/
def staleWitness (strict pinned : Bool) : ClientSt :=
  run strict pinned { deferring := false }
    [.start, .notif [{ kind := .delete, key := ("T2", "u1") }],
     .reply false (initialOf ["T2"] [(("T2", "u1"), rowA)])]

theorem pinned_keeps_deleted_row :
    (get? (staleWitness false true).cache.rows ("T2", "u1")).isSome = true ∧
    (get? (staleWitness true true).cache.rows ("T2", "u1")).isSome = true ∧ (staleWitness true true).failed = true := by
  decide

theorem repaired_drops_deleted_row :
    (get? (staleWitness false false).cache.rows ("T2", "u1")).isNone = true ∧ (staleWitness false false).failed = false ∧
    (get? (staleWitness true false).cache.rows ("T2", "u1")).isNone = true ∧ (staleWitness true false).failed = false := by
  decide

/-! non-vacuity: the changes that take one store to another form a correct notification -/
example : NotifOK true ["T"] [(("T", "u"), rowA)] [] [{ kind := .delete, key := ("T", "u") }] := by
  refine ⟨by simp, fun c hm => ?_⟩
  have h := hm ("T", "u") (by simp)
  simp only [get?_cons, if_true, get?_nil] at h
  refine ⟨{ rows := erase c.rows ("T", "u"), log := c.log ++ [.delete ("T", "u") rowA] }, by
    simp [applyAll, applyChange, h], fun k hk => ?_⟩
  have hk' := hm k hk
  simp only [get?_erase, get?_nil, get?_cons] at *
  by_cases e : k = ("T", "u")
  · simp [e]
  · have : ¬ (("T", "u") : Key) = k := fun x => e x.symm
    simp [e, this] at hk' ⊢
    exact hk'

end Ovsdb.C01
