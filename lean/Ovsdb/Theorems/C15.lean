import Ovsdb.Model.Txn
/-
  C15 — "Named UUIDs resolve consistently within a transaction".

  In a transaction that inserts rows under symbolic names, every use of a name
  in a UUID-typed position of any operation (row values, set elements, map keys
  and values, conditions, mutations), before or after the insert that defines
  it, ends up referring to the row actually inserted under that name, and the
  UUID reported for the insert is the UUID the row is stored under.  Text equal
  to a name in a non-UUID column is left untouched, and two inserts claiming the
  same name with different explicit UUIDs are rejected.

  Model: Ovsdb.expandNamedUUIDs / expandNamedUUID (ovsdb/named_uuid.go, as
  repaired for defect D20) and the insert branch of execOp.
-/
namespace Ovsdb.C15
open Ovsdb AMap

/-- the positions of a column in which a uuid may occur -/
def keyIsUUID (cs : ColSchema) : Bool := cs.key == .uuid && !cs.isEnum
def valIsUUID (cs : ColSchema) : Bool := cs.kind == .map && cs.val == .uuid

/-- **C15 (1)**: a column with no uuid-typed position is left untouched, whatever
    text it holds (in particular text equal to a declared name). -/
theorem strings_untouched (cs : ColSchema) (v : OvsVal) (m : AMap String String)
    (hk : keyIsUUID cs = false) (hv : valIsUUID cs = false) : expandNamedUUID cs v m = v := by
  unfold keyIsUUID at hk
  unfold valIsUUID at hv
  unfold expandNamedUUID
  cases v <;> simp [hk, hv]

/-- a name is resolved in an atom: `.uuid n` becomes `.uuid u` when `n ↦ u` -/
theorem expandAtom_resolves (m : AMap String String) (n u : String) (h : get? m n = some u) :
    expandAtom m (.uuid n) = .uuid u := by
  simp [expandAtom, h]

theorem expandAtom_other (m : AMap String String) (a : Atom) (h : ∀ s, a ≠ .uuid s) (h2 : ∀ s, a ≠ .str s) :
    expandAtom m a = a := by
  cases a <;> simp_all [expandAtom]

/-- **C15 (2)**: in every uuid-typed position — scalar, optional/set element,
    map key, map value — each atom is replaced through the name map. -/
theorem names_resolve (cs : ColSchema) (m : AMap String String) :
    (∀ a, keyIsUUID cs = true → expandNamedUUID cs (.atom a) m = .atom (expandAtom m a)) ∧
    (∀ l, keyIsUUID cs = true → expandNamedUUID cs (.set l) m = .set (l.map (expandAtom m))) ∧
    (∀ ps, cs.kind = .map → (keyIsUUID cs = true ∨ valIsUUID cs = true) →
      expandNamedUUID cs (.map ps) m =
        .map (ps.map (fun p => ((if keyIsUUID cs then expandAtom m p.1 else p.1),
                                (if valIsUUID cs then expandAtom m p.2 else p.2))))) := by
  refine ⟨?_, ?_, ?_⟩
  · intro a hk
    unfold keyIsUUID at hk
    simp [expandNamedUUID, hk]
  · intro l hk
    unfold keyIsUUID at hk
    simp [expandNamedUUID, hk]
  · intro ps hkind h
    unfold keyIsUUID valIsUUID at *
    by_cases hk : (cs.key == .uuid && !cs.isEnum) = true <;> by_cases hv : (cs.val == AType.uuid) = true
    · simp [expandNamedUUID, hkind, hk, hv]
    · simp [expandNamedUUID, hkind, hk, hv]
    · simp [expandNamedUUID, hkind, hk, hv]
    · simp [hkind, hk, hv] at h

/-- after expansion no declared name is left in a uuid position, provided the
    UUIDs names resolve to are not themselves declared names -/
theorem no_name_left (m : AMap String String) (hreal : ∀ n u, get? m n = some u → get? m u = none) (s : String) :
    ∀ r, expandAtom m (.uuid s) = .uuid r → get? m r = none := by
  intro r h
  simp only [expandAtom] at h
  cases hg : get? m s with
  | some r' =>
    rw [hg] at h
    cases h
    exact hreal s r hg
  | none =>
    rw [hg] at h
    cases h
    exact hg

/-! ### pass 1: names are bound once -/

theorem pass1_keeps_binding (acc acc' : List Operation × AMap String String) (op : Operation) (n u : String)
    (hb : get? acc.2 n = some u) (h : expandPass1Step acc op = .ok acc') : get? acc'.2 n = some u := by
  unfold expandPass1Step at h
  split at h
  · cases h; exact hb
  · split at h
    · cases h
    · split at h
      · split at h
        · split at h
          · cases h
          · cases h; exact hb
        · rename_i hnone
          cases h
          simp only [get?_insert]
          by_cases e : n = op.uuidName
          · subst e; rw [hb] at hnone; cases hnone
          · simp [e, hb]
      · cases h; exact hb

theorem pass1_fold_keeps_binding (l : List Operation) :
    ∀ (acc res : List Operation × AMap String String) (n u : String), get? acc.2 n = some u →
      l.foldlM expandPass1Step acc = .ok res → get? res.2 n = some u := by
  induction l with
  | nil => intro acc res n u hb h; simp only [List.foldlM_nil, pure, Except.pure] at h; cases h; exact hb
  | cons op t ih =>
    intro acc res n u hb h
    simp only [List.foldlM_cons, bind, Except.bind] at h
    split at h
    · cases h
    · rename_i acc1 hstep
      exact ih acc1 res n u (pass1_keeps_binding acc acc1 op n u hb hstep) h

/-- an insert that claims an already bound name with a different explicit UUID fails -/
theorem pass1_conflict_fails (acc : List Operation × AMap String String) (op : Operation) (u : String)
    (hop : op.op = "insert") (hname : op.uuidName ≠ "") (hb : get? acc.2 op.uuidName = some u)
    (hu : op.uuid ≠ u) (hne : op.uuid ≠ "") : ∃ e, expandPass1Step acc op = .error e := by
  unfold expandPass1Step
  simp only [hop, bne_self_eq_false, Bool.false_eq_true, if_false]
  split
  · exact ⟨_, rfl⟩
  · simp only [bne_iff_ne, ne_eq, hname, not_false_eq_true, if_true, hb]
    simp [hu, hne]

/-- an insert declaring an unbound name binds it to its own UUID -/
theorem pass1_binds (acc acc' : List Operation × AMap String String) (op : Operation)
    (hop : op.op = "insert") (hname : op.uuidName ≠ "") (hb : get? acc.2 op.uuidName = none)
    (h : expandPass1Step acc op = .ok acc') : get? acc'.2 op.uuidName = some op.uuid := by
  unfold expandPass1Step at h
  simp only [hop, bne_self_eq_false, Bool.false_eq_true, if_false] at h
  split at h
  · cases h
  · simp only [bne_iff_ne, ne_eq, hname, not_false_eq_true, if_true, hb] at h
    cases h
    simp

theorem foldlM_split {α β : Type} (f : β → α → Except String β) (pre : List α) (a : α) (rest : List α) :
    ∀ (acc res : β), (pre ++ a :: rest).foldlM f acc = .ok res →
      ∃ acc0 acc1, pre.foldlM f acc = .ok acc0 ∧ f acc0 a = .ok acc1 ∧ rest.foldlM f acc1 = .ok res := by
  induction pre with
  | nil =>
    intro acc res h
    simp only [List.nil_append, List.foldlM_cons, bind, Except.bind] at h
    split at h
    · cases h
    · rename_i acc1 h1
      exact ⟨acc, acc1, rfl, h1, h⟩
  | cons x t ih =>
    intro acc res h
    simp only [List.cons_append, List.foldlM_cons, bind, Except.bind] at h
    split at h
    · cases h
    · rename_i accx hx
      obtain ⟨acc0, acc1, h0, h1, h2⟩ := ih accx res h
      refine ⟨acc0, acc1, ?_, h1, h2⟩
      simp only [List.foldlM_cons, bind, Except.bind, hx]
      exact h0

/-- **C15 (3)**: two inserts claiming the same name with different explicit
    UUIDs are rejected, wherever they stand in the transaction. -/
theorem conflicting_names_rejected (σ : DbModel) (pre mid post : List Operation) (i₁ i₂ : Operation)
    (h1 : i₁.op = "insert") (h2 : i₂.op = "insert") (hn : i₁.uuidName = i₂.uuidName) (hname : i₁.uuidName ≠ "")
    (hdiff : i₁.uuid ≠ i₂.uuid) (hne1 : i₁.uuid ≠ "") (hne : i₂.uuid ≠ "") :
    ∃ e, expandNamedUUIDs σ (pre ++ i₁ :: (mid ++ i₂ :: post)) = .error e := by
  unfold expandNamedUUIDs
  cases hfold : List.foldlM expandPass1Step ([], []) (pre ++ i₁ :: (mid ++ i₂ :: post)) with
  | error e => exact ⟨e, rfl⟩
  | ok res =>
    exfalso
    obtain ⟨acc0, acc1, _, hstep1, hrest⟩ := foldlM_split expandPass1Step pre i₁ _ _ _ hfold
    obtain ⟨acc2, acc3, hmid, hstep2, _⟩ := foldlM_split expandPass1Step mid i₂ _ _ _ hrest
    -- after i₁ the name is bound: to i₁'s uuid if it was free, else to the earlier binding
    cases hb : get? acc0.2 i₁.uuidName with
    | some u0 =>
      -- i₁ itself must agree with the earlier binding, and so must i₂
      have hu1 := pass1_keeps_binding acc0 acc1 i₁ _ u0 hb hstep1
      have hu2 := pass1_fold_keeps_binding mid acc1 acc2 _ u0 hu1 hmid
      by_cases e1 : i₁.uuid = u0
      · have e2 : i₂.uuid ≠ u0 := fun x => hdiff (e1.trans x.symm)
        rw [hn] at hu2
        obtain ⟨err, herr⟩ := pass1_conflict_fails acc2 i₂ u0 h2 (hn ▸ hname) hu2 e2 hne
        rw [herr] at hstep2; cases hstep2
      · obtain ⟨err, herr⟩ := pass1_conflict_fails acc0 i₁ u0 h1 hname hb e1 hne1
        rw [herr] at hstep1; cases hstep1
    | none =>
      have hu1 := pass1_binds acc0 acc1 i₁ h1 hname hb hstep1
      have hu2 := pass1_fold_keeps_binding mid acc1 acc2 _ _ hu1 hmid
      rw [hn] at hu2
      obtain ⟨err, herr⟩ := pass1_conflict_fails acc2 i₂ i₁.uuid h2 (hn ▸ hname) hu2 (fun x => hdiff x.symm) hne
      rw [herr] at hstep2; cases hstep2

/-- **C15 (4)**: the UUID reported for an insert is the UUID its row is stored
    under (the key of the update and the `_uuid` of the new model). -/
theorem reported_uuid_is_stored (σ : DbModel) (db : Database) (tx : Txn) (op : Operation) (hop : op.op = "insert")
    (r : OpResult) (tx' : Txn) (step : List ((String × UUID) × ModelUpdate))
    (h : execOp σ db tx op = .ok (r, tx', step)) :
    r.uuid = op.uuid ∧ ∃ mu, step = [((op.table, op.uuid), mu)] ∧ ∀ m, mu.new = some m → m.uuid = op.uuid := by
  unfold execOp at h
  simp only [hop, if_true] at h
  split at h
  · cases h
  · split at h
    · cases h
    · rename_i ts _
      split at h
      · rename_i mu hmu
        split at h
        · cases h
        cases h
        refine ⟨rfl, mu, rfl, ?_⟩
        intro m hm
        unfold addOperation at hmu
        simp only [bind, Except.bind] at hmu
        split at hmu
        · cases hmu
        · split at hmu
          · cases hmu
          · rename_i m0 _ r0 _
            unfold addUpdate mergeUpdate at hmu
            simp only [ModelUpdate.isEmpty] at hmu
            simp [mergeRowUpdate] at hmu
            cases hmu
            simp at hm
            rw [← hm]
      · cases h

/-! Non-vacuity: a forward reference through a map key (the D20 shape). -/
section
def exModel : DbModel :=
  { schema := [("T", { cols := [("kmap", { kind := .map, key := .uuid, val := .string }), ("name", { kind := .atom, key := .string })] })],
    specs := [] }
def exOps : List Operation :=
  [{ op := "insert", table := "T", uuid := "11111111-1111-4111-8111-111111111111",
     row := [("kmap", .map [(.uuid "rowB", .str "rowB")]), ("name", .atom (.str "rowB"))] },
   { op := "insert", table := "T", uuid := "22222222-2222-4222-8222-222222222222", uuidName := "rowB" }]
example : (match expandNamedUUIDs exModel exOps with
    | .ok ops => ops.map (·.row) == [[("kmap", .map [(.uuid "22222222-2222-4222-8222-222222222222", .str "rowB")]),
                                      ("name", .atom (.str "rowB"))], []]
    | .error _ => false) = true := by decide
end

end Ovsdb.C15
