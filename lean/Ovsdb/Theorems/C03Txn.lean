import Ovsdb.Theorems.C03Ref
/-
  C03, continued: "later operations of a transaction observe the effects of
  earlier ones" at the one place where the transaction's bookkeeping (the list
  of deleted rows) can hide an effect: a row inserted again under a uuid the
  transaction deleted before (defect D73).
-/
namespace Ovsdb.C03
open Ovsdb AMap

/-- **C03 (19)** an `insert` takes its uuid off the transaction's list of deleted
    rows and leaves every other uuid's status, and the transaction's cache, as
    they were.  With `overlay_exact` (12): once the step's update is applied, the
    operations that follow select the new row whenever it satisfies their
    conditions, whatever happened to that uuid earlier in the transaction. -/
theorem insert_clears_deleted (σ : DbModel) (db : Database) (tx tx1 : Txn) (op : Operation)
    (r : OpResult) (step : List ((String × UUID) × ModelUpdate))
    (hop : op.op = "insert") (h : execOp σ db tx op = .ok (r, tx1, step)) :
    op.uuid ∉ tx1.deleted ∧ (∀ u, u ≠ op.uuid → (u ∈ tx1.deleted ↔ u ∈ tx.deleted)) ∧
      tx1.cache = tx.cache ∧ tx1.updates = tx.updates ∧ r.uuid = op.uuid ∧
      ∃ mu, step = [((op.table, op.uuid), mu)] := by
  unfold execOp at h
  simp only [hop, if_true] at h
  split at h
  · cases h
  · split at h
    · cases h
    · split at h
      · split at h
        · cases h
        · simp only [Except.ok.injEq, Prod.mk.injEq] at h
          obtain ⟨hr, htx, hs⟩ := h
          subst htx hr
          refine ⟨?_, ?_, rfl, rfl, rfl, _, hs.symm⟩
          · simp [List.mem_filter]
          · intro u hu
            simp [List.mem_filter, hu]
      · cases h

/-! A transaction that inserts a row, deletes it, inserts it again under the same
    uuid and then selects: the model (as repaired) returns the second row. -/

def rsSigma : DbModel := { schema := [("T", { cols := [("name", { kind := .atom, key := .string })] })], specs := [] }
def rsX : String := "11111111-1111-4111-8111-111111111111"
def rsOps : List Operation := [
  { op := "insert", table := "T", uuid := rsX, row := [("name", .atom (.str "a"))] },
  { op := "delete", table := "T", where_ := [⟨"_uuid", .eq, .atom (.uuid rsX)⟩] },
  { op := "insert", table := "T", uuid := rsX, row := [("name", .atom (.str "b"))] },
  { op := "select", table := "T" }]

theorem reinserted_row_is_seen :
    (runOps rsSigma (Database.empty rsSigma) { cache := txnCacheEmpty rsSigma } rsOps).1.map (fun r => (r.count, r.rows)) =
      [(0, []), (1, []), (0, []),
       (0, [[("_uuid", .atom (.uuid rsX)), ("name", .atom (.str "b"))]])] := by
  decide +kernel

/-- the reference interpreter on the same transaction -/
theorem reinserted_row_reference :
    (Rfc.run rsSigma [] rsOps).map (fun p => p.1.map (fun r => (r.count, r.rows.map (fun q => (q.1, get? q.2 "name"))))) =
      some [(0, []), (1, []), (0, []), (0, [(rsX, some (.atom (.str "b")))])] := by
  decide +kernel

/-- what the pinned code did (defect D73): the uuid stayed on the list of deleted
    rows, and the state the second insert leaves -- the row in the transaction's
    cache, its uuid still listed as deleted -- hides the row from every later
    operation of the transaction -/
theorem stale_deleted_hides_row :
    (overlayRows rsSigma (Database.empty rsSigma)
      { cache := [("T", ⟨[(rsX, [("name", .atom (.str "b"))])], []⟩)], deleted := [rsX] } "T" []).toOption.map (·.1) = some [] := by
  decide +kernel


/-- **C03 (ordering)** the four ordering functions on integers are the order of the integers: whatever
    their size, no rounding stands between two of them (the code compares Go ints; a comparison through
    float64 would identify 2^53 and 2^53 + 1) -/
theorem order_on_integers_exact (x y : Int) :
    evalCond .lt (.atom (.int x)) (.atom (.int y)) = .ok (decide (x < y)) ∧
    evalCond .le (.atom (.int x)) (.atom (.int y)) = .ok (decide (x ≤ y)) ∧
    evalCond .gt (.atom (.int x)) (.atom (.int y)) = .ok (decide (x > y)) ∧
    evalCond .ge (.atom (.int x)) (.atom (.int y)) = .ok (decide (x ≥ y)) := by
  simp [evalCond, cmpAtoms, Value.kindTag]

example : evalCond .gt (.atom (.int (2^53 + 1))) (.atom (.int (2^53))) = .ok true := by
  rw [(order_on_integers_exact (2^53 + 1) (2^53)).2.2.1]
  simp

/-- **C03 (20)** / C17: the uuid of an `insert` is a key of the table. An insert under a uuid that a committed
    row of the table holds never succeeds, whatever the transaction has done so far (so of two clients that
    insert under the same uuid, the one that comes second is refused, with an operation error, before anything
    is notified or committed) -/
theorem insert_under_committed_uuid_fails (σ : DbModel) (db : Database) (tx : Txn) (op : Operation)
    (hop : op.op = "insert") (htaken : (get? (db.rows op.table) op.uuid).isSome = true) :
    ∃ e, execOp σ db tx op = .error e := by
  unfold execOp
  simp only [hop, if_true]
  repeat' split
  all_goals first | exact ⟨_, rfl⟩ | (rename_i h; exact absurd htaken h)

/-- and when it succeeds the uuid was free -/
theorem insert_succeeds_only_on_free_uuid (σ : DbModel) (db : Database) (tx tx1 : Txn) (op : Operation)
    (r : OpResult) (step : List ((String × UUID) × ModelUpdate))
    (hop : op.op = "insert") (h : execOp σ db tx op = .ok (r, tx1, step)) :
    get? (db.rows op.table) op.uuid = none := by
  cases hg : get? (db.rows op.table) op.uuid with
  | none => rfl
  | some row =>
    obtain ⟨e, he⟩ := insert_under_committed_uuid_fails σ db tx op hop (by simp [hg])
    rw [he] at h; cases h

end Ovsdb.C03
