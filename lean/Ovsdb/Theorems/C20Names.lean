import Ovsdb.Model.Naming
namespace Ovsdb.Naming

theorem upper_letter {c : Nat} (h : isLetter c = true) : isUpper (upper c) = true := by
  simp only [isLetter, isLower, isUpper, upper, Bool.or_eq_true, Bool.and_eq_true, decide_eq_true_eq] at *
  split <;> omega

theorem upper_idChar {c : Nat} (h : isIdChar c = true) : isIdChar (upper c) = true := by
  simp only [isIdChar, isLetter, isLower, isUpper, isDigit, upper, Bool.or_eq_true, Bool.and_eq_true, decide_eq_true_eq] at *
  split <;> omega

theorem upper_isLetter {c : Nat} (h : isLetter c = true) : isLetter (upper c) = true := by
  simp only [isLetter, isLower, isUpper, upper, Bool.or_eq_true, Bool.and_eq_true, decide_eq_true_eq] at *
  split <;> omega

theorem lower_idChar {c : Nat} (h : isIdChar c = true) : isIdChar (lower c) = true := by
  simp only [isIdChar, isLetter, isLower, isUpper, isDigit, lower, Bool.or_eq_true, Bool.and_eq_true, decide_eq_true_eq] at *
  split <;> omega

theorem lower_isLetter {c : Nat} (h : isLetter c = true) : isLetter (lower c) = true := by
  simp only [isLetter, isLower, isUpper, lower, Bool.or_eq_true, Bool.and_eq_true, decide_eq_true_eq] at *
  split <;> omega

theorem upper_le_isIdChar {c : Nat} (h : isUpper c = true) : isIdChar c = true := by
  simp only [isIdChar, isLetter, isLower, isUpper, isDigit, Bool.or_eq_true, Bool.and_eq_true, decide_eq_true_eq] at *
  omega

theorem letter_not_sep {c : Nat} (h : isLetter c = true) : isSep c = false := by
  simp only [isLetter, isLower, isUpper, isSep, Bool.or_eq_true, Bool.and_eq_true, decide_eq_true_eq, Bool.or_eq_false_iff, decide_eq_false_iff_not] at *
  omega

/-! ### title -/

theorem title_all {s : Str} (h : s.all isIdChar = true) : (title s).all isIdChar = true := by
  induction s with
  | nil => rfl
  | cons c cs ih =>
    simp only [List.all_cons, Bool.and_eq_true] at h
    unfold title
    split
    · simp [List.all_cons, upper_idChar h.1, h.2]
    · simp [List.all_cons, h.1, ih h.2]

theorem title_head {c : Nat} {cs : Str} (h : isLetter c = true) : title (c :: cs) = upper c :: cs := by
  simp [title, h]

/-! ### expand -/

theorem map_upper_all {s : Str} (h : s.all isIdChar = true) : (s.map upper).all isIdChar = true := by
  simp only [List.all_eq_true, List.mem_map] at *
  rintro x ⟨y, hy, rfl⟩
  exact upper_idChar (h y hy)

theorem all_dropLast {s : Str} {p : Nat → Bool} (h : s.all p = true) : s.dropLast.all p = true := by
  simp only [List.all_eq_true] at *
  intro x hx
  exact h x (List.dropLast_subset s hx)

theorem expand_all (inits : List Str) {s : Str} (h : s.all isIdChar = true) : (expand inits s).all isIdChar = true := by
  unfold expand
  simp only
  split
  · exact map_upper_all h
  · split
    · rw [List.all_append, map_upper_all (all_dropLast h)]; rfl
    · exact h

/-- the expansion of a string that starts with a letter starts with a letter -/
theorem expand_head (inits : List Str) {c : Nat} {cs : Str} (h : isLetter c = true) :
    ∃ c' cs', expand inits (c :: cs) = c' :: cs' ∧ isLetter c' = true := by
  unfold expand
  simp only
  split
  · exact ⟨upper c, cs.map upper, by simp, upper_isLetter h⟩
  · split
    · cases cs with
      | nil => exact ⟨115, [], by simp, by decide⟩
      | cons d ds => exact ⟨upper c, (d :: ds).dropLast.map upper ++ [115], by simp [List.dropLast], upper_isLetter h⟩
    · exact ⟨c, cs, rfl, h⟩

/-- title ∘ expand of a string that starts with a letter is an exported identifier -/
theorem title_expand_exported (inits : List Str) {c : Nat} {cs : Str} (hc : isLetter c = true)
    (hall : (c :: cs).all isIdChar = true) : exportedIdent (title (expand inits (c :: cs))) = true := by
  obtain ⟨c', cs', he, hl⟩ := expand_head inits (cs := cs) hc
  have ha := expand_all inits hall
  rw [he] at ha ⊢
  rw [title_head hl]
  simp only [List.all_cons, Bool.and_eq_true] at ha
  simp [exportedIdent, upper_letter hl, ha.2]

/-! ### fields -/

theorem fieldsAux_all (p : Nat → Bool) : ∀ (s cur : Str), s.all p = true → cur.all p = true →
    ∀ part ∈ fieldsAux s cur, part.all p = true := by
  intro s
  induction s with
  | nil =>
    intro cur _ hcur part hp
    unfold fieldsAux at hp
    split at hp
    · cases hp
    · simp only [List.mem_singleton] at hp
      subst hp
      simpa using hcur
  | cons c cs ih =>
    intro cur hs hcur part hp
    simp only [List.all_cons, Bool.and_eq_true] at hs
    unfold fieldsAux at hp
    split at hp
    · rw [List.mem_append] at hp
      rcases hp with hp | hp
      · split at hp
        · cases hp
        · simp only [List.mem_singleton] at hp
          subst hp
          simpa using hcur
      · exact ih [] hs.2 rfl part hp
    · exact ih (c :: cur) hs.2 (by simp [List.all_cons, hs.1, hcur]) part hp

/-- with a non-empty run in progress the first field starts with that run -/
theorem fieldsAux_first : ∀ (s cur : Str), cur ≠ [] → ∃ p rest, fieldsAux s cur = (cur.reverse ++ p) :: rest := by
  intro s
  induction s with
  | nil =>
    intro cur hcur
    refine ⟨[], [], ?_⟩
    unfold fieldsAux
    cases cur with
    | nil => exact absurd rfl hcur
    | cons a as => simp
  | cons c cs ih =>
    intro cur hcur
    unfold fieldsAux
    split
    · cases cur with
      | nil => exact absurd rfl hcur
      | cons a as => exact ⟨[], fieldsAux cs [], by simp⟩
    · obtain ⟨p, rest, h⟩ := ih (c :: cur) (by simp)
      exact ⟨c :: p, rest, by rw [h]; simp⟩

theorem fields_first {c : Nat} {cs : Str} (hc : isSep c = false) : ∃ p rest, fields (c :: cs) = (c :: p) :: rest := by
  unfold fields fieldsAux
  simp only [hc]
  obtain ⟨p, rest, h⟩ := fieldsAux_first cs [c] (by simp)
  exact ⟨p, rest, by simpa using h⟩

/-! ### the property -/

theorem flatten_all {l : List Str} {p : Nat → Bool} (h : ∀ x ∈ l, x.all p = true) : l.flatten.all p = true := by
  simp only [List.all_eq_true, List.mem_flatten] at *
  rintro x ⟨y, hy, hx⟩
  exact h y hy x hx

/-- **C20 (naming)**: for every initialism table and every string of identifier characters that starts
    with a letter, `camelCase` gives an exported Go identifier -/
theorem camelCase_exported (inits : List Str) {c : Nat} {cs : Str} (hc : isLetter c = true)
    (hall : (c :: cs).all isIdChar = true) : exportedIdent (camelCase inits (c :: cs)) = true := by
  unfold camelCase
  simp only
  have hl : isLetter (lower c) = true := lower_isLetter hc
  have hall' : ((c :: cs).map lower).all isIdChar = true := by
    simp only [List.all_eq_true, List.mem_map] at *
    rintro x ⟨y, hy, rfl⟩
    exact lower_idChar (hall y hy)
  rw [List.map_cons] at hall' ⊢
  split
  · obtain ⟨p, rest, hf⟩ := fields_first (cs := cs.map lower) (letter_not_sep hl)
    have hparts := fieldsAux_all isIdChar _ [] hall' rfl
    rw [show fieldsAux (lower c :: cs.map lower) [] = fields (lower c :: cs.map lower) from rfl, hf] at hparts
    rw [hf, List.map_cons, List.flatten_cons]
    have h1 := title_expand_exported inits (cs := p) hl (hparts _ (by simp))
    have h2 : ((rest.map (fun p => title (expand inits p))).flatten).all isIdChar = true := by
      apply flatten_all
      intro x hx
      simp only [List.mem_map] at hx
      obtain ⟨y, hy, rfl⟩ := hx
      exact title_all (expand_all inits (hparts y (by simp [hy])))
    cases hte : title (expand inits (lower c :: p)) with
    | nil => rw [hte] at h1; cases h1
    | cons a as =>
      rw [hte] at h1
      simp only [exportedIdent, Bool.and_eq_true] at h1
      simp [exportedIdent, h1.1, h1.2, h2, List.all_append]
  · exact title_expand_exported inits hl hall'


theorem camelCase_all (inits : List Str) {s : Str} (hall : s.all isIdChar = true) :
    (camelCase inits s).all isIdChar = true := by
  unfold camelCase
  simp only
  have hall' : (s.map lower).all isIdChar = true := by
    simp only [List.all_eq_true, List.mem_map] at *
    rintro x ⟨y, hy, rfl⟩
    exact lower_idChar (hall y hy)
  split
  · apply flatten_all
    intro x hx
    simp only [List.mem_map] at hx
    obtain ⟨y, hy, rfl⟩ := hx
    exact title_all (expand_all inits (fieldsAux_all isIdChar _ [] hall' rfl y hy))
  · exact title_all (expand_all inits hall')

/-! ### Trim -/

theorem trimEnd_all {p : Nat → Bool} : ∀ {s : Str}, s.all p = true → (trimEnd s).all p = true := by
  intro s
  induction s with
  | nil => intro _; rfl
  | cons c cs ih =>
    intro h
    simp only [List.all_cons, Bool.and_eq_true] at h
    unfold trimEnd
    split
    · split <;> simp [h.1]
    · rename_i r hr
      have := ih h.2
      simp [List.all_cons, h.1, this]

theorem trimEnd_head {c : Nat} {cs : Str} (hc : c ≠ 95) : ∃ cs', trimEnd (c :: cs) = c :: cs' := by
  unfold trimEnd
  split
  · exact ⟨[], by simp [hc]⟩
  · exact ⟨_, rfl⟩

theorem letter_ne_underscore {c : Nat} (h : isLetter c = true) : c ≠ 95 := by
  simp only [isLetter, isLower, isUpper, Bool.or_eq_true, Bool.and_eq_true, decide_eq_true_eq] at h
  omega

theorem dropWhile_all {p q : Nat → Bool} {s : Str} (h : s.all p = true) : (s.dropWhile q).all p = true := by
  simp only [List.all_eq_true] at *
  intro x hx
  exact h x ((List.dropWhile_sublist q).subset hx)

/-- **C20 (naming), fields**: a column name made of identifier characters whose first character other
    than '_' is a letter gets an exported Go identifier as field name, whatever the initialism table -/
theorem fieldName_exported (inits : List Str) {column : Str} {c : Nat} {cs : Str}
    (hall : column.all isIdChar = true) (hfirst : column.dropWhile (· = 95) = c :: cs) (hc : isLetter c = true) :
    exportedIdent (fieldName inits column) = true := by
  unfold fieldName trimU
  rw [hfirst]
  obtain ⟨cs', h⟩ := trimEnd_head (cs := cs) (letter_ne_underscore hc)
  have ha : (trimEnd (c :: cs)).all isIdChar = true := trimEnd_all (by rw [← hfirst]; exact dropWhile_all hall)
  rw [h] at ha ⊢
  exact camelCase_exported inits hc ha

/-- the usual case: the name starts with a letter -/
theorem fieldName_exported_of_letter (inits : List Str) {c : Nat} {cs : Str}
    (hall : (c :: cs).all isIdChar = true) (hc : isLetter c = true) : exportedIdent (fieldName inits (c :: cs)) = true :=
  fieldName_exported inits (cs := cs) hall (by simp [List.dropWhile, letter_ne_underscore hc]) hc

/-- **C20 (naming), structs**: a table name of identifier characters that starts with a letter gets an
    exported identifier as struct name -/
theorem structName_exported {c : Nat} {cs : Str} (hall : (c :: cs).all isIdChar = true) (hc : isLetter c = true) :
    exportedIdent (structName (c :: cs)) = true := by
  unfold structName
  have hne := letter_ne_underscore hc
  simp only [List.filter_cons, hne, ne_eq, not_false_eq_true, decide_true, if_true]
  rw [title_head hc]
  simp only [List.all_cons, Bool.and_eq_true] at hall
  have : (cs.filter (fun x => decide (x ≠ 95))).all isIdChar = true := by
    simp only [List.all_eq_true, List.mem_filter] at *
    intro x hx
    exact hall.2 x hx.1
  simp only [exportedIdent, upper_letter hc, Bool.true_and]
  exact this

/-- **C20 (naming), enum aliases**: table name starting with a letter, any column name of identifier
    characters: the alias is an exported identifier -/
theorem enumName_exported (inits : List Str) {c : Nat} {cs column : Str} (hall : (c :: cs).all isIdChar = true)
    (hc : isLetter c = true) (hcol : column.all isIdChar = true) :
    exportedIdent (enumName inits (c :: cs) column) = true := by
  unfold enumName
  have hs := structName_exported hall hc
  cases hsn : structName (c :: cs) with
  | nil => rw [hsn] at hs; cases hs
  | cons a as =>
    rw [hsn] at hs
    simp only [exportedIdent, Bool.and_eq_true] at hs
    have hl : isLetter a = true := by simp [isLetter, hs.1]
    rw [title_head hl]
    have hu : upper a = a := by
      have := hs.1
      simp only [isUpper, isLower, upper, Bool.and_eq_true, decide_eq_true_eq] at *
      split <;> omega
    rw [hu]
    simp [exportedIdent, hs.1, hs.2, List.all_append, camelCase_all inits hcol]

/-! ### what the naming scheme does not give (witnesses; each replayed on the generator by the harness) -/

/-- two column names of one table can get the same field name: "ab" and "AB" -/
theorem fieldName_not_injective : fieldName [] [97, 98] = fieldName [] [65, 66] ∧ ([97, 98] : Str) ≠ [65, 66] := by decide

/-- "_1" is an <id>; its field name "1" is not an identifier -/
theorem fieldName_digit : fieldName [] [95, 49] = [49] ∧ exportedIdent [49] = false := by decide

/-- "A_B" and "AB" are different table names with one struct name -/
theorem structName_not_injective : structName [65, 95, 66] = structName [65, 66] := by decide

/-- table "Ab" and table "ab" are written to the same file -/
theorem fileName_not_injective : fileName [65, 98] = fileName [97, 98] := by decide

/-- the alias of an enum column joins table and column name without a separator:
    ("Ab", "c") and ("A", "bc") share "AbC" / "ABc"? no: ("A", "b_c") and ("AB", "c") share "ABC" -/
theorem enumName_not_injective : enumName [] [65] [98, 95, 99] = enumName [] [65, 66] [99] := by decide

/-- non-vacuity: "ip_addrs" with the initialism IP meets the hypotheses and becomes IPAddrs -/
example : fieldName [[73, 80]] [105, 112, 95, 97, 100, 100, 114, 115] = [73, 80, 65, 100, 100, 114, 115] := by decide

end Ovsdb.Naming
