import Ovsdb.Theorems.C03Mutate
/-
  C03 (continued) — `wait` with a zero timeout: the verdict of the code-shaped model is the verdict of the
  RFC 7047 reference interpreter.
-/
namespace Ovsdb.C03
open Ovsdb AMap

theorem all_congr_mem {α : Type} {l : List α} {f g : α → Bool} (h : ∀ x ∈ l, f x = g x) : l.all f = l.all g := by
  induction l with
  | nil => rfl
  | cons a t ih =>
    simp only [List.all_cons]
    rw [h a (by simp), ih (fun x hx => h x (by simp [hx]))]

theorem any_congr_mem {α : Type} {l : List α} {f g : α → Bool} (h : ∀ x ∈ l, f x = g x) : l.any f = l.any g := by
  induction l with
  | nil => rfl
  | cons a t ih =>
    simp only [List.any_cons]
    rw [h a (by simp), ih (fun x hx => h x (by simp [hx]))]

theorem beq_comm' {α : Type} [BEq α] [LawfulBEq α] (a b : α) : (a == b) = (b == a) := by
  rw [Bool.eq_iff_iff, beq_iff_eq, beq_iff_eq]; exact eq_comm

theorem valueEqB_comm (a b : Value) : valueEqB a b = valueEqB b a := by
  cases a <;> cases b <;> simp only [valueEqB] <;> try (exact beq_comm' _ _)
  · rw [Bool.and_comm]
  · rename_i x y
    rw [Bool.and_comm]
    congr 1 <;> (apply all_congr_mem; intro k _; exact beq_comm' _ _)

/-- what the comparison of one column needs: both rows hold a value of one kind -/
def ColComparable (sel exp : Row) (c : String) : Prop :=
  ∃ x y, get? sel c = some x ∧ get? exp c = some y ∧ x.kindTag = y.kindTag

/-- the code's comparison of a selected row with an expected row is the reference's -/
theorem waitAgree_refines (cols : List String) (provided : OvsRow) (em : Model) (er : Row) (p : UUID × Row)
    (hu : "_uuid" ∉ cols) (hrow : ∀ c, get? em.row c = get? er c)
    (hcmp : ∀ c ∈ cols, (get? provided c).isSome = true → ColComparable p.2 er c) :
    waitAgree cols provided em p = Rfc.agreeOn (cols.filter (fun c => (get? provided c).isSome)) p.2 er := by
  unfold waitAgree Rfc.agreeOn
  rw [List.all_filter]
  apply all_congr_mem
  intro c hc
  have hcu : c ≠ "_uuid" := fun e => hu (e ▸ hc)
  cases hp : get? provided c with
  | none => simp
  | some o =>
    obtain ⟨x, y, hx, hy, hk⟩ := hcmp c hc (by simp [hp])
    have h1 : em.field c = some y := by simp [Model.field, hcu, hrow c, hy]
    have h2 : (Model.mk p.1 p.2).field c = some x := by simp [Model.field, hcu, hx]
    simp only [h1, h2, hx, hy, Option.isSome_some, Bool.true_and, Bool.not_true, Bool.false_or]
    have hev : evalCond .eq x y = .ok (valueEqB x y) := by simp [evalCond, hk]
    rw [evalCond_agrees_reference .eq x y _ hev, valueEqB_comm]
    rfl

/-- the reference's comparison of a selected row with an expected row -/
def refAgree (cols : List String) (p : UUID × Row) (e : OvsRow × Row) : Bool :=
  Rfc.agreeOn (cols.filter (fun c => (get? e.1 c).isSome)) p.2 e.2

/-- "the selected rows and the expected rows are the same set of rows" in the reference -/
def refSame (cols : List String) (rows : List (UUID × Row)) (pairs : List (OvsRow × Row)) : Bool :=
  rows.all (fun p => pairs.any (fun e => refAgree cols p e)) && pairs.all (fun e => rows.any (fun p => refAgree cols p e))

/-- expected rows given, decoded by the code (models) and by the reference (rows), side by side -/
abbrev Exp := OvsRow × Model × Row

theorem waitRowsEqual_refines (cols : List String) (rows : List (UUID × Row)) (exp : List Exp)
    (hu : "_uuid" ∉ cols) (hrow : ∀ e ∈ exp, ∀ c, get? e.2.1.row c = get? e.2.2 c)
    (hcmp : ∀ p ∈ rows, ∀ e ∈ exp, ∀ c ∈ cols, (get? e.1 c).isSome = true → ColComparable p.2 e.2.2 c) :
    waitRowsEqual cols rows (exp.map (fun e => (e.1, e.2.1))) = refSame cols rows (exp.map (fun e => (e.1, e.2.2))) := by
  unfold waitRowsEqual refSame
  congr 1
  · apply all_congr_mem
    intro p hp
    rw [List.any_map, List.any_map]
    apply any_congr_mem
    intro e he
    exact waitAgree_refines cols e.1 e.2.1 e.2.2 p hu (hrow e he) (hcmp p hp e he)
  · rw [List.all_map, List.all_map]
    apply all_congr_mem
    intro e he
    apply any_congr_mem
    intro p hp
    exact waitAgree_refines cols e.1 e.2.1 e.2.2 p hu (hrow e he) (hcmp p hp e he)

/-- the expected rows of a wait, decoded by the code and by the reference -/
theorem expected_side_by_side (ts : TableSchema) (hu : "_uuid" ∉ keys ts.cols) (given : List OvsRow) (ms : List Model)
    (h : given.mapM (fun r => getRowData ts r (newModel ts)) = .ok ms) :
    ∃ exp : List Exp, given = exp.map (·.1) ∧ ms = exp.map (·.2.1) ∧
      given.mapM (Rfc.insertRow ts) = some (exp.map (·.2.2)) ∧ ∀ e ∈ exp, ∀ c, get? e.2.1.row c = get? e.2.2 c := by
  induction given generalizing ms with
  | nil =>
    simp only [List.mapM_nil, pure, Except.pure, Except.ok.injEq] at h
    subst h
    exact ⟨[], rfl, rfl, rfl, by intro e he; cases he⟩
  | cons g t ih =>
    simp only [List.mapM_cons, bind, Except.bind] at h
    cases hg : getRowData ts g (newModel ts) with
    | error e => simp [hg] at h
    | ok m =>
      simp only [hg] at h
      cases ht : t.mapM (fun r => getRowData ts r (newModel ts)) with
      | error e => simp [ht] at h
      | ok mt =>
        simp only [ht, pure, Except.pure, Except.ok.injEq] at h
        subst h
        obtain ⟨r', hr', hrow⟩ := insert_refines_reference ts g m hu hg
        obtain ⟨exp, h1, h2, h3, h4⟩ := ih mt ht
        refine ⟨(g, m, r') :: exp, by simp [h1], by simp [h2], ?_, ?_⟩
        · simp [List.mapM_cons, hr', h3, bind, Option.bind]
        · intro e he
          rcases List.mem_cons.mp he with rfl | he
          · exact hrow
          · exact h4 e he

theorem zip_map_same {α β γ : Type} (l : List α) (f : α → β) (g : α → γ) :
    (l.map f).zip (l.map g) = l.map (fun e => (f e, g e)) := by
  induction l with
  | nil => rfl
  | cons a t ih => simp [ih]

/-- the reference's verdict on a wait with timeout 0, once the rows are selected (`Rfc.exec`, "wait") -/
def refWaitAccepts (ts : TableSchema) (op : Operation) (ms : List (UUID × Row)) : Option Unit := do
  let expected ← op.rows.mapM (Rfc.insertRow ts)
  let cols := if op.columns.isEmpty then (keys ts.cols).eraseDups else op.columns
  let same := refSame cols ms (op.rows.zip expected)
  if op.untilFn = "==" then (if same then some () else none)
  else if op.untilFn = "!=" then (if same then none else some ())
  else none

theorem exec_wait (σ : DbModel) (st : Rows) (op : Operation) (hop : op.op = "wait") :
    Rfc.exec σ st op = (do
      let ts ← σ.table op.table
      let ms ← Rfc.matching ts (Rfc.rowsOf st op.table) op.where_
      (refWaitAccepts ts op ms).map (fun _ => (({} : Rfc.Result), st))) := by
  unfold Rfc.exec refWaitAccepts refSame refAgree
  simp only [hop, bind, Option.bind]
  cases σ.table op.table with
  | none => rfl
  | some ts =>
    simp only
    cases Rfc.matching ts (Rfc.rowsOf st op.table) op.where_ with
    | none => rfl
    | some ms =>
      simp only
      cases op.rows.mapM (Rfc.insertRow ts) with
      | none => rfl
      | some expected =>
        simp only [Option.map]
        repeat' split
        all_goals first | rfl | simp_all

/-- **C03 (19)** `wait` with timeout 0.  With the selected rows in hand, the expected rows decoded by the
    code, no compared column missing from the table and every compared column holding values of one kind
    in the selected and the expected rows, the code lets the wait pass exactly when the reference does. -/
theorem wait_refines_reference (ts : TableSchema) (op : Operation) (rows : List (UUID × Row)) (ms : List Model)
    (hu : "_uuid" ∉ keys ts.cols) (hfn : op.untilFn = "==" ∨ op.untilFn = "!=")
    (hexp : op.rows.mapM (fun r => getRowData ts r (newModel ts)) = .ok ms)
    (hcols : "_uuid" ∉ (if op.columns.isEmpty then dedupKeys ts.cols else op.columns))
    (hfound : (!rows.isEmpty && (if op.columns.isEmpty then dedupKeys ts.cols else op.columns).any
      (fun c => (ts.column c).isNone && op.rows.any (fun r => (get? r c).isSome))) = false)
    (hcmp : ∀ exp : List Exp, op.rows = exp.map (·.1) → ms = exp.map (·.2.1) →
      ∀ p ∈ rows, ∀ e ∈ exp, ∀ c ∈ (if op.columns.isEmpty then dedupKeys ts.cols else op.columns),
        (get? e.1 c).isSome = true → ColComparable p.2 e.2.2 c) :
    waitVerdict ts op rows ms = none ↔ (refWaitAccepts ts op rows).isSome = true := by
  obtain ⟨exp, h1, h2, h3, h4⟩ := expected_side_by_side ts hu op.rows ms hexp
  have hsame := waitRowsEqual_refines _ rows exp hcols h4 (hcmp exp h1 h2)
  unfold waitVerdict refWaitAccepts
  simp only [hfound, Bool.false_eq_true, if_false, h3, bind, Option.bind]
  have hz : op.rows.zip ms = exp.map (fun e => (e.1, e.2.1)) := by rw [h1, h2]; exact zip_map_same exp _ _
  have hz' : op.rows.zip (exp.map (·.2.2)) = exp.map (fun e => (e.1, e.2.2)) := by
    conv => lhs; rw [h1]
    exact zip_map_same exp _ _
  rw [hz, hz', hsame]
  have hd : dedupKeys ts.cols = (keys ts.cols).eraseDups := rfl
  rw [hd]
  rcases hfn with hf | hf
  · simp only [hf, beq_self_eq_true, if_true]
    cases refSame _ rows (exp.map fun e => (e.1, e.2.2)) <;> simp <;> (cases op.timeout <;> simp)
  · have hne : (op.untilFn == "==") = false := by simp [hf]
    simp only [hne, hf]
    cases refSame _ rows (exp.map fun e => (e.1, e.2.2)) <;> simp <;> (cases op.timeout <;> simp)

/-! non-vacuity: a wait on a set column whose expected value is written in another order passes, in the
    code-shaped model and in the reference (the pinned comparison was structural: defect D66) -/
section
def wTs : TableSchema := { cols := [("name", { kind := .atom, key := .string }), ("s", { kind := .set, key := .string })] }
def wRows : List (UUID × Row) := [("u1", [("name", .atom (.str "a")), ("s", .set [.str "x", .str "y"])])]
def wOp : Operation :=
  { op := "wait", table := "T", columns := ["s"], untilFn := "==", timeout := some 0, rows := [[("s", OvsVal.set [.str "y", .str "x"])]] }
example : (wOp.rows.mapM (fun r => getRowData wTs r (newModel wTs))).toOption.map (fun ms => waitVerdict wTs wOp wRows ms) = some none := by
  decide
example : refWaitAccepts wTs wOp wRows = some () := by decide
end

end Ovsdb.C03
