import Ovsdb.Model.Heap
import Ovsdb.Proofs.Cond
/-
  C13 — cached models are isolated copies; Clone keeps its contract.

  In a heap where collection and pointer fields refer to cells: a deep clone is
  equal to its original and shares no cell with it, so writes through either
  leave the other as it was; the cache clones what it is handed and what it
  hands out, so no write a caller can perform on memory it holds changes what
  the cache returns.  A shallow copy does share, and `RowsShallow` hands out the
  cached object itself: both are shown to leak writes on concrete heaps.
-/
namespace Ovsdb.C13
open Ovsdb Ovsdb.Heap AMap

/-- every address in use is below the allocation counter -/
structure WF (h : Heap) : Prop where
  objs : ∀ a o, get? h.objs a = some o → a < h.next ∧ ∀ p ∈ o.colls, p.2 < h.next
  cells : ∀ c l, get? h.cells c = some l → c < h.next

theorem freshColls_addr : ∀ (l : List (String × Nat)) (base : Nat) (p : String × Nat), p ∈ freshColls l base →
    base ≤ p.2 ∧ p.2 < base + l.length := by
  intro l
  induction l with
  | nil => intro base p h; simp [freshColls] at h
  | cons x t ih =>
    intro base p h
    obtain ⟨f, c⟩ := x
    simp only [freshColls, List.mem_cons] at h
    rcases h with h | h
    · subst h; simp
    · have := ih (base + 1) p h
      simp only [List.length_cons]; omega

theorem copiedCells_get_none (h : Heap) : ∀ (l : List (String × Nat)) (base x : Nat), x < base → get? (copiedCells h l base) x = none := by
  intro l
  induction l with
  | nil => intro base x _; rfl
  | cons p t ih =>
    intro base x hx
    obtain ⟨f, c⟩ := p
    simp only [copiedCells, get?_cons]
    have : ¬ base = x := by omega
    simp only [this, if_false]
    exact ih (base + 1) x (by omega)

/-- the cells of the clone hold what the cells of the original hold -/
theorem copied_contents (h : Heap) : ∀ (l : List (String × Nat)) (base : Nat),
    (freshColls l base).map (fun p => (p.1, (get? (copiedCells h l base) p.2).getD [])) =
      l.map (fun p => (p.1, (get? h.cells p.2).getD [])) := by
  intro l
  induction l with
  | nil => intro base; rfl
  | cons p t ih =>
    intro base
    obtain ⟨f, c⟩ := p
    simp only [freshColls, copiedCells, List.map_cons, get?_cons, if_true]
    congr 1
    rw [← ih (base + 1)]
    apply List.map_congr_left
    intro q hq
    have := (freshColls_addr t (base + 1) q hq).1
    have hne : ¬ base = q.2 := by omega
    simp [hne]

theorem get?_append_left_none {ν : Type} (a b : AMap Nat ν) (x : Nat) (h : get? a x = none) : get? (a ++ b) x = get? b x := by
  rw [Ovsdb.get?_append, h]

theorem get?_append_left_some {ν : Type} (a b : AMap Nat ν) (x : Nat) (v : ν) (h : get? a x = some v) : get? (a ++ b) x = some v := by
  rw [Ovsdb.get?_append, h]

/-- **C13 (1)**: Clone returns a model equal to its argument, leaves its argument
    as it was, and keeps the heap well-formed; the clone and its cells are new -/
theorem clone_equal (h : Heap) (hw : WF h) (a : Nat) (o : Obj) (ho : get? h.objs a = some o) :
    view (deepClone h a).1 (deepClone h a).2 = view h a ∧ view (deepClone h a).1 a = view h a ∧
    WF (deepClone h a).1 ∧ h.next ≤ (deepClone h a).2 := by
  have ha := (hw.objs a o ho).1
  have hcolls := (hw.objs a o ho).2
  simp only [deepClone, ho]
  refine ⟨?_, ?_, ?_, by omega⟩
  · -- the clone
    simp only [view, get?_cons, if_true, ho]
    congr 1
    congr 1
    have hc := copied_contents h o.colls h.next
    rw [← hc]
    apply List.map_congr_left
    intro q hq
    have hr := freshColls_addr o.colls h.next q hq
    -- a fresh cell is found among the copied ones
    cases hg : get? (copiedCells h o.colls h.next) q.2 with
    | some v => rw [get?_append_left_some _ _ _ _ hg]
    | none =>
      rw [get?_append_left_none _ _ _ hg]
      cases hg2 : get? h.cells q.2 with
      | none => rfl
      | some l => have := hw.cells q.2 l hg2; omega
  · -- the original
    have hne : ¬ h.next + o.colls.length = a := by omega
    simp only [view, get?_cons, hne, if_false, ho]
    congr 1
    congr 1
    apply List.map_congr_left
    intro q hq
    have := hcolls q hq
    rw [get?_append_left_none _ _ _ (copiedCells_get_none h o.colls h.next q.2 this)]
  · constructor
    · intro x ox hx
      simp only [get?_cons] at hx
      by_cases e : h.next + o.colls.length = x
      · simp only [e, if_true] at hx
        cases hx
        refine ⟨by simp only; omega, fun p hp => ?_⟩
        have := freshColls_addr o.colls h.next p hp
        simp only; omega
      · simp only [e, if_false] at hx
        have := hw.objs x ox hx
        exact ⟨by simp only; omega, fun p hp => by have := this.2 p hp; simp only; omega⟩
    · intro c l hc
      simp only at hc ⊢
      cases hg : get? (copiedCells h o.colls h.next) c with
      | none =>
        rw [get?_append_left_none _ _ _ hg] at hc
        have := hw.cells c l hc; omega
      | some v =>
        -- copied cells are numbered below the new counter
        have : c < h.next + o.colls.length := by
          clear hc
          generalize o.colls = cl at hg
          generalize h.next = base at hg ⊢
          induction cl generalizing base with
          | nil => simp [copiedCells] at hg
          | cons p t ih =>
            obtain ⟨f, cc⟩ := p
            simp only [copiedCells, get?_cons] at hg
            by_cases e : base = c
            · subst e; simp
            · simp only [e, if_false] at hg
              have := ih (base + 1) hg
              simp only [List.length_cons]; omega
        omega

/-- a write leaves a model alone when it touches neither its object nor any of its cells -/
theorem view_frame (h : Heap) (w : Write) (a : Nat)
    (hobj : w.isCell = false → w.addr ≠ a)
    (hcell : w.isCell = true → ∀ o, get? h.objs a = some o → ∀ p ∈ o.colls, p.2 ≠ w.addr) :
    view (applyWrite h w) a = view h a := by
  cases w with
  | obj x ox =>
    have : a ≠ x := fun e => hobj rfl e.symm
    simp [applyWrite, view, this]
  | cell c l =>
    simp only [applyWrite, view]
    cases ho : get? h.objs a with
    | none => rfl
    | some o =>
      simp only
      congr 1
      congr 1
      apply List.map_congr_left
      intro p hp
      have := hcell rfl o ho p hp
      simp [Write.addr] at this
      simp [this]

/-- **C13 (2)**: a clone shares nothing with its original: no write to the clone's
    memory changes the original, no write to the original's memory changes the clone -/
theorem clone_isolated (h : Heap) (hw : WF h) (a : Nat) (o : Obj) (ho : get? h.objs a = some o) (w : Write) :
    (h.next ≤ w.addr → view (applyWrite (deepClone h a).1 w) a = view (deepClone h a).1 a) ∧
    (w.addr < h.next → view (applyWrite (deepClone h a).1 w) (deepClone h a).2 = view (deepClone h a).1 (deepClone h a).2) := by
  have ha := (hw.objs a o ho).1
  have hcolls := (hw.objs a o ho).2
  constructor
  · intro hge
    apply view_frame
    · intro _ e; omega
    · intro _ o' ho' p hp
      simp only [deepClone, ho, get?_cons] at ho'
      have hne : ¬ h.next + o.colls.length = a := by omega
      simp only [hne, if_false] at ho'
      cases ho'
      have := hcolls p hp
      omega
  · intro hlt
    apply view_frame
    · intro _ e
      simp only [deepClone, ho] at e
      omega
    · intro _ o' ho' p hp
      simp only [deepClone, ho, get?_cons, if_true] at ho'
      cases ho'
      have := (freshColls_addr o.colls h.next p hp).1
      omega

/-! ### the cache -/

/-- the cache owns its objects and their cells: they are below the counter, and
    the invariant of the heap holds -/
structure CacheWF (c : CacheH) : Prop where
  heap : WF c.heap
  entries : ∀ k a, get? c.entries k = some a → ∃ o, get? c.heap.objs a = some o

/-- **C13 (3)**: a model returned by a read path is a fresh copy: it equals what
    the cache holds, and no write to it or to its cells changes what the cache
    returns for any row -/
theorem read_isolated (c : CacheH) (hc : CacheWF c) (k : String) (a : Nat) (hk : get? c.entries k = some a) :
    ∃ a', (c.read k).2 = some a' ∧ view (c.read k).1.heap a' = c.lookup k ∧
      ∀ (w : Write), c.heap.next ≤ w.addr → ∀ k', ({ (c.read k).1 with heap := applyWrite (c.read k).1.heap w } : CacheH).lookup k' = c.lookup k' := by
  obtain ⟨o, ho⟩ := hc.entries k a hk
  have hce := clone_equal c.heap hc.heap a o ho
  refine ⟨(deepClone c.heap a).2, by simp [CacheH.read, hk], ?_, ?_⟩
  · simp only [CacheH.read, hk, CacheH.lookup]
    exact hce.1
  · intro w hw k'
    simp only [CacheH.read, hk, CacheH.lookup]
    cases hk' : get? c.entries k' with
    | none => rfl
    | some b =>
      simp only
      obtain ⟨ob, hob⟩ := hc.entries k' b hk'
      -- b is an old object: untouched by the clone and by the write
      have hb := hc.heap.objs b ob hob
      have h1 : view (deepClone c.heap a).1 b = view c.heap b := by
        by_cases e : b = a
        · subst e; exact hce.2.1
        · -- cloning a does not disturb b either
          simp only [deepClone, ho, view, get?_cons]
          have hne : ¬ c.heap.next + o.colls.length = b := by omega
          simp only [hne, if_false, hob]
          congr 1
          congr 1
          apply List.map_congr_left
          intro q hq
          rw [get?_append_left_none _ _ _ (copiedCells_get_none c.heap o.colls c.heap.next q.2 (hb.2 q hq))]
      rw [← h1]
      apply view_frame
      · intro _ e; omega
      · intro _ o' ho' p hp
        simp only [deepClone, ho, get?_cons] at ho'
        have hne : ¬ c.heap.next + o.colls.length = b := by omega
        simp only [hne, if_false] at ho'
        rw [hob] at ho'; cases ho'
        have := hb.2 p hp
        omega

/-- **C13 (4)**: a model handed to the cache can be modified afterwards without
    changing the cached row: the cache holds what the model was, and no write to
    the caller's memory (anything that existed before the call) changes it -/
theorem put_isolated (c : CacheH) (hc : CacheWF c) (k : String) (m : Nat) (o : Obj) (hm : get? c.heap.objs m = some o) :
    (c.put k m).lookup k = view c.heap m ∧
    ∀ (w : Write), w.addr < c.heap.next → ({ (c.put k m) with heap := applyWrite (c.put k m).heap w } : CacheH).lookup k = (c.put k m).lookup k := by
  have hce := clone_equal c.heap hc.heap m o hm
  constructor
  · simp only [CacheH.put, CacheH.lookup, get?_insert, if_true]
    exact hce.1
  · intro w hw
    simp only [CacheH.put, CacheH.lookup, get?_insert, if_true]
    exact (clone_isolated c.heap hc.heap m o hm w).2 hw

/-! ### a shallow copy does share, and `RowsShallow` hands out the cached object -/

def h0 : Heap := { objs := [(1, { scalars := [("n", .int 1)], colls := [("s", 0)] })], cells := [(0, [.str "x"])], next := 2 }

theorem shallow_copy_shares :
    let (h1, _) := shallowClone h0 1
    view (applyWrite h1 (.cell 0 [.str "changed"])) 1 ≠ view h1 1 := by
  decide

theorem deep_copy_does_not_share :
    let (h1, b) := deepClone h0 1
    view (applyWrite h1 (.cell 2 [.str "changed"])) 1 = view h1 1 ∧ view h1 b = view h0 1 := by
  decide

def cShallow : CacheH := { heap := h0, entries := [("u", 1)] }

theorem rowsShallow_is_not_isolated :
    cShallow.readShallow "u" = some 1 ∧
    (({ cShallow with heap := applyWrite cShallow.heap (.obj 1 { scalars := [("n", .int 2)], colls := [("s", 0)] }) } : CacheH).lookup "u"
      != cShallow.lookup "u") = true := by
  decide

end Ovsdb.C13
