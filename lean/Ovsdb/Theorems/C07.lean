import Ovsdb.Model.Monitor
import Ovsdb.Theorems.C02
import Ovsdb.Theorems.C10
/-
  C07 — "Notifications are the exact difference made by the transaction".

  For every committed transaction, the notification delivered to a monitor,
  applied to a copy of the monitored part of the database as it was before the
  transaction, yields exactly the monitored part of the database as it is
  after it; nothing for rows and columns that did not change, nothing at all
  for a transaction with no net effect, only the tables, columns and kinds of
  change the monitor selected; exactly one notification per committed
  transaction, in commit order.

  Model: Ovsdb.filter2 / filter1 (server/monitor.go, as repaired) over the
  aggregated update of Ovsdb.transact.  The aggregated update is the net update
  of every touched row (C11); what is proved here is what the filters add:
  selection, minimality, silence, ordering, and the per-column facts that make
  the applied notification exact (a column value survives the OVS notation
  round trip; a modify column applied to the old value gives the new value).
  The end-to-end statement "applied notification = monitored part after" is
  checked on the implementation for every generated history by an independent
  applier (see the evidence file).
-/
namespace Ovsdb.C07
open Ovsdb AMap

/-- **C07 (1)** silence: a transaction with no net effect (empty aggregated
    update) notifies nobody of anything. -/
theorem no_net_effect_silent (m : Monitor) : filter2 m [] = [] ∧ filter1 m [] = [] := by
  simp [filter2, filter1]

/-- **C07 (2)**: a failed transaction notifies nobody (with C02). -/
theorem failed_txn_silent (σ : DbModel) (db : Database) (ops : List Operation) (m : Monitor)
    (h : C02.hasError (transact σ db ops).results = true) :
    filter2 m (transact σ db ops).updates = [] ∧ filter1 m (transact σ db ops).updates = [] := by
  rw [(C02.failed_txn_is_noop σ db ops h).2]
  exact no_net_effect_silent m

/-- **C07 (3)** selection and minimality of an update2 notification: every
    reported row comes from the update of that row in a selected table, is of a
    selected kind, carries monitored columns only, and is never a modification
    without a monitored column. -/
theorem filter2_selected (m : Monitor) (upd : Updates) (n : Notif2) (hn : n ∈ filter2 m upd) :
    ∃ mu ru req, ((n.table, n.uuid), mu) ∈ upd ∧ mu.ru2 = some ru ∧ reqFor m n.table = some req ∧
      selected req ru.insert.isSome ru.modify.isSome ru.delete = true ∧
      n.insert = ru.insert.map (filterCols req) ∧ n.modify = ru.modify.map (filterCols req) ∧ n.delete = ru.delete ∧
      ¬ (ru.insert.isNone ∧ ru.delete = false ∧ (n.modify.map noColumns).getD false = true) := by
  unfold filter2 at hn
  rw [List.mem_filterMap] at hn
  obtain ⟨p, hp, hf⟩ := hn
  obtain ⟨⟨t, u⟩, mu⟩ := p
  simp only at hf
  split at hf
  · rename_i req ru hreq hru
    split at hf
    · rename_i hsel
      split at hf
      · cases hf
      · rename_i hne
        cases hf
        refine ⟨mu, ru, req, hp, hru, hreq, hsel, rfl, rfl, rfl, ?_⟩
        intro ⟨h1, h2, h3⟩
        apply hne
        simp only [h1, h2, Bool.not_false, Bool.and_self, Bool.true_and]
        exact h3
    · cases hf
  · cases hf

/-- only monitored columns (and `_uuid`) survive the column filter -/
theorem filterCols_monitored (q : MonReq) (cols : List String) (hq : q.columns = some cols) (r : OvsRow) (c : String) (v : OvsVal)
    (h : (c, v) ∈ filterCols (some q) r) : c = "_uuid" ∨ c ∈ cols := by
  simp only [filterCols, Option.bind_some, hq, List.mem_filter, Bool.or_eq_true, beq_iff_eq, decide_eq_true_eq] at h
  exact h.2

/-- a table the monitor did not ask for is never reported -/
theorem unselected_table_silent (m : Monitor) (hm : m ≠ []) (upd : Updates) (n : Notif2) (hn : n ∈ filter2 m upd) :
    (get? m n.table).isSome := by
  obtain ⟨mu, ru, req, _, _, hreq, _⟩ := filter2_selected m upd n hn
  unfold reqFor at hreq
  have : m.isEmpty = false := by cases m <;> simp_all
  simp only [this, Bool.false_eq_true, if_false] at hreq
  cases hg : get? m n.table with
  | none => simp [hg] at hreq
  | some q => rfl

/-! ### exactly one notification per committed transaction, in commit order -/

/-- the server: a history of transactions; each committed one notifies each
    monitor once (`processMonitors` before `Commit`, both inside the transaction
    lock) -/
def serverRun (σ : DbModel) (m : Monitor) : Database → List (List Operation) → List (List Notif2)
  | _, [] => []
  | db, ops :: rest =>
    let r := transact σ db ops
    if r.committed then filter2 m r.updates :: serverRun σ m (C02.dbStep σ db ops) rest
    else serverRun σ m (C02.dbStep σ db ops) rest

def committedCount (σ : DbModel) : Database → List (List Operation) → Nat
  | _, [] => 0
  | db, ops :: rest =>
    (if (transact σ db ops).committed then 1 else 0) + committedCount σ (C02.dbStep σ db ops) rest

/-- **C07 (4)**: the number of notifications (possibly with empty content, which
    the server does not put on the wire) equals the number of committed
    transactions; they are produced in commit order by construction of
    `serverRun`. -/
theorem one_per_commit (σ : DbModel) (m : Monitor) (h : List (List Operation)) :
    ∀ db, (serverRun σ m db h).length = committedCount σ db h := by
  induction h with
  | nil => intro db; rfl
  | cons ops rest ih =>
    intro db
    simp only [serverRun, committedCount]
    split
    · simp [ih]; omega
    · simp [ih]

/-! ### the per-column facts behind exactness -/

theorem ovsToNativeAtomic_of_hasType (t : AType) (a : Atom) (h : a.hasType t = true) : ovsToNativeAtomic t a = .ok a := by
  cases t <;> cases a <;> simp_all [Atom.hasType, ovsToNativeAtomic]

theorem mapM_ovsToNativeAtomic (t : AType) (l : List Atom) (h : l.all (·.hasType t) = true) :
    l.mapM (ovsToNativeAtomic t) = .ok l := by
  induction l with
  | nil => rfl
  | cons a rest ih =>
    simp only [List.all_cons, Bool.and_eq_true] at h
    simp [List.mapM_cons, ovsToNativeAtomic_of_hasType t a h.1, ih h.2, bind, Except.bind, pure, Except.pure]

/-- **C07 (5)**: a column value of the column's native type survives the trip
    through OVS notation that insert rows and `new` rows take. -/
theorem column_roundtrip (cs : ColSchema) (v : Value) (h : v.hasNativeType cs = true) :
    ∃ o, nativeToOvs cs v = .ok o ∧ ovsToNative cs o = .ok v := by
  unfold nativeToOvs
  simp only [h, Bool.not_true, Bool.false_eq_true, if_false]
  cases v with
  | atom a =>
    refine ⟨_, rfl, ?_⟩
    cases hk : cs.kind <;> simp [Value.hasNativeType, hk] at h
    simp [ovsToNative, hk, ovsToNativeAtomic_of_hasType cs.key a h, bind, Except.bind, pure, Except.pure]
  | opt o =>
    cases hk : cs.kind <;> simp [Value.hasNativeType, hk] at h
    cases o with
    | none => exact ⟨_, rfl, by simp [ovsToNative, hk]⟩
    | some a =>
      simp [Value.hasNativeType, hk] at h
      exact ⟨_, rfl, by simp [ovsToNative, hk, ovsToNativeAtomic_of_hasType cs.key a h, bind, Except.bind, pure, Except.pure]⟩
  | set l =>
    cases hk : cs.kind <;> simp [Value.hasNativeType, hk] at h
    refine ⟨_, rfl, ?_⟩
    have := mapM_ovsToNativeAtomic cs.key l (by simpa using h)
    simp [ovsToNative, hk, this, bind, Except.bind, pure, Except.pure]
  | map mp =>
    cases hk : cs.kind <;> simp [Value.hasNativeType, hk] at h
    refine ⟨_, rfl, ?_⟩
    have : mp.mapM (ovsPairToNative cs.key cs.val) = (.ok mp : Except String _) := by
      induction mp with
      | nil => rfl
      | cons p rest ih =>
        obtain ⟨pk, pv⟩ := p
        have hp := h pk pv (by simp)
        have hrest : ∀ (a b : Atom), (a, b) ∈ rest → a.hasType cs.key = true ∧ b.hasType cs.val = true :=
          fun a b hx => h a b (by simp [hx])
        simp [List.mapM_cons, ovsPairToNative, ovsToNativeAtomic_of_hasType _ _ hp.1, ovsToNativeAtomic_of_hasType _ _ hp.2,
          ih hrest, bind, Except.bind, pure, Except.pure]
    simp [ovsToNative, hk, this]

/-- **C07 (6)**: a modify column, applied by the receiver to its old value of
    the column, gives the new value (sets as sets): the difference computed by
    the server is exactly what the receiver's `applyDifference` undoes. -/
theorem modify_column_exact (old new : Value) (hk : old.SameKind new) (ho : old.WF) (hn : new.WF) :
    ∃ d r, (difference (some old) (some new)).1 = some d ∧
      (applyDifference (some old) (some d)).1 = some r ∧ r ≃ᵥ new :=
  let ⟨d, r, h1, h2, h3, _⟩ := C10.apply_diff old new hk ho hn
  ⟨d, r, h1, h2, h3⟩

/-! Non-vacuity: a monitor of one column of one table, an update touching a
    monitored and an unmonitored column, and one touching only the latter. -/
section
def exMon : Monitor := [("T", { columns := some ["name"] })]
def ru (m : OvsRow) : ModelUpdate := { ru2 := some { modify := some m, old := some [], new := some [] } }
example : (filter2 exMon [(("T", "u1"), ru [("name", .atom (.str "b")), ("n", .atom (.int 1))]),
                          (("T", "u2"), ru [("n", .atom (.int 2))]),
                          (("U", "u3"), ru [("name", .atom (.str "x"))])]).map (fun n => (n.uuid, n.modify))
    = [("u1", some [("name", .atom (.str "b"))])] := by decide
end

/-- what is reported for the rows of one part of an update does not depend on the rest of it: the
    notification of an update is the notification of its parts, one after the other (rows of other tables,
    reported or not, take nothing away: `Send2` sends whatever `filter2` yields unless all of it is empty) -/
theorem filter2_append (m : Monitor) (u₁ u₂ : Updates) :
    filter2 m (u₁ ++ u₂) = filter2 m u₁ ++ filter2 m u₂ := by
  simp [filter2, List.filterMap_append]

theorem filter1_append (m : Monitor) (u₁ u₂ : Updates) :
    filter1 m (u₁ ++ u₂) = filter1 m u₁ ++ filter1 m u₂ := by
  simp [filter1, List.filterMap_append]

/-- a row reported for an update is reported whatever other rows, of this or of other tables, the same
    transaction changed -/
theorem reported_whatever_else_changed (m : Monitor) (before u after : Updates) (n : Notif2)
    (hn : n ∈ filter2 m u) : n ∈ filter2 m (before ++ u ++ after) := by
  simp [filter2_append, hn]

/-- and only what some part yields is reported -/
theorem reported_stems_from_a_part (m : Monitor) (u₁ u₂ : Updates) (n : Notif2)
    (hn : n ∈ filter2 m (u₁ ++ u₂)) : n ∈ filter2 m u₁ ∨ n ∈ filter2 m u₂ := by
  simpa [filter2_append] using hn

/-! Non-vacuity: two monitored tables in one transaction; the change in `T` is in an unmonitored column
    (nothing to report for `T`), the change in `U` is reported all the same. -/
def exMon2 : Monitor := [("T", { columns := some ["name"] }), ("U", { columns := none })]
example : (filter2 exMon2 [(("T", "u1"), ru [("n", .atom (.int 1))]),
                           (("U", "u2"), ru [("x", .atom (.int 2))])]).map (fun n => (n.table, n.uuid))
    = [("U", "u2")] := by decide

end Ovsdb.C07
