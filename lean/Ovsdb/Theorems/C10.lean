import Ovsdb.Model.Equiv
import Ovsdb.Proofs.Diff
/-
  C10 — "A modify difference, applied to the old value, gives the new value".

  For any two values a and b of a column, the difference the library computes
  for changing a into b is empty exactly when a and b are equal, and applying
  it to a yields b (sets compared as sets).  Applying a difference received
  from a peer follows the update2 rules: set elements toggle membership, map
  pairs are added, replaced or (when identical) removed, any other column is
  overwritten.

  The theorems are about `Ovsdb.difference` / `Ovsdb.applyDifference`
  (Model/Diff.lean), the model of updates/difference.go, for ALL values.
  The clause "neither computing nor applying a difference alters the model it
  was computed from" is about aliasing and is outside a pure model; it is
  checked on the implementation by the correspondence run (see DESIGN.md).
-/
namespace Ovsdb.C10
open Ovsdb AMap

/-- the value part of `difference a b`, never `none` for two present values -/
theorem difference_isSome (a b : Value) (hk : a.SameKind b) :
    ∃ d, (difference (some a) (some b)).1 = some d ∧ d.SameKind b := by
  cases a <;> cases b <;> simp only [Value.SameKind] at hk
  · exact ⟨_, rfl, trivial⟩
  · exact ⟨_, rfl, trivial⟩
  · rename_i x y
    simp only [difference, mergeDifference, Value.kind, asSet, setDifference]
    split
    · exact ⟨_, rfl, trivial⟩
    · split
      · exact ⟨_, rfl, trivial⟩
      · split <;> exact ⟨_, rfl, trivial⟩
  · rename_i x y
    simp only [difference, mergeDifference, Value.kind, asMap, mergeMapDifference]
    split
    · exact ⟨_, rfl, trivial⟩
    · split
      · exact ⟨_, rfl, trivial⟩
      · by_cases h : mapLen (mergeMapCore (none.getD []) x y) = 0 <;> simp only [h, if_true, if_false] <;>
          exact ⟨_, rfl, trivial⟩

/-- map difference, pointwise: keys in one map only, plus keys whose values
    differ, with the value of the new map -/
def mapDiffSpec (a b : AMap Atom Atom) (k : Atom) : Option Atom :=
  match get? b k with
  | some bv => if get? a k = some bv then none else some bv
  | none => get? a k

theorem mergeMapVal_nil (a : AMap Atom Atom) (k bv : Atom) :
    mergeMapVal [] a k bv = if get? a k = some bv then none else some bv := by
  unfold mergeMapVal
  simp only [get?_nil]
  split <;> simp_all

/-- set part of the result of `difference`, as a membership predicate -/
theorem difference_set (x y : List Atom) (hx : x.Nodup) (hy : y.Nodup) :
    ∃ d, difference (some (.set x)) (some (.set y)) = (some (.set d), decide (d ≠ [])) ∧ d.Nodup ∧
      ∀ e, e ∈ d ↔ (e ∈ x ∧ e ∉ y) ∨ (e ∈ y ∧ e ∉ x) := by
  simp only [difference, mergeDifference, Value.kind, asSet, setDifference]
  by_cases h1 : x.length = 0
  · have : x = [] := List.length_eq_zero_iff.mp h1
    subst this
    refine ⟨y, ?_, hy, by simp⟩
    cases y <;> simp
  · by_cases h2 : y.length = 0
    · have : y = [] := List.length_eq_zero_iff.mp h2
      subst this
      refine ⟨x, ?_, hx, by simp⟩
      cases x <;> simp at h1 ⊢
    · simp only [h1, h2, if_false]
      by_cases h3 : (setDiffCore x y).length = 0
      · have e3 : setDiffCore x y = [] := List.length_eq_zero_iff.mp h3
        refine ⟨[], by simp [h3], by simp, ?_⟩
        intro e
        rw [← mem_setDiffCore x y hx e, e3]
      · refine ⟨setDiffCore x y, ?_, nodup_setDiffCore x y hx, mem_setDiffCore x y hx⟩
        have : setDiffCore x y ≠ [] := fun e => h3 (by simp [e])
        simp [h3, this]

theorem difference_map (x y : AMap Atom Atom) :
    ∃ d, difference (some (.map x)) (some (.map y)) = (some (.map d), decide (d ≠ [])) ∧
      ∀ k, get? d k = mapDiffSpec x y k := by
  simp only [difference, mergeDifference, Value.kind, asMap, mergeMapDifference]
  by_cases h1 : mapLen x = 0
  · have : x = [] := (mapLen_eq_zero x).mp h1
    subst this
    refine ⟨y, ?_, ?_⟩
    · have := mapLen_eq_zero y
      cases y <;> simp_all
    · intro k; simp only [mapDiffSpec, get?_nil]; split <;> simp_all
  · by_cases h2 : mapLen y = 0
    · have : y = [] := (mapLen_eq_zero y).mp h2
      subst this
      refine ⟨x, ?_, ?_⟩
      · have := mapLen_eq_zero x
        cases x <;> simp_all
      · intro k; simp [mapDiffSpec]
    · simp only [h1, h2, if_false, Option.getD_none]
      have hspec : ∀ k, get? (mergeMapCore [] x y) k = mapDiffSpec x y k := by
        intro k
        rw [get?_mergeMapCore]
        unfold mapDiffSpec
        cases get? y k with
        | none => rfl
        | some bv => simp only [mergeMapVal_nil]
      by_cases h3 : mapLen (mergeMapCore [] x y) = 0
      · have e3 := (mapLen_eq_zero _).mp h3
        refine ⟨[], by simp [h3], ?_⟩
        intro k; rw [← hspec k, e3]
      · have : mergeMapCore [] x y ≠ [] := fun e => h3 ((mapLen_eq_zero _).mpr e)
        exact ⟨_, by simp [h3, this], hspec⟩

theorem mapDiffSpec_none_iff (x y : AMap Atom Atom) :
    (∀ k, mapDiffSpec x y k = none) ↔ ∀ k, get? x k = get? y k := by
  constructor
  · intro h k
    have := h k
    unfold mapDiffSpec at this
    split at this
    · split at this <;> simp_all
    · simp_all
  · intro h k
    unfold mapDiffSpec
    split <;> simp_all

/-- **C10 (1)**: the computed difference is flagged empty exactly when the two
    values are equal (sets as sets, maps extensionally). -/
theorem diff_empty_iff (a b : Value) (hk : a.SameKind b) (ha : a.WF) (hb : b.WF) :
    (difference (some a) (some b)).2 = false ↔ a ≃ᵥ b := by
  cases a <;> cases b <;> simp only [Value.SameKind] at hk
  · rename_i x y
    simp only [difference, mergeDifference, Value.kind, mergeAtomicDifference, deepEqualOpt, deepEqual,
      Value.Equiv]
    simp
  · rename_i x y
    simp only [difference, mergeDifference, Value.kind, mergeAtomicDifference, deepEqualOpt, deepEqual,
      Value.Equiv]
    simp
  · rename_i x y
    obtain ⟨d, hd, _, hm⟩ := difference_set x y ha hb
    rw [hd]
    simp only [Value.Equiv, decide_eq_false_iff_not, ne_eq, Decidable.not_not]
    constructor
    · intro e z
      subst e
      have := hm z
      simp only [List.not_mem_nil, false_iff, not_or, not_and, Decidable.not_not] at this
      exact ⟨this.1, this.2⟩
    · intro h
      apply List.eq_nil_iff_forall_not_mem.mpr
      intro z hz
      rcases (hm z).mp hz with ⟨h1, h2⟩ | ⟨h1, h2⟩
      · exact h2 ((h z).mp h1)
      · exact h2 ((h z).mpr h1)
  · rename_i x y
    obtain ⟨d, hd, hm⟩ := difference_map x y
    rw [hd]
    simp only [Value.Equiv, decide_eq_false_iff_not, ne_eq, Decidable.not_not]
    rw [← mapDiffSpec_none_iff]
    constructor
    · intro e k; rw [← hm k, e]; rfl
    · intro h; exact get?_none_of_forall (fun k => by rw [hm k, h k])

/-- update2 rule for applying a peer's set difference: membership toggles -/
theorem apply_set (v d : List Atom) (hv : v.Nodup) (hd : d.Nodup) :
    ∃ r, (applyDifference (some (.set v)) (some (.set d))).1 = some (.set r) ∧ r.Nodup ∧
      (∀ e, e ∈ r ↔ (e ∈ v ∧ e ∉ d) ∨ (e ∈ d ∧ e ∉ v)) ∧
      ((applyDifference (some (.set v)) (some (.set d))).2 = decide (d ≠ [])) := by
  obtain ⟨r, hr, hn, hm⟩ := difference_set v d hv hd
  refine ⟨r, ?_, hn, hm, ?_⟩
  · simp only [applyDifference, Value.kind, hr]
    split <;> rfl
  · simp only [applyDifference, Value.kind, hr, valueLen]
    cases d with
    | nil =>
      simp
    | cons d0 dt =>
      simp only [List.length_cons, Nat.zero_lt_succ, decide_true, Bool.and_true]
      split <;> simp_all

/-- update2 rule for applying a peer's map difference: pairs are added,
    replaced, or (when identical) removed -/
theorem apply_map (v d : AMap Atom Atom) :
    ∃ r, (applyDifference (some (.map v)) (some (.map d))).1 = some (.map r) ∧
      (∀ k, get? r k = mapDiffSpec v d k) ∧
      ((applyDifference (some (.map v)) (some (.map d))).2 = decide (d ≠ [])) := by
  obtain ⟨r, hr, hm⟩ := difference_map v d
  refine ⟨r, ?_, hm, ?_⟩
  · simp only [applyDifference, Value.kind, hr]
    split <;> rfl
  · simp only [applyDifference, Value.kind, hr, valueLen]
    by_cases hd : d = []
    · subst hd; simp [mapLen, dedup, keys]
    · have : mapLen d ≠ 0 := fun e => hd ((mapLen_eq_zero d).mp e)
      have : 0 < mapLen d := Nat.pos_of_ne_zero this
      split <;> simp_all

/-- **C10 (3)**: applying a difference received from a peer follows the update2
    rules, for every column kind. -/
theorem apply_follows_update2 (v d : Value) (hk : v.SameKind d) (hv : v.WF) (hd : d.WF) :
    ∃ r, (applyDifference (some v) (some d)).1 = some r ∧ r.WF ∧
      match v, d, r with
      | .set v, .set d, .set r => ∀ e, e ∈ r ↔ (e ∈ v ∧ e ∉ d) ∨ (e ∈ d ∧ e ∉ v)
      | .map v, .map d, .map r => ∀ k, get? r k = mapDiffSpec v d k
      | .atom _, .atom d, .atom r => r = d
      | .opt _, .opt d, .opt r => r = d
      | _, _, _ => False := by
  cases v <;> cases d <;> simp only [Value.SameKind] at hk
  · exact ⟨_, rfl, trivial, rfl⟩
  · exact ⟨_, rfl, trivial, rfl⟩
  · rename_i x y
    obtain ⟨r, h1, h2, h3, _⟩ := apply_set x y hv hd
    exact ⟨_, h1, h2, h3⟩
  · rename_i x y
    obtain ⟨r, h1, h2, _⟩ := apply_map x y
    exact ⟨_, h1, trivial, h2⟩

/-- **C10 (2)**: applying the computed difference to the old value gives the
    new value. -/
theorem apply_diff (a b : Value) (hk : a.SameKind b) (ha : a.WF) (hb : b.WF) :
    ∃ d r, (difference (some a) (some b)).1 = some d ∧
      (applyDifference (some a) (some d)).1 = some r ∧ r ≃ᵥ b ∧ r.WF := by
  cases a <;> cases b <;> simp only [Value.SameKind] at hk
  · exact ⟨_, _, rfl, rfl, rfl, trivial⟩
  · exact ⟨_, _, rfl, rfl, rfl, trivial⟩
  · rename_i x y
    obtain ⟨d, hd, hdn, hdm⟩ := difference_set x y ha hb
    obtain ⟨r, hr, hrn, hrm, _⟩ := apply_set x d ha hdn
    refine ⟨.set d, .set r, by rw [hd], hr, ?_, hrn⟩
    intro e
    rw [hrm e, hdm e]
    by_cases h1 : e ∈ x <;> by_cases h2 : e ∈ y <;> simp [h1, h2]
  · rename_i x y
    obtain ⟨d, hd, hdm⟩ := difference_map x y
    obtain ⟨r, hr, hrm, _⟩ := apply_map x d
    refine ⟨.map d, .map r, by rw [hd], hr, ?_, trivial⟩
    intro k
    rw [hrm k]
    unfold mapDiffSpec
    rw [hdm k]
    unfold mapDiffSpec
    cases h1 : get? x k <;> cases h2 : get? y k <;> simp <;> grind

/-- **C10 (4)**: the `changed` flag of `applyDifference` is true exactly when
    the result differs from the value it was applied to. -/
theorem changed_flag_apply (v d : Value) (hk : v.SameKind d) (hv : v.WF) (hd : d.WF) :
    ∃ r, (applyDifference (some v) (some d)).1 = some r ∧
      ((applyDifference (some v) (some d)).2 = true ↔ ¬ r ≃ᵥ v) := by
  cases v <;> cases d <;> simp only [Value.SameKind] at hk
  · rename_i x y
    refine ⟨.atom y, rfl, ?_⟩
    simp only [applyDifference, Value.kind, difference, mergeDifference, mergeAtomicDifference,
      deepEqualOpt, deepEqual, Value.Equiv]
    constructor
    · intro h e; subst e; simp at h
    · intro h; simpa using fun e => h e.symm
  · rename_i x y
    refine ⟨.opt y, rfl, ?_⟩
    simp only [applyDifference, Value.kind, difference, mergeDifference, mergeAtomicDifference,
      deepEqualOpt, deepEqual, Value.Equiv]
    constructor
    · intro h e; subst e; simp at h
    · intro h; simpa using fun e => h e.symm
  · rename_i x y
    obtain ⟨r, h1, _, h3, h4⟩ := apply_set x y hv hd
    refine ⟨_, h1, ?_⟩
    rw [h4]
    simp only [Value.Equiv, decide_eq_true_eq, ne_eq]
    constructor
    · intro hne h
      cases y with
      | nil => exact hne rfl
      | cons y0 yt =>
        have := h3 y0
        have h' := h y0
        simp only [List.mem_cons, true_or, not_true_eq_false, and_false, true_and, false_or] at this
        by_cases hx : y0 ∈ x
        · exact (this.mp (h'.mpr hx)) hx
        · exact hx (h'.mp (this.mpr hx))
    · intro h e
      subst e
      apply h
      intro z
      rw [h3 z]
      simp
  · rename_i x y
    obtain ⟨r, h1, h2, h4⟩ := apply_map x y
    refine ⟨_, h1, ?_⟩
    rw [h4]
    simp only [Value.Equiv, decide_eq_true_eq, ne_eq]
    constructor
    · intro hne h
      cases y with
      | nil => exact hne rfl
      | cons p yt =>
        obtain ⟨pk, pv⟩ := p
        have := h2 pk
        rw [h pk] at this
        simp only [mapDiffSpec, get?_cons, if_true] at this
        split at this <;> simp_all
    · intro h e
      subst e
      apply h
      intro k
      rw [h2 k]
      simp [mapDiffSpec]

/-! Non-vacuity: concrete non-trivial values meet every hypothesis, and the
    conclusions can be evaluated on them. -/
example : (Value.set [.int 1, .int 2]).SameKind (.set [.int 2, .int 3]) ∧
    (Value.set [.int 1, .int 2]).WF ∧ (Value.set [.int 2, .int 3]).WF := by
  simp [Value.SameKind, Value.WF]

example : difference (some (.set [.int 1, .int 2])) (some (.set [.int 2, .int 3]))
    = (some (.set [.int 1, .int 3]), true) := by decide

example : applyDifference (some (.map [(.str "a", .int 1), (.str "b", .int 2)]))
      (some (.map [(.str "a", .int 1), (.str "b", .int 3), (.str "c", .int 4)]))
    = (some (.map [(.str "c", .int 4), (.str "b", .int 3)]), true) := by decide

end Ovsdb.C10
