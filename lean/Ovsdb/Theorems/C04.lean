import Ovsdb.Model.Txn
/-
  C04 — "Referential integrity holds after every commit".

  After every committed transaction: every strong reference points to an
  existing row of the referenced table; every row of a non-root table is
  strongly referenced by at least one existing row (rows that are not are
  deleted as part of the transaction, transitively); and no weak reference
  points to a missing row (such references are removed, and the transaction is
  rejected instead if that would leave a column with fewer elements than its
  minimum).  A transaction that would leave a dangling strong reference is
  rejected.  These decisions depend only on the rows currently stored.

  Model: Ovsdb.refLoop / commitPhase (Model/Txn.lean) — the observable function
  of updates/references.go: the incremental bookkeeping of the Go reference
  tracker (lazy loading of the persistent reference index, per-iteration
  updates) is NOT mirrored step by step; that its results (accept/reject, the
  resulting rows, the aggregated update, the reference index after commit)
  equal the model's is tied by the correspondence run after every commit.
-/
namespace Ovsdb.C04
open Ovsdb AMap

/-- the rows a committed transaction leaves have no dangling strong reference,
    no unreferenced row in a non-root table and no dangling weak reference -/
structure Integrity (σ : DbModel) (rs : Rows) : Prop where
  strongExist : ∀ p ∈ rs.all, ∀ ts, σ.table p.1 = some ts → ∀ e ∈ rowRefs ts p.2.2, e.2.2.2.1 = true →
    rs.has e.2.1 e.2.2.1 = true
  nonRootReferenced : ∀ p ∈ rs.all, isRootTable σ p.1 = false → stronglyReferenced σ rs p.1 p.2.1 = true
  weakExist : ∀ p ∈ rs.all, ∀ ts, σ.table p.1 = some ts → ∀ e ∈ rowRefs ts p.2.2, e.2.2.2.1 = false →
    rs.has e.2.1 e.2.2.1 = true

theorem integrity_of_checks (σ : DbModel) (rs : Rows) (h1 : danglingStrong σ rs = false)
    (h2 : (unreferenced σ rs).isEmpty = true) (h3 : danglingWeak σ rs = false) : Integrity σ rs := by
  refine ⟨?_, ?_, ?_⟩
  · intro p hp ts hts e he hs
    unfold danglingStrong at h1
    rw [List.any_eq_false] at h1
    have := h1 p hp
    simp only [hts, Bool.not_eq_true] at this
    rw [List.any_eq_false] at this
    have := this e he
    simp only [hs, Bool.true_and, Bool.not_eq_true, Bool.not_eq_false'] at this
    exact this
  · intro p hp hroot
    unfold unreferenced at h2
    rw [List.isEmpty_iff] at h2
    have := List.filterMap_eq_nil_iff.mp h2 p hp
    simp only [hroot, Bool.not_false, Bool.true_and] at this
    cases hsr : stronglyReferenced σ rs p.1 p.2.1 with
    | true => rfl
    | false => simp [hsr] at this
  · intro p hp ts hts e he hs
    unfold danglingWeak at h3
    rw [List.any_eq_false] at h3
    have := h3 p hp
    simp only [hts, Bool.not_eq_true] at this
    rw [List.any_eq_false] at this
    have := this e he
    simp only [hs, Bool.not_false, Bool.true_and, Bool.not_eq_true, Bool.not_eq_false'] at this
    exact this

/-- **C04 (1)**: whatever the reference processing accepts satisfies all three
    integrity clauses — for every schema (self references, cycles, chains of
    non-root tables, references in set, optional, map-key and map-value
    position) and every starting state. -/
theorem refLoop_integrity (σ : DbModel) : ∀ (n : Nat) (rs rs' : Rows), refLoop σ n rs = .ok rs' → Integrity σ rs' := by
  intro n
  induction n with
  | zero => intro rs rs' h; simp [refLoop] at h
  | succ n ih =>
    intro rs rs' h
    simp only [refLoop] at h
    split at h
    · cases h
    · rename_i hds
      split at h
      · rename_i hfix
        cases h
        simp only [Bool.and_eq_true, Bool.not_eq_true', Bool.not_eq_eq_eq_not, Bool.not_true] at hfix hds
        exact integrity_of_checks σ rs (by simpa using hds) hfix.1 hfix.2
      · split at h
        · cases h
        · exact ih _ _ h

/-- **C04 (2)**: a state with a dangling strong reference is rejected with a
    referential integrity violation (given any fuel at all). -/
theorem dangling_strong_rejected (σ : DbModel) (n : Nat) (rs : Rows) (h : danglingStrong σ rs = true) :
    refLoop σ (n + 1) rs = .error .referential := by
  simp [refLoop, h]

/-- **C04 (3)**: whatever `commitPhase` commits passed the reference processing:
    there is a set of rows satisfying Integrity from which the committed
    update was derived. -/
theorem committed_passed_integrity (σ : DbModel) (db : Database) (results : List OpResult) (tx : Txn)
    (h : (commitPhase σ db results tx).committed = true) :
    ∃ sFinal, refLoop σ (rowCount (rowsAfter db tx.updates) + refCount σ (rowsAfter db tx.updates) + 2)
        (rowsAfter db tx.updates) = .ok sFinal ∧ Integrity σ sFinal := by
  unfold commitPhase at h
  simp only at h
  split at h
  · simp at h
  · rename_i sFinal hloop
    exact ⟨sFinal, hloop, refLoop_integrity σ _ _ _ hloop⟩

/-- **C04 (4)**: the decision depends only on the rows currently stored: the
    model's transaction takes the database (rows and index state) and nothing
    else as input, so two histories ending in the same database give the same
    answer to every transaction.  (For the implementation this is the claim
    that its persistent reference index is a function of the stored rows; the
    correspondence run compares that index with `computeRefs` of the dump
    after every commit.) -/
theorem history_independent (σ : DbModel) (db₁ db₂ : Database) (h : db₁ = db₂) (ops : List Operation) :
    transact σ db₁ ops = transact σ db₂ ops := by rw [h]

/-! Non-vacuity: A -> B -> C chain of non-root rows with a weak referrer; deleting
    the root garbage collects B and C and prunes the weak references. -/
section
def rcol (t : String) (strong : Bool) : ColSchema := { kind := .opt, key := .uuid, refTable := t, refStrong := strong }
def exModel : DbModel :=
  { schema := [("A", { cols := [("b", rcol "B" true)], isRoot := true }),
               ("B", { cols := [("c", rcol "C" true)], isRoot := false }),
               ("C", { cols := [("x", { kind := .atom, key := .integer })], isRoot := false }),
               ("R", { cols := [("wb", rcol "B" false), ("wc", rcol "C" false)], isRoot := true })],
    specs := [] }
def exRows : Rows :=
  [("A", []), ("B", [("ub", [("c", .opt (some (.uuid "uc")))])]), ("C", [("uc", [("x", .atom (.int 1))])]),
   ("R", [("ur", [("wb", .opt (some (.uuid "ub"))), ("wc", .opt (some (.uuid "uc")))])])]
example : (match refLoop exModel 6 exRows with
    | .ok rs => rs.all.map (fun p => (p.1, p.2.1, p.2.2)) == [("R", "ur", [("wc", .opt none), ("wb", .opt none)])]
    | .error _ => false) = true := by decide
end


/-- **C04 (root set)** RFC 7047: when no table of a schema is marked as root, every table is part of
    the root set -- nothing is garbage collected for want of a strong reference -/
theorem no_root_marked_all_root (σ : DbModel) (h : ∀ p ∈ σ.schema, p.2.isRoot = false) (t : String) :
    isRootTable σ t = true := by
  unfold isRootTable
  split
  · rfl
  · have : σ.schema.all (fun p => !p.2.isRoot) = true := by
      apply List.all_eq_true.mpr
      intro p hp
      simp [h p hp]
    simp [this]

theorem no_root_marked_nothing_collected (σ : DbModel) (h : ∀ p ∈ σ.schema, p.2.isRoot = false) (rs : Rows) :
    unreferenced σ rs = [] := by
  unfold unreferenced
  apply List.filterMap_eq_nil_iff.mpr
  intro p _
  simp [no_root_marked_all_root σ h p.1]

end Ovsdb.C04
