import Ovsdb.Proofs.Cache
/-
  C05 — "Cache indexes always agree with cache contents".

  At the end of every batch of changes applied to a cache, looking rows up
  through any schema index, client index or the UUID returns exactly the rows
  a full scan of the cache would return for the same values; this holds in
  whatever order the rows of a batch are applied, including batches in which
  an indexed value moves from one row to another.

  Model: Ovsdb.Cache (Model/Cache.lean) mirrors RowCache.Create/Update/Delete
  and the index bookkeeping of cache/cache.go.  A batch is a list of row
  operations touching each uuid at most once, in ANY order (`ops` is an
  arbitrary list: the theorem quantifies over all orders).  The state after
  the batch has no duplicate schema-index values (that is C06's guarantee for
  what a server sends).
-/
namespace Ovsdb.C05
open Ovsdb AMap

/-- every index lists under every value exactly the rows having it -/
def IndexExact (c : Cache) : Prop := ∀ ix ∈ c.ixs, IxExact (ValAt c.rows ix.spec) ix

/-- no two rows agree on a schema index -/
def SchemaUnique (c : Cache) : Prop :=
  ∀ ix ∈ c.ixs, ix.spec.isSchema = true →
    ∀ u u' v, ValAt c.rows ix.spec u = some v → ValAt c.rows ix.spec u' = some v → u = u'

/-- an exact, duplicate-free schema index satisfies the batch invariant for
    any pending set and final valuation that agree with it outside the batch -/
theorem binv_init (c : Cache) (ix : Index) (P : UUID → Prop) (F : UUID → Option IdxVal)
    (hex : IxExact (ValAt c.rows ix.spec) ix)
    (hu : ∀ u u' v, ValAt c.rows ix.spec u = some v → ValAt c.rows ix.spec u' = some v → u = u')
    (hF : ∀ u, ¬ P u → ValAt c.rows ix.spec u = F u)
    (hFu : ∀ u u' v, F u = some v → F u' = some v → u = u') :
    BInv P F (ValAt c.rows ix.spec) ix := by
  obtain ⟨hm, he⟩ := hex
  have hsing : Singletons ix := by
    intro v l hl
    obtain ⟨hne, hnd⟩ := he v l hl
    cases l with
    | nil => exact absurd rfl hne
    | cons a t =>
      refine ⟨a, ?_⟩
      cases t with
      | nil => rfl
      | cons b t' =>
        have ha : a ∈ uuidsAt ix v := by simp [uuidsAt, hl]
        have hb : b ∈ uuidsAt ix v := by simp [uuidsAt, hl]
        have := hu a b v ((hm v a).mp ha) ((hm v b).mp hb)
        subst this
        simp at hnd
  have hentry : ∀ v u, get? ix.m v = some [u] ↔ ValAt c.rows ix.spec u = some v := by
    intro v u
    constructor
    · intro h; exact (hm v u).mp (by simp [uuidsAt, h])
    · intro h
      have hmem := (hm v u).mpr h
      unfold uuidsAt at hmem
      cases hg : get? ix.m v with
      | none => simp [hg] at hmem
      | some l =>
        obtain ⟨w, hw⟩ := hsing v l hg
        subst hw
        simp [hg] at hmem
        rw [hmem]
  refine ⟨hsing, ?_, ?_, hF, ?_, hFu⟩
  · intro v u h; exact (hentry v u).mp h
  · intro u v _ h; exact (hentry v u).mpr h
  · intro u v _ h; exact Or.inl ((hentry v u).mpr h)

/-- when nothing is pending the invariant is exactness -/
theorem binv_done (F V : UUID → Option IdxVal) (ix : Index) (h : BInv (fun _ => False) F V ix) :
    IxExact V ix := by
  obtain ⟨hsing, ha, hb, _, _, _⟩ := h
  refine ⟨?_, ?_⟩
  · intro v u
    constructor
    · intro hm
      unfold uuidsAt at hm
      cases hg : get? ix.m v with
      | none => simp [hg] at hm
      | some l =>
        obtain ⟨w, hw⟩ := hsing v l hg
        subst hw
        simp [hg] at hm
        subst hm
        exact ha v u hg
    · intro hv
      have := hb u v (fun f => f) hv
      simp [uuidsAt, this]
  · intro v l hl
    obtain ⟨w, hw⟩ := hsing v l hl
    subst hw
    simp

/-- schema indexes: invariant carried through a whole batch applied in the
    given (arbitrary) order -/
theorem schema_batch (ops : List RowOp) (c c' : Cache) (h : c.applyAll ops = .ok c')
    (hnd : (ops.map RowOp.uuid).Nodup) (F : Spec → UUID → Option IdxVal)
    (hF : ∀ s u, F s u = ValAt c'.rows s u)
    (hinv : ∀ ix ∈ c.ixs, ix.spec.isSchema = true →
      BInv (fun u => u ∈ ops.map RowOp.uuid) (F ix.spec) (ValAt c.rows ix.spec) ix) :
    ∀ ix ∈ c'.ixs, ix.spec.isSchema = true → BInv (fun _ => False) (F ix.spec) (ValAt c'.rows ix.spec) ix := by
  induction ops generalizing c with
  | nil =>
    simp only [Cache.applyAll] at h
    cases h
    intro ix hix hs
    exact (hinv ix hix hs).congr (by simp) (fun _ => rfl)
  | cons op t ih =>
    simp only [Cache.applyAll] at h
    split at h
    · rename_i c1 h1
      obtain ⟨hixs, hrows⟩ := apply_spec c c1 op h1
      simp only [List.map_cons, List.nodup_cons] at hnd
      apply ih c1 h hnd.2
      intro ix1 hix1 hs1
      rw [hixs] at hix1
      obtain ⟨ix, hix, rfl⟩ := List.mem_map.mp hix1
      simp only [stepIndex_spec] at hs1 ⊢
      have hfin : ValAt c1.rows ix.spec op.uuid = F ix.spec op.uuid := by
        rw [hF]
        unfold ValAt
        rw [applyAll_untouched t c1 c' h op.uuid hnd.1]
      rw [hfin]
      have := binv_step _ _ _ ix hs1 (hinv ix hix hs1) op.uuid (by simp)
      refine this.congr ?_ ?_
      · intro u
        simp only [List.map_cons, List.mem_cons]
        constructor
        · rintro ⟨h1 | h1, h2⟩
          · exact absurd h1 h2
          · exact h1
        · intro h1
          refine ⟨Or.inr h1, ?_⟩
          intro e; subst e; exact hnd.1 h1
      · intro u
        by_cases e : u = op.uuid
        · subst e; simp [hfin]
        · simp only [e, if_false]
          unfold ValAt
          rw [hrows u e]
    · cases h

/-- client indexes: exactness carried through any sequence of operations -/
theorem client_batch (ops : List RowOp) (c c' : Cache) (h : c.applyAll ops = .ok c')
    (hex : ∀ ix ∈ c.ixs, ix.spec.isSchema = false → IxExact (ValAt c.rows ix.spec) ix) :
    ∀ ix ∈ c'.ixs, ix.spec.isSchema = false → IxExact (ValAt c'.rows ix.spec) ix := by
  induction ops generalizing c with
  | nil =>
    simp only [Cache.applyAll] at h
    cases h
    exact hex
  | cons op t ih =>
    simp only [Cache.applyAll] at h
    split at h
    · rename_i c1 h1
      obtain ⟨hixs, hrows⟩ := apply_spec c c1 op h1
      apply ih c1 h
      intro ix1 hix1 hs1
      rw [hixs] at hix1
      obtain ⟨ix, hix, rfl⟩ := List.mem_map.mp hix1
      simp only [stepIndex_spec] at hs1 ⊢
      have := client_step _ ix hs1 (hex ix hix hs1) op.uuid (ValAt c1.rows ix.spec op.uuid)
      have e : (fun x => if x = op.uuid then ValAt c1.rows ix.spec op.uuid else ValAt c.rows ix.spec x)
          = ValAt c1.rows ix.spec := by
        funext x
        by_cases e : x = op.uuid
        · subst e; simp
        · simp only [e, if_false]; unfold ValAt; rw [hrows x e]
      rw [e] at this
      exact this
    · cases h

/-- **C05 (1)**: a batch applied to an exact cache, row by row in ANY order,
    leaves every index (schema and client) exact, provided the state after the
    batch has no duplicate schema-index values.  Index values may move between
    rows inside the batch. -/
theorem batch_any_order (c c' : Cache) (ops : List RowOp)
    (hex : IndexExact c) (hun : SchemaUnique c)
    (hnd : (ops.map RowOp.uuid).Nodup)
    (h : c.applyAll ops = .ok c')
    (hun' : SchemaUnique c') :
    IndexExact c' := by
  intro ix' hix'
  by_cases hs : ix'.spec.isSchema = true
  · apply binv_done (ValAt c'.rows ix'.spec)
    refine schema_batch ops c c' h hnd (fun s u => ValAt c'.rows s u) (fun _ _ => rfl) ?_ ix' hix' hs
    intro ix hix hs0
    apply binv_init c ix _ _ (hex ix hix) (hun ix hix hs0)
    · intro u hu
      unfold ValAt
      rw [applyAll_untouched ops c c' h u hu]
    · -- the final valuation is duplicate-free: some index of c' has the same spec
      have hspecs := applyAll_specs ops c c' h
      have : ix.spec ∈ c'.ixs.map (·.spec) := by rw [hspecs]; exact List.mem_map.mpr ⟨ix, hix, rfl⟩
      obtain ⟨ixf, hixf, hsp⟩ := List.mem_map.mp this
      intro u u' v h1 h2
      rw [← hsp] at h1 h2 hs0
      exact hun' ixf hixf hs0 u u' v h1 h2
  · have hs' : ix'.spec.isSchema = false := by simpa using hs
    exact client_batch ops c c' h (fun ix hix _ => hex ix hix) ix' hix' hs'

/-- **C05 (2)**: with exact indexes, an index lookup is the scan: the uuids an
    index lists under `v` are exactly the cached rows whose value is `v`. -/
theorem lookup_is_scan (c : Cache) (hex : IndexExact c) (ix : Index) (hix : ix ∈ c.ixs) (v : IdxVal) (u : UUID) :
    u ∈ uuidsAt ix v ↔ u ∈ scan c.rows ix.spec v := by
  rw [(hex ix hix).1 v u]
  unfold scan ValAt
  simp only [List.mem_filter, beq_iff_eq]
  constructor
  · intro h
    refine ⟨?_, h⟩
    cases hg : get? c.rows u with
    | none => simp [hg] at h
    | some r => exact mem_keys_of_get? hg
  · intro h; exact h.2

/-- **C05 (3)**: the empty cache is exact, so every cache reached from it by
    batches (each satisfying the hypotheses above) is exact. -/
theorem empty_exact (specs : List Spec) : IndexExact (Cache.empty specs) ∧ SchemaUnique (Cache.empty specs) := by
  constructor
  · intro ix hix
    simp only [Cache.empty, List.mem_map] at hix
    obtain ⟨s, _, rfl⟩ := hix
    refine ⟨?_, ?_⟩
    · intro v u; simp [uuidsAt, ValAt, Cache.empty]
    · intro v l h; simp at h
  · intro ix _ _ u u' v h
    simp [ValAt, Cache.empty] at h

/-! The pinned tree removed the old schema-index entry unconditionally in
    `RowCache.Update` (defect D1).  With that rule the invariant fails: the
    concrete two-row hand-over below loses the new owner's entry. -/

def removeUncond (ix : Index) (v : IdxVal) : Index := { ix with m := erase ix.m v }

def updatePinned (ix : Index) (ov nv : IdxVal) (u : UUID) : Index :=
  if ov = nv then ix else removeUncond (ix.add nv u) ov

/-- rows A(name=a), B(name=b); batch {A: a→c, B: b→a} applied B first: after
    the batch B has value `a` but the index has no entry for `a`. -/
theorem pinned_update_counterexample :
    let s : Spec := ⟨"name", [⟨"name", none, .str ""⟩], true⟩
    let ix0 : Index := ⟨s, [([some (.str "a")], ["A"]), ([some (.str "b")], ["B"])]⟩
    let ix1 := updatePinned ix0 [some (.str "b")] [some (.str "a")] "B"
    let ix2 := updatePinned ix1 [some (.str "a")] [some (.str "c")] "A"
    get? ix2.m [some (.str "a")] = none ∧ get? ix2.m [some (.str "c")] = some ["A"] := by
  decide

/-! Non-vacuity: a concrete exact cache and a hand-over batch meeting every
    hypothesis of `batch_any_order`; the conclusion can be evaluated. -/
section
def exSpec : Spec := ⟨"name", [⟨"name", none, .str ""⟩], true⟩
def exCache : Cache :=
  ⟨[("A", [("name", .atom (.str "a"))]), ("B", [("name", .atom (.str "b"))])],
   [⟨exSpec, [([some (.str "a")], ["A"]), ([some (.str "b")], ["B"])]⟩]⟩
def exOps : List RowOp :=
  [.update "B" [("name", .atom (.str "a"))], .update "A" [("name", .atom (.str "c"))]]

example : (exOps.map RowOp.uuid).Nodup := by decide
example : ∃ c', exCache.applyAll exOps = .ok c' ∧
    (c'.ixs.map (fun ix => (get? ix.m [some (.str "a")], get? ix.m [some (.str "b")], get? ix.m [some (.str "c")])))
      = [(some ["B"], none, some ["A"])] := by
  refine ⟨_, rfl, ?_⟩
  decide
end

end Ovsdb.C05
