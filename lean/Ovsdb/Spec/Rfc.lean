import Ovsdb.Model.Txn
/-
  Reference semantics of RFC 7047 sections 5.1 (conditions, mutators) and 5.2
  (insert, select, update, mutate, delete, wait with timeout 0), written as a
  plain sequential interpreter over "table -> uuid -> row", independently of
  the structure of the library: no caches, no overlay, no aggregated updates,
  no differences.  Only the conversion between OVS notation and typed column
  values (C09's subject) and the name expansion (C15's) are shared with the
  model of the code.

  `none` = the RFC (or this reading of it) rejects the operation; rejected
  transactions are outside property C03.
-/
namespace Ovsdb.Rfc
open Ovsdb AMap

/-- a set, with optional columns read as sets of zero or one element -/
def asSet : Value → Option (List Atom)
  | .set l => some l
  | .opt o => some o.toList
  | _ => none

def subset (a b : List Atom) : Bool := a.all (· ∈ b)
def subMap (a b : AMap Atom Atom) : Bool := (mapPairs a).all (fun p => get? b p.1 == some p.2)

/-- section 5.1 <condition>: `col` is the column's value, `arg` the condition's -/
def evalCond (f : CondFn) (col arg : Value) : Option Bool :=
  match col, arg with
  | .atom a, .atom b =>
    match f with
    | .eq | .includes => some (a == b)
    | .ne | .excludes => some (a != b)
    | f => match a, b with
      | .int x, .int y => some (match f with | .lt => x < y | .le => x ≤ y | .gt => x > y | _ => x ≥ y)
      | .real x, .real y => some (match f with | .lt => x < y | .le => x ≤ y | .gt => x > y | _ => x ≥ y)
      | _, _ => none
  | .map x, .map y =>
    match f with
    | .eq => some (subMap x y && subMap y x)
    | .ne => some (!(subMap x y && subMap y x))
    | .includes => some (subMap y x)
    | .excludes => some ((mapPairs y).all (fun p => get? x p.1 != some p.2))
    | _ => none
  | c, a =>
    match asSet c, asSet a with
    | some x, some y =>
      match f with
      | .eq => some (subset x y && subset y x)
      | .ne => some (!(subset x y && subset y x))
      | .includes => some (subset y x)
      | .excludes => some (y.all (· ∉ x))
      | _ => none
    | _, _ => none

def colValue (row : Row) (u : UUID) (c : String) : Option Value :=
  if c = "_uuid" then some (.atom (.uuid u)) else get? row c

/-- the rows of a table that satisfy every condition -/
def matching (ts : TableSchema) (rows : AMap UUID Row) (w : List WCond) : Option (List (UUID × Row)) :=
  (keys rows).eraseDups.foldlM (fun (acc : List (UUID × Row)) u =>
    match get? rows u with
    | none => some acc
    | some row => do
      let oks ← w.mapM (fun c => do
        let cs ← ts.column c.col
        let arg ← (ovsToNative cs c.val).toOption
        let v ← colValue row u c.col
        evalCond c.fn v arg)
      pure (if oks.all id then acc ++ [(u, row)] else acc)) []

def int64Min : Int := -9223372036854775808
def int64Max : Int := 9223372036854775807
def inRange (i : Int) : Option Int := if int64Min ≤ i ∧ i ≤ int64Max then some i else none

def realInRange (r : Rat) : Option Rat := if -maxFloat64 ≤ r ∧ r ≤ maxFloat64 then some r else none

/-- section 5.1 <mutator> on one column value -/
def mutateValue (v : Value) (m : Mutator) (arg : Value) : Option Value :=
  match v, arg with
  | .atom (.int x), .atom (.int y) =>
    match m with
    | .add => (inRange (x + y)).map (fun r => .atom (.int r))
    | .sub => (inRange (x - y)).map (fun r => .atom (.int r))
    | .mul => (inRange (x * y)).map (fun r => .atom (.int r))
    | .div => if y = 0 then none else (inRange (Int.tdiv x y)).map (fun r => .atom (.int r))
    | .mod => if y = 0 then none else some (.atom (.int (Int.tmod x y)))
    | _ => none
  | .atom (.real x), .atom (.real y) =>
    -- "range error": the result is not representable (a real operation that yields an infinity)
    match m with
    | .add => (realInRange (x + y)).map (fun r => .atom (.real r))
    | .sub => (realInRange (x - y)).map (fun r => .atom (.real r))
    | .mul => (realInRange (x * y)).map (fun r => .atom (.real r))
    | .div => if y = 0 then none else (realInRange (x / y)).map (fun r => .atom (.real r))
    | _ => none
  | .set s, .set a =>
    match m with
    | .insert => some (.set (s ++ (a.filter (· ∉ s)).eraseDups))
    | .delete => some (.set (s.filter (· ∉ a)))
    | _ => none
  | .set s, .atom a =>
    match m with
    | .insert => some (.set (if a ∈ s then s else s ++ [a]))
    | .delete => some (.set (s.filter (· != a)))
    | _ => none
  | .map mp, .map a =>
    match m with
    | .insert => some (.map (mp ++ (mapPairs a).filter (fun p => (get? mp p.1).isNone)))
    | .delete => some (.map ((mapPairs mp).filter (fun p => get? a p.1 != some p.2)))
    | _ => none
  | .map mp, .set ks =>
    match m with
    | .delete => some (.map ((mapPairs mp).filter (fun p => p.1 ∉ ks)))
    | _ => none
  | _, _ => none

/-- the typed argument of a mutation: for `delete` on a map it may be a set of keys -/
def mutationArg (cs : ColSchema) (m : Mutator) (v : OvsVal) : Option Value :=
  (mutationValue cs m v).toOption

def applyMutations (ts : TableSchema) (row : Row) (ms : List Mutation) : Option Row :=
  ms.foldlM (fun (r : Row) mu => do
    let cs ← get? ts.cols mu.col
    if !cs.mutable || cs.isEnum then none
    let arg ← mutationArg cs mu.mutator mu.val
    let cur ← get? r mu.col
    let nv ← mutateValue cur mu.mutator (match cs.kind, arg with
      | .set, .set [a] => if isArith mu.mutator then .atom a else arg
      | _, a => a)
    pure (insert r mu.col nv)) row

/-- a full row for an insert: defaults plus the given columns -/
def insertRow (ts : TableSchema) (given : OvsRow) : Option Row :=
  (keys ts.cols).eraseDups.mapM (fun c => do
    let cs ← get? ts.cols c
    match get? given c with
    | some o => do pure (c, ← (ovsToNative cs o).toOption)
    | none => pure (c, zeroValue cs))

/-- the columns of `given` replace those of `row`; an immutable column may not change -/
def updateRow (ts : TableSchema) (row : Row) (given : OvsRow) : Option Row :=
  (keys given).eraseDups.foldlM (fun (r : Row) c =>
    if c = "_uuid" then some r else
    match get? ts.cols c, get? given c with
    | some cs, some o => do
      let v ← (ovsToNative cs o).toOption
      let cur ← get? r c
      if !cs.mutable && !(Rfc.evalCond .eq cur v).getD false then none
      pure (insert r c v)
    | _, _ => some r) row

structure Result where
  count : Nat := 0
  uuid : String := ""
  rows : List (UUID × Row) := []
  deriving Repr

def rowsOf (st : Rows) (t : String) : AMap UUID Row := (get? st t).getD []

/-- equality of two rows on the given columns (wait) -/
def agreeOn (cols : List String) (a b : Row) : Bool :=
  cols.all (fun c => match get? a c, get? b c with
    | some x, some y => (Rfc.evalCond .eq x y).getD false
    | _, _ => false)

/-- section 5.2: one operation -/
def exec (σ : DbModel) (st : Rows) (op : Operation) : Option (Result × Rows) := do
  let ts ← σ.table op.table
  match op.op with
  | "insert" =>
    if (st.get op.table op.uuid).isSome then none
    let row ← insertRow ts op.row
    pure ({ uuid := op.uuid }, st.set op.table op.uuid row)
  | "select" =>
    let ms ← matching ts (rowsOf st op.table) op.where_
    -- "columns": only the named columns are returned (all of them if omitted)
    let proj := if op.columns.isEmpty then ms
      else ms.map (fun p => (if "_uuid" ∈ op.columns then p.1 else "", p.2.filter (fun c => c.1 ∈ op.columns)))
    pure ({ rows := proj }, st)
  | "update" =>
    let ms ← matching ts (rowsOf st op.table) op.where_
    let st' ← ms.foldlM (fun (s : Rows) p => do
      let r ← updateRow ts p.2 op.row
      pure (s.set op.table p.1 r)) st
    pure ({ count := ms.length }, st')
  | "mutate" =>
    let ms ← matching ts (rowsOf st op.table) op.where_
    let st' ← ms.foldlM (fun (s : Rows) p => do
      let r ← applyMutations ts p.2 op.mutations
      pure (s.set op.table p.1 r)) st
    pure ({ count := ms.length }, st')
  | "delete" =>
    let ms ← matching ts (rowsOf st op.table) op.where_
    pure ({ count := ms.length }, ms.foldl (fun s p => s.del op.table p.1) st)
  | "wait" =>
    -- timeout 0: succeeds iff the selected rows, on `columns`, are (==) / are not (!=) the given rows as sets
    let ms ← matching ts (rowsOf st op.table) op.where_
    let expected ← op.rows.mapM (insertRow ts)
    -- the compared columns: `columns` (all columns if omitted); an expected row is compared on those it gives
    let cols := if op.columns.isEmpty then (keys ts.cols).eraseDups else op.columns
    let pairs := op.rows.zip expected
    let agree := fun (p : UUID × Row) (e : OvsRow × Row) => agreeOn (cols.filter (fun c => (get? e.1 c).isSome)) p.2 e.2
    let same := ms.all (fun p => pairs.any (fun e => agree p e)) && pairs.all (fun e => ms.any (fun p => agree p e))
    if op.untilFn = "==" then (if same then pure ({}, st) else none)
    else if op.untilFn = "!=" then (if same then none else pure ({}, st))
    else none
  | _ => none

def run (σ : DbModel) : Rows → List Operation → Option (List Result × Rows)
  | st, [] => some ([], st)
  | st, op :: rest => do
    let (r, st1) ← exec σ st op
    let (rs, st2) ← run σ st1 rest
    pure (r :: rs, st2)

/-- a whole transaction: name expansion, the operations in order, then the
    commit-time reference processing (C04's subject) -/
def transaction (σ : DbModel) (st : Rows) (ops : List Operation) : Option (List Result × Rows) := do
  let ops' ← (expandNamedUUIDs σ ops).toOption
  let (rs, st1) ← run σ st ops'
  if st1 == st then pure (rs, st1)
  else
    let st2 ← (refLoop σ (rowCount st1 + refCount σ st1 + 2) st1).toOption
    pure (rs, st2)

end Ovsdb.Rfc
