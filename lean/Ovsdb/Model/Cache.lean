import Ovsdb.Model.Basic
/-
  Model of cache/cache.go: RowCache rows + indexes (schema indexes: value ->
  one uuid, overwrite on add; client indexes: value -> uuid set), Create /
  Update / Delete as written, valueFromIndex, rowsByModels, Index.

  Index values: a single-column index value is the column value (pointer
  dereferenced; a nil pointer is its own value) — `[some a]` or `[none]`; a
  multi-column value is the tuple of the components, an unset optional being a
  component of its own (as repaired, defect D68: the pinned code left the nil
  components out, so that (nil, a) and (a, nil) were one value; the Go code
  gob-encodes a presence flag and the component, in order; gob is assumed
  injective on such sequences).
  A set or map column used whole in an index contributes one canonical string
  (the repair of defect D67: a slice or map used directly as a Go map key
  panicked). The exactness theorems (C05, C08) keep their hypothesis that
  keyless index columns are scalar or optional: for whole sets and maps the
  model is executable and compared with the code, not proved.
-/
namespace Ovsdb
open AMap

abbrev IdxVal := List (Option Atom)

structure ColumnKey where
  col : String
  key : Option Atom
  zero : Atom
  deriving DecidableEq, Repr

structure Spec where
  name : String
  cols : List ColumnKey
  isSchema : Bool
  deriving DecidableEq, Repr

/-- an injective rendering of an atom (what `%#v` is to the Go code: only its injectivity matters) -/
def atomKey : Atom → String
  | .int i => "i" ++ toString i
  | .real r => "r" ++ toString r.num ++ "/" ++ toString r.den
  | .bool b => if b then "bt" else "bf"
  | .str s => "s" ++ toString s.length ++ ":" ++ s
  | .uuid u => "u" ++ toString u.length ++ ":" ++ u

/-- `canonicalIndexValue` (as repaired, defect D67): the value of a set or map column used whole in an
    index is one string that equal sets / equal maps share: the renderings of the elements, sorted,
    each once -/
def canonStrings (l : List String) : Atom :=
  .str ("{" ++ String.intercalate ", " ((l.eraseDups).mergeSort (fun a b => decide (a ≤ b))) ++ "}")

def valueFromColumnKey (row : Row) (ck : ColumnKey) : Option Atom :=
  match get? row ck.col, ck.key with
  | some (.atom a), none => some a
  | some (.opt o), none => o
  | some (.map m), some k => some ((get? m k).getD ck.zero)
  | some (.set l), none => some (canonStrings (l.map atomKey))
  | some (.map m), none => some (canonStrings ((keys m).eraseDups.map (fun k => atomKey k ++ "=" ++ ((get? m k).map atomKey).getD "")))
  | _, _ => none

def idxVal (spec : Spec) (row : Row) : IdxVal :=
  spec.cols.map (valueFromColumnKey row)

structure Index where
  spec : Spec
  m : AMap IdxVal (List UUID)
  deriving Repr

structure Cache where
  rows : AMap UUID Row
  ixs : List Index
  deriving Repr

def Cache.empty (specs : List Spec) : Cache := ⟨[], specs.map (fun s => ⟨s, []⟩)⟩

def uuidsAt (ix : Index) (v : IdxVal) : List UUID := (get? ix.m v).getD []

/-- uuidset.equals as sets, for duplicate-free lists -/
def setEq (a b : List UUID) : Bool := a.all (· ∈ b) && b.all (· ∈ a)

def addM (isSchema : Bool) (m : AMap IdxVal (List UUID)) (v : IdxVal) (u : UUID) : AMap IdxVal (List UUID) :=
  if isSchema then insert m v [u]
  else
    let cur := (get? m v).getD []
    insert m v (if u ∈ cur then cur else cur ++ [u])

def removeCondM (m : AMap IdxVal (List UUID)) (v : IdxVal) (u : UUID) : AMap IdxVal (List UUID) :=
  match get? m v with
  | none => m
  | some cur =>
    let rest := cur.filter (· ≠ u)
    if rest.isEmpty then erase m v else insert m v rest

/-- add `u` under `v` (Create, and the add half of Update): a schema index
    entry is overwritten, a client index entry is extended -/
def Index.add (ix : Index) (v : IdxVal) (u : UUID) : Index :=
  { ix with m := addM ix.spec.isSchema ix.m v u }

/-- conditional removal (Delete; Update): subtract in place, drop the key when
    nothing is left -/
def Index.removeCond (ix : Index) (v : IdxVal) (u : UUID) : Index :=
  { ix with m := removeCondM ix.m v u }

/-- removal as written in `RowCache.Update`: conditional, as in `Delete`
    (the `fix:` for defect D1; the pinned code deleted a schema index entry
    unconditionally) -/
def Index.removeUpdate (ix : Index) (v : IdxVal) (u : UUID) : Index :=
  ix.removeCond v u

def indexConflict (ix : Index) (v : IdxVal) (u : UUID) : Bool :=
  ix.spec.isSchema && !(uuidsAt ix v).isEmpty && !(setEq (uuidsAt ix v) [u])

inductive CErr where
  | inconsistent | indexExists | other
  deriving DecidableEq, Repr

def Cache.create (c : Cache) (u : UUID) (row : Row) (check : Bool) : Except CErr Cache :=
  if (get? c.rows u).isSome then .error .inconsistent
  else if check && c.ixs.any (fun ix => indexConflict ix (idxVal ix.spec row) u) then .error .indexExists
  else .ok { rows := insert c.rows u row, ixs := c.ixs.map (fun ix => ix.add (idxVal ix.spec row) u) }

def Index.update (ix : Index) (old new : Row) (u : UUID) : Index :=
  let ov := idxVal ix.spec old
  let nv := idxVal ix.spec new
  if ov = nv then ix else (ix.add nv u).removeUpdate ov u

def Cache.update (c : Cache) (u : UUID) (row : Row) (check : Bool) : Except CErr Cache :=
  match get? c.rows u with
  | none => .error .inconsistent
  | some old =>
    if check && c.ixs.any (fun ix => idxVal ix.spec old ≠ idxVal ix.spec row &&
        indexConflict ix (idxVal ix.spec row) u) then .error .indexExists
    else .ok { rows := insert c.rows u row, ixs := c.ixs.map (fun ix => ix.update old row u) }

def Cache.delete (c : Cache) (u : UUID) : Except CErr Cache :=
  match get? c.rows u with
  | none => .error .inconsistent
  | some old =>
    .ok { rows := erase c.rows u, ixs := c.ixs.map (fun ix => ix.removeCond (idxVal ix.spec old) u) }

/-- `RowCache.IndexExists`: a schema index of `row` is in the cache under a
    different uuid -/
def Cache.indexExists (c : Cache) (u : UUID) (row : Row) : Bool :=
  c.ixs.any (fun ix => ix.spec.isSchema && !(uuidsAt ix (idxVal ix.spec row)).isEmpty &&
    !(setEq (uuidsAt ix (idxVal ix.spec row)) [u]))

/-- one step of a batch: ApplyCacheUpdate's three cases -/
inductive RowOp where
  | create (u : UUID) (row : Row)
  | update (u : UUID) (row : Row)
  | delete (u : UUID)
  deriving Repr

def RowOp.uuid : RowOp → UUID
  | .create u _ => u
  | .update u _ => u
  | .delete u => u

def Cache.apply (c : Cache) (op : RowOp) : Except CErr Cache :=
  match op with
  | .create u r => c.create u r false
  | .update u r => c.update u r false
  | .delete u => c.delete u

def Cache.applyAll (c : Cache) : List RowOp → Except CErr Cache
  | [] => .ok c
  | op :: t => match c.apply op with
    | .ok c' => c'.applyAll t
    | .error e => .error e

/-- uuids of rows whose index value under `spec` is `v`: the scan an index
    lookup must agree with -/
def scan (rows : AMap UUID Row) (spec : Spec) (v : IdxVal) : List UUID :=
  (keys rows).filter (fun u => (get? rows u).map (idxVal spec) == some v)

/-- `rowsByModels` for one model: by uuid, else the first index (schema first,
    client indexes only if allowed) that has an entry for the model's value -/
def Cache.rowsByModel (c : Cache) (uuid : UUID) (m : Row) (useClient : Bool) : List UUID :=
  if uuid ≠ "" && (get? c.rows uuid).isSome then [uuid]
  else
    let rec go : List Index → List UUID
      | [] => []
      | ix :: t =>
        if !ix.spec.isSchema && !useClient then []
        else match get? ix.m (idxVal ix.spec m) with
          | some us => us
          | none => go t
    go c.ixs

/-- `RowCache.Index(columns...)`: the whole index as value -> uuids -/
def Cache.index (c : Cache) (name : String) : Option (AMap IdxVal (List UUID)) :=
  (c.ixs.find? (fun ix => ix.spec.name == name)).map (·.m)

end Ovsdb
