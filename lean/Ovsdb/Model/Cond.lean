import Ovsdb.Model.Cache
/-
  Model of ovsdb/condition.go (ConditionFunction.Evaluate) and of
  cache.RowCache.RowsByCondition with its index pre-filter
  (uuidsByConditionsAsIndexes), mirrored branch by branch.

  `Evaluate` is modelled as repaired for defects D11 (`excludes` was "not
  includes") and D31 (`==`/`!=` used reflect.DeepEqual: order- and
  nil-sensitive on sets and maps); see known_findings.json.
-/
namespace Ovsdb
open AMap

inductive CondFn where
  | lt | le | eq | ne | gt | ge | includes | excludes
  deriving DecidableEq, Repr

structure Cond where
  col : String
  fn : CondFn
  val : Value
  deriving Repr

def Value.kindTag : Value → Nat
  | .atom (.int _) => 0
  | .atom (.real _) => 1
  | .atom (.bool _) => 2
  | .atom (.str _) => 3
  | .atom (.uuid _) => 3      -- a uuid is a Go string natively
  | .opt _ => 4
  | .set _ => 5
  | .map _ => 6

/-- equality of two native values of one kind: sets as sets, maps extensionally -/
def valueEqB (a b : Value) : Bool :=
  match a, b with
  | .set x, .set y => x.all (· ∈ y) && y.all (· ∈ x)
  | .map x, .map y => (keys x).all (fun k => get? x k == get? y k) && (keys y).all (fun k => get? x k == get? y k)
  | a, b => a == b

def cmpAtoms (f : CondFn) (a b : Atom) : Except String Bool :=
  match a, b with
  | .int x, .int y =>
    match f with
    | .lt => .ok (x < y) | .le => .ok (x ≤ y) | .gt => .ok (x > y) | .ge => .ok (x ≥ y)
    | _ => .error "unreachable"
  | .real x, .real y =>
    match f with
    | .lt => .ok (x < y) | .le => .ok (x ≤ y) | .gt => .ok (x > y) | .ge => .ok (x ≥ y)
    | _ => .error "unreachable"
  | _, _ => .error "unreachable condition"

/-- `ConditionFunction.Evaluate(a, b)`: `a` the column value, `b` the condition value -/
def evalCond (f : CondFn) (a b : Value) : Except String Bool :=
  if a.kindTag ≠ b.kindTag then .error "comparison between kinds not supported"
  else match f with
  | .eq => .ok (valueEqB a b)
  | .ne => .ok (!valueEqB a b)
  | .includes =>
    match a, b with
    | .set x, .set y => .ok (y.all (· ∈ x))
    | .map x, .map y => .ok ((keys y).all (fun k => get? y k == get? x k))
    | .atom x, .atom y => .ok (x == y)
    | .opt x, .opt y => .ok (y.isNone || x == y)      -- an optional is a set of zero or one element
    | _, _ => .error "condition not supported"
  | .excludes =>
    match a, b with
    | .set x, .set y => .ok (y.all (· ∉ x))
    | .map x, .map y => .ok ((keys y).all (fun k => get? y k != get? x k))
    | .atom x, .atom y => .ok (x != y)
    | .opt x, .opt y => .ok (y.isNone || x.isNone || x != y)
    | _, _ => .error "condition not supported"
  | f =>
    match a, b with
    | .atom x, .atom y => cmpAtoms f x y
    | .opt _, .opt _ => .error "condition not supported"
    | _, _ => .error "unreachable condition"

/-! ### index pre-filter -/

structure IndexableCond where
  col : String
  keys : List Atom
  val : Value
  deriving Repr

def toIndexable (c : Cond) : Option IndexableCond :=
  if c.col = "_uuid" then none
  else if c.fn ≠ .eq ∧ c.fn ≠ .includes then none
  else match c.val, c.fn with
    | .set _, .includes => none
    | .opt _, .includes => none
    | .map m, .includes => if m.isEmpty then none else some ⟨c.col, dedupKeys (keys m), c.val⟩
    | v, _ => some ⟨c.col, [], v⟩
where
  dedupKeys (l : List Atom) : List Atom := l.eraseDups

/-- the name `newIndexFromColumnKeys` gives to a list of column keys is
    injective on the deduplicated, sorted list of (column, key) pairs; the
    model compares those lists up to order and duplicates -/
def sameColumnKeys (a b : List (String × Option Atom)) : Bool :=
  a.all (· ∈ b) && b.all (· ∈ a)

def condColumnKeys (cs : List IndexableCond) : List (String × Option Atom) :=
  cs.flatMap (fun c => if c.keys.isEmpty then [(c.col, none)] else c.keys.map (fun k => (c.col, some k)))

def specColumnKeys (s : Spec) : List (String × Option Atom) := s.cols.map (fun ck => (ck.col, ck.key))

/-- the probe model built from a condition set: SetField per condition, a
    later condition on the same column overwrites an earlier one, except that
    map conditions with keys are merged (later pairs win; `nv ++ cur` read
    through `get?`) — the `fix:` for defect D32 -/
def probeRow (zeroRow : Row) (cs : List IndexableCond) : Row :=
  cs.foldl (fun r c =>
    match c.keys.isEmpty, get? r c.col, c.val with
    | false, some (.map cur), .map nv =>
      -- conditions on different keys of one map column accumulate
      insert r c.col (.map (nv ++ cur))
    | _, _, _ => insert r c.col c.val) zeroRow

def evalCondSetAsIndex (c : Cache) (zeroRow : Row) (cs : List IndexableCond) : Option (List UUID) :=
  match c.ixs.find? (fun ix => sameColumnKeys (condColumnKeys cs) (specColumnKeys ix.spec)) with
  | none => none
  | some ix => some (uuidsAt ix (idxVal ix.spec (probeRow zeroRow cs)))

/-- `intersectUUIDSets`: nil when either side is empty -/
def intersectSets (a b : List UUID) : Option (List UUID) :=
  if a.isEmpty || b.isEmpty then none
  else if a.length > b.length then some (b.filter (· ∈ a)) else some (a.filter (· ∈ b))

def lenLe1 : Option (List UUID) → Bool
  | some l => l.length ≤ 1
  | none => false

/-- one `intersectUUIDsFromConditionSet` step; returns (matching, stop) -/
def intersectFromCondSet (c : Cache) (zeroRow : Row) (matching : Option (List UUID)) (cs : List IndexableCond) :
    Option (List UUID) × Bool :=
  let uuids := evalCondSetAsIndex c zeroRow cs
  let m := match matching, uuids with
    | none, u => u
    | some m, some u => intersectSets m u
    | some m, none => some m
  (m, lenLe1 m)

/-- the progressive power-set walk of `matchUUIDsFromConditionsPowerSet` -/
def prefilter (c : Cache) (zeroRow : Row) (conds : List Cond) : Option (List UUID) :=
  let rec subsets (matching : Option (List UUID)) (ss : List (List IndexableCond)) :
      Option (List UUID) × Bool :=
    match ss with
    | [] => (matching, false)
    | s :: t =>
      let (m, stop) := intersectFromCondSet c zeroRow matching s
      if stop then (m, true) else subsets m t
  let rec go (matching : Option (List UUID)) (ps : List (List IndexableCond)) (cs : List Cond) : Option (List UUID) :=
    match cs with
    | [] => matching
    | cnd :: rest =>
      match toIndexable cnd with
      | none => go matching ps rest
      | some ic =>
        let ss := ps.map (· ++ [ic])
        let (m, stop) := subsets matching ss
        if stop then m else go m (ps ++ ss) rest
  go none [[]] conds

def rowValue (row : Row) (u : UUID) (col : String) : Option Value :=
  if col = "_uuid" then some (.atom (.uuid u)) else get? row col

/-- evaluate one condition on the candidate rows; an evaluation error on any
    candidate fails the whole lookup -/
def matchCond (c : Cache) (cnd : Cond) (cands : List UUID) : Except String (List UUID) :=
  cands.foldlM (fun acc u =>
    match get? c.rows u with
    | none => .ok acc
    | some row =>
      match rowValue row u cnd.col with
      | none => .error "column not found"
      | some v => do
        let ok ← evalCond cnd.fn v cnd.val
        pure (if ok then acc ++ [u] else acc)) []

def isEmptyOpt : Option (List UUID) → Bool
  | none => true
  | some l => l.isEmpty

/-- the rows (among the candidates) matching one condition; conditions on
    `_uuid` with `==`/`includes` are answered by a direct lookup -/
def condMatches (c : Cache) (matching : Option (List UUID)) (cnd : Cond) : Except String (List UUID) :=
  if cnd.col = "_uuid" ∧ (cnd.fn = .eq ∨ cnd.fn = .includes) then
    match cnd.val with
    | .atom (.uuid u) => .ok (if (get? c.rows u).isSome then [u] else [])
    | _ => .error "panic: not a uuid"
  else matchCond c cnd (match matching with | some m => m | none => (keys c.rows).eraseDups)

def nextMatching (matching : Option (List UUID)) (mc : List UUID) : Option (List UUID) :=
  match matching with
  | none => some mc
  | some m => intersectSets m mc

/-- the refinement loop of `RowsByCondition` -/
def refine (c : Cache) (matching : Option (List UUID)) : List Cond → Except String (Option (List UUID))
  | [] => .ok matching
  | cnd :: rest =>
    match condMatches c matching cnd with
    | .error e => .error e
    | .ok mc =>
      if isEmptyOpt (nextMatching matching mc) then .ok (nextMatching matching mc)
      else refine c (nextMatching matching mc) rest

/-- `RowCache.RowsByCondition`: uuids of the matching rows -/
def rowsByCondition (c : Cache) (zeroRow : Row) (conds : List Cond) : Except String (List UUID) :=
  if conds.isEmpty then .ok (keys c.rows).eraseDups
  else match refine c (prefilter c zeroRow conds) conds with
    | .error e => .error e
    | .ok m => .ok (m.getD [])

end Ovsdb
