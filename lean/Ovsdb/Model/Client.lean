import Ovsdb.Model.Basic
/-
  The client's side of the monitor protocol (client/client.go: Monitor,
  monitor, update/update2/update3, connect with reconnect; cache/cache.go:
  Populate/Populate2, ApplyCacheUpdate, Purge, the event queue) at the level of
  whole rows.

  What one notification row does to one cached row (decode, apply the modify
  difference, build the new model) is the business of the models of packages
  updates and mapper (C07, C09, C10, C11).  Here a notification is a list of
  row changes and the subject is the ORDER in which replies and notifications
  reach the cache: deferral while a monitor is being established, replay,
  purge on reconnect, and the event log.
-/
namespace Ovsdb.Client
open Ovsdb AMap

/-- table, uuid -/
abbrev Key := String × String
/-- what a database, or a cache, holds -/
abbrev Store := AMap Key Row

inductive ChangeKind where
  | insert    -- update2 insert / initial; update with new only
  | modify    -- update2 modify; update with old and new
  | delete
  deriving DecidableEq, Repr

/-- one row of a notification, as the cache sees it after decoding: for `modify`
    the row is the result of applying the difference to the cached row -/
structure Change where
  kind : ChangeKind
  key : Key
  row : Row := []
  deriving Repr

inductive Event where
  | add (k : Key) (new : Row)
  | update (k : Key) (old new : Row)
  | delete (k : Key) (old : Row)
  deriving Repr, DecidableEq

structure CacheSt where
  rows : Store := []
  log : List Event := []       -- events queued for the handlers, oldest first
  deriving Repr

/-- `Populate2` for one row followed by `ApplyCacheUpdate`.  `strict`: update2
    semantics (a modify or delete of a row the cache does not hold is a cache
    inconsistency); the RFC 7047 `update` path ignores the delete of an unknown row. -/
def applyChange (strict : Bool) (c : CacheSt) (ch : Change) : Except String CacheSt :=
  match ch.kind, get? c.rows ch.key with
  | .insert, some _ => .error "cannot create row as it already exists"
  | .insert, none => .ok { rows := insert c.rows ch.key ch.row, log := c.log ++ [.add ch.key ch.row] }
  | .modify, none => .error "row does not exist"
  | .modify, some old =>
    if old = ch.row then .ok c   -- nothing changed: no update, no event
    else .ok { rows := insert c.rows ch.key ch.row, log := c.log ++ [.update ch.key old ch.row] }
  | .delete, some old => .ok { rows := erase c.rows ch.key, log := c.log ++ [.delete ch.key old] }
  | .delete, none => if strict then .error "row does not exist" else .ok c

def applyAll (strict : Bool) (c : CacheSt) : List Change → Except String CacheSt
  | [] => .ok c
  | ch :: t =>
    match applyChange strict c ch with
    | .ok c' => applyAll strict c' t
    | .error e => .error e

/-- `TableCache.Purge`: every table emptied; no events -/
def purge (c : CacheSt) : CacheSt := { c with rows := [] }

/-! ### the client -/

structure ClientSt where
  cache : CacheSt := {}
  deferring : Bool := true           -- `db.deferUpdates`: true until the first monitor is set up
  deferred : List (List Change) := []
  failed : Bool := false             -- an update could not be applied (errorCh / returned error)
  deriving Repr

/-- an `update`/`update2`/`update3` handler -/
def onNotification (strict : Bool) (s : ClientSt) (n : List Change) : ClientSt :=
  if s.deferring then { s with deferred := s.deferred ++ [n] }
  else match applyAll strict s.cache n with
    | .ok c => { s with cache := c }
    | .error _ => { s with failed := true }

/-- `Monitor()` before it sends the request (as repaired: updates are held back
    for the duration of every Monitor call) -/
def monitorStart (s : ClientSt) : ClientSt := { s with deferring := true }

def replayDeferred (strict : Bool) (c : CacheSt) : List (List Change) → Except String CacheSt
  | [] => .ok c
  | n :: t =>
    match applyAll strict c n with
    | .ok c' => replayDeferred strict c' t
    | .error e => .error e

/-- `monitor()` after the reply arrived: optional purge, the initial contents,
    then the deferred notifications in order of arrival; updates flow again -/
def replyApplied (strict : Bool) (s : ClientSt) (doPurge : Bool) (init : List Change) : ClientSt :=
  let c0 := if doPurge then purge s.cache else s.cache
  match applyAll strict c0 init with
  | .error _ => { s with cache := c0, failed := true }
  | .ok c1 =>
    match replayDeferred strict c1 s.deferred with
    | .ok c2 => { s with cache := c2, deferring := false, deferred := [] }
    | .error _ => { s with cache := c1, deferring := false, deferred := [], failed := true }

/-- the guard of `Monitor()` (as repaired, D72): the cache holds one copy of a
    table, so a table that one of the client's monitors covers cannot be
    monitored again; `existing` are the table sets of the monitors the client has -/
def monitorAccepted (existing : List (List String)) (S : List String) : Bool :=
  existing.all fun S' => S'.all fun t => !S.contains t

/-- the pinned `Monitor()`: nothing is done before the request is sent, so an
    additional monitor does not hold notifications back -/
def monitorStartPinned (s : ClientSt) : ClientSt := s

/-! ### losing the connection and coming back (handleDisconnectNotification, connect(reconnect = true)) -/

/-- the connection is lost: updates are held back from now on; those held back
    for the old connection are dropped -/
def onDisconnect (s : ClientSt) : ClientSt := { s with deferring := true, deferred := [] }

/-- `connect(reconnect = true)` before it restarts the monitors (as repaired):
    with several monitors every reply is a complete dump, so the cache is purged
    once, here -/
def reconnectBegin (nMonitors : Nat) (s : ClientSt) : ClientSt :=
  if nMonitors > 1 then { s with cache := purge s.cache } else s

/-- the reply of a restarted monitor applied (as repaired): a single monitor
    purges unless the server knew its last transaction; nothing is replayed and
    updates stay deferred until every monitor is back -/
def restartReply (strict : Bool) (s : ClientSt) (nMonitors : Nat) (found : Bool) (init : List Change) : ClientSt :=
  let c0 := if nMonitors == 1 && !found then purge s.cache else s.cache
  match applyAll strict c0 init with
  | .ok c1 => { s with cache := c1 }
  | .error _ => { s with cache := c0, failed := true }

/-- `connect(reconnect = true)` after the last monitor is back (as repaired) -/
def reconnectEnd (strict : Bool) (s : ClientSt) : ClientSt :=
  match replayDeferred strict s.cache s.deferred with
  | .ok c => { s with cache := c, deferring := false, deferred := [] }
  | .error _ => { s with deferring := false, deferred := [], failed := true }

/-- the pinned `monitor(reconnecting = true)`: every restarted monitor purges the
    whole cache when there are several monitors, replays what was deferred and
    lets updates flow again -/
def restartReplyPinned (strict : Bool) (s : ClientSt) (nMonitors : Nat) (found : Bool) (init : List Change) : ClientSt :=
  replyApplied strict s (nMonitors > 1 || !found) init

/-- client actions in the order its goroutines perform them -/
inductive Action where
  | start                                     -- Monitor() called
  | notif (n : List Change)                   -- a notification handled
  | reply (doPurge : Bool) (init : List Change) -- the monitor reply applied
  | disconnect                                -- the connection is lost
  | reBegin (nMonitors : Nat)                 -- reconnected; about to restart the monitors
  | reReply (nMonitors : Nat) (found : Bool) (init : List Change) -- a restarted monitor's reply applied
  | reEnd                                     -- all monitors restarted
  deriving Repr

def step (strict : Bool) (pinned : Bool) (s : ClientSt) : Action → ClientSt
  | .start => if pinned then monitorStartPinned s else monitorStart s
  | .notif n => onNotification strict s n
  | .reply p i => replyApplied strict s p i
  | .disconnect => onDisconnect s
  | .reBegin n => if pinned then s else reconnectBegin n s
  | .reReply n f i => if pinned then restartReplyPinned strict s n f i else restartReply strict s n f i
  | .reEnd => if pinned then s else reconnectEnd strict s

def run (strict : Bool) (pinned : Bool) (s : ClientSt) (as : List Action) : ClientSt :=
  as.foldl (step strict pinned) s

/-! ### what the server sends -/

/-- the initial contents of a monitor of the tables `S`: every row of those
    tables, as inserts -/
def initialOf (S : List String) (db : Store) : List Change :=
  ((keys db).eraseDups.filter (fun k => S.contains k.1)).filterMap (fun k =>
    match get? db k with
    | some r => some { kind := .insert, key := k, row := r }
    | none => none)

/-- the row changes that take the tables `S` of `a` to those of `b` (what a
    correct notification amounts to after decoding) -/
def deltaStep (a b : Store) (k : Key) : Option Change :=
  match get? a k, get? b k with
  | none, some r => some { kind := .insert, key := k, row := r }
  | some o, some r => if o = r then none else some { kind := .modify, key := k, row := r }
  | some _, none => some { kind := .delete, key := k }
  | none, none => none

def deltaOf (S : List String) (a b : Store) : List Change :=
  (((keys a ++ keys b).eraseDups).filter (fun k => S.contains k.1)).filterMap (deltaStep a b)

/-- the event log replayed on an empty table set (C14) -/
def replayEvent (st : Store) : Event → Store
  | .add k new => insert st k new
  | .update k _ new => insert st k new
  | .delete k _ => erase st k

def replayLog (l : List Event) : Store := l.foldl replayEvent []

end Ovsdb.Client
