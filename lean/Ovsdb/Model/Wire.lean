import Ovsdb.Model.Basic
/-
  Model of the wire decoders of package ovsdb (as repaired for defects D24):
  ovsSliceToGoNotation, UUID / OvsSet / OvsMap / Row / Condition / Mutation
  UnmarshalJSON.  JSON text -> tree is encoding/json's job (trusted); the model
  starts from the tree.

  Every place where the Go code indexes a slice or asserts a type is written
  with a primitive that PANICS when the index is out of range or the type is
  wrong (`idx`, `assertStr`, `assertArr`); the checks the code performs before
  them are modelled as written.  "Decoding never panics" is then a theorem
  about these functions, not a convention.
-/
namespace Ovsdb.Wire
open Ovsdb

inductive J where
  | null
  | bool (b : Bool)
  | num (r : Rat)
  | str (s : String)
  | arr (l : List J)
  | obj (m : List (String × J))
  deriving Repr, Inhabited

/-- what `ovsSliceToGoNotation` leaves in a row / condition / mutation value -/
inductive GoVal where
  | raw (j : J)                       -- float64, string, bool, nil, untagged arrays, objects
  | uuid (s : String)                 -- ovsdb.UUID
  | set (l : List GoVal)              -- ovsdb.OvsSet
  | map (m : List (GoVal × GoVal))    -- ovsdb.OvsMap
  deriving Repr, Inhabited

/-- map with the first error / panic winning (List.mapM for Outcome, spelled out) -/
def mapO {α β} (f : α → Outcome β) : List α → Outcome (List β)
  | [] => .ok []
  | a :: t =>
    match f a with
    | .ok b => match mapO f t with
      | .ok bs => .ok (b :: bs)
      | .err e => .err e
      | .panic => .panic
    | .err e => .err e
    | .panic => .panic

/-- unchecked slice index -/
def idx {α} (l : List α) (i : Nat) : Outcome α :=
  match l[i]? with
  | some x => .ok x
  | none => .panic

/-- unchecked `x.(string)` -/
def assertStr : J → Outcome String
  | .str s => .ok s
  | _ => .panic

/-- unchecked `x.([]interface{})` -/
def assertArr : J → Outcome (List J)
  | .arr l => .ok l
  | _ => .panic

def isStr : J → Bool
  | .str _ => true
  | _ => false

def isArr : J → Bool
  | .arr _ => true
  | _ => false

def strEq (j : J) (s : String) : Bool :=
  match j with
  | .str t => t == s
  | _ => false

/-- `json.Unmarshal(b, &[]string)`: null gives nil, an array of strings/nulls its
    elements (null = ""), anything else an error -/
def unmarshalStrings : J → Outcome (List String)
  | .null => .ok []
  | .arr l =>
    if l.all (fun e => match e with | .str _ | .null => true | _ => false) then
      .ok (l.map (fun e => match e with | .str s => s | _ => ""))
    else .err "json: cannot unmarshal into string"
  | _ => .err "json: cannot unmarshal into []string"

/-- `UUID.UnmarshalJSON` -/
def decodeUUID (j : J) : Outcome String := do
  let l ← unmarshalStrings j
  if l.length ≠ 2 then .err "expected a 2 element json array"
  else do
    let tag ← idx l 0
    if tag ≠ "uuid" ∧ tag ≠ "named-uuid" then .err "expected uuid or named-uuid"
    else idx l 1

def comparable : GoVal → Bool
  | .raw (.arr _) => false
  | .raw (.obj _) => false
  | .raw _ => true
  | .uuid _ => true
  | .set _ => false
  | .map _ => false

/-- the first element exists and is one of the given strings -/
def headIs (l : List J) (tags : List String) : Bool :=
  match l[0]? with
  | some t => tags.any (strEq t)
  | none => false

/-- key or value of a map pair: `ovsSliceToGoNotation` with a nested map rejected -/
def decodeMapPart (dec : J → Outcome GoVal) (k0 : J) : Outcome GoVal :=
  match k0 with
  | .arr ks =>
    if ks.length ≠ 2 || headIs ks ["map"]
    then .err "malformed map" else dec k0
  | _ => .ok (.raw k0)

/-- one `[key, value]` pair of a map -/
def decodeMapPair (dec : J → Outcome GoVal) (p : J) : Outcome (GoVal × GoVal) :=
  if !isArr p then .err "malformed map"
  else do
    let f ← assertArr p
    if f.length ≠ 2 then .err "malformed map"
    else do
      let k0 ← idx f 0
      let v0 ← idx f 1
      let k ← decodeMapPart dec k0
      if !comparable k then .err "malformed map"
      else do
        let v ← decodeMapPart dec v0
        pure (k, v)

/-- `OvsMap.UnmarshalJSON` on an array (`err == nil && len(oMap) > 1`, else no error) -/
def decodeMapBody (dec : J → Outcome GoVal) (sl : List J) : Outcome (List (GoVal × GoVal)) :=
  if sl.length ≤ 1 then .ok []
  else do
    let second ← idx sl 1
    if !isArr second || !headIs sl ["map"] then .err "malformed map"
    else do
      let inner ← assertArr second
      mapO (decodeMapPair dec) inner

/-- `OvsSet.UnmarshalJSON` on an array -/
def decodeSetBody (dec : J → Outcome GoVal) (oSet : List J) : Outcome (List GoVal) :=
  if oSet.length == 2 && headIs oSet ["uuid", "named-uuid"] then do
    let second ← idx oSet 1
    if !isStr second then .err "not a uuid"
    else do
      let u ← assertStr second
      pure [.uuid u]
  else if oSet.length ≠ 2 || !headIs oSet ["set"] then .err "not a set"
  else do
    let second ← idx oSet 1
    if !isArr second then .err "not a set"
    else do
      let inner ← assertArr second
      mapO dec inner

/-- `ovsSliceToGoNotation` (mutually recursive with the set and map decoders
    through the elements; `fuel` bounds the nesting depth, as encoding/json
    bounds the depth of the text) -/
def decodeVal : Nat → J → Outcome GoVal
  | 0, _ => .err "nesting too deep"
  | fuel + 1, j =>
    match j with
    | .arr sl =>
      if sl.isEmpty then .ok (.raw j)
      else do
        let tag ← idx sl 0
        if strEq tag "uuid" || strEq tag "named-uuid" then do
          let u ← decodeUUID j
          pure (.uuid u)
        else if strEq tag "set" then do
          let elems ← decodeSetBody (decodeVal fuel) sl
          pure (.set elems)
        else if strEq tag "map" then do
          let pairs ← decodeMapBody (decodeVal fuel) sl
          pure (.map pairs)
        else .ok (.raw j)
    | _ => .ok (.raw j)

/-- `Row.UnmarshalJSON` -/
def decodeRow (fuel : Nat) : J → Outcome (List (String × GoVal))
  | .obj m => mapO (fun p => do
      let v ← decodeVal fuel p.2
      pure (p.1, v)) m
  | .null => .ok []
  | _ => .err "json: cannot unmarshal into map"

def condFunctions : List String := ["==", "!=", "includes", "excludes", ">", ">=", "<", "<="]
def mutators : List String := ["delete", "insert", "+=", "-=", "*=", "/=", "%="]

/-- `json.Unmarshal(b, &[]interface{})` -/
def unmarshalArray : J → Outcome (List J)
  | .null => .ok []
  | .arr l => .ok l
  | _ => .err "json: cannot unmarshal into []interface{}"

/-- `Condition.UnmarshalJSON` -/
def decodeCondition (fuel : Nat) (j : J) : Outcome (String × String × GoVal) := do
  let v ← unmarshalArray j
  if v.length ≠ 3 then .err "expected a 3 element json array"
  else do
    let c ← idx v 0
    if !isStr c then .err "expected column name to be a string"
    else do
      let f ← idx v 1
      if !isStr f then .err "expected function to be a string"
      else do
        let col ← assertStr c
        let fn ← assertStr f
        if fn ∉ condFunctions then .err "not a valid function"
        else do
          let val ← decodeVal fuel (← idx v 2)
          pure (col, fn, val)

/-- `Mutation.UnmarshalJSON` -/
def decodeMutation (fuel : Nat) (j : J) : Outcome (String × String × GoVal) := do
  let v ← unmarshalArray j
  if v.length ≠ 3 then .err "expected a 3 element json array"
  else do
    let c ← idx v 0
    if !isStr c then .err "expected column name to be a string"
    else do
      let m ← idx v 1
      if !isStr m then .err "expected mutator to be a string"
      else do
        let col ← assertStr c
        let mu ← assertStr m
        if mu ∉ mutators then .err "not a valid mutator"
        else do
          let val ← decodeVal fuel (← idx v 2)
          pure (col, mu, val)

/-- `OvsSet.UnmarshalJSON` applied directly (a column known to be a set):
    a single atom or uuid stands for the one-element set -/
def decodeSet (fuel : Nat) (j : J) : Outcome (List GoVal) :=
  match j with
  | .arr oSet => decodeSetBody (decodeVal fuel) oSet
  | _ => do
    let v ← decodeVal fuel j
    pure [v]

/-- `OvsMap.UnmarshalJSON` applied directly.  As written, the error of
    encoding/json for text that is not an array is assigned to a shadowed
    variable and lost: anything that is not an array of at least two elements
    decodes as the empty map without error. -/
def decodeMap (fuel : Nat) (j : J) : Outcome (List (GoVal × GoVal)) :=
  match j with
  | .arr sl => decodeMapBody (decodeVal fuel) sl
  | _ => .ok []

/-! ### encoders (MarshalJSON) -/

def encodeAtom : Atom → J
  | .int i => .num i
  | .real r => .num r
  | .bool b => .bool b
  | .str s => .str s
  | .uuid u => .arr [.str "uuid", .str u]

end Ovsdb.Wire
