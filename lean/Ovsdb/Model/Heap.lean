import Ovsdb.Model.Basic
/-
  Sharing and copying of models (C13).  A Go model is a struct whose scalar
  fields are held by value and whose collection and pointer fields (slices,
  maps, *T) refer to memory that a shallow copy would share.  Here a model
  object has scalar fields and, for each collection / pointer field, the address
  of a cell holding its contents.  `deepClone` (model.Clone) gives every such
  field a fresh cell; `shallowClone` (a struct assignment) does not.

  The cache (cache.RowCache) stores addresses; it clones what it is handed and
  clones what it hands out.
-/
namespace Ovsdb.Heap
open Ovsdb AMap



structure Obj where
  scalars : List (String × Atom) := []
  colls : List (String × Nat) := []     -- field -> cell
  deriving Repr, DecidableEq

structure Heap where
  objs : AMap Nat Obj := []
  cells : AMap Nat (List Atom) := []
  next : Nat := 0                        -- every address in use is below
  deriving Repr

/-- what a model at `a` looks like to whoever reads it: its fields with the
    contents of the cells they refer to -/
def view (h : Heap) (a : Nat) : Option (List (String × Atom) × List (String × List Atom)) :=
  match get? h.objs a with
  | none => none
  | some o => some (o.scalars, o.colls.map (fun p => (p.1, (get? h.cells p.2).getD [])))

/-- fresh cells for the collection fields of `o`, numbered from `base` -/
def freshColls : List (String × Nat) → Nat → List (String × Nat)
  | [], _ => []
  | (f, _) :: t, base => (f, base) :: freshColls t (base + 1)

def copiedCells (h : Heap) : List (String × Nat) → Nat → AMap Nat (List Atom)
  | [], _ => []
  | (_, c) :: t, base => (base, (get? h.cells c).getD []) :: copiedCells h t (base + 1)

/-- `model.Clone`: a new object whose collection fields have cells of their own -/
def deepClone (h : Heap) (a : Nat) : Heap × Nat :=
  match get? h.objs a with
  | none => (h, a)
  | some o =>
    let n := o.colls.length
    let a' := h.next + n
    ({ objs := (a', { scalars := o.scalars, colls := freshColls o.colls h.next }) :: h.objs,
       cells := copiedCells h o.colls h.next ++ h.cells,
       next := h.next + n + 1 }, a')

/-- a struct assignment `*b = *a`: the collection fields still point to `a`'s cells -/
def shallowClone (h : Heap) (a : Nat) : Heap × Nat :=
  match get? h.objs a with
  | none => (h, a)
  | some o => ({ h with objs := (h.next, o) :: h.objs, next := h.next + 1 }, h.next)

/-- what a caller can do to memory it holds: overwrite an object (scalar writes,
    re-pointing a field) or the contents of a cell (writes inside a slice, into a
    map, through a pointer) -/
inductive Write where
  | obj (a : Nat) (o : Obj)
  | cell (c : Nat) (l : List Atom)
  deriving Repr

def Write.addr : Write → Nat
  | .obj a _ => a
  | .cell c _ => c

def Write.isCell : Write → Bool
  | .obj _ _ => false
  | .cell _ _ => true

def applyWrite (h : Heap) : Write → Heap
  | .obj a o => { h with objs := insert h.objs a o }
  | .cell c l => { h with cells := insert h.cells c l }

/-! ### the cache -/

structure CacheH where
  heap : Heap := {}
  entries : AMap String Nat := []       -- uuid -> address of the cached model
  deriving Repr

/-- `RowCache.Create` / `Update`: the cache keeps a clone of the caller's model -/
def CacheH.put (c : CacheH) (uuid : String) (callerModel : Nat) : CacheH :=
  let (h', a') := deepClone c.heap callerModel
  { heap := h', entries := insert c.entries uuid a' }

/-- `RowCache.Row` and the other read paths: the caller gets a clone -/
def CacheH.read (c : CacheH) (uuid : String) : CacheH × Option Nat :=
  match get? c.entries uuid with
  | none => (c, none)
  | some a =>
    let (h', a') := deepClone c.heap a
    ({ c with heap := h' }, some a')

/-- `RowsShallow`: the caller gets the cached object itself -/
def CacheH.readShallow (c : CacheH) (uuid : String) : Option Nat := get? c.entries uuid

/-- what the cache returns for `uuid` -/
def CacheH.lookup (c : CacheH) (uuid : String) : Option (List (String × Atom) × List (String × List Atom)) :=
  match get? c.entries uuid with
  | none => none
  | some a => view c.heap a

end Ovsdb.Heap
