import Ovsdb.Model.WireEnc
/-
  modelgen/table.go `fieldType` next to ovsdb/bindings.go `NativeType`: the Go
  type the generator writes for a column and the Go type the mapper demands
  for it, both as type expressions over the decoded column schema of
  Model/WireEnc.lean (extended type inferred as ColumnSchema.UnmarshalJSON does).
-/
namespace Ovsdb.Modelgen
open Ovsdb.Wire

inductive GoType where
  | int | float64 | bool | string
  | ptr (t : GoType)
  | slice (t : GoType)
  | map (k v : GoType)
  | named (alias : String) (underlying : GoType)   -- `type Alias = underlying` written by the generator for enums
  | invalid
  deriving DecidableEq, Repr

/-- `NativeTypeFromAtomic` / `AtomicType` -/
def atomicGo : String → GoType
  | "integer" => .int
  | "real" => .float64
  | "boolean" => .bool
  | "string" => .string
  | "uuid" => .string
  | _ => .invalid

/-- the extended type inferred by `ColumnSchema.UnmarshalJSON` (`ColumnSchema.extType`, as a datatype) -/
inductive Ext where
  | map | set | enum
  | atomic (t : String)
  deriving DecidableEq, Repr

def ext (c : ColumnSchema) : Ext :=
  if c.type.value.isSome then .map
  else if c.type.minV ≠ 1 || c.type.maxV ≠ 1 then .set
  else if !c.type.key.enum.isEmpty then .enum
  else .atomic c.type.key.type

/-- `ovsdb.NativeType(column)` -/
def nativeType (c : ColumnSchema) : GoType :=
  match ext c with
  | .map => .map (atomicGo c.type.key.type) (atomicGo ((c.type.value.map (·.type)).getD ""))
  | .set =>
    if c.type.minV = 0 && c.type.maxV = 1 then .ptr (atomicGo c.type.key.type)
    else if c.type.minV = 1 && c.type.maxV = 1 then atomicGo c.type.key.type
    else .slice (atomicGo c.type.key.type)
  | .enum => atomicGo c.type.key.type
  | .atomic t => atomicGo t

/-- `modelgen.fieldType(table, column, schema, enumTypes)`; `alias` is the enum type name -/
def fieldType (alias : String) (c : ColumnSchema) (enumTypes : Bool) : GoType :=
  let key := atomicGo c.type.key.type
  -- `FieldEnum` tests `Enum != nil`, the extended type tests `len(Enum) > 0`
  let keyT := if enumTypes && c.type.key.enumSet then GoType.named alias key else key
  match ext c with
  | .enum => if enumTypes then .named alias key else key
  | .map => .map key (atomicGo ((c.type.value.map (·.type)).getD ""))
  | .set =>
    if c.type.minV = 0 && c.type.maxV = 1 then .ptr keyT
    else if c.type.minV = 1 && c.type.maxV = 1 then keyT
    else .slice keyT
  | .atomic t => atomicGo t

/-- a type alias is the type it names -/
def GoType.erase : GoType → GoType
  | .named _ u => u.erase
  | .ptr t => .ptr t.erase
  | .slice t => .slice t.erase
  | .map k v => .map k.erase v.erase
  | t => t

end Ovsdb.Modelgen
