/-
  Basic datatypes of the libovsdb model (core Lean only).

  Atom   : an OVSDB atomic value as the Go library holds it natively
           (int, float64, bool, string; a uuid is a Go string but is kept
           apart here because the wire layer distinguishes it).
  Value  : a native column value, the image of T, *T, []T, map[K]V under
           ovsdb.NativeType.
  AMap   : association lists used as finite maps, with pointwise lemmas.
-/

namespace Ovsdb

inductive Atom where
  | int  (i : Int)
  | real (r : Rat)
  | bool (b : Bool)
  | str  (s : String)
  | uuid (u : String)
  deriving DecidableEq, Repr, Inhabited

inductive Value where
  | atom (a : Atom)
  | opt  (o : Option Atom)
  | set  (l : List Atom)
  | map  (m : List (Atom × Atom))
  deriving DecidableEq, Repr, Inhabited

abbrev UUID := String
/-- a row as a model struct holds it: column -> native value -/
abbrev Row := List (String × Value)

/-- Outcome of a modelled entry point: the Go function returns normally,
    returns an error (class name), or panics. -/
inductive Outcome (α : Type) where
  | ok (v : α)
  | err (e : String)
  | panic
  deriving DecidableEq, Repr

namespace Outcome
def bind {α β} (o : Outcome α) (f : α → Outcome β) : Outcome β :=
  match o with
  | ok v => f v
  | err e => err e
  | panic => panic
instance : Monad Outcome where
  pure := ok
  bind := bind
def isPanic {α} : Outcome α → Bool
  | panic => true
  | _ => false
end Outcome

/-! ## Association maps -/

abbrev AMap (κ ν : Type) := List (κ × ν)

namespace AMap
variable {κ ν : Type} [DecidableEq κ]

def get? (m : AMap κ ν) (k : κ) : Option ν :=
  match m with
  | [] => none
  | (k', v) :: t => if k' = k then some v else get? t k

def erase (m : AMap κ ν) (k : κ) : AMap κ ν :=
  match m with
  | [] => []
  | (k', v) :: t => if k' = k then erase t k else (k', v) :: erase t k

def insert (m : AMap κ ν) (k : κ) (v : ν) : AMap κ ν :=
  (k, v) :: erase m k

def keys (m : AMap κ ν) : List κ := m.map Prod.fst

def contains (m : AMap κ ν) (k : κ) : Bool := (get? m k).isSome

@[simp] theorem get?_nil (k : κ) : get? ([] : AMap κ ν) k = none := rfl

@[simp] theorem get?_cons (k' : κ) (v : ν) (t : AMap κ ν) (k : κ) :
    get? ((k', v) :: t) k = if k' = k then some v else get? t k := rfl

@[simp] theorem get?_erase (m : AMap κ ν) (k k' : κ) :
    get? (erase m k) k' = if k' = k then none else get? m k' := by
  induction m with
  | nil => simp [erase]
  | cons p t ih =>
    obtain ⟨a, b⟩ := p
    simp only [erase]
    split <;> simp only [get?_cons, ih] <;> grind

@[simp] theorem get?_insert (m : AMap κ ν) (k : κ) (v : ν) (k' : κ) :
    get? (insert m k v) k' = if k' = k then some v else get? m k' := by
  unfold insert
  by_cases h : k' = k
  · subst h; simp
  · have : ¬ k = k' := fun e => h e.symm
    simp [h, this]

theorem mem_keys_of_get? {m : AMap κ ν} {k : κ} {v : ν} (h : get? m k = some v) : k ∈ keys m := by
  induction m with
  | nil => simp at h
  | cons p t ih =>
    obtain ⟨a, b⟩ := p
    simp only [get?_cons] at h
    by_cases e : a = k
    · subst e; simp [keys]
    · simp only [e, if_false] at h
      have := ih h
      simp [keys] at this ⊢
      exact Or.inr this

theorem get?_isSome_of_mem_keys {m : AMap κ ν} {k : κ} (h : k ∈ keys m) : (get? m k).isSome := by
  induction m with
  | nil => simp [keys] at h
  | cons p t ih =>
    obtain ⟨a, b⟩ := p
    simp only [get?_cons]
    by_cases e : a = k
    · simp [e]
    · simp only [e, if_false]
      apply ih
      simp [keys] at h ⊢
      rcases h with h | h
      · exact absurd h.symm e
      · exact h

theorem mem_keys_iff {m : AMap κ ν} {k : κ} : k ∈ keys m ↔ (get? m k).isSome := by
  constructor
  · exact get?_isSome_of_mem_keys
  · intro h
    cases hv : get? m k with
    | none => simp [hv] at h
    | some v => exact mem_keys_of_get? hv

end AMap

end Ovsdb
