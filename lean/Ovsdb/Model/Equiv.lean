import Ovsdb.Model.Basic
/-
  Equality of column values as the properties read them: sets as sets, maps
  extensionally; well-formedness = "respects the column type": a set holds each
  element once (Go maps already hold each key once, and an association list is
  read through `get?`, so maps need no side condition).
-/
namespace Ovsdb
open AMap

def Value.Equiv : Value → Value → Prop
  | .atom a, .atom b => a = b
  | .opt a, .opt b => a = b
  | .set a, .set b => ∀ x, x ∈ a ↔ x ∈ b
  | .map a, .map b => ∀ k, get? a k = get? b k
  | _, _ => False

infix:50 " ≃ᵥ " => Value.Equiv

def Value.WF : Value → Prop
  | .set l => l.Nodup
  | _ => True

/-- two values of one column type -/
def Value.SameKind : Value → Value → Prop
  | .atom _, .atom _ => True
  | .opt _, .opt _ => True
  | .set _, .set _ => True
  | .map _, .map _ => True
  | _, _ => False

theorem Value.Equiv.refl (a : Value) : a ≃ᵥ a := by
  cases a <;> simp [Value.Equiv]

theorem Value.Equiv.symm {a b : Value} (h : a ≃ᵥ b) : b ≃ᵥ a := by
  cases a <;> cases b <;> simp_all [Value.Equiv]

theorem Value.Equiv.trans {a b c : Value} (h : a ≃ᵥ b) (h2 : b ≃ᵥ c) : a ≃ᵥ c := by
  cases a <;> cases b <;> cases c <;> simp_all [Value.Equiv]

end Ovsdb
