/-
  OvsdbServer.Transact under concurrency (server/server.go): each connection's
  goroutine runs the handler; the handler takes `txnMutex`, executes the
  transaction against the committed database, notifies every monitor, commits,
  releases the mutex and replies.  Threads are interleaved by an arbitrary
  schedule, one micro-step at a time.

  The transaction engine is a parameter: `exec t db` is the result thread `t`'s
  request gets on database `db` and the database it wants to commit (`none`
  when an operation failed and nothing is committed) — the engine itself is the
  subject of C02/C03/C04/C06.
-/
namespace Ovsdb.Server

inductive Phase where
  | idle        -- request received, waiting for the mutex
  | locked      -- mutex held
  | executed    -- transaction executed against the committed database
  | notified    -- monitors notified
  | committed   -- database updated
  | done        -- mutex released, reply sent
  deriving DecidableEq, Repr

structure Thread (σ ρ : Type) where
  phase : Phase := .idle
  res : Option ρ := none
  next : Option σ := none
  deriving Repr

structure State (σ ρ : Type) where
  db : σ
  lock : Option Nat := none            -- which thread holds txnMutex
  threads : Nat → Thread σ ρ           -- one per connection issuing a request
  monitors : List (List Nat) := []     -- per monitor: the transactions it was notified of, oldest first
  order : List Nat := []               -- threads in the order they acquired the mutex

variable {σ ρ : Type}

def setThread (s : State σ ρ) (i : Nat) (t : Thread σ ρ) : State σ ρ :=
  { s with threads := fun j => if j = i then t else s.threads j }

/-- one micro-step of thread `i`; `useLock = false` is the server without txnMutex -/
def step (useLock : Bool) (exec : Nat → σ → ρ × Option σ) (s : State σ ρ) (i : Nat) : State σ ρ :=
  let t := s.threads i
  match t.phase with
    | .idle =>
      if useLock then
        match s.lock with
        | some _ => s                                        -- blocked
        | none => { setThread s i { t with phase := .locked } with lock := some i, order := s.order ++ [i] }
      else { setThread s i { t with phase := .locked } with order := s.order ++ [i] }
    | .locked =>
      let r := exec i s.db
      setThread s i { t with phase := .executed, res := some r.1, next := r.2 }
    | .executed =>
      match t.next with
      | none => setThread s i { t with phase := .committed }  -- an operation failed: no notification, no commit
      | some _ => { setThread s i { t with phase := .notified } with monitors := s.monitors.map (· ++ [i]) }
    | .notified =>
      match t.next with
      | none => setThread s i { t with phase := .committed }
      | some d => { setThread s i { t with phase := .committed } with db := d }
    | .committed =>
      { setThread s i { t with phase := .done } with lock := if useLock then none else s.lock }
    | .done => s

def run (useLock : Bool) (exec : Nat → σ → ρ × Option σ) (s : State σ ρ) (sched : List Nat) : State σ ρ :=
  sched.foldl (step useLock exec) s

/-- the sequential reference: the requests one after another in the given order -/
def serialDb (exec : Nat → σ → ρ × Option σ) (db : σ) : List Nat → σ
  | [] => db
  | i :: t => serialDb exec (match (exec i db).2 with | some d => d | none => db) t

/-- the result request `i` gets when the requests of `before` ran first -/
def serialRes (exec : Nat → σ → ρ × Option σ) (db : σ) (before : List Nat) (i : Nat) : ρ :=
  (exec i (serialDb exec db before)).1

/-- the accepted requests of a serial order, in that order (what a monitor is told) -/
def serialNotified (exec : Nat → σ → ρ × Option σ) (db : σ) : List Nat → List Nat
  | [] => []
  | i :: t =>
    match (exec i db).2 with
    | some d => i :: serialNotified exec d t
    | none => serialNotified exec db t

def init (db : σ) (nMonitors : Nat) : State σ ρ :=
  { db := db, threads := fun _ => {}, monitors := List.replicate nMonitors [] }

/-- request / result pairs of a serial order -/
def expected (exec : Nat → σ → ρ × Option σ) (db : σ) : List Nat → List (Nat × ρ)
  | [] => []
  | i :: t => (i, (exec i db).1) :: expected exec (match (exec i db).2 with | some d => d | none => db) t

end Ovsdb.Server
