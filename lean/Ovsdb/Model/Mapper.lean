import Ovsdb.Model.Schema
import Ovsdb.Model.WireEnc
/-
  The JSON leg of the model <-> row mapping (C09) at the level of
  OVS-notation values, and the bridge from OVS-notation values to the wire
  codec's value type.
-/
namespace Ovsdb.Mapper
open Ovsdb Ovsdb.Wire

/-! ### the JSON leg at the level of OVS-notation values -/

def wireAtom : Atom → Atom
  | .int i => .real i
  | a => a

def wireVal : OvsVal → OvsVal
  | .atom a => .atom (wireAtom a)
  | .set [a] => .atom (wireAtom a)
  | .set l => .set (l.map wireAtom)
  | .map m => .map (m.map (fun p => (wireAtom p.1, wireAtom p.2)))

def wireRow (r : OvsRow) : OvsRow := r.map (fun p => (p.1, wireVal p.2))

def toWAtom : Atom → WAtom
  | .int i => .num i
  | .real r => .num r
  | .bool b => .bool b
  | .str s => .str s
  | .uuid u => .uuid u

def toW : OvsVal → WVal
  | .atom a => .atom (toWAtom a)
  | .set l => .set (l.map toWAtom)
  | .map m => .map (m.map (fun p => (toWAtom p.1, toWAtom p.2)))


def toWRow (r : OvsRow) : WRow := r.map (fun p => (p.1, toW p.2))

end Ovsdb.Mapper
