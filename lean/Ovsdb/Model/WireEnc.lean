import Ovsdb.Model.Wire
/-
  Encoders of package ovsdb (MarshalJSON of UUID, OvsSet, OvsMap, Row,
  Condition, Mutation, BaseType, ColumnType, ColumnSchema, MonitorSelect,
  Operation) and the struct decoders that go with them, for the round-trip
  theorems of C12.

  encoding/json's reflection-driven handling of structs is modelled by three
  primitives: `mkObj` (fields with `omitempty` / nil pointers are left out),
  `getF` (member lookup; absent and null are the same for pointer fields) and
  typed member readers (`optInt`, `optNum`, `optStr`, `optBool`) that fail on a
  member of the wrong JSON type.  That model of encoding/json is trusted and
  exercised by the correspondence run; key matching is case-sensitive here
  (encoding/json also accepts other capitalisations).
-/
namespace Ovsdb.Wire
open Ovsdb

/-! ### well-formed OVSDB values as they appear in rows, conditions, mutations -/

/-- an <atom>: what a decoder leaves for a JSON number / string / boolean, or a uuid -/
inductive WAtom where
  | num (r : Rat)
  | str (s : String)
  | bool (b : Bool)
  | uuid (s : String)
  deriving Repr, Inhabited

/-- a <value>: atom, set of atoms, map of atom pairs -/
inductive WVal where
  | atom (a : WAtom)
  | set (l : List WAtom)
  | map (m : List (WAtom × WAtom))
  deriving Repr, Inhabited

def WAtom.toGo : WAtom → GoVal
  | .num r => .raw (.num r)
  | .str s => .raw (.str s)
  | .bool b => .raw (.bool b)
  | .uuid s => .uuid s

def WVal.toGo : WVal → GoVal
  | .atom a => a.toGo
  | .set l => .set (l.map WAtom.toGo)
  | .map m => .map (m.map (fun p => (p.1.toGo, p.2.toGo)))

/-- `UUID.MarshalJSON`: the tag depends on `ValidateUUID` (a regular expression:
    a parameter here) -/
def encodeUUID (isUUID : String → Bool) (s : String) : J :=
  .arr [.str (if isUUID s then "uuid" else "named-uuid"), .str s]

def encodeWAtom (isUUID : String → Bool) : WAtom → J
  | .num r => .num r
  | .str s => .str s
  | .bool b => .bool b
  | .uuid s => encodeUUID isUUID s

/-- `OvsSet.MarshalJSON` / `OvsMap.MarshalJSON`: a one-element set is its element -/
def encodeWVal (isUUID : String → Bool) : WVal → J
  | .atom a => encodeWAtom isUUID a
  | .set [a] => encodeWAtom isUUID a
  | .set l => .arr [.str "set", .arr (l.map (encodeWAtom isUUID))]
  | .map m => .arr [.str "map", .arr (m.map (fun p => .arr [encodeWAtom isUUID p.1, encodeWAtom isUUID p.2]))]

/-- what the wire cannot distinguish: a one-element set and its element -/
def WVal.collapse : WVal → WVal
  | .set [a] => .atom a
  | v => v

def encodeCondition (isUUID : String → Bool) (c : String × String × WVal) : J :=
  .arr [.str c.1, .str c.2.1, encodeWVal isUUID c.2.2]

def encodeRow (isUUID : String → Bool) (r : List (String × WVal)) : J :=
  .obj (r.map (fun p => (p.1, encodeWVal isUUID p.2)))

/-! ### encoding/json struct primitives -/

def mkObj (fs : List (String × Option J)) : List (String × J) :=
  fs.filterMap (fun p => p.2.map (fun v => (p.1, v)))

def getF (m : List (String × J)) (k : String) : Option J :=
  match m.lookup k with
  | some .null => none
  | o => o

def optInt : Option J → Outcome (Option Int)
  | none => .ok none
  | some (.num r) => if r.den = 1 then .ok (some r.num) else .err "json: cannot unmarshal number into int"
  | some _ => .err "json: cannot unmarshal into int"

def optNum : Option J → Outcome (Option Rat)
  | none => .ok none
  | some (.num r) => .ok (some r)
  | some _ => .err "json: cannot unmarshal into float64"

def optStr : Option J → Outcome (Option String)
  | none => .ok none
  | some (.str s) => .ok (some s)
  | some _ => .err "json: cannot unmarshal into string"

def optBool : Option J → Outcome (Option Bool)
  | none => .ok none
  | some (.bool b) => .ok (some b)
  | some _ => .err "json: cannot unmarshal into bool"

def jInt (i : Int) : J := .num i

/-! ### schema types -/

def atomicTypeNames : List String := ["integer", "real", "boolean", "string", "uuid"]

structure BaseType where
  type : String
  enum : List J := []
  enumSet : Bool := false               -- `Enum != nil`: an "enum" member was present (even `["set",[]]`)
  minReal : Option Rat := none
  maxReal : Option Rat := none
  minInteger : Option Int := none
  maxInteger : Option Int := none
  minLength : Option Int := none
  maxLength : Option Int := none
  refTable : Option String := none
  refType : Option String := none
  deriving Repr, Inhabited

def BaseType.simpleAtomic (b : BaseType) : Bool :=
  atomicTypeNames.contains b.type && !b.enumSet && b.enum.isEmpty && b.minReal.isNone && b.maxReal.isNone && b.minInteger.isNone &&
  b.maxInteger.isNone && b.minLength.isNone && b.maxLength.isNone && b.refTable.isNone && b.refType.isNone

/-- the "enum" member: `NewOvsSet(b.Enum)` encoded by `OvsSet.MarshalJSON` -/
def encodeEnum : List J → Option J
  | [] => none
  | [a] => some a
  | l => some (.arr [.str "set", .arr l])

/-- `BaseType.MarshalJSON` -/
def encodeBaseType (b : BaseType) : J :=
  .obj (mkObj [
    ("type", if b.type = "" then none else some (.str b.type)),
    ("enum", encodeEnum b.enum),
    ("minReal", b.minReal.map J.num), ("maxReal", b.maxReal.map J.num),
    ("minInteger", b.minInteger.map jInt), ("maxInteger", b.maxInteger.map jInt),
    ("minLength", b.minLength.map jInt), ("maxLength", b.maxLength.map jInt),
    ("refTable", b.refTable.map J.str), ("refType", b.refType.map J.str)])

/-- `isUUIDAtom`: the array is the <atom> ["uuid", x] or ["named-uuid", x] -/
def isUUIDAtomJ : List J → Bool
  | [t, .str _] => strEq t "uuid" || strEq t "named-uuid"
  | _ => false

/-- the "enum" member read back (`BaseType.UnmarshalJSON`): the values, and whether the member was there -/
def decodeEnum : Option J → Outcome (List J × Bool)
  | none => .ok ([], false)
  | some (.arr oSet) =>
    if isUUIDAtomJ oSet then .ok ([.arr oSet], true)     -- a single uuid atom (as repaired, defect D70)
    else if oSet.length ≠ 2 || !headIs oSet ["set"] then .err "enum is neither an atom nor a set"
    else do
      let second ← idx oSet 1
      if !isArr second then .err "enum is neither an atom nor a set"
      else do
        let l ← assertArr second
        pure (l, true)
  | some a => .ok ([a], true)

/-- `BaseType.UnmarshalJSON` -/
def decodeBaseType (j : J) : Outcome BaseType :=
  match j with
  | .str s => if atomicTypeNames.contains s then .ok { type := s } else .err "non atomic type in <base-type>"
  | .obj m => do
    let type ← optStr (getF m "type")
    let enum ← decodeEnum (getF m "enum")
    let minReal ← optNum (getF m "minReal")
    let maxReal ← optNum (getF m "maxReal")
    let minInteger ← optInt (getF m "minInteger")
    let maxInteger ← optInt (getF m "maxInteger")
    let minLength ← optInt (getF m "minLength")
    let maxLength ← optInt (getF m "maxLength")
    let refTable ← optStr (getF m "refTable")
    let refType ← optStr (getF m "refType")
    if !atomicTypeNames.contains (type.getD "") then .err "non atomic type in <base-type>" else
    pure { type := type.getD "", enum := enum.1, enumSet := enum.2, minReal, maxReal, minInteger, maxInteger, minLength, maxLength, refTable, refType }
  | _ => .err "json: cannot unmarshal into base type"

/-- `ColumnType`: max = -1 is "unlimited" -/
structure ColumnType where
  key : BaseType
  value : Option BaseType := none
  min : Option Int := none
  max : Option Int := none
  deriving Repr, Inhabited

def ColumnType.maxV (c : ColumnType) : Int := c.max.getD 1
def ColumnType.minV (c : ColumnType) : Int := c.min.getD 1

/-- `ColumnType.MarshalJSON` -/
def encodeColumnType (c : ColumnType) : J :=
  if c.value.isNone && c.max.isNone && c.min.isNone && c.key.simpleAtomic then .str c.key.type
  else if c.maxV = -1 then
    .obj (mkObj [("key", some (encodeBaseType c.key)), ("value", c.value.map encodeBaseType),
                 ("min", c.min.map jInt), ("max", some (.str "unlimited"))])
  else
    .obj (mkObj [("key", some (encodeBaseType c.key)), ("value", c.value.map encodeBaseType),
                 ("min", c.min.map jInt), ("max", c.max.map jInt)])

def optBase : Option J → Outcome (Option BaseType)
  | none => .ok none
  | some j => do
    let b ← decodeBaseType j
    pure (some b)

/-- the "max" member: "unlimited", a number (truncated to int), anything else ignored -/
def decodeMax : Option J → Outcome (Option Int)
  | some (.str s) => if s = "unlimited" then .ok (some (-1)) else .err "unexpected string value in max field"
  | some (.num r) => .ok (some (if r ≥ 0 then r.floor else r.ceil))
  | _ => .ok none

/-- `ColumnType.UnmarshalJSON` (as repaired: "key" is required) -/
def decodeColumnType (j : J) : Outcome ColumnType :=
  match j with
  | .str s => if atomicTypeNames.contains s then .ok { key := { type := s } } else .err "non atomic type in <type>"
  | .obj m => do
    let key ← optBase (getF m "key")
    let value ← optBase (getF m "value")
    let min ← optInt (getF m "min")
    match key with
    | none => .err "a <type> object requires a key"
    | some key => do
      let max ← decodeMax (getF m "max")
      pure { key, value, min, max }
  | _ => .err "json: cannot unmarshal into column type"

structure ColumnSchema where
  type : ColumnType
  ephemeral : Option Bool := none
  mutable : Option Bool := none
  deriving Repr, Inhabited

def encodeColumnSchema (c : ColumnSchema) : J :=
  .obj (mkObj [("type", some (encodeColumnType c.type)), ("ephemeral", c.ephemeral.map J.bool), ("mutable", c.mutable.map J.bool)])

def decodeColumnSchema (j : J) : Outcome ColumnSchema :=
  match j with
  | .obj m =>
    match getF m "type" with
    | none => .err "a column requires a type with a key"
    | some t => do
      let type ← decodeColumnType t
      let ephemeral ← optBool (getF m "ephemeral")
      let mutable ← optBool (getF m "mutable")
      pure { type, ephemeral, mutable }
  | _ => .err "cannot parse column object"

/-- the extended type inferred by `ColumnSchema.UnmarshalJSON` -/
def ColumnSchema.extType (c : ColumnSchema) : String :=
  if c.type.value.isSome then "map"
  else if c.type.minV ≠ 1 || c.type.maxV ≠ 1 then "set"
  else if !c.type.key.enum.isEmpty then "enum"
  else c.type.key.type

/-! ### MonitorSelect -/

structure MonitorSelect where
  initial : Option Bool := none
  insert : Option Bool := none
  delete : Option Bool := none
  modify : Option Bool := none
  deriving Repr, Inhabited, DecidableEq

def encodeMonitorSelect (s : MonitorSelect) : J :=
  .obj (mkObj [("initial", s.initial.map J.bool), ("insert", s.insert.map J.bool),
               ("delete", s.delete.map J.bool), ("modify", s.modify.map J.bool)])

def decodeMonitorSelect (j : J) : Outcome MonitorSelect :=
  match j with
  | .obj m => do
    let initial ← optBool (getF m "initial")
    let insert ← optBool (getF m "insert")
    let delete ← optBool (getF m "delete")
    let modify ← optBool (getF m "modify")
    pure { initial, insert, delete, modify }
  | .null => .ok {}
  | _ => .err "json: cannot unmarshal into monitor select"

/-! ### Operation (all ten kinds share one struct; `select` always carries "where") -/

abbrev WRow := List (String × WVal)
abbrev GRow := List (String × GoVal)

structure WOperation where
  op : String
  table : String := ""
  row : WRow := []
  rows : List WRow := []
  columns : List String := []
  mutations : List (String × String × WVal) := []
  timeout : Option Int := none
  where_ : List (String × String × WVal) := []
  until_ : String := ""
  durable : Option Bool := none
  comment : Option String := none
  lock : Option String := none
  uuid : String := ""
  uuidName : String := ""
  deriving Repr, Inhabited

/-- the decoded form -/
structure GOperation where
  op : String
  table : String
  row : GRow
  rows : List GRow
  columns : List String
  mutations : List (String × String × GoVal)
  timeout : Option Int
  where_ : List (String × String × GoVal)
  until_ : String
  durable : Option Bool
  comment : Option String
  lock : Option String
  uuid : String
  uuidName : String
  deriving Repr, Inhabited

def GOperation.zero : GOperation :=
  { op := "", table := "", row := [], rows := [], columns := [], mutations := [], timeout := none, where_ := [],
    until_ := "", durable := none, comment := none, lock := none, uuid := "", uuidName := "" }

def WRow.toGo (r : WRow) : GRow := r.map (fun q => (q.1, q.2.collapse.toGo))
def tripleToGo (c : String × String × WVal) : String × String × GoVal := (c.1, c.2.1, c.2.2.collapse.toGo)

def WOperation.toGo (o : WOperation) : GOperation :=
  { op := o.op, table := o.table, row := WRow.toGo o.row, rows := o.rows.map WRow.toGo, columns := o.columns,
    mutations := o.mutations.map tripleToGo, timeout := o.timeout, where_ := o.where_.map tripleToGo,
    until_ := o.until_, durable := o.durable, comment := o.comment, lock := o.lock, uuid := o.uuid, uuidName := o.uuidName }

/-- `omitempty` on a string / slice / map member -/
def omitStr (s : String) : Option J := if s = "" then none else some (.str s)
def omitList {α} (f : α → J) (l : List α) : Option J := if l.isEmpty then none else some (.arr (l.map f))

/-- `Operation.MarshalJSON` -/
def encodeOperation (p : String → Bool) (o : WOperation) : J :=
  .obj (mkObj [
    ("where", if o.op = "select" then some (.arr (o.where_.map (encodeCondition p))) else omitList (encodeCondition p) o.where_),
    ("op", some (.str o.op)),
    ("table", omitStr o.table),
    ("row", if o.row.isEmpty then none else some (encodeRow p o.row)),
    ("rows", omitList (encodeRow p) o.rows),
    ("columns", omitList J.str o.columns),
    ("mutations", omitList (encodeCondition p) o.mutations),
    ("timeout", o.timeout.map jInt),
    ("until", omitStr o.until_),
    ("durable", o.durable.map J.bool),
    ("comment", o.comment.map J.str),
    ("lock", o.lock.map J.str),
    ("uuid", omitStr o.uuid),
    ("uuid-name", omitStr o.uuidName)])

/-- a `[]T` member: absent / null is nil, an array is decoded element by element -/
def optList {α} (f : J → Outcome α) : Option J → Outcome (List α)
  | none => .ok []
  | some (.arr l) => mapO f l
  | some _ => .err "json: cannot unmarshal into slice"

def strOf : J → Outcome String
  | .str s => .ok s
  | .null => .ok ""          -- a null element leaves the zero value
  | _ => .err "json: cannot unmarshal into string"

def optRow (fuel : Nat) : Option J → Outcome GRow
  | none => .ok []
  | some j => decodeRow fuel j

/-- decoding an `Operation` (encoding/json over the struct, the hand-written
    decoders for rows, conditions and mutations) -/
def decodeOperation (fuel : Nat) (j : J) : Outcome GOperation :=
  match j with
  | .obj m => do
    let op ← optStr (getF m "op")
    let table ← optStr (getF m "table")
    let row ← optRow fuel (getF m "row")
    let rows ← optList (decodeRow fuel) (getF m "rows")
    let columns ← optList strOf (getF m "columns")
    let mutations ← optList (decodeMutation fuel) (getF m "mutations")
    let timeout ← optInt (getF m "timeout")
    let where_ ← optList (decodeCondition fuel) (getF m "where")
    let until_ ← optStr (getF m "until")
    let durable ← optBool (getF m "durable")
    let comment ← optStr (getF m "comment")
    let lock ← optStr (getF m "lock")
    let uuid ← optStr (getF m "uuid")
    let uuidName ← optStr (getF m "uuid-name")
    pure { op := op.getD "", table := table.getD "", row, rows, columns, mutations, timeout, where_,
           until_ := until_.getD "", durable, comment, lock, uuid := uuid.getD "", uuidName := uuidName.getD "" }
  | .null => .ok GOperation.zero
  | _ => .err "json: cannot unmarshal into operation"

/-! ### results, table updates, monitor requests and replies, table and database schemas -/

/-- a JSON object used as a map with string keys (`map[string]T`) -/
def encodeStrMap {α} (f : α → J) (m : List (String × α)) : J := .obj (m.map (fun p => (p.1, f p.2)))

def decodeStrMap {α} (f : J → Outcome α) : J → Outcome (List (String × α))
  | .obj m => mapO (fun p => match f p.2 with
      | .ok v => .ok (p.1, v)
      | .err e => .err e
      | .panic => .panic) m
  | .null => .ok []
  | _ => .err "json: cannot unmarshal into map"

/-- `map[string]*T`: a null value leaves a nil pointer in the map; the model has no
    nil entries and drops them (the comparison with the implementation ignores
    null members) -/
def notNullEntry (p : String × J) : Bool :=
  match p.2 with
  | .null => false
  | _ => true

def decodeStrMapPtr {α} (f : J → Outcome α) : J → Outcome (List (String × α))
  | .obj m => decodeStrMap f (.obj (m.filter notNullEntry))
  | j => decodeStrMap f j

/-- a `*Row` member: absent / null is nil; an object (even empty) is a row -/
def optRowPtr (fuel : Nat) : Option J → Outcome (Option GRow)
  | none => .ok none
  | some j => match decodeRow fuel j with
    | .ok r => .ok (some r)
    | .err e => .err e
    | .panic => .panic

structure WResult where
  count : Int := 0
  error : String := ""
  details : String := ""
  uuid : String := ""
  rows : List WRow := []
  deriving Repr, Inhabited

structure GResult where
  count : Int
  error : String
  details : String
  uuid : String
  rows : List GRow
  deriving Repr, Inhabited

def WResult.toGo (r : WResult) : GResult :=
  { count := r.count, error := r.error, details := r.details, uuid := r.uuid, rows := r.rows.map WRow.toGo }

/-- `OperationResult`: `uuid` is a struct, so `omitempty` never omits it -/
def encodeResult (p : String → Bool) (r : WResult) : J :=
  .obj (mkObj [("count", if r.count = 0 then none else some (jInt r.count)), ("error", omitStr r.error),
    ("details", omitStr r.details), ("uuid", some (encodeUUID p r.uuid)), ("rows", omitList (encodeRow p) r.rows)])

/-- member lookup for a member whose type has its own UnmarshalJSON (not a
    pointer): a JSON null is handed to that decoder, not skipped -/
def getFRaw (m : List (String × J)) (k : String) : Option J := m.lookup k

def optUUID : Option J → Outcome String
  | none => .ok ""
  | some j => decodeUUID j

def decodeResult (fuel : Nat) (j : J) : Outcome GResult :=
  match j with
  | .obj m => do
    let count ← optInt (getF m "count")
    let error ← optStr (getF m "error")
    let details ← optStr (getF m "details")
    let uuid ← optUUID (getFRaw m "uuid")
    let rows ← optList (decodeRow fuel) (getF m "rows")
    pure { count := count.getD 0, error := error.getD "", details := details.getD "", uuid, rows }
  | .null => .ok { count := 0, error := "", details := "", uuid := "", rows := [] }
  | _ => .err "json: cannot unmarshal into operation result"

/-- `RowUpdate` (RFC 7047 update): old / new -/
structure WRowUpdate where
  new : Option WRow := none
  old : Option WRow := none
  deriving Repr, Inhabited

structure GRowUpdate where
  new : Option GRow
  old : Option GRow
  deriving Repr, Inhabited

def WRowUpdate.toGo (u : WRowUpdate) : GRowUpdate := { new := u.new.map WRow.toGo, old := u.old.map WRow.toGo }

def encodeRowUpdate (p : String → Bool) (u : WRowUpdate) : J :=
  .obj (mkObj [("new", u.new.map (encodeRow p)), ("old", u.old.map (encodeRow p))])

def decodeRowUpdate (fuel : Nat) (j : J) : Outcome GRowUpdate :=
  match j with
  | .obj m => do
    let new ← optRowPtr fuel (getF m "new")
    let old ← optRowPtr fuel (getF m "old")
    pure { new, old }
  | _ => .err "json: cannot unmarshal into row update"

/-- `RowUpdate2`: initial / insert / modify / delete (old and new are not on the wire) -/
structure WRowUpdate2 where
  initial : Option WRow := none
  insert : Option WRow := none
  modify : Option WRow := none
  delete : Option WRow := none
  deriving Repr, Inhabited

structure GRowUpdate2 where
  initial : Option GRow
  insert : Option GRow
  modify : Option GRow
  delete : Option GRow
  deriving Repr, Inhabited

def WRowUpdate2.toGo (u : WRowUpdate2) : GRowUpdate2 :=
  { initial := u.initial.map WRow.toGo, insert := u.insert.map WRow.toGo, modify := u.modify.map WRow.toGo, delete := u.delete.map WRow.toGo }

def encodeRowUpdate2 (p : String → Bool) (u : WRowUpdate2) : J :=
  .obj (mkObj [("initial", u.initial.map (encodeRow p)), ("insert", u.insert.map (encodeRow p)),
    ("modify", u.modify.map (encodeRow p)), ("delete", u.delete.map (encodeRow p))])

def decodeRowUpdate2 (fuel : Nat) (j : J) : Outcome GRowUpdate2 :=
  match j with
  | .obj m => do
    let initial ← optRowPtr fuel (getF m "initial")
    let insert ← optRowPtr fuel (getF m "insert")
    let modify ← optRowPtr fuel (getF m "modify")
    let delete ← optRowPtr fuel (getF m "delete")
    pure { initial, insert, modify, delete }
  | _ => .err "json: cannot unmarshal into row update2"

/-- `TableUpdates` / `TableUpdates2`: table -> uuid -> row update -/
def encodeTableUpdates {α} (f : α → J) (tu : List (String × List (String × α))) : J :=
  encodeStrMap (encodeStrMap f) tu

def decodeTableUpdates {α} (f : J → Outcome α) (j : J) : Outcome (List (String × List (String × α))) :=
  decodeStrMap (decodeStrMapPtr f) j

/-- `MonitorRequest` -/
structure WMonitorRequest where
  columns : List String := []
  where_ : List (String × String × WVal) := []
  select : Option MonitorSelect := none
  deriving Repr, Inhabited

structure GMonitorRequest where
  columns : List String
  where_ : List (String × String × GoVal)
  select : Option MonitorSelect
  deriving Repr, Inhabited

def encodeMonitorRequest (p : String → Bool) (r : WMonitorRequest) : J :=
  .obj (mkObj [("columns", omitList J.str r.columns), ("where", omitList (encodeCondition p) r.where_),
    ("select", r.select.map encodeMonitorSelect)])

def optSelect : Option J → Outcome (Option MonitorSelect)
  | none => .ok none
  | some j => match decodeMonitorSelect j with
    | .ok s => .ok (some s)
    | .err e => .err e
    | .panic => .panic

def decodeMonitorRequest (fuel : Nat) (j : J) : Outcome GMonitorRequest :=
  match j with
  | .obj m => do
    let columns ← optList strOf (getF m "columns")
    let where_ ← optList (decodeCondition fuel) (getF m "where")
    let select ← optSelect (getF m "select")
    pure { columns, where_, select }
  | .null => .ok { columns := [], where_ := [], select := none }
  | _ => .err "json: cannot unmarshal into monitor request"

/-- `MonitorCondSinceReply`: [found, last-txn-id, updates2] -/
def encodeCondSince {α} (f : α → J) (found : Bool) (txn : String) (tu : List (String × List (String × α))) : J :=
  .arr [.bool found, .str txn, encodeTableUpdates f tu]

def decodeCondSince {α} (f : J → Outcome α) (j : J) : Outcome (Bool × String × List (String × List (String × α))) :=
  match j with
  | .arr [b0, s0, u] =>
    -- null leaves the zero value of a bool / string
    match (match b0 with | .bool b => some b | .null => some false | _ => none),
          (match s0 with | .str s => some s | .null => some "" | _ => none) with
    | some b, some s =>
      match decodeTableUpdates f u with
      | .ok tu => .ok (b, s, tu)
      | .err e => .err e
      | .panic => .panic
    | _, _ => .err "json: cannot unmarshal"
  | .arr _ => .err "expected a 3 element json array"
  | _ => .err "json: cannot unmarshal into []json.RawMessage"

/-- `TableSchema` -/
structure TableSchemaW where
  columns : List (String × ColumnSchema) := []
  indexes : List (List String) := []
  isRoot : Bool := false
  deriving Repr, Inhabited

def encodeTableSchema (t : TableSchemaW) : J :=
  .obj (mkObj [("columns", some (encodeStrMap encodeColumnSchema t.columns)),
    ("indexes", omitList (fun (ix : List String) => J.arr (ix.map J.str)) t.indexes),
    ("isRoot", if t.isRoot then some (.bool true) else none)])

def strList : J → Outcome (List String)
  | .arr l => mapO strOf l
  | .null => .ok []
  | _ => .err "json: cannot unmarshal into []string"

def decodeTableSchema (j : J) : Outcome TableSchemaW :=
  match j with
  | .obj m => do
    let columns ← match getF m "columns" with
      | none => (.ok [] : Outcome (List (String × ColumnSchema)))
      | some c => decodeStrMapPtr decodeColumnSchema c
    let indexes ← optList strList (getF m "indexes")
    let isRoot ← optBool (getF m "isRoot")
    pure { columns, indexes, isRoot := isRoot.getD false }
  | .null => .ok {}
  | _ => .err "json: cannot unmarshal into table schema"

structure DatabaseSchemaW where
  name : String := ""
  version : String := ""
  tables : List (String × TableSchemaW) := []
  deriving Repr, Inhabited

def encodeDatabaseSchema (d : DatabaseSchemaW) : J :=
  .obj (mkObj [("name", some (.str d.name)), ("version", some (.str d.version)), ("tables", some (encodeStrMap encodeTableSchema d.tables))])

def decodeDatabaseSchema (j : J) : Outcome DatabaseSchemaW :=
  match j with
  | .obj m => do
    let name ← optStr (getF m "name")
    let version ← optStr (getF m "version")
    let tables ← match getF m "tables" with
      | none => (.ok [] : Outcome (List (String × TableSchemaW)))
      | some t => decodeStrMap decodeTableSchema t
    pure { name := name.getD "", version := version.getD "", tables }
  | .null => .ok {}
  | _ => .err "json: cannot unmarshal into database schema"

end Ovsdb.Wire
