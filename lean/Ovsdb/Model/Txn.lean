import Ovsdb.Model.Updates
import Ovsdb.Model.Cond
/-
  Model of the transaction engine: ovsdb/named_uuid.go (ExpandNamedUUIDs),
  database/transaction/transaction.go (Transact, the overlay of transaction
  cache and database, checkIndexes), the commit-time reference processing of
  updates/references.go (as its observable function: strong existence check,
  garbage collection of unreferenced non-root rows, weak pruning with
  minimum-cardinality check, iterated to a fixpoint) and
  database/inmemory (Commit, List, CheckIndexes).
-/
namespace Ovsdb
open AMap

structure WCond where
  col : String
  fn : CondFn
  val : OvsVal
  deriving Repr

structure Operation where
  op : String
  table : String := ""
  row : OvsRow := []
  rows : List OvsRow := []
  columns : List String := []
  mutations : List Mutation := []
  timeout : Option Int := none
  where_ : List WCond := []
  untilFn : String := ""
  uuid : String := ""
  uuidName : String := ""
  deriving Repr

structure OpResult where
  count : Nat := 0
  error : Option String := none
  uuid : String := ""
  rows : List OvsRow := []
  deriving Repr

/-- the database model: schema plus the index specifications every cache of a
    table is built with (schema indexes first, then client indexes) -/
structure DbModel where
  schema : DbSchema
  specs : AMap String (List Spec)
  deriving Repr

abbrev Database := AMap String Cache

def DbModel.table (σ : DbModel) (t : String) : Option TableSchema := get? σ.schema t
def DbModel.specsOf (σ : DbModel) (t : String) : List Spec := (get? σ.specs t).getD []

def Database.empty (σ : DbModel) : Database :=
  σ.schema.map (fun p => (p.1, Cache.empty (σ.specsOf p.1)))

def Database.rows (db : Database) (t : String) : AMap UUID Row :=
  match get? db t with
  | some c => c.rows
  | none => []

/-! ### named UUIDs -/

def isHexLower (c : Char) : Bool := (c ≥ '0' && c ≤ '9') || (c ≥ 'a' && c ≤ 'f')

/-- `ValidateUUID`: 36 characters matching 8-4-4-4-12 lower-case hex -/
def isValidUUID (s : String) : Bool :=
  let cs := s.toList
  cs.length == 36 &&
  (List.range 36).all (fun i =>
    let c := cs.getD i ' '
    if i == 8 || i == 13 || i == 18 || i == 23 then c == '-' else isHexLower c)

def expandAtom (m : AMap String String) (a : Atom) : Atom :=
  match a with
  | .uuid s => match get? m s with | some r => .uuid r | none => a
  | .str s => match get? m s with | some r => .str r | none => a
  | a => a

/-- `expandNamedUUID(column, value, namedUUIDs)` (with the D20 repair: map keys
    are expanded whenever the key type is uuid) -/
def expandNamedUUID (cs : ColSchema) (v : OvsVal) (m : AMap String String) : OvsVal :=
  let keyU := cs.key == .uuid && !cs.isEnum
  let valU := cs.kind == .map && cs.val == .uuid
  match v with
  | .map ps =>
    if cs.kind == .map && (keyU || valU) then
      .map (ps.map (fun p => ((if keyU then expandAtom m p.1 else p.1), (if valU then expandAtom m p.2 else p.2))))
    else v
  | .set l => if keyU then .set (l.map (expandAtom m)) else v
  | .atom a => if keyU then .atom (expandAtom m a) else v

def expandRow (ts : TableSchema) (r : OvsRow) (m : AMap String String) : Except String OvsRow :=
  r.mapM (fun p => match ts.column p.1 with
    | none => .error "column not found"
    | some cs => .ok (p.1, expandNamedUUID cs p.2 m))

/-- pass 1 of `ExpandNamedUUIDs` for one operation: inserts declare names -/
def expandPass1Step (acc : List Operation × AMap String String) (op : Operation) :
    Except String (List Operation × AMap String String) :=
  if op.op != "insert" then .ok (acc.1 ++ [op], acc.2)
  else if !isValidUUID op.uuid then .error "operation UUID invalid"
  else if op.uuidName != "" then
    match get? acc.2 op.uuidName with
    | some u =>
      if op.uuid != "" && op.uuid != u then .error "named UUID maps to a different UUID"
      else .ok (acc.1 ++ [{ op with uuid := u, uuidName := "" }], acc.2)
    | none => .ok (acc.1 ++ [{ op with uuidName := "" }], insert acc.2 op.uuidName op.uuid)
  else .ok (acc.1 ++ [op], acc.2)

/-- pass 2 of `ExpandNamedUUIDs` for one operation: substitute names in every
    uuid-typed position -/
def expandPass2Op (σ : DbModel) (m : AMap String String) (op : Operation) : Except String Operation :=
  match σ.table op.table with
  | none => .error "table not found in schema"
  | some ts => do
    let w ← op.where_.mapM (fun c => match ts.column c.col with
      | none => .error "column not found"
      | some cs => .ok { c with val := expandNamedUUID cs c.val m })
    let ms ← op.mutations.mapM (fun mu => match ts.column mu.col with
      | none => .error "column not found"
      | some cs => .ok { mu with val := expandNamedUUID cs mu.val m })
    let rows ← op.rows.mapM (fun r => expandRow ts r m)
    let row ← expandRow ts op.row m
    pure { op with where_ := w, mutations := ms, rows := rows, row := row }

/-- `ExpandNamedUUIDs(ops, schema)` -/
def expandNamedUUIDs (σ : DbModel) (ops : List Operation) : Except String (List Operation) :=
  match ops.foldlM expandPass1Step ([], []) with
  | .error e => .error e
  | .ok (ops1, m) => ops1.mapM (expandPass2Op σ m)

/-! ### transaction state -/

abbrev Updates := AMap (String × UUID) ModelUpdate

structure Txn where
  cache : Database                  -- the transaction's own table cache
  deleted : List UUID := []
  updates : Updates := []
  deriving Repr

def zeroRowOf (ts : TableSchema) : Row := (newModel ts).row

/-- conditions of an operation converted to native values (`RowsByCondition`'s
    first pass) -/
def nativeConds (ts : TableSchema) (w : List WCond) : Except String (List Cond) :=
  w.mapM (fun c => match ts.column c.col with
    | none => .error "panic: nil column schema"
    | some cs => do
      let v ← ovsToNative cs c.val
      pure { col := c.col, fn := c.fn, val := v })

def cacheRowsByCondition (ts : TableSchema) (c : Cache) (w : List WCond) : Except String (List UUID) := do
  if w.isEmpty then pure (keys c.rows).eraseDups
  else
    let conds ← nativeConds ts w
    rowsByCondition c (zeroRowOf ts) conds

/-- `rowsFromTransactionCacheAndDatabase` (repaired, defects D36/D37): rows of
    the transaction cache that match, plus database rows that match and are
    neither in the transaction cache nor deleted by the transaction; the latter
    are copied into the transaction cache -/
def overlayRows (σ : DbModel) (db : Database) (tx : Txn) (table : String) (w : List WCond) :
    Except String (List (UUID × Row) × Txn) :=
  match σ.table table, get? tx.cache table, get? db table with
  | some ts, some tc, some dc => do
    let txnIds ← cacheRowsByCondition ts tc w
    let dbIds ← cacheRowsByCondition ts dc w
    -- warm the transaction cache with matching database rows it does not hold
    let toWarm := dbIds.filter (fun u => (get? tc.rows u).isNone && u ∉ tx.deleted)
    let tc' ← toWarm.foldlM (fun (c : Cache) u =>
      match get? dc.rows u with
      | none => pure c
      | some r => match c.create u r false with
        | .ok c' => pure c'
        | .error _ => .error "failed warming transaction cache") tc
    let ids := (txnIds ++ toWarm).filter (fun u => u ∉ tx.deleted)
    let rows := ids.filterMap (fun u => (get? tc'.rows u).map (fun r => (u, r)))
    pure (rows, { tx with cache := insert tx.cache table tc' })
  | _, _, _ => .error "table does not exist"

/-- apply one row's model update to a cache (`ApplyCacheUpdate` case split) -/
def applyModelUpdate (c : Cache) (u : UUID) (mu : ModelUpdate) : Except CErr Cache :=
  match mu.old, mu.new with
  | none, some n => c.create u n.row false
  | some _, some n => c.update u n.row false
  | _, none => if mu.old.isSome || mu.ru2.isSome then c.delete u else .ok c

def Updates.merge (σ : DbModel) (acc : Updates) (step : List ((String × UUID) × ModelUpdate)) : Except OpErr Updates :=
  step.foldlM (fun (a : Updates) p =>
    match σ.table p.1.1 with
    | none => .error .other
    | some ts => do
      let cur := (get? a p.1).getD {}
      let r ← addUpdate ts cur p.2
      if r.isEmpty then pure (erase a p.1) else pure (insert a p.1 r)) acc

def errStr (e : OpErr) : String :=
  match e with
  | .constraint => "constraint violation"
  | .referential => "referential integrity violation"
  | .domain => "domain error"
  | .range => "range error"
  | .notSupported => "not supported"
  | .timedOut => "timed out"
  | .other => "other"

/-- one update / mutate / delete operation on the rows the overlay selects -/
def rowOp (σ : DbModel) (db : Database) (tx : Txn) (op : Operation) (rop : RowOperation) (isDelete : Bool) :
    Except String (OpResult × Txn × List ((String × UUID) × ModelUpdate)) :=
  match σ.table op.table with
  | none => .error "table does not exist"
  | some ts =>
    match overlayRows σ db tx op.table op.where_ with
    | .error e => .error e
    | .ok (rows, tx1) =>
      match rows.foldlM (fun (acc : List ((String × UUID) × ModelUpdate)) p =>
          match addOperation ts {} p.1 (some ⟨p.1, p.2⟩) rop with
          | .ok mu => if mu.isEmpty then pure acc else pure (acc ++ [((op.table, p.1), mu)])
          | .error e => (.error (errStr e) : Except String _)) [] with
      | .error e => .error e
      | .ok step =>
        let tx2 := if isDelete then { tx1 with deleted := tx1.deleted ++ rows.map (·.1) } else tx1
        .ok ({ count := rows.length }, tx2, step)


/-- does the selected row agree with the expected row on those of `cols` that the
    expected row provides (`Transaction.waitRowsEqual`, as repaired: D16, D66) -/
def waitAgree (cols : List String) (provided : OvsRow) (e : Model) (p : UUID × Row) : Bool :=
  cols.all (fun col =>
    match get? provided col with
    | none => true
    | some _ =>
      match e.field col, (Model.mk p.1 p.2).field col with
      | some x, some y => valueEqB x y     -- `ConditionEqual.Evaluate`: sets as sets, maps as maps
      | _, _ => true)

/-- the selected rows and the expected rows are the same set of rows -/
def waitRowsEqual (cols : List String) (selected : List (UUID × Row)) (expected : List (OvsRow × Model)) : Bool :=
  selected.all (fun p => expected.any (fun e => waitAgree cols e.1 e.2 p)) &&
  expected.all (fun e => selected.any (fun p => waitAgree cols e.1 e.2 p))

/-- the verdict of a wait once the rows are selected and the expected rows decoded -/
def waitVerdict (ts : TableSchema) (op : Operation) (rows : List (UUID × Row)) (expected : List Model) : Option String :=
  let cols := if op.columns.isEmpty then dedupKeys ts.cols else op.columns
  -- a compared column the table does not have cannot be read from the models
  if !rows.isEmpty && cols.any (fun c => (ts.column c).isNone && op.rows.any (fun r => (get? r c).isSome)) then
    some "column not found"
  else if (op.untilFn == "==") == waitRowsEqual cols rows (op.rows.zip expected) then none
  else match op.timeout with
    | some _ => some "timed out"
    | none => some "blocks forever"

/-- `Transaction.Wait` with a zero timeout -/
def waitOp (σ : DbModel) (db : Database) (tx : Txn) (op : Operation) : Except String (OpResult × Txn) :=
  if op.untilFn != "!=" && op.untilFn != "==" then .error "not supported"
  else match σ.table op.table with
  | none => .error "not supported"
  | some ts =>
    match overlayRows σ db tx op.table op.where_ with
    | .error e => .error e
    | .ok (rows, tx1) =>
      match op.rows.mapM (fun r => getRowData ts r (newModel ts)) with
      | .error e => .error e
      | .ok expected =>
        match waitVerdict ts op rows expected with
        | none => .ok ({}, tx1)
        | some e => .error e

/-- `Transaction.Select`'s projection: with a non-empty `columns` only the named
    columns of a result row are kept -/
def projectRow (columns : List String) (r : OvsRow) : OvsRow :=
  if columns.isEmpty then r else r.filter (fun p => columns.contains p.1)

/-- one operation of the per-operation loop: result, new transaction state and
    the step's updates -/
def execOp (σ : DbModel) (db : Database) (tx : Txn) (op : Operation) :
    Except String (OpResult × Txn × List ((String × UUID) × ModelUpdate)) :=
  if op.op = "insert" then
    if !isValidUUID op.uuid then .error "invalid uuid"
    else match σ.table op.table with
      | none => .error "table not found"
      | some ts =>
        match addOperation ts {} op.uuid none (.insert op.row) with
        | .ok mu =>
          -- the uuid must be free in the database (defect D57: the update could not be committed)
          if (get? (db.rows op.table) op.uuid).isSome then .error "constraint violation"
          -- a row inserted and deleted earlier in this transaction is back (defect D73: it stayed hidden)
          else .ok ({ uuid := op.uuid }, { tx with deleted := tx.deleted.filter (· != op.uuid) }, [((op.table, op.uuid), mu)])
        | .error e => .error (errStr e)
  else if op.op = "select" then
    match σ.table op.table with
    | none => .error "table does not exist"
    | some ts =>
      match overlayRows σ db tx op.table op.where_ with
      | .error e => .error e
      | .ok (rows, tx1) =>
        match rows.mapM (fun p => newRow ts ⟨p.1, p.2⟩) with
        | .error e => .error e
        | .ok out => .ok ({ rows := out.map (projectRow op.columns) }, tx1, [])
  else if op.op = "update" then rowOp σ db tx op (.update op.row) false
  else if op.op = "mutate" then rowOp σ db tx op (.mutate op.mutations) false
  else if op.op = "delete" then rowOp σ db tx op .delete true
  else if op.op = "wait" then
    match waitOp σ db tx op with
    | .error e => .error e
    | .ok (r, tx1) => .ok (r, tx1, [])
  else .error "not supported"

/-- apply a step's updates to the transaction cache -/
def applyStep (tx : Txn) (step : List ((String × UUID) × ModelUpdate)) : Except String Txn :=
  step.foldlM (fun (t : Txn) p =>
    match get? t.cache p.1.1 with
    | none => .error "other"
    | some c =>
      match applyModelUpdate c p.1.2 p.2 with
      | .ok c' => pure { t with cache := insert t.cache p.1.1 c' }
      | .error _ => .error "other") tx

/-- the per-operation loop: results (one per executed operation) and the state;
    stops at the first failing operation -/
def runOps (σ : DbModel) (db : Database) : Txn → List Operation → List OpResult × Txn × Bool
  | tx, [] => ([], tx, true)
  | tx, op :: rest =>
    match execOp σ db tx op with
    | .error e => ([{ error := some e }], tx, false)
    | .ok (r, tx1, step) =>
      match Updates.merge σ tx1.updates step with
      | .error e => ([{ error := some (errStr e) }], tx1, false)
      | .ok upd =>
        match applyStep { tx1 with updates := upd } step with
        | .error e => ([{ error := some e }], tx1, false)
        | .ok tx2 =>
          let (rs, txf, ok) := runOps σ db tx2 rest
          (r :: rs, txf, ok)

end Ovsdb

namespace Ovsdb
open AMap

/-! ### referential integrity (updates/references.go as its observable function) -/

abbrev Rows := AMap String (AMap UUID Row)

def Rows.get (rs : Rows) (t : String) (u : UUID) : Option Row := (get? rs t).bind (fun m => get? m u)
def Rows.has (rs : Rows) (t : String) (u : UUID) : Bool := (rs.get t u).isSome
def Rows.set (rs : Rows) (t : String) (u : UUID) (r : Row) : Rows := insert rs t (insert ((get? rs t).getD []) u r)
def Rows.del (rs : Rows) (t : String) (u : UUID) : Rows := insert rs t (erase ((get? rs t).getD []) u)
def Rows.all (rs : Rows) : List (String × UUID × Row) :=
  (keys rs).eraseDups.flatMap (fun t =>
    let m := (get? rs t).getD []
    (keys m).eraseDups.filterMap (fun u => (get? m u).map (fun r => (t, u, r))))

def uuidOf : Atom → Option UUID
  | .uuid u => some u
  | _ => none

def isDefaultUUID (u : UUID) : Bool := u == "" || u == zeroUUID

/-- the references a column value makes: (target table, target uuid, strong, is map value) -/
def colRefs (cs : ColSchema) (v : Value) : List (String × UUID × Bool × Bool) :=
  let keyRefs (as : List Atom) : List (String × UUID × Bool × Bool) :=
    if cs.key == .uuid && cs.refTable != "" then
      as.filterMap (fun a => (uuidOf a).map (fun u => (cs.refTable, u, cs.refStrong, false)))
    else []
  match v with
  | .atom a => match a with
    | .uuid u => if isDefaultUUID u then [] else keyRefs [a]   -- default values are omitted from rows
    | _ => []
  | .opt o => keyRefs o.toList
  | .set l => keyRefs l
  | .map m =>
    let ps := mapPairs m
    keyRefs (ps.map (·.1)) ++
      (if cs.val == .uuid && cs.valRefTable != "" then
        ps.filterMap (fun p => (uuidOf p.2).map (fun u => (cs.valRefTable, u, cs.valRefStrong, true)))
      else [])

def rowRefs (ts : TableSchema) (r : Row) : List (String × String × UUID × Bool × Bool) :=
  (keys ts.cols).eraseDups.flatMap (fun c =>
    match get? ts.cols c, get? r c with
    | some cs, some v => (colRefs cs v).map (fun x => (c, x.1, x.2.1, x.2.2.1, x.2.2.2))
    | _, _ => [])

/-- is some live row strongly referencing (t, u)? -/
def stronglyReferenced (σ : DbModel) (rs : Rows) (t : String) (u : UUID) : Bool :=
  rs.all.any (fun p =>
    match σ.table p.1 with
    | none => false
    | some ts => (rowRefs ts p.2.2).any (fun e => e.2.1 == t && e.2.2.1 == u && e.2.2.2.1))

/-- a live row strongly references a row that does not exist -/
def danglingStrong (σ : DbModel) (rs : Rows) : Bool :=
  rs.all.any (fun p =>
    match σ.table p.1 with
    | none => false
    | some ts => (rowRefs ts p.2.2).any (fun e => e.2.2.2.1 && !rs.has e.2.1 e.2.2.1))

def isRootTable (σ : DbModel) (t : String) : Bool :=
  match σ.table t with
  | none => true
  | some ts => ts.isRoot || σ.schema.all (fun p => !p.2.isRoot)

/-- rows of non-root tables that no live row strongly references -/
def unreferenced (σ : DbModel) (rs : Rows) : List (String × UUID) :=
  rs.all.filterMap (fun p =>
    if !isRootTable σ p.1 && !stronglyReferenced σ rs p.1 p.2.1 then some (p.1, p.2.1) else none)

/-- remove weak references to missing rows from one column value; returns the
    new value and whether anything was removed -/
def pruneCol (cs : ColSchema) (rs : Rows) (v : Value) : Value × Bool :=
  let keyWeak := cs.key == .uuid && cs.refTable != "" && !cs.refStrong
  let valWeak := cs.val == .uuid && cs.valRefTable != "" && !cs.valRefStrong
  let keyGone (a : Atom) : Bool := match uuidOf a with
    | some u => keyWeak && !rs.has cs.refTable u
    | none => false
  let valGone (a : Atom) : Bool := match uuidOf a with
    | some u => valWeak && !rs.has cs.valRefTable u
    | none => false
  match v with
  | .atom a => match a with
    | .uuid u => if !isDefaultUUID u && keyGone a then (.atom (.uuid ""), true) else (v, false)
    | _ => (v, false)
  | .opt (some a) => if keyGone a then (.opt none, true) else (v, false)
  | .opt none => (v, false)
  | .set l => let l' := l.filter (fun a => !keyGone a); (.set l', l'.length != l.length)
  | .map m =>
    let ps := mapPairs m
    let ps' := ps.filter (fun p => !keyGone p.1 && !(cs.kind == .map && valGone p.2))
    (.map ps', ps'.length != ps.length)

def valueCard : Value → Nat
  | .atom (.uuid u) => if isDefaultUUID u then 0 else 1
  | .atom _ => 1
  | .opt o => if o.isSome then 1 else 0
  | .set l => l.length
  | .map m => (mapPairs m).length

/-- prune the weak references of every live row; a column left with fewer
    elements than its minimum is a constraint violation -/
def pruneWeak (σ : DbModel) (rs : Rows) : Except OpErr Rows :=
  rs.all.foldlM (fun (acc : Rows) p =>
    match σ.table p.1 with
    | none => pure acc
    | some ts => do
      let r' ← (keys ts.cols).eraseDups.foldlM (fun (r : Row) c =>
        match get? ts.cols c, get? r c with
        | some cs, some v =>
          let (v', changed) := pruneCol cs rs v
          if !changed then pure r
          else if valueCard v' < (if cs.kind == .opt then 0 else cs.min) then throw OpErr.constraint
          else pure (insert r c v')
        | _, _ => pure r) p.2.2
      pure (if r' == p.2.2 then acc else acc.set p.1 p.2.1 r')) rs

/-- a live row weakly references a row that does not exist -/
def danglingWeak (σ : DbModel) (rs : Rows) : Bool :=
  rs.all.any (fun p =>
    match σ.table p.1 with
    | none => false
    | some ts => (rowRefs ts p.2.2).any (fun e => !e.2.2.2.1 && !rs.has e.2.1 e.2.2.1))

/-- the reference-processing loop; `fuel` bounds the number of rounds (each
    productive round deletes a row or prunes a reference).  A round: reject a
    dangling strong reference; delete the unreferenced rows of non-root tables;
    prune weak references to missing rows (rejecting a column that falls below
    its minimum); stop when nothing was deleted and no weak reference dangles. -/
def refLoop (σ : DbModel) : Nat → Rows → Except OpErr Rows
  | 0, _ => .error .other      -- out of fuel: never a silent answer (see fuel in `commitPhase`)
  | n + 1, rs =>
    if danglingStrong σ rs then .error .referential
    else if (unreferenced σ rs).isEmpty && !danglingWeak σ rs then .ok rs
    else
      let rs1 := (unreferenced σ rs).foldl (fun acc d => acc.del d.1 d.2) rs
      match pruneWeak σ rs1 with
      | .error e => .error e
      | .ok rs2 => refLoop σ n rs2

def rowCount (rs : Rows) : Nat := rs.all.length

def refCount (σ : DbModel) (rs : Rows) : Nat :=
  rs.all.foldl (fun n p => match σ.table p.1 with
    | none => n
    | some ts => n + (rowRefs ts p.2.2).length) 0

/-! ### commit-time processing -/

def Database.toRows (db : Database) : Rows := db.map (fun p => (p.1, p.2.rows))

/-- rows as they are after the operations of the transaction -/
def rowsAfter (db : Database) (upd : Updates) : Rows :=
  upd.foldl (fun (rs : Rows) p =>
    match p.2.new with
    | some m => rs.set p.1.1 p.1.2 m.row
    | none => rs.del p.1.1 p.1.2) db.toRows

/-- the updates the reference processing adds: deletions and pruned columns,
    as the updates package would build them for the row -/
def refUpdates (σ : DbModel) (before after : Rows) : Except OpErr (List ((String × UUID) × ModelUpdate)) :=
  before.all.foldlM (fun (acc : List ((String × UUID) × ModelUpdate)) p =>
    match σ.table p.1 with
    | none => pure acc
    | some ts =>
      let old : Model := ⟨p.2.1, p.2.2⟩
      match after.get p.1 p.2.1 with
      | none => do
        let oldRow ← liftE (newRow ts old)
        pure (acc ++ [((p.1, p.2.1), { old := some old, new := none, ru2 := some { delete := true, old := some oldRow } })])
      | some r' =>
        if r' == p.2.2 then pure acc
        else do
          let changedCols := (keys ts.cols).eraseDups.filter (fun c => get? r' c != get? p.2.2 c)
          let row ← changedCols.foldlM (fun (o : OvsRow) c =>
            match get? ts.cols c, get? r' c with
            | some cs, some v => do
              let ov ← liftE (nativeToOvs cs v)
              pure (o ++ [(c, ov)])
            | _, _ => pure o) []
          let mu ← addOperation ts {} p.2.1 (some old) (.update row)
          pure (if mu.isEmpty then acc else acc ++ [((p.1, p.2.1), mu)])) []

/-- `Transaction.checkIndexes` -/
def checkIndexes (σ : DbModel) (db : Database) (tx : Txn) : Bool :=
  tx.cache.any (fun tc =>
    let dbc := (get? db tc.1).getD (Cache.empty [])
    (keys tc.2.rows).eraseDups.any (fun u =>
      match get? tc.2.rows u with
      | none => false
      | some row =>
        -- a duplicate among the final rows of the transaction (they are indexed anew, with
        -- the schema indexes and with checks)
        (σ.specsOf tc.1).any (fun s => s.isSchema &&
          (keys tc.2.rows).eraseDups.any (fun u' => u' != u &&
            (get? tc.2.rows u').map (idxVal s) == some (idxVal s row))) ||
        -- a database row, neither deleted nor updated by the transaction, with the same
        -- values in all the columns of a schema index (looked up index by index)
        dbc.ixs.any (fun ix => ix.spec.isSchema &&
          (keys dbc.rows).eraseDups.any (fun e => e != u && e ∉ tx.deleted && (get? tc.2.rows e).isNone &&
            (get? dbc.rows e).map (idxVal ix.spec) == some (idxVal ix.spec row)))))

structure TxnResult where
  results : List OpResult
  updates : Updates          -- empty unless every result is free of errors
  committed : Bool
  deriving Repr

def totalRows (db : Database) : Nat := db.toRows.all.length

/-- `applyReferenceUpdates`, first half: track deletions and warm the
    transaction cache with the rows the reference updates touch -/
def warmForRefs (db : Database) (tx : Txn) (rupd : List ((String × UUID) × ModelUpdate)) : Txn :=
  rupd.foldl (fun (t : Txn) p =>
    let t := if p.2.new.isNone then { t with deleted := t.deleted ++ [p.1.2] } else t
    match get? t.cache p.1.1, p.2.old with
    | some c, some o =>
      if (get? c.rows p.1.2).isNone then
        match (get? db p.1.1).bind (fun dc => get? dc.rows p.1.2) with
        | some dbRow => match c.create p.1.2 dbRow false with
          | .ok c' => { t with cache := insert t.cache p.1.1 c' }
          | .error _ => t
        | none => match c.create p.1.2 o.row false with
          | .ok c' => { t with cache := insert t.cache p.1.1 c' }
          | .error _ => t
      else t
    | _, _ => t) tx

/-- what happens after every operation succeeded and there are updates:
    reference processing, index check -/
def commitPhase (σ : DbModel) (db : Database) (results : List OpResult) (tx : Txn) : TxnResult :=
  let s1 := rowsAfter db tx.updates
  match refLoop σ (rowCount s1 + refCount σ s1 + 2) s1 with
  | .error e => ⟨results ++ [{ error := some (errStr e) }], [], false⟩
  | .ok sFinal =>
    match refUpdates σ s1 sFinal with
    | .error e => ⟨results ++ [{ error := some (errStr e) }], [], false⟩
    | .ok rupd =>
      match Updates.merge σ tx.updates rupd with
      | .error e => ⟨results ++ [{ error := some (errStr e) }], [], false⟩
      | .ok upd =>
        match applyStep (warmForRefs db tx rupd) rupd with
        | .error e => ⟨results ++ [{ error := some e }], [], false⟩
        | .ok tx2 =>
          if checkIndexes σ db tx2 then ⟨results ++ [{ error := some "constraint violation" }], [], false⟩
          else ⟨results, upd, true⟩

/-- the transaction's own cache: built without schema indexes (repair of defect
    D44: a schema index holds one row per value and would lose rows while the
    transaction holds transient duplicates) -/
def txnCacheEmpty (σ : DbModel) : Database :=
  σ.schema.map (fun p => (p.1, Cache.empty ((σ.specsOf p.1).filter (fun s => !s.isSchema))))

/-- `Transaction.Transact(ops...)` on a fresh transaction.  `results` has one
    entry per executed operation (the Go slice additionally holds nil for the
    operations after a failing one). -/
def transact (σ : DbModel) (db : Database) (ops : List Operation) : TxnResult :=
  match expandNamedUUIDs σ ops with
  | .error e => ⟨[{ error := some e }], [], false⟩
  | .ok ops' =>
    match runOps σ db { cache := txnCacheEmpty σ } ops' with
    | (results, _, false) => ⟨results, [], false⟩
    | (results, tx, true) =>
      if tx.updates.isEmpty then ⟨results, [], true⟩ else commitPhase σ db results tx

/-- `inMemoryDatabase.Commit`: apply the update to the database cache, row by
    row in the given order (the Go code iterates maps) -/
def commit (db : Database) (upd : List ((String × UUID) × ModelUpdate)) : Except String Database :=
  upd.foldlM (fun (d : Database) p =>
    match get? d p.1.1 with
    | none => .error "table"
    | some c => match applyModelUpdate c p.1.2 p.2 with
      | .ok c' => pure (insert d p.1.1 c')
      | .error _ => .error "cache inconsistent") db

/-- the references index the database must hold: to -> referrers, per location -/
def computeRefs (σ : DbModel) (rs : Rows) : List ((String × String × String × Bool) × UUID × List UUID) :=
  let edges := rs.all.flatMap (fun p => match σ.table p.1 with
    | none => []
    | some ts => (rowRefs ts p.2.2).map (fun e => ((e.2.1, p.1, e.1, e.2.2.2.2), e.2.2.1, p.2.1)))
  edges.foldl (fun acc e =>
    match acc.find? (fun x => x.1 == e.1 && x.2.1 == e.2.1) with
    | some _ => acc.map (fun x => if x.1 == e.1 && x.2.1 == e.2.1 then (x.1, x.2.1, if e.2.2 ∈ x.2.2 then x.2.2 else x.2.2 ++ [e.2.2]) else x)
    | none => acc ++ [(e.1, e.2.1, [e.2.2])]) []

end Ovsdb
