import Ovsdb.Model.Schema
import Ovsdb.Model.Diff
/-
  Model of the `updates` package: mutate (updates/mutate.go), ValidateMutation
  (ovsdb/bindings.go), modelUpdate / RowUpdate2, merge / mergeRowUpdate /
  mergeModifyRow (updates/merge.go) and ModelUpdates.AddOperation /
  AddRowUpdate / AddRowUpdate2 / updateOrModifyModel (updates/updates.go),
  for the updates of ONE row (the Go ModelUpdates is a map table -> uuid ->
  modelUpdate with independent entries).
-/
namespace Ovsdb
open AMap

inductive Mutator where
  | add | sub | mul | div | mod | insert | delete
  deriving DecidableEq, Repr

structure Mutation where
  col : String
  mutator : Mutator
  val : OvsVal
  deriving Repr

/-- error classes of operation results (ovsdb/error.go); anything else is `other` -/
inductive OpErr where
  | constraint | referential | domain | range | notSupported | timedOut | other
  deriving DecidableEq, Repr

def wrap64 (i : Int) : Int := ((i + 9223372036854775808) % 18446744073709551616) - 9223372036854775808

def arithInt (m : Mutator) (a b : Int) : Int :=
  match m with
  | .add => wrap64 (a + b)
  | .sub => wrap64 (a - b)
  | .mul => wrap64 (a * b)
  | .div => wrap64 (Int.tdiv a b)
  | .mod => Int.tmod a b
  | _ => a

def arithReal (m : Mutator) (a b : Rat) : Rat :=
  match m with
  | .add => a + b
  | .sub => a - b
  | .mul => a * b
  | .div => a / b
  | _ => a

def arithAtom (m : Mutator) (a b : Atom) : Atom :=
  match a, b with
  | .int x, .int y => .int (arithInt m x y)
  | .real x, .real y => .real (arithReal m x y)
  | a, _ => a

def int64Lo : Int := -9223372036854775808
def int64Hi : Int := 9223372036854775807
/-- the largest finite float64 -/
def maxFloat64 : Rat := 179769313486231570814527423731704356798070567525844996598917476803157260780028538760589558632766878171540458953514382464234321326889464182768467546703537516986049910576551282076245490090389328944075868508455133942304583236903222948165808559332123348274797826204144723168738177180919299881250404026184124858368

/-- `outOfRange` (as repaired, defect D69): an integer operation that overflowed int64, a real operation
    whose result is not a finite float64 (RFC 7047 "range error") -/
def outOfRange (cur : Value) (m : Mutator) (nv : Value) : Bool :=
  match cur, nv with
  | .atom (.int x), .atom (.int y) =>
    let exact : Option Int := match m with
      | .add => some (x + y) | .sub => some (x - y) | .mul => some (x * y) | .div => some (Int.tdiv x y)
      | _ => none
    match exact with
    | some r => r < int64Lo || r > int64Hi
    | none => false
  | .atom (.real x), .atom (.real y) =>
    let exact : Option Rat := match m with
      | .add => some (x + y) | .sub => some (x - y) | .mul => some (x * y) | .div => some (x / y)
      | _ => none
    match exact with
    | some r => r < -maxFloat64 || r > maxFloat64
    | none => false
  | _, _ => false

def isArith : Mutator → Bool
  | .insert | .delete => false
  | _ => true

def insertAll (cur : List Atom) (vs : List Atom) : List Atom × List Atom :=
  vs.foldl (fun (acc : List Atom × List Atom) v =>
    if v ∈ acc.1 then acc else (acc.1 ++ [v], acc.2 ++ [v])) (cur, [])

def removeAll (cur : List Atom) (vs : List Atom) : List Atom × List Atom :=
  vs.foldl (fun (acc : List Atom × List Atom) v =>
    if v ∈ acc.1 then (acc.1.erase v, acc.2 ++ [v]) else acc) (cur, [])

def optOfList (l : List Atom) : Option Value := if l.isEmpty then none else some (.set l)
def optOfMap (m : AMap Atom Atom) : Option Value := if m.isEmpty then none else some (.map m)

/-- `mutate(current, mutator, value)`: the new value and this step's
    difference (none = nil interface).  The mutation has passed
    ValidateMutation.  Modelled as repaired for D10 (no aliasing between the
    returned value and the difference) and D34 (the difference of an
    arithmetic mutation of a set is the set difference, not the new set). -/
def mutate (current : Value) (m : Mutator) (value : Value) : Value × Option Value :=
  match current, value with
  | .atom a, .atom b =>
    if isArith m then let n := Value.atom (arithAtom m a b); (n, some n) else (current, none)
  | .set l, .atom b =>
    match m with
    | .insert => let r := insertAll l [b]; (.set r.1, optOfList r.2)
    | .delete => let r := removeAll l [b]; (.set r.1, optOfList r.2)
    | m =>
      let n := l.map (fun a => arithAtom m a b)
      (.set n, (difference (some (.set l)) (some (.set n))).1.bind (fun d => match d with | .set [] => none | d => some d))
  | .set l, .set vs =>
    match m with
    | .insert => let r := insertAll l vs; (.set r.1, optOfList r.2)
    | .delete => let r := removeAll l vs; (.set r.1, optOfList r.2)
    | _ => (current, none)
  | .map cur, .map vs =>
    match m with
    | .insert =>
      let added := (mapPairs vs).filter (fun p => (get? cur p.1).isNone)
      (.map (added ++ cur), optOfMap added)
    | .delete =>
      let removed := (mapPairs vs).filter (fun p => get? cur p.1 == some p.2)
      (.map (removed.foldl (fun acc p => erase acc p.1) cur), optOfMap removed)
    | _ => (current, none)
  | .map cur, .set ks =>
    match m with
    | .delete =>
      let removed := (dedup ks).filterMap (fun k => (get? cur k).map (fun v => (k, v)))
      (.map (removed.foldl (fun acc p => erase acc p.1) cur), optOfMap removed)
    | _ => (current, none)
  | _, _ => (current, none)

/-- `validateMutationAtomic` + `ValidateMutation` on the converted native value -/
def validateMutation (cs : ColSchema) (m : Mutator) (value : Value) : Except String Unit :=
  if !cs.mutable then .error "column is not mutable"
  else
    let atomic (t : AType) (v : Value) : Except String Unit :=
      match v with
      | .atom a =>
        if !a.hasType t then .error "wrong type"
        else match t with
          | .integer => if isArith m then .ok () else .error "wrong mutator"
          | .real => if isArith m && m != .mod then .ok () else .error "wrong mutator"
          | _ => .error "atomic type does not support mutation"
      | _ => .error "wrong type"
    match cs.kind with
    | .set =>
      if m == .insert || m == .delete then
        match value with
        | .set l => if l.all (·.hasType cs.key) then .ok () else .error "wrong type"
        | .atom a => if a.hasType cs.key then .ok () else .error "wrong type"
        | _ => .error "wrong type"
      else atomic cs.key value
    | .opt =>
      -- TypeSet with a pointer native type: insert/delete can never match the native type
      if m == .insert || m == .delete then .error "wrong type" else atomic cs.key value
    | .map =>
      match m with
      | .insert => if value.hasNativeType cs then .ok () else .error "wrong type"
      | .delete =>
        match value with
        | .map _ => if value.hasNativeType cs then .ok () else .error "wrong type"
        | .set l => if l.all (·.hasType cs.key) then .ok () else .error "wrong type"
        | _ => .error "wrong type"
      | _ => .error "wrong mutator for map"
    | .atom => if cs.isEnum then .error "enums do not support mutation" else atomic cs.key value

/-- conversion of a mutation value: `OvsToNative`, except that a `delete` on a
    map column may carry a set of keys (`OvsToNativeSlice`) -/
def mutationValue (cs : ColSchema) (m : Mutator) (v : OvsVal) : Except String Value :=
  match cs.kind, m, v with
  | .map, .delete, .set l => do pure (.set (← l.mapM (ovsToNativeAtomic cs.key)))
  | .map, .delete, .atom a => do pure (.set [← ovsToNativeAtomic cs.key a])
  | .set, _, o =>
    -- arithmetic on a set takes an atom; OvsToNative would wrap it in a slice
    ovsToNative cs o
  | _, _, o => ovsToNative cs o

structure RowUpdate2 where
  initial : Option OvsRow := none
  insert : Option OvsRow := none
  modify : Option OvsRow := none
  delete : Bool := false
  old : Option OvsRow := none
  new : Option OvsRow := none
  deriving Repr, DecidableEq

structure ModelUpdate where
  ru2 : Option RowUpdate2 := none
  old : Option Model := none
  new : Option Model := none
  deriving Repr, DecidableEq

def ModelUpdate.isEmpty (u : ModelUpdate) : Bool := u.ru2.isNone && u.old.isNone && u.new.isNone

def ovsValOfOpt : Option Value → OvsVal
  | some (.set l) => .set l
  | some (.map m) => .map m
  | some (.atom a) => .atom a
  | some (.opt none) => .set []
  | some (.opt (some a)) => .set [a]
  | none => .set []

/-- `mergeModifyRow(ts, o, a, b)` -/
def mergeModifyRow (ts : TableSchema) (o a b : OvsRow) : Option OvsRow :=
  let r := (mapKeysDedup b).foldl (fun (acc : OvsRow) k =>
    match get? b k with
    | none => acc
    | some bv =>
      match get? acc k with
      | none => insert acc k bv
      | some av =>
        let isOpt := match get? ts.cols k with | some cs => cs.kind == .opt | none => false
        let res : OvsVal × Bool :=
          match bv, av with
          | .set bs, .set as =>
            if !isOpt then
              let r := setDifference (some as) (some bs)
              (.set (r.1.getD []), r.2)
            else
              -- single-value sets are merged as atomic values w.r.t. the original
              let ov : OvsVal := (get? o k).getD (.set [])
              (bv, !(ov == bv))
          | .map bm, .map am =>
            let om := match get? o k with | some (.map m) => some m | _ => none
            let r := mergeMapDifference om (some am) (some bm)
            (.map (r.1.getD []), r.2)
          | bv, _ =>
            -- a missing original column holds the zero value; the default UUID has
            -- two representations ("" and all zeros), both omitted from rows
            let dflt : OvsVal := match bv with
              | .atom (.uuid u) => if u == zeroUUID || u == "" then bv else zeroLike bv
              | _ => zeroLike bv
            let ov : OvsVal := (get? o k).getD dflt
            (bv, !(ov == bv))
        if res.2 then insert acc k res.1 else erase acc k) a
  if r.isEmpty then none else some r
where
  mapKeysDedup (m : OvsRow) : List String := (keys m).eraseDups
  zeroLike : OvsVal → OvsVal
    | .atom (.int _) => .atom (.int 0)
    | .atom (.real _) => .atom (.real 0)
    | .atom (.bool _) => .atom (.bool false)
    | .atom (.str _) => .atom (.str "")
    | .atom (.uuid _) => .atom (.uuid "")
    | .set _ => .set []
    | .map _ => .map []

/-- `mergeRowUpdate(ts, a, b)`; `none` in the outer option = error -/
def mergeRowUpdate (ts : TableSchema) (a b : Option RowUpdate2) : Option (Option RowUpdate2) :=
  match a, b with
  | a, none => some a
  | none, some b => some (some b)
  | some a, some b =>
    if a.insert.isSome && b.modify.isSome then
      some (some { a with new := b.new, insert := b.new })
    else if a.modify.isSome && b.modify.isSome then
      match a.old, a.modify, b.modify with
      | some o, some am, some bm =>
        match mergeModifyRow ts o am bm with
        | none => some none
        | some m => some (some { a with new := b.new, modify := some m })
      | _, _, _ => none   -- nil dereference in Go; unreachable for updates built by this package
    else if a.insert.isSome && b.delete then some none
    else if b.delete then
      some (some { a with initial := none, insert := none, modify := none, new := none, delete := true })
    else none

/-- `merge(ts, a, b)`; `none` = error "sequence of updates not supported" -/
def mergeUpdate (ts : TableSchema) (a b : ModelUpdate) : Option ModelUpdate :=
  let models : Option (Option Model × Option Model) :=
    if b.old.isNone && b.new.isNone then some (a.old, a.new)
    else if a.old.isNone && a.new.isNone then some (b.old, b.new)
    else if a.new.isSome && b.old.isSome && b.new.isSome then some (a.old, b.new)
    else if b.old.isSome && b.new.isNone then some (a.old, none)
    else none
  match models with
  | none => none
  | some (o, n) =>
    match mergeRowUpdate ts a.ru2 b.ru2 with
    | none => none
    | some none => some {}
    | some (some r) => some { ru2 := some r, old := o, new := n }

/-- `addUpdate`: merge with the accumulated update of the row -/
def addUpdate (ts : TableSchema) (acc : ModelUpdate) (u : ModelUpdate) : Except OpErr ModelUpdate :=
  match mergeUpdate ts acc u with
  | none => .error .other
  | some r => .ok r

def liftE {α} (e : Except String α) : Except OpErr α :=
  match e with
  | .ok v => .ok v
  | .error _ => .error .other

/-- `updateOrModifyModel`: returns (changed, new model, modify row) -/
def updateOrModifyModel (ts : TableSchema) (m : Model) (change : OvsRow) (isModify : Bool) :
    Except OpErr (Bool × Model × OvsRow) :=
  (mergeModifyRow.mapKeysDedup change).foldlM (fun (acc : Bool × Model × OvsRow) c =>
    match ts.column c, get? change c with
    | some cs, some uo =>
      match acc.2.1.field c with
      | none => .error .other
      | some cur => do
        let un ← liftE (ovsToNative cs uo)
        if isModify then
          let r := applyDifference (some cur) (some un)
          if r.2 && !cs.mutable then .error .constraint
          else match r.1 with
            | some nv => pure (acc.1 || r.2, acc.2.1.setField c nv, acc.2.2)
            | none => .error .other
        else
          let r := difference (some cur) (some un)
          if r.2 && !cs.mutable then .error .constraint
          else do
            let delta ← if r.2 then do
                let d ← liftE (nativeToOvs cs (r.1.getD un))
                pure (insert acc.2.2 c d)
              else pure acc.2.2
            pure (acc.1 || r.2, acc.2.1.setField c un, delta)
    | _, _ => pure acc) (false, m, [])

inductive RowOperation where
  | insert (row : OvsRow)
  | update (row : OvsRow)
  | mutate (ms : List Mutation)
  | delete
  deriving Repr

/-- `ModelUpdates.AddOperation` for the row `uuid`, whose current model is
    `current` (none for insert) -/
def addOperation (ts : TableSchema) (acc : ModelUpdate) (uuid : UUID) (current : Option Model)
    (op : RowOperation) : Except OpErr ModelUpdate :=
  match op, current with
  | .insert row, _ => do
    let m ← liftE (getRowData ts row (newModel ts))
    let m := { m with uuid := uuid }
    let r ← liftE (newRow ts m)
    addUpdate ts acc { old := none, new := some m, ru2 := some { insert := some r, new := some r } }
  | .update row, some old => do
    let oldRow ← liftE (newRow ts old)
    let (changed, new, delta) ← updateOrModifyModel ts old row false
    if !changed then pure acc
    else do
      let newR ← liftE (newRow ts new)
      addUpdate ts acc { old := some old, new := some new,
                         ru2 := some { modify := some delta, old := some oldRow, new := some newR } }
  | .mutate ms, some old => do
    let oldRow ← liftE (newRow ts old)
    let (new, diffs) ← ms.foldlM (fun (acc : Model × AMap String Value) mu =>
      match get? ts.cols mu.col with
      | none => pure acc
      | some cs => do
        let nv ← liftE (mutationValue cs mu.mutator mu.val)
        liftE (validateMutation cs mu.mutator nv)
        match nv, mu.mutator with
        | .atom (.int 0), .div => throw OpErr.domain
        | .atom (.int 0), .mod => throw OpErr.domain
        | .atom (.real r), .div => if r == 0 then throw OpErr.domain
        | _, _ => pure ()
        match acc.1.field mu.col, old.field mu.col with
        | some cur, some o =>
          if outOfRange cur mu.mutator nv then throw OpErr.range
          let (newV, diff) := mutate cur mu.mutator nv
          let r := mergeDifference (some o) (get? acc.2 mu.col) diff
          let diffs := match r.2, r.1 with
            | true, some d => insert acc.2 mu.col d
            | _, _ => erase acc.2 mu.col
          pure (acc.1.setField mu.col newV, diffs)
        | _, _ => throw OpErr.other) (old, [])
    if diffs.isEmpty then pure acc
    else do
      let delta ← (mergeModifyRow.mapKeysDedup (diffs.map (fun p => (p.1, OvsVal.set [])))).foldlM
        (fun (d : OvsRow) c =>
          match get? ts.cols c, get? diffs c with
          | some cs, some v => do
            let o ← liftE (nativeToOvs cs v)
            pure (insert d c o)
          | _, _ => pure d) []
      let newR ← liftE (newRow ts new)
      addUpdate ts acc { old := some old, new := some new,
                         ru2 := some { modify := some delta, old := some oldRow, new := some newR } }
  | .delete, some old => do
    let oldRow ← liftE (newRow ts old)
    addUpdate ts acc { old := some old, new := none, ru2 := some { delete := true, old := some oldRow } }
  | _, none => .error .other

/-- `ModelUpdates.AddRowUpdate2` (what a client does with an update2/update3 row) -/
def addRowUpdate2 (ts : TableSchema) (acc : ModelUpdate) (uuid : UUID) (current : Option Model)
    (ru : RowUpdate2) : Except OpErr ModelUpdate :=
  let ru := if ru.initial.isSome then { ru with insert := ru.initial } else ru
  match ru.insert, ru.modify with
  | some ins, _ => do
    let m ← liftE (getRowData ts ins (newModel ts))
    let m := if uuid != "" then { m with uuid := uuid } else m
    addUpdate ts acc { new := some m, ru2 := some ru }
  | none, some mod =>
    match current with
    | none => .error .other
    | some old => do
      let (changed, new, _) ← updateOrModifyModel ts old mod true
      if !changed then pure acc
      else addUpdate ts acc { old := some old, new := some new, ru2 := some ru }
  | none, none => addUpdate ts acc { old := current, ru2 := some ru }

/-- `ModelUpdates.AddRowUpdate` (RFC 7047 `update` notification rows) -/
def addRowUpdate (ts : TableSchema) (acc : ModelUpdate) (uuid : UUID) (current : Option Model)
    (old new : Option OvsRow) : Except OpErr ModelUpdate :=
  match old, new with
  | none, some n => do
    let m ← liftE (getRowData ts n (newModel ts))
    let m := if uuid != "" then { m with uuid := uuid } else m
    addUpdate ts acc { new := some m, ru2 := some { new := some n } }
  | some o, some n =>
    match current with
    | none => .error .other
    | some cur => do
      let (changed, newM, _) ← updateOrModifyModel ts cur n false
      if !changed then pure acc
      else addUpdate ts acc { old := some cur, new := some newM, ru2 := some { old := some o, new := some n } }
  | o, none => addUpdate ts acc { old := current, ru2 := some { old := o } }

end Ovsdb
