import Ovsdb.Model.Basic
/-
  Model of updates/difference.go: difference, applyDifference, mergeDifference,
  setDifference, mergeMapDifference, mergeAtomicDifference.

  A Go `interface{}` that may be nil is an `Option Value`.  Slices are lists
  (the Go code determines the result only up to order: it iterates a Go map);
  maps are association lists read through `AMap.get?`.
-/
namespace Ovsdb
open AMap

/-- elements of `l`, each once, in first-occurrence order (the Go code loads
    `b` into a `map[interface{}]struct{}`, and Go maps hold each key once) -/
def dedup : List Atom → List Atom
  | [] => []
  | x :: t => x :: (dedup t).filter (fun y => y ≠ x)

/-- setDifference on the element lists, for the general (both non-empty) case:
    one occurrence of every distinct element of `b` is removed from `a`, and
    the distinct elements of `b` that were not in `a` are appended. -/
def setDiffCore (a b : List Atom) : List Atom :=
  let bs := dedup b
  (bs.foldl (fun acc x => acc.erase x) a) ++ bs.filter (fun x => x ∉ a)

/-- `setDifference(a, b)`; `none` = nil interface / invalid reflect value. -/
def setDifference (a b : Option (List Atom)) : Option (List Atom) × Bool :=
  match a, b with
  | none, none => (none, false)
  | none, some b => (some b, b.length != 0)
  | some a, none => (some a, a.length != 0)
  | some a, some b =>
    if a.length = 0 then (some b, b.length != 0)
    else if b.length = 0 then (some a, a.length != 0)
    else
      let r := setDiffCore a b
      if r.length = 0 then (some [], false) else (some r, true)

/-- one step of the loop of mergeMapDifference for key `k` with `b`-value `bv` -/
def mergeMapStep (o a0 : AMap Atom Atom) (acc : AMap Atom Atom) (k bv : Atom) : AMap Atom Atom :=
  match get? o k, get? a0 k with
  | some ov, some av =>
    if ov = bv then erase acc k
    else if av = bv then insert acc k ov
    else insert acc k bv
  | none, some av =>
    if av = bv then erase acc k else insert acc k bv
  | _, none => insert acc k bv

/-- the (key, value) pairs of a Go map given as an association list: each key
    once, with the value `get?` returns -/
def mapPairs (m : AMap Atom Atom) : List (Atom × Atom) :=
  (dedup (keys m)).filterMap (fun k => (get? m k).map (fun v => (k, v)))

def mergeMapCore (o a b : AMap Atom Atom) : AMap Atom Atom :=
  (mapPairs b).foldl (fun acc p => mergeMapStep o a acc p.1 p.2) a

def mapLen (m : AMap Atom Atom) : Nat := (dedup (keys m)).length

/-- `mergeMapDifference(o, a, b)` -/
def mergeMapDifference (o a b : Option (AMap Atom Atom)) : Option (AMap Atom Atom) × Bool :=
  match a, b with
  | none, none => (none, false)
  | none, some b => (some b, mapLen b != 0)
  | some a, none => (some a, mapLen a != 0)
  | some a, some b =>
    if mapLen a = 0 then (some b, mapLen b != 0)
    else if mapLen b = 0 then (some a, mapLen a != 0)
    else
      let r := mergeMapCore (o.getD []) a b
      if mapLen r = 0 then (some [], false) else (some r, true)

/-- Go kind of a value, as far as `mergeDifference` distinguishes -/
inductive Kind where | slice | map | other
  deriving DecidableEq, Repr

def Value.kind : Value → Kind
  | .set _ => .slice
  | .map _ => .map
  | _ => .other

def asSet : Option Value → Option (List Atom)
  | some (.set l) => some l
  | _ => none
def asMap : Option Value → Option (AMap Atom Atom)
  | some (.map m) => some m
  | _ => none

/-- `reflect.DeepEqual` on native values of one column type: slices
    element-wise in order, maps extensionally, pointers by pointee -/
def deepEqual (a b : Value) : Bool :=
  match a, b with
  | .map x, .map y =>
    mapLen x == mapLen y && (dedup (keys x)).all (fun k => get? x k == get? y k)
  | a, b => a == b

def deepEqualOpt : Option Value → Option Value → Bool
  | none, none => true
  | some a, some b => deepEqual a b
  | _, _ => false

/-- `mergeAtomicDifference(o, a, b)` -/
def mergeAtomicDifference (o a b : Option Value) : Option Value × Bool :=
  match o with
  | some _ => (b, !deepEqualOpt o b)
  | none => (b, !deepEqualOpt a b)

/-- `mergeDifference(o, a, b)`.  The kind is taken from `b`, else from `a`. -/
def mergeDifference (o a b : Option Value) : Option Value × Bool :=
  let kind := match b, a with
    | some v, _ => some v.kind
    | none, some v => some v.kind
    | none, none => none
  match kind with
  | none => (none, false)
  | some .slice =>
    let r := setDifference (asSet a) (asSet b)
    (r.1.map Value.set, r.2)
  | some .map =>
    let r := mergeMapDifference (asMap o) (asMap a) (asMap b)
    (r.1.map Value.map, r.2)
  | some .other => mergeAtomicDifference o a b

/-- `difference(a, b)` -/
def difference (a b : Option Value) : Option Value × Bool := mergeDifference none a b

def valueLen : Value → Nat
  | .set l => l.length
  | .map m => mapLen m
  | _ => 0

/-- `applyDifference(v, d)` -/
def applyDifference (v d : Option Value) : Option Value × Bool :=
  match d with
  | none => (v, false)
  | some dv =>
    let r := difference v d
    match dv.kind with
    | .slice | .map =>
      if !r.2 && valueLen dv > 0 then (r.1, true)
      else (r.1, r.2 && valueLen dv > 0)
    | .other => r

end Ovsdb
