import Ovsdb.Model.Txn
/-
  Model of server/monitor.go: the per-monitor filters that turn the aggregated
  update of a committed transaction into an `update` (RFC 7047) or
  `update2`/`update3` notification, and of OvsdbServer.Transact's notify step.

  Modelled as repaired: a request without `select` selects everything and a
  request without `columns` monitors all columns (D6/D35), a row whose changes
  are all in unmonitored columns is not reported (D18), `update` rows carry the
  columns that returned to their default value (D4).
-/
namespace Ovsdb
open AMap

structure MonReq where
  columns : Option (List String)      -- none = all columns
  insert : Bool := true
  delete : Bool := true
  modify : Bool := true
  initial : Bool := true
  deriving Repr

/-- table -> request; empty = every table with every column -/
abbrev Monitor := AMap String MonReq

def filterCols (req : Option MonReq) (r : OvsRow) : OvsRow :=
  match req.bind (·.columns) with
  | none => r
  | some cols => r.filter (fun p => p.1 == "_uuid" || p.1 ∈ cols)

structure Notif2 where
  table : String
  uuid : UUID
  insert : Option OvsRow := none
  modify : Option OvsRow := none
  delete : Bool := false
  deriving Repr

structure Notif1 where
  table : String
  uuid : UUID
  old : Option OvsRow := none
  new : Option OvsRow := none
  deriving Repr

def reqFor (m : Monitor) (t : String) : Option (Option MonReq) :=
  if m.isEmpty then some none else (get? m t).map some

def selected (req : Option MonReq) (ins mod del : Bool) : Bool :=
  match req with
  | none => ins || mod || del
  | some q => (ins && q.insert) || (mod && q.modify) || (del && q.delete)

/-- a row is empty up to `_uuid` -/
def noColumns (r : OvsRow) : Bool := r.all (fun p => p.1 == "_uuid")

/-- `monitor.filter2` -/
def filter2 (m : Monitor) (upd : Updates) : List Notif2 :=
  upd.filterMap (fun p =>
    match reqFor m p.1.1, p.2.ru2 with
    | some req, some ru =>
      if selected req ru.insert.isSome ru.modify.isSome ru.delete then
        let mod := ru.modify.map (filterCols req)
        -- a modification that touches no monitored column is not reported
        if ru.insert.isNone && !ru.delete && (mod.map noColumns).getD false then none
        else some { table := p.1.1, uuid := p.1.2, insert := ru.insert.map (filterCols req), modify := mod, delete := ru.delete }
      else none
    | _, _ => none)

/-- columns of the modify row absent from the new row returned to their default:
    `update` carries them explicitly -/
def withDefaults (modify : Option OvsRow) (new : OvsRow) : OvsRow :=
  match modify with
  | none => new
  | some mo =>
    new ++ (mo.filter (fun p => (get? new p.1).isNone)).map (fun p =>
      (p.1, match p.2 with
        | .set _ => OvsVal.set []
        | .map _ => OvsVal.map []
        | v => v))

/-- `monitor.filter` (RFC 7047 `update`) -/
def filter1 (m : Monitor) (upd : Updates) : List Notif1 :=
  upd.filterMap (fun p =>
    match reqFor m p.1.1, p.2.ru2 with
    | some req, some ru =>
      let isIns := ru.new.isSome && ru.old.isNone
      let isMod := ru.new.isSome && ru.old.isSome
      let isDel := ru.new.isNone && ru.old.isSome
      if selected req isIns isMod isDel then
        let mod := ru.modify.map (filterCols req)
        if isMod && (mod.map noColumns).getD false then none
        else some { table := p.1.1, uuid := p.1.2, old := ru.old.map (filterCols req),
                    new := ru.new.map (fun n => filterCols req (if isMod then withDefaults ru.modify n else n)) }
      else none
    | _, _ => none)

end Ovsdb
