import Ovsdb.Model.Basic
/-
  Schema, OVS-notation values (what `ovsdb.Row` holds after decoding: atoms,
  ovsdb.UUID, OvsSet, OvsMap) and the conversions of ovsdb/bindings.go between
  them and native values (NativeToOvs, OvsToNative, IsDefaultValue) and of
  mapper/mapper.go (NewRow, GetRowData).
-/
namespace Ovsdb
open AMap

inductive AType where
  | integer | real | boolean | string | uuid
  deriving DecidableEq, Repr, Inhabited

inductive ColKind where
  | atom | opt | set | map
  deriving DecidableEq, Repr, Inhabited

structure ColSchema where
  kind : ColKind
  key : AType
  val : AType := .string
  mutable : Bool := true
  min : Nat := 1
  isEnum : Bool := false
  refTable : String := ""       -- key base type refTable ("" = none)
  refStrong : Bool := true
  valRefTable : String := ""
  valRefStrong : Bool := true
  deriving Repr, Inhabited

structure TableSchema where
  cols : AMap String ColSchema
  indexes : List (List String) := []
  isRoot : Bool := true
  deriving Repr, Inhabited

abbrev DbSchema := AMap String TableSchema

/-- `TableSchema.Column`: `_uuid` is always a column -/
def TableSchema.column (ts : TableSchema) (c : String) : Option ColSchema :=
  if c = "_uuid" then some { kind := .atom, key := .uuid } else get? ts.cols c

inductive OvsVal where
  | atom (a : Atom)
  | set (l : List Atom)
  | map (m : AMap Atom Atom)
  deriving DecidableEq, Repr, Inhabited

abbrev OvsRow := AMap String OvsVal

def Atom.hasType : Atom → AType → Bool
  | .int _, .integer => true
  | .real _, .real => true
  | .bool _, .boolean => true
  | .str _, .string => true
  | .uuid _, .uuid => true
  | _, _ => false

def zeroAtom : AType → Atom
  | .integer => .int 0
  | .real => .real 0
  | .boolean => .bool false
  | .string => .str ""
  | .uuid => .uuid ""

/-- the Go zero value of the native type of a column -/
def zeroValue (cs : ColSchema) : Value :=
  match cs.kind with
  | .atom => .atom (zeroAtom cs.key)
  | .opt => .opt none
  | .set => .set []
  | .map => .map []

/-- does the native value have the column's native type (`NativeType(column)`)? -/
def Value.hasNativeType (v : Value) (cs : ColSchema) : Bool :=
  match cs.kind, v with
  | .atom, .atom a => a.hasType cs.key
  | .opt, .opt none => true
  | .opt, .opt (some a) => a.hasType cs.key
  | .set, .set l => l.all (·.hasType cs.key)
  | .map, .map m => m.all (fun p => p.1.hasType cs.key && p.2.hasType cs.val)
  | _, _ => false

def zeroUUID : String := "00000000-0000-0000-0000-000000000000"

/-- Go float64 -> int conversion (truncation towards zero) -/
def truncRat (r : Rat) : Int := if r < 0 then -((-r).floor) else r.floor

/-- `OvsToNativeAtomic(basicType, ovsElem)` -/
def ovsToNativeAtomic (t : AType) (a : Atom) : Except String Atom :=
  match t, a with
  | .integer, .int i => .ok (.int i)
  | .integer, .real r => .ok (.int (truncRat r))   -- JSON numbers arrive as float64 and are converted
  | .real, .real r => .ok (.real r)
  | .boolean, .bool b => .ok (.bool b)
  | .string, .str s => .ok (.str s)
  | .uuid, .uuid u => .ok (.uuid u)
  | _, _ => .error "wrong type"

def ovsPairToNative (kt vt : AType) (p : Atom × Atom) : Except String (Atom × Atom) :=
  match ovsToNativeAtomic kt p.1, ovsToNativeAtomic vt p.2 with
  | .ok k, .ok v => .ok (k, v)
  | .error e, _ => .error e
  | _, .error e => .error e

/-- `OvsToNative(column, ovsElem)` -/
def ovsToNative (cs : ColSchema) (o : OvsVal) : Except String Value :=
  match cs.kind, o with
  | .atom, .atom a => do pure (.atom (← ovsToNativeAtomic cs.key a))
  | .atom, _ => .error "wrong type"
  | .opt, .set [] => .ok (.opt none)
  | .opt, .set [a] => do pure (.opt (some (← ovsToNativeAtomic cs.key a)))
  | .opt, .set _ => .error "expected a slice of len =< 1"
  | .opt, .atom a => do pure (.opt (some (← ovsToNativeAtomic cs.key a)))
  | .opt, .map _ => .error "wrong type"
  | .set, .set l => do pure (.set (← l.mapM (ovsToNativeAtomic cs.key)))
  | .set, .atom a => do pure (.set [← ovsToNativeAtomic cs.key a])
  | .set, .map _ => .error "wrong type"
  | .map, .map m =>
    match m.mapM (ovsPairToNative cs.key cs.val) with
    | .ok ps => .ok (.map ps)
    | .error e => .error e
  | .map, _ => .error "wrong type"

/-- `NativeToOvs(column, rawElem)` -/
def nativeToOvs (cs : ColSchema) (v : Value) : Except String OvsVal :=
  if !v.hasNativeType cs then .error "wrong type"
  else match v with
  | .atom a => .ok (.atom a)
  | .opt none => .ok (.set [])
  | .opt (some a) => .ok (.set [a])
  | .set l => .ok (.set l)
  | .map m => .ok (.map m)

/-- `IsDefaultValue(column, nativeElem)` -/
def isDefaultValue (cs : ColSchema) (v : Value) : Bool :=
  match v with
  | .opt o => o.isNone
  | .set l => l.isEmpty
  | .map m => m.isEmpty
  | .atom (.uuid u) => u == zeroUUID || u == ""
  | .atom (.str s) => if cs.key == .uuid then (s == zeroUUID || s == "") else s == ""
  | .atom (.int i) => i == 0
  | .atom (.real r) => r == 0
  | .atom (.bool _) => false

/-- a model (struct) is its uuid and a value for every column of the table -/
structure Model where
  uuid : UUID
  row : AMap String Value
  deriving Repr, DecidableEq

/-- the zero model of a table (`dbModel.NewModel`) -/
def newModel (ts : TableSchema) : Model :=
  ⟨"", ts.cols.map (fun p => (p.1, zeroValue p.2))⟩

def Model.field (m : Model) (c : String) : Option Value :=
  if c = "_uuid" then some (.atom (.uuid m.uuid)) else get? m.row c

def Model.setField (m : Model) (c : String) (v : Value) : Model :=
  if c = "_uuid" then
    match v with
    | .atom (.uuid u) => { m with uuid := u }
    | .atom (.str u) => { m with uuid := u }
    | _ => m
  else { m with row := insert m.row c v }

def dedupKeys (m : AMap String ColSchema) : List String := (keys m).eraseDups

/-- one column of `Mapper.NewRow`: `skip` says which columns are left out -/
def newRowStepG (skip : String → ColSchema → Value → Bool) (ts : TableSchema) (m : Model) (acc : OvsRow) (c : String) :
    Except String OvsRow :=
  match get? ts.cols c, get? m.row c with
  | some cs, some v =>
    if skip c cs v then .ok acc
    else match nativeToOvs cs v with
      | .ok o => .ok (acc ++ [(c, o)])
      | .error e => .error e
  | _, _ => .ok acc

def newRowG (skip : String → ColSchema → Value → Bool) (ts : TableSchema) (m : Model) (withUUID : Bool) : Except String OvsRow :=
  match (dedupKeys ts.cols).foldlM (newRowStepG skip ts m) [] with
  | .ok cols => if !withUUID then .ok cols else .ok (("_uuid", .atom (.uuid m.uuid)) :: cols)
  | .error e => .error e

/-- `Mapper.NewRow(info)` without field selection: default values are omitted
    (`_uuid` included: an empty or all-zeros uuid is a default value) -/
def skipDefault : String → ColSchema → Value → Bool := fun _ cs v => isDefaultValue cs v

def newRow (ts : TableSchema) (m : Model) : Except String OvsRow :=
  newRowG skipDefault ts m (!(m.uuid == "" || m.uuid == zeroUUID))

/-- `Mapper.NewRow(info, fields...)`: exactly the selected columns, default or not -/
def skipUnselected (fields : List String) : String → ColSchema → Value → Bool := fun c _ _ => !fields.contains c

def newRowFields (ts : TableSchema) (m : Model) (fields : List String) : Except String OvsRow :=
  newRowG (skipUnselected fields) ts m (fields.contains "_uuid")

/-- one column of `Mapper.GetRowData` -/
def getRowDataStep (ts : TableSchema) (row : OvsRow) (acc : Model) (c : String) : Except String Model :=
  match get? ts.cols c, get? row c with
  | some cs, some o =>
    match ovsToNative cs o with
    | .ok v => .ok (acc.setField c v)
    | .error e => .error e
  | _, _ => .ok acc

/-- `Mapper.GetRowData(row, info)`: columns of the schema present in the row
    are converted and stored; others are left untouched -/
def getRowData (ts : TableSchema) (row : OvsRow) (m : Model) : Except String Model :=
  (dedupKeys ts.cols).foldlM (getRowDataStep ts row) m

/-- `model.CreateModel(dbModel, table, row, uuid)` -/
def createModel (ts : TableSchema) (row : OvsRow) (uuid : UUID) : Except String Model :=
  match getRowData ts row (newModel ts) with
  | .ok m => if uuid = "" then .ok m else .ok { m with uuid := uuid }
  | .error e => .error e

end Ovsdb
