/-
  modelgen/table.go naming (FieldName, StructName, enumName, FileName) over ASCII
  identifiers. Characters are their code points (Nat), so that case arithmetic is
  linear arithmetic.
-/
namespace Ovsdb.Naming

abbrev Str := List Nat

def isLower (c : Nat) : Bool := 97 ≤ c && c ≤ 122
def isUpper (c : Nat) : Bool := 65 ≤ c && c ≤ 90
def isLetter (c : Nat) : Bool := isLower c || isUpper c
def isDigit (c : Nat) : Bool := 48 ≤ c && c ≤ 57
/-- '_' = 95, '-' = 45: the separators of `camelCase` -/
def isSep (c : Nat) : Bool := c = 95 || c = 45
/-- characters of an RFC 7047 <id> -/
def isIdChar (c : Nat) : Bool := isLetter c || isDigit c || c = 95
def lower (c : Nat) : Nat := if isUpper c then c + 32 else c
def upper (c : Nat) : Nat := if isLower c then c - 32 else c

/-- `strings.FieldsFunc(s, r == '_' || r == '-')`: the maximal runs of other characters -/
def fieldsAux : Str → Str → List Str
  | [], cur => if cur.isEmpty then [] else [cur.reverse]
  | c :: cs, cur =>
    if isSep c then (if cur.isEmpty then [] else [cur.reverse]) ++ fieldsAux cs []
    else fieldsAux cs (c :: cur)

def fields (s : Str) : List Str := fieldsAux s []

/-- `cases.Title(language.Und, cases.NoLower)` on identifier characters (one word): the first letter is
    upper-cased, nothing else changes -/
def title : Str → Str
  | [] => []
  | c :: cs => if isLetter c then upper c :: cs else c :: title cs

/-- `expandInitilaisms`: a known initialism, or its plural, is written in capitals -/
def expand (inits : List Str) (s : Str) : Str :=
  let u := s.map upper
  if inits.contains u then u
  else if s.getLast? = some 115 ∧ inits.contains (s.dropLast.map upper) then s.dropLast.map upper ++ [115]
  else s

/-- `camelCase` -/
def camelCase (inits : List Str) (field : Str) : Str :=
  let s := field.map lower
  let parts := fields s
  if parts.length > 1 then (parts.map (fun p => title (expand inits p))).flatten
  else title (expand inits s)

/-- trailing underscores removed -/
def trimEnd : Str → Str
  | [] => []
  | c :: cs =>
    match trimEnd cs with
    | [] => if c = 95 then [] else [c]
    | r => c :: r

/-- `strings.Trim(s, "_")` -/
def trimU (s : Str) : Str := trimEnd (s.dropWhile (· = 95))

/-- `FieldName` -/
def fieldName (inits : List Str) (column : Str) : Str := camelCase inits (trimU column)

/-- `StructName`: underscores removed, first letter upper-cased -/
def structName (table : Str) : Str := title (table.filter (· ≠ 95))

/-- `enumName` -/
def enumName (inits : List Str) (table column : Str) : Str :=
  title (structName table) ++ camelCase inits column

/-- `FileName` -/
def fileName (table : Str) : Str := table.map lower ++ [46, 103, 111]

/-- an exported Go identifier (ASCII): an upper-case letter followed by letters, digits and underscores -/
def exportedIdent : Str → Bool
  | [] => false
  | c :: cs => isUpper c && cs.all isIdChar

def ofString (s : String) : Str := s.toList.map Char.toNat
def toString (s : Str) : String := String.ofList (s.map Char.ofNat)

end Ovsdb.Naming
