import Ovsdb.CodecUpdates
import Ovsdb.CodecCache
import Ovsdb.Model.Txn
namespace Ovsdb
open Lean

def wcondOfJson (j : Json) : P WCond := do
  return { col := ← jStr (← jField j "col"), fn := ← condFnOfString (← jStr (← jField j "fn")),
           val := ← ovsValOfJson (← jField j "val") }

def operationOfJson (j : Json) : P Operation := do
  return { op := ← jStr (← jField j "op"),
           table := ← jFieldD j "table" jStr "",
           row := ← jFieldD j "row" ovsRowOfJson [],
           rows := ← jFieldD j "rows" (jList ovsRowOfJson) [],
           columns := ← jFieldD j "columns" (jList jStr) [],
           mutations := ← jFieldD j "mutations" (jList mutationOfJson) [],
           timeout := ← jOpt jInt ((j.getObjVal? "timeout").toOption.getD .null),
           where_ := ← jFieldD j "where" (jList wcondOfJson) [],
           untilFn := ← jFieldD j "until" jStr "",
           uuid := ← jFieldD j "uuid" jStr "",
           uuidName := ← jFieldD j "uuid-name" jStr "" }

def dbModelOfJson (j : Json) : P DbModel := do
  let schema ← dbSchemaOfJson j
  let specsJ ← jFieldD j "specs" (jList (pairOfJson jStr (jList specOfJson))) []
  return { schema, specs := specsJ }

def opResultToJson (r : OpResult) : Json :=
  Json.mkObj [("count", .num ⟨r.count, 0⟩), ("error", optToJson Json.str r.error), ("uuid", .str r.uuid),
              ("rows", listToJson ovsRowToJson r.rows)]

def updatesToJson (u : Updates) : Json :=
  listToJson (fun p => Json.mkObj [("table", .str p.1.1), ("uuid", .str p.1.2), ("update", modelUpdateToJson p.2)]) u

def rowsToJson (rs : Rows) : Json :=
  listToJson (fun p => Json.mkObj [("table", .str p.1), ("uuid", .str p.2.1), ("row", rowToJson p.2.2)]) rs.all

def refsToJson (rf : List ((String × String × String × Bool) × UUID × List UUID)) : Json :=
  listToJson (fun e => Json.mkObj [("toTable", .str e.1.1), ("fromTable", .str e.1.2.1), ("fromColumn", .str e.1.2.2.1),
    ("fromValue", .bool e.1.2.2.2), ("to", .str e.2.1), ("from", listToJson Json.str e.2.2)]) rf

end Ovsdb
