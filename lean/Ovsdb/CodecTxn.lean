import Ovsdb.CodecUpdates
import Ovsdb.CodecCache
import Ovsdb.Model.Txn
import Ovsdb.Model.Monitor
namespace Ovsdb
open Lean

def wcondOfJson (j : Json) : P WCond := do
  return { col := ← jStr (← jField j "col"), fn := ← condFnOfString (← jStr (← jField j "fn")),
           val := ← ovsValOfJson (← jField j "val") }

def operationOfJson (j : Json) : P Operation := do
  return { op := ← jStr (← jField j "op"),
           table := ← jFieldD j "table" jStr "",
           row := ← jFieldD j "row" ovsRowOfJson [],
           rows := ← jFieldD j "rows" (jList ovsRowOfJson) [],
           columns := ← jFieldD j "columns" (jList jStr) [],
           mutations := ← jFieldD j "mutations" (jList mutationOfJson) [],
           timeout := ← jOpt jInt ((j.getObjVal? "timeout").toOption.getD .null),
           where_ := ← jFieldD j "where" (jList wcondOfJson) [],
           untilFn := ← jFieldD j "until" jStr "",
           uuid := ← jFieldD j "uuid" jStr "",
           uuidName := ← jFieldD j "uuid-name" jStr "" }

def dbModelOfJson (j : Json) : P DbModel := do
  let schema ← dbSchemaOfJson j
  let specsJ ← jFieldD j "specs" (jList (pairOfJson jStr (jList specOfJson))) []
  return { schema, specs := specsJ }

def opResultToJson (r : OpResult) : Json :=
  Json.mkObj [("count", .num ⟨r.count, 0⟩), ("error", optToJson Json.str r.error), ("uuid", .str r.uuid),
              ("rows", listToJson ovsRowToJson r.rows)]

def updatesToJson (u : Updates) : Json :=
  listToJson (fun p => Json.mkObj [("table", .str p.1.1), ("uuid", .str p.1.2), ("update", modelUpdateToJson p.2)]) u

def rowsToJson (rs : Rows) : Json :=
  listToJson (fun p => Json.mkObj [("table", .str p.1), ("uuid", .str p.2.1), ("row", rowToJson p.2.2)]) rs.all

def refsToJson (rf : List ((String × String × String × Bool) × UUID × List UUID)) : Json :=
  listToJson (fun e => Json.mkObj [("toTable", .str e.1.1), ("fromTable", .str e.1.2.1), ("fromColumn", .str e.1.2.2.1),
    ("fromValue", .bool e.1.2.2.2), ("to", .str e.2.1), ("from", listToJson Json.str e.2.2)]) rf

end Ovsdb

namespace Ovsdb
open Lean

def monReqOfJson (j : Json) : P (String × MonReq) := do
  let t ← jStr (← jField j "table")
  let cols ← jOpt (jList jStr) ((j.getObjVal? "columns").toOption.getD .null)
  let hasSel ← jFieldD j "hasSelect" jBool true
  if hasSel then
    return (t, { columns := cols, insert := ← jFieldD j "insert" jBool true, delete := ← jFieldD j "delete" jBool true,
                 modify := ← jFieldD j "modify" jBool true, initial := ← jFieldD j "initial" jBool true })
  else return (t, { columns := cols })

def monitorOfJson (j : Json) : P Monitor := do jList monReqOfJson (← jField j "requests")

def notif2ToJson (n : Notif2) : Json :=
  Json.mkObj [("table", .str n.table), ("uuid", .str n.uuid), ("insert", optToJson ovsRowToJson n.insert),
              ("modify", optToJson ovsRowToJson n.modify), ("delete", .bool n.delete)]

def notif1ToJson (n : Notif1) : Json :=
  Json.mkObj [("table", .str n.table), ("uuid", .str n.uuid), ("old", optToJson ovsRowToJson n.old),
              ("new", optToJson ovsRowToJson n.new)]

end Ovsdb
