import Ovsdb.Model.Diff
/-
  Lemmas about the difference model (helper lemmas; the property theorems are
  in Ovsdb/Theorems/C10.lean).
-/
namespace Ovsdb
open AMap

theorem mem_dedup (l : List Atom) (x : Atom) : x ∈ dedup l ↔ x ∈ l := by
  induction l with
  | nil => simp [dedup]
  | cons y t ih =>
    simp only [dedup, List.mem_cons, List.mem_filter, ih]
    by_cases h : x = y <;> simp [h]

theorem nodup_dedup (l : List Atom) : (dedup l).Nodup := by
  induction l with
  | nil => simp [dedup]
  | cons y t ih =>
    simp only [dedup, List.nodup_cons, List.mem_filter]
    exact ⟨by simp, ih.filter _⟩

theorem dedup_eq_nil (l : List Atom) : dedup l = [] ↔ l = [] := by
  cases l <;> simp [dedup]

theorem mem_foldl_erase (bs a : List Atom) (ha : a.Nodup) (x : Atom) :
    x ∈ bs.foldl (fun acc y => acc.erase y) a ↔ x ∈ a ∧ x ∉ bs := by
  induction bs generalizing a with
  | nil => simp
  | cons y t ih =>
    simp only [List.foldl_cons]
    rw [ih (a.erase y) (ha.erase y)]
    rw [ha.mem_erase_iff]
    simp only [List.mem_cons, not_or]
    constructor
    · rintro ⟨⟨h1, h2⟩, h3⟩; exact ⟨h2, h1, h3⟩
    · rintro ⟨h2, h1, h3⟩; exact ⟨⟨h1, h2⟩, h3⟩

theorem nodup_foldl_erase (bs a : List Atom) (ha : a.Nodup) :
    (bs.foldl (fun acc y => acc.erase y) a).Nodup := by
  induction bs generalizing a with
  | nil => simpa
  | cons y t ih => exact ih _ (ha.erase y)

/-- membership in the computed set difference: exactly the elements that
    belong to one of the two sets only -/
theorem mem_setDiffCore (a b : List Atom) (ha : a.Nodup) (x : Atom) :
    x ∈ setDiffCore a b ↔ (x ∈ a ∧ x ∉ b) ∨ (x ∈ b ∧ x ∉ a) := by
  simp only [setDiffCore, List.mem_append, List.mem_filter, mem_foldl_erase _ _ ha, mem_dedup,
    decide_eq_true_eq]

theorem nodup_setDiffCore (a b : List Atom) (ha : a.Nodup) : (setDiffCore a b).Nodup := by
  simp only [setDiffCore]
  rw [List.nodup_append]
  refine ⟨nodup_foldl_erase _ _ ha, (nodup_dedup b).filter _, ?_⟩
  intro x hx y hy
  rw [mem_foldl_erase _ _ ha] at hx
  simp only [List.mem_filter, decide_eq_true_eq] at hy
  intro e
  subst e
  exact hy.2 hx.1

/-! ### maps -/

/-- what the loop body of mergeMapDifference leaves under key `k` -/
def mergeMapVal (o a : AMap Atom Atom) (k bv : Atom) : Option Atom :=
  match get? o k, get? a k with
  | some ov, some av => if ov = bv then none else if av = bv then some ov else some bv
  | none, some av => if av = bv then none else some bv
  | _, none => some bv

theorem get?_mergeMapStep (o a0 acc : AMap Atom Atom) (k bv k' : Atom) :
    get? (mergeMapStep o a0 acc k bv) k' = if k' = k then mergeMapVal o a0 k bv else get? acc k' := by
  unfold mergeMapStep mergeMapVal
  split <;> (try split) <;> (try split) <;> simp <;> grind

theorem get?_foldl_mergeMapStep (o a0 : AMap Atom Atom) (ps : List (Atom × Atom)) (acc : AMap Atom Atom)
    (hn : (ps.map Prod.fst).Nodup) (k : Atom) :
    get? (ps.foldl (fun acc p => mergeMapStep o a0 acc p.1 p.2) acc) k =
      match get? ps k with
      | some bv => mergeMapVal o a0 k bv
      | none => get? acc k := by
  induction ps generalizing acc with
  | nil => simp
  | cons p t ih =>
    obtain ⟨pk, pv⟩ := p
    simp only [List.map_cons, List.nodup_cons] at hn
    simp only [List.foldl_cons, get?_cons]
    rw [ih _ hn.2]
    by_cases h : pk = k
    · subst h
      have : get? t pk = none := by
        cases hg : get? t pk with
        | none => rfl
        | some v => exact absurd (mem_keys_of_get? hg) hn.1
      simp [this, get?_mergeMapStep]
    · simp only [h, if_false]
      cases hg : get? t k with
      | none =>
        have : ¬ k = pk := fun e => h e.symm
        simp [get?_mergeMapStep, this]
      | some v => simp

theorem get?_filterMap_pairs (m : AMap Atom Atom) (ks : List Atom) (k : Atom) :
    get? (ks.filterMap (fun k => (get? m k).map (fun v => (k, v)))) k =
      if k ∈ ks then get? m k else none := by
  induction ks with
  | nil => simp
  | cons y t ih =>
    simp only [List.filterMap_cons]
    cases hy : get? m y with
    | none =>
      simp only [Option.map_none, ih, List.mem_cons]
      by_cases e : k = y
      · subst e; simp [hy]
      · simp [e]
    | some v =>
      simp only [Option.map_some, get?_cons, ih, List.mem_cons]
      by_cases e : y = k
      · subst e; simp [hy]
      · have : ¬ k = y := fun e' => e e'.symm
        simp [e, this]

theorem get?_mapPairs (m : AMap Atom Atom) (k : Atom) : get? (mapPairs m) k = get? m k := by
  unfold mapPairs
  rw [get?_filterMap_pairs]
  by_cases h : k ∈ dedup (keys m)
  · simp [h]
  · simp only [h, if_false]
    rw [mem_dedup] at h
    cases hg : get? m k with
    | none => rfl
    | some v => exact absurd (mem_keys_of_get? hg) h

theorem keys_filterMap_pairs_sublist (m : AMap Atom Atom) (ks : List Atom) :
    ((ks.filterMap (fun k => (get? m k).map (fun v => (k, v)))).map Prod.fst).Sublist ks := by
  induction ks with
  | nil => simp
  | cons y t ih =>
    simp only [List.filterMap_cons]
    cases hy : get? m y with
    | none => simpa using ih.cons y
    | some v => simpa using ih.cons_cons y

theorem nodup_keys_mapPairs (m : AMap Atom Atom) : ((mapPairs m).map Prod.fst).Nodup :=
  (keys_filterMap_pairs_sublist m _).nodup (nodup_dedup _)

/-- pointwise characterisation of the merged map difference -/
theorem get?_mergeMapCore (o a b : AMap Atom Atom) (k : Atom) :
    get? (mergeMapCore o a b) k =
      match get? b k with
      | some bv => mergeMapVal o a k bv
      | none => get? a k := by
  unfold mergeMapCore
  rw [get?_foldl_mergeMapStep _ _ _ _ (nodup_keys_mapPairs b), get?_mapPairs]

theorem mapLen_eq_zero (m : AMap Atom Atom) : mapLen m = 0 ↔ m = [] := by
  unfold mapLen
  rw [List.length_eq_zero_iff, dedup_eq_nil]
  cases m <;> simp [keys]

theorem get?_none_of_forall {m : AMap Atom Atom} (h : ∀ k, get? m k = none) : m = [] := by
  cases m with
  | nil => rfl
  | cons p t =>
    obtain ⟨a, b⟩ := p
    have := h a
    simp at this

end Ovsdb
