import Ovsdb.Model.Cache
/-
  Lemmas about the cache index model: pointwise characterisation of the index
  primitives, the four-clause batch invariant for schema indexes, exactness of
  client indexes after every step.
-/
namespace Ovsdb
open AMap

/-- index value of row `u` under `s`, if the row exists -/
def ValAt (R : AMap UUID Row) (s : Spec) (u : UUID) : Option IdxVal := (get? R u).map (idxVal s)

/-- the index step for row `u` whose value goes from `ov` to `nv`
    (none = row absent): what Create / Update / Delete do to one index -/
def stepIndex (ix : Index) (ov nv : Option IdxVal) (u : UUID) : Index :=
  match ov, nv with
  | none, some v => ix.add v u
  | some o, some n => if o = n then ix else (ix.add n u).removeUpdate o u
  | some o, none => ix.removeCond o u
  | none, none => ix

@[simp] theorem stepIndex_spec (ix : Index) (ov nv : Option IdxVal) (u : UUID) :
    (stepIndex ix ov nv u).spec = ix.spec := by
  unfold stepIndex Index.add Index.removeUpdate Index.removeCond
  repeat' split
  all_goals rfl

/-! ### schema indexes -/

def Singletons (ix : Index) : Prop := ∀ v l, get? ix.m v = some l → ∃ u, l = [u]

theorem get?_add_schema (ix : Index) (hs : ix.spec.isSchema = true) (v : IdxVal) (u : UUID) (v' : IdxVal) :
    get? (ix.add v u).m v' = if v' = v then some [u] else get? ix.m v' := by
  unfold Index.add addM
  simp [hs]

theorem get?_removeCond_schema (ix : Index) (hsing : Singletons ix) (v : IdxVal) (u : UUID) (v' : IdxVal) :
    get? (ix.removeCond v u).m v' =
      if v' = v then (if get? ix.m v = some [u] then none else get? ix.m v) else get? ix.m v' := by
  unfold Index.removeCond removeCondM
  cases h : get? ix.m v with
  | none =>
    by_cases e : v' = v
    · subst e; simp [h]
    · simp [e]
  | some cur =>
    obtain ⟨w, hw⟩ := hsing v cur h
    subst hw
    by_cases e : w = u
    · subst e
      simp only [ne_eq, not_true_eq_false, decide_false, List.filter_cons_of_neg, List.filter_nil,
        List.isEmpty_nil, if_true, get?_erase, Bool.false_eq_true, not_false_eq_true]
    · have : ¬ [w] = [u] := by simp [e]
      by_cases e2 : v' = v
      · subst e2; simp [e, this, h]
      · simp [e, this, e2]

theorem singletons_add (ix : Index) (hs : ix.spec.isSchema = true) (hsing : Singletons ix) (v : IdxVal) (u : UUID) :
    Singletons (ix.add v u) := by
  intro v' l h
  rw [get?_add_schema ix hs] at h
  by_cases e : v' = v
  · simp [e] at h; exact ⟨u, h.symm⟩
  · simp [e] at h; exact hsing v' l h

theorem singletons_removeCond (ix : Index) (hsing : Singletons ix) (v : IdxVal) (u : UUID) :
    Singletons (ix.removeCond v u) := by
  intro v' l h
  rw [get?_removeCond_schema ix hsing] at h
  by_cases e : v' = v
  · subst e
    simp at h
    exact hsing v' l h.2
  · simp [e] at h; exact hsing v' l h

/-- Batch invariant of one schema index.  `P` = uuids of the batch not yet
    applied, `F` = index value of every row once the whole batch is applied,
    `V` = current index value of every row. -/
structure BInv (P : UUID → Prop) (F V : UUID → Option IdxVal) (ix : Index) : Prop where
  sing : Singletons ix
  pointsAt : ∀ v u, get? ix.m v = some [u] → V u = some v
  applied : ∀ u v, ¬ P u → V u = some v → get? ix.m v = some [u]
  final : ∀ u, ¬ P u → V u = F u
  pending : ∀ u v, P u → V u = some v → get? ix.m v = some [u] ∨ ∃ u', ¬ P u' ∧ get? ix.m v = some [u']
  uniq : ∀ u u' v, F u = some v → F u' = some v → u = u'

/-- One step of a batch, in any order, preserves the invariant. -/
theorem binv_step (P : UUID → Prop) (F V : UUID → Option IdxVal) (ix : Index)
    (hs : ix.spec.isSchema = true) (inv : BInv P F V ix) (u : UUID) (hu : P u) :
    BInv (fun x => P x ∧ x ≠ u) F (fun x => if x = u then F u else V x) (stepIndex ix (V u) (F u) u) := by
  obtain ⟨hsing, ha, hb, hc, hd, huq⟩ := inv
  have key : ∀ v', get? (stepIndex ix (V u) (F u) u).m v' =
      match V u, F u with
      | none, some v => if v' = v then some [u] else get? ix.m v'
      | some o, some n => if o = n then get? ix.m v' else
          if v' = o then (if (if o = n then some [u] else get? ix.m o) = some [u] then none else
            (if o = n then some [u] else get? ix.m o))
          else if v' = n then some [u] else get? ix.m v'
      | some o, none => if v' = o then (if get? ix.m o = some [u] then none else get? ix.m o) else get? ix.m v'
      | none, none => get? ix.m v' := by
    intro v'
    unfold stepIndex
    cases hV : V u <;> cases hF : F u <;> simp only
    · rw [get?_add_schema ix hs]
    · rw [get?_removeCond_schema ix hsing]
    · rename_i o n
      by_cases e : o = n
      · simp [e]
      · simp only [e, if_false, Index.removeUpdate]
        rw [get?_removeCond_schema _ (singletons_add ix hs hsing n u)]
        simp only [get?_add_schema ix hs, e, if_false]
  have hsing' : Singletons (stepIndex ix (V u) (F u) u) := by
    unfold stepIndex
    cases hV : V u <;> cases hF : F u <;> simp only
    · exact hsing
    · exact singletons_add ix hs hsing _ _
    · exact singletons_removeCond ix hsing _ _
    · split
      · exact hsing
      · exact singletons_removeCond _ (singletons_add ix hs hsing _ _) _ _
  refine ⟨hsing', ?_, ?_, ?_, ?_, huq⟩
  · intro v w h
    rw [key] at h
    cases hV : V u <;> cases hF : F u <;> simp only [hV, hF] at h ⊢ <;> grind
  · intro w v hw h
    rw [key]
    cases hV : V u <;> cases hF : F u <;> simp only [hV, hF] at h ⊢ <;> grind
  · intro w hw
    grind
  · intro w v hw h
    rw [key]
    cases hV : V u <;> cases hF : F u <;> simp only [hV, hF] at h ⊢ <;> grind

end Ovsdb

namespace Ovsdb
open AMap

theorem BInv.congr {P P' : UUID → Prop} {F V V' : UUID → Option IdxVal} {ix : Index}
    (h : BInv P F V ix) (hp : ∀ u, P u ↔ P' u) (hv : ∀ u, V u = V' u) : BInv P' F V' ix := by
  have e1 : P = P' := funext (fun u => propext (hp u))
  have e2 : V = V' := funext hv
  subst e1; subst e2; exact h

/-! ### client indexes: exact after every single step -/

/-- `ix` lists under every value exactly the rows that have it; no empty entries -/
def IxExact (V : UUID → Option IdxVal) (ix : Index) : Prop :=
  (∀ v u, u ∈ uuidsAt ix v ↔ V u = some v) ∧ (∀ v l, get? ix.m v = some l → l ≠ [] ∧ l.Nodup)

theorem mem_uuidsAt_add_client (ix : Index) (hs : ix.spec.isSchema = false) (v : IdxVal) (u : UUID)
    (v' : IdxVal) (u' : UUID) :
    u' ∈ uuidsAt (ix.add v u) v' ↔ (v' = v ∧ u' = u) ∨ u' ∈ uuidsAt ix v' := by
  unfold uuidsAt Index.add addM
  simp only [hs, Bool.false_eq_true, if_false, get?_insert]
  by_cases e : v' = v
  · subst e
    simp only [if_true, Option.getD_some, true_and]
    split <;> simp_all <;> grind
  · simp [e]

theorem entries_add_client (ix : Index) (hs : ix.spec.isSchema = false) (v : IdxVal) (u : UUID)
    (h : ∀ v l, get? ix.m v = some l → l ≠ [] ∧ l.Nodup) :
    ∀ v' l, get? (ix.add v u).m v' = some l → l ≠ [] ∧ l.Nodup := by
  intro v' l
  unfold Index.add addM
  simp only [hs, Bool.false_eq_true, if_false, get?_insert]
  by_cases e : v' = v
  · subst e
    simp only [if_true, Option.some.injEq]
    intro hl
    subst hl
    cases hg : get? ix.m v' with
    | none => simp
    | some cur =>
      obtain ⟨h1, h2⟩ := h v' cur hg
      simp only [Option.getD_some]
      split
      · exact ⟨h1, h2⟩
      · rename_i hn
        refine ⟨by simp, ?_⟩
        rw [List.nodup_append]
        refine ⟨h2, by simp, ?_⟩
        intro a ha b hb
        simp at hb
        subst hb
        intro e; subst e; exact hn ha
  · simp only [e, if_false]; exact h v' l

theorem mem_uuidsAt_removeCond (ix : Index) (v : IdxVal) (u : UUID) (v' : IdxVal) (u' : UUID) :
    u' ∈ uuidsAt (ix.removeCond v u) v' ↔ u' ∈ uuidsAt ix v' ∧ ¬ (v' = v ∧ u' = u) := by
  unfold uuidsAt Index.removeCond removeCondM
  cases hg : get? ix.m v with
  | none =>
    by_cases e : v' = v
    · subst e; simp [hg]
    · simp [e]
  | some cur =>
    simp only
    by_cases e : v' = v
    · subst e
      split
      · rename_i hemp
        simp only [get?_erase, if_true, Option.getD_none, List.not_mem_nil, hg, Option.getD_some,
          true_and, false_iff, not_and, Decidable.not_not]
        intro hm
        rw [List.isEmpty_iff] at hemp
        have := List.filter_eq_nil_iff.mp hemp u' hm
        simpa using this
      · simp [hg, List.mem_filter]
    · split <;> simp [e]

theorem entries_removeCond (ix : Index) (v : IdxVal) (u : UUID)
    (h : ∀ v l, get? ix.m v = some l → l ≠ [] ∧ l.Nodup) :
    ∀ v' l, get? (ix.removeCond v u).m v' = some l → l ≠ [] ∧ l.Nodup := by
  intro v' l
  unfold Index.removeCond removeCondM
  cases hg : get? ix.m v with
  | none => exact h v' l
  | some cur =>
    simp only
    split
    · simp only [get?_erase]
      by_cases e : v' = v
      · simp [e]
      · simp only [e, if_false]; exact h v' l
    · rename_i hne
      simp only [get?_insert]
      by_cases e : v' = v
      · simp only [e, if_true, Option.some.injEq]
        intro hl; subst hl
        refine ⟨?_, (h v cur hg).2.filter _⟩
        intro hc; apply hne; rw [hc]; rfl
      · simp only [e, if_false]; exact h v' l

theorem client_step (V : UUID → Option IdxVal) (ix : Index) (hs : ix.spec.isSchema = false)
    (hex : IxExact V ix) (u : UUID) (nv : Option IdxVal) :
    IxExact (fun x => if x = u then nv else V x) (stepIndex ix (V u) nv u) := by
  obtain ⟨hm, he⟩ := hex
  unfold stepIndex
  cases hV : V u <;> cases nv <;> simp only
  · refine ⟨?_, he⟩
    intro v w; rw [hm]; grind
  · rename_i n
    refine ⟨?_, entries_add_client ix hs n u he⟩
    intro v w
    rw [mem_uuidsAt_add_client ix hs, hm]
    grind
  · rename_i o
    refine ⟨?_, entries_removeCond ix o u he⟩
    intro v w
    rw [mem_uuidsAt_removeCond, hm]
    grind
  · rename_i o n
    by_cases e : o = n
    · subst e
      simp only [if_true]
      refine ⟨?_, he⟩
      intro v w; rw [hm]; grind
    · simp only [e, if_false, Index.removeUpdate]
      refine ⟨?_, entries_removeCond _ o u (entries_add_client ix hs n u he)⟩
      intro v w
      rw [mem_uuidsAt_removeCond, mem_uuidsAt_add_client ix hs, hm]
      grind

/-! ### linking `Cache.apply` to `stepIndex` -/

theorem ValAt_insert (R : AMap UUID Row) (s : Spec) (u : UUID) (row : Row) (x : UUID) :
    ValAt (insert R u row) s x = if x = u then some (idxVal s row) else ValAt R s x := by
  unfold ValAt
  rw [get?_insert]
  split <;> rfl

theorem ValAt_erase (R : AMap UUID Row) (s : Spec) (u : UUID) (x : UUID) :
    ValAt (erase R u) s x = if x = u then none else ValAt R s x := by
  unfold ValAt
  rw [get?_erase]
  split <;> rfl

/-- what one applied row operation does: every index makes the step for the
    touched row, rows other than the touched one keep their value -/
theorem apply_spec (c c' : Cache) (op : RowOp) (h : c.apply op = .ok c') :
    c'.ixs = c.ixs.map (fun ix => stepIndex ix (ValAt c.rows ix.spec op.uuid) (ValAt c'.rows ix.spec op.uuid) op.uuid) ∧
    (∀ x, x ≠ op.uuid → get? c'.rows x = get? c.rows x) := by
  cases op with
  | create u row =>
    simp only [Cache.apply, Cache.create, Bool.false_and, Bool.false_eq_true, if_false] at h
    split at h
    · cases h
    · rename_i hn
      cases h
      simp only [RowOp.uuid]
      have hnone : get? c.rows u = none := by
        cases hg : get? c.rows u <;> simp_all
      refine ⟨?_, fun x hx => by simp [hx]⟩
      apply List.map_congr_left
      intro ix _
      simp [ValAt, hnone, stepIndex]
  | update u row =>
    simp only [Cache.apply, Cache.update, Bool.false_and, Bool.false_eq_true, if_false] at h
    split at h
    · cases h
    · rename_i old hold
      cases h
      simp only [RowOp.uuid]
      refine ⟨?_, fun x hx => by simp [hx]⟩
      apply List.map_congr_left
      intro ix _
      simp [ValAt, hold, stepIndex, Index.update]
  | delete u =>
    simp only [Cache.apply, Cache.delete] at h
    split at h
    · cases h
    · rename_i old hold
      cases h
      simp only [RowOp.uuid]
      refine ⟨?_, fun x hx => by simp [hx]⟩
      apply List.map_congr_left
      intro ix _
      simp [ValAt, hold, stepIndex]

theorem applyAll_untouched (ops : List RowOp) (c c' : Cache) (h : c.applyAll ops = .ok c') (x : UUID)
    (hx : x ∉ ops.map RowOp.uuid) : get? c'.rows x = get? c.rows x := by
  induction ops generalizing c with
  | nil => simp [Cache.applyAll] at h; cases h; rfl
  | cons op t ih =>
    simp only [Cache.applyAll] at h
    split at h
    · rename_i c1 h1
      simp only [List.map_cons, List.mem_cons, not_or] at hx
      rw [ih c1 h hx.2]
      exact (apply_spec c c1 op h1).2 x hx.1
    · cases h

theorem applyAll_specs (ops : List RowOp) (c c' : Cache) (h : c.applyAll ops = .ok c') :
    c'.ixs.map (·.spec) = c.ixs.map (·.spec) := by
  induction ops generalizing c with
  | nil => simp [Cache.applyAll] at h; cases h; rfl
  | cons op t ih =>
    simp only [Cache.applyAll] at h
    split at h
    · rename_i c1 h1
      rw [ih c1 h, (apply_spec c c1 op h1).1]
      simp
    · cases h

end Ovsdb
