import Ovsdb.Model.Cond
import Ovsdb.Model.Equiv
import Ovsdb.Proofs.Cache
/-
  Lemmas about condition evaluation and RowsByCondition.
-/
namespace Ovsdb
open AMap

/-- condition `cnd` evaluates to true on row `row` (uuid `u`) -/
def CondTrue (row : Row) (u : UUID) (cnd : Cond) : Prop :=
  ∃ v, rowValue row u cnd.col = some v ∧ evalCond cnd.fn v cnd.val = .ok true

/-- row `u` exists and satisfies `cnd` -/
def RowCondTrue (c : Cache) (u : UUID) (cnd : Cond) : Prop :=
  ∃ row, get? c.rows u = some row ∧ CondTrue row u cnd

/-- row `u` exists and every condition evaluates to true on it -/
def Sat (c : Cache) (conds : List Cond) (u : UUID) : Prop :=
  ∃ row, get? c.rows u = some row ∧ ∀ cnd ∈ conds, CondTrue row u cnd

theorem Sat.rowCond {c : Cache} {conds : List Cond} {u : UUID} (h : Sat c conds u) :
    ∀ cnd ∈ conds, RowCondTrue c u cnd := by
  obtain ⟨row, hr, hc⟩ := h
  intro cnd hm
  exact ⟨row, hr, hc cnd hm⟩

theorem sat_of_rowCond {c : Cache} {conds : List Cond} {u : UUID} (hne : conds ≠ [])
    (h : ∀ cnd ∈ conds, RowCondTrue c u cnd) : Sat c conds u := by
  cases conds with
  | nil => exact absurd rfl hne
  | cons c0 t =>
    obtain ⟨row, hr, _⟩ := h c0 (by simp)
    refine ⟨row, hr, ?_⟩
    intro cnd hm
    obtain ⟨row', hr', hc'⟩ := h cnd hm
    rw [hr] at hr'
    cases hr'
    exact hc'

theorem mem_intersectSets {a b r : List UUID} (h : intersectSets a b = some r) (x : UUID) :
    x ∈ r ↔ x ∈ a ∧ x ∈ b := by
  unfold intersectSets at h
  split at h
  · cases h
  · split at h <;> cases h <;> simp [List.mem_filter, and_comm]

theorem intersectSets_none {a b : List UUID} (h : intersectSets a b = none) : a = [] ∨ b = [] := by
  unfold intersectSets at h
  split at h
  · rename_i he
    simp only [Bool.or_eq_true, List.isEmpty_iff] at he
    exact he
  · split at h <;> cases h

/-- the candidates kept by `matchCond` are those on which the condition holds -/
theorem matchCond_spec (c : Cache) (cnd : Cond) (cands : List UUID) (r : List UUID)
    (h : matchCond c cnd cands = .ok r) (u : UUID) :
    u ∈ r ↔ u ∈ cands ∧ RowCondTrue c u cnd := by
  unfold matchCond at h
  suffices hgen : ∀ (cands acc r : List UUID),
      List.foldlM (fun acc u =>
        match get? c.rows u with
        | none => (Except.ok acc : Except String (List UUID))
        | some row =>
          match rowValue row u cnd.col with
          | none => .error "column not found"
          | some v => do
            let ok ← evalCond cnd.fn v cnd.val
            pure (if ok then acc ++ [u] else acc)) acc cands = .ok r →
      (u ∈ r ↔ u ∈ acc ∨ (u ∈ cands ∧ RowCondTrue c u cnd)) by
    have := hgen cands [] r h
    simpa using this
  intro cands
  induction cands with
  | nil =>
    intro acc r h
    simp only [List.foldlM_nil, pure, Except.pure] at h
    cases h
    simp
  | cons x t ih =>
    intro acc r h
    simp only [List.foldlM_cons, bind, Except.bind] at h
    cases hx : get? c.rows x with
    | none =>
      simp only [hx] at h
      rw [ih acc r h]
      constructor
      · rintro (h1 | ⟨h1, h2⟩)
        · exact Or.inl h1
        · exact Or.inr ⟨List.mem_cons_of_mem _ h1, h2⟩
      · rintro (h1 | ⟨h1, h2⟩)
        · exact Or.inl h1
        · rcases List.mem_cons.mp h1 with e | e
          · subst e
            obtain ⟨row, hr, _⟩ := h2
            rw [hx] at hr; cases hr
          · exact Or.inr ⟨e, h2⟩
    | some row =>
      simp only [hx] at h
      cases hv : rowValue row x cnd.col with
      | none => simp only [hv] at h; cases h
      | some v =>
        simp only [hv] at h
        cases he : evalCond cnd.fn v cnd.val with
        | error e => simp only [he] at h; cases h
        | ok b =>
          simp only [he, pure, Except.pure] at h
          rw [ih _ r h]
          have hxtrue : RowCondTrue c x cnd ↔ b = true := by
            constructor
            · rintro ⟨row', hr', v', hv', he'⟩
              rw [hx] at hr'; cases hr'
              rw [hv] at hv'; cases hv'
              rw [he] at he'; cases he'; rfl
            · intro hb; subst hb; exact ⟨row, hx, v, hv, he⟩
          cases b with
          | true =>
            have hx' : RowCondTrue c x cnd := hxtrue.mpr rfl
            by_cases e : u = x
            · subst e; simp [hx']
            · simp [e]
          | false =>
            have hx' : ¬ RowCondTrue c x cnd := fun hh => absurd (hxtrue.mp hh) (by simp)
            by_cases e : u = x
            · subst e; simp [hx']
            · simp [e]


theorem mem_allRows (c : Cache) (u : UUID) : u ∈ (keys c.rows).eraseDups ↔ (get? c.rows u).isSome := by
  rw [List.mem_eraseDups, mem_keys_iff]

/-- the `_uuid` shortcut of the refinement loop agrees with evaluating the condition -/
theorem uuidShortcut_spec (c : Cache) (cnd : Cond) (u0 : UUID)
    (hcol : cnd.col = "_uuid") (hfn : cnd.fn = .eq ∨ cnd.fn = .includes) (hval : cnd.val = .atom (.uuid u0)) (u : UUID) :
    u ∈ (if (get? c.rows u0).isSome then [u0] else []) ↔ RowCondTrue c u cnd := by
  have hev : ∀ x : UUID, evalCond cnd.fn (.atom (.uuid x)) cnd.val = .ok (decide (x = u0)) := by
    intro x
    rw [hval]
    rcases hfn with h | h <;> rw [h] <;> simp [evalCond, Value.kindTag, valueEqB] <;>
      (by_cases e : x = u0 <;> simp [e])
  constructor
  · intro hm
    split at hm
    · rename_i hs
      simp only [List.mem_singleton] at hm
      subst hm
      cases hg : get? c.rows u with
      | none => simp [hg] at hs
      | some row =>
        refine ⟨row, hg, .atom (.uuid u), by simp [rowValue, hcol], ?_⟩
        rw [hev]; simp
    · simp at hm
  · rintro ⟨row, hr, v, hv, he⟩
    simp only [rowValue, hcol, if_true, Option.some.injEq] at hv
    subst hv
    rw [hev] at he
    have : u = u0 := by simpa using he
    subst this
    simp [hr]

/-- loop invariant of `refine`: `done` = conditions already evaluated -/
structure RInv (c : Cache) (done rest : List Cond) (matching : Option (List UUID)) : Prop where
  noneDone : matching = none → done = []
  lower : ∀ m, matching = some m → ∀ u ∈ m, ∀ cnd ∈ done, RowCondTrue c u cnd
  upper : ∀ m, matching = some m → ∀ u, Sat c (done ++ rest) u → u ∈ m

theorem refine_spec (c : Cache) (rest : List Cond) :
    ∀ (done : List Cond) (matching : Option (List UUID)) (r : Option (List UUID)),
      RInv c done rest matching → (done ++ rest ≠ []) → refine c matching rest = .ok r →
      ∀ u, u ∈ r.getD [] ↔ Sat c (done ++ rest) u := by
  induction rest with
  | nil =>
    intro done matching r inv hne h u
    simp only [refine] at h
    cases h
    simp only [List.append_nil] at hne ⊢
    cases hm : matching with
    | none => exact absurd (inv.noneDone hm) hne
    | some m =>
      simp only [Option.getD_some]
      constructor
      · intro hu; exact sat_of_rowCond hne (inv.lower m hm u hu)
      · intro hs; exact inv.upper m hm u (by simpa using hs)
  | cons cnd rest ih =>
    intro done matching r inv hne h u
    simp only [refine] at h
    -- the candidates matching this condition
    split at h
    · cases h
    · rename_i mc hmc
      -- characterise mc
      have hmcspec : (∀ x, x ∈ mc → RowCondTrue c x cnd) ∧
          (∀ x, RowCondTrue c x cnd → (∀ m, matching = some m → x ∈ m) → x ∈ mc) := by
        unfold condMatches at hmc
        split at hmc
        · rename_i hsc
          split at hmc
          · rename_i u0 hval
            cases hmc
            have := uuidShortcut_spec c cnd u0 hsc.1 hsc.2 hval
            exact ⟨fun x hx => (this x).mp hx, fun x hx _ => (this x).mpr hx⟩
          · cases hmc
        · have hs := matchCond_spec c cnd _ mc hmc
          refine ⟨fun x hx => ((hs x).mp hx).2, ?_⟩
          intro x hx hin
          apply (hs x).mpr
          refine ⟨?_, hx⟩
          cases hm : matching with
          | none =>
            simp only
            rw [mem_allRows]
            obtain ⟨row, hr, _⟩ := hx
            simp [hr]
          | some m => exact hin m hm
      -- the new matching set
      have hsat_cnd : ∀ x, Sat c (done ++ cnd :: rest) x → RowCondTrue c x cnd :=
        fun x hx => hx.rowCond cnd (by simp)
      have hnew : RInv c (done ++ [cnd]) rest (nextMatching matching mc) ∨
          (isEmptyOpt (nextMatching matching mc) = true ∧ ∀ x, ¬ Sat c (done ++ cnd :: rest) x) := by
        cases hm : matching with
        | none =>
          have hd := inv.noneDone hm
          subst hd
          have hnm : nextMatching none mc = some mc := rfl
          rw [hnm]
          left
          refine ⟨by simp, ?_, ?_⟩
          · intro m hm' x hx cnd' hc'
            cases hm'
            simp only [List.nil_append, List.mem_singleton] at hc'
            subst hc'
            exact hmcspec.1 x hx
          · intro m hm' x hx
            cases hm'
            apply hmcspec.2 x (hsat_cnd x (by simpa using hx))
            intro m hm2; rw [hm] at hm2; cases hm2
        | some m =>
          cases hi : intersectSets m mc with
          | none =>
            have hnm : nextMatching (some m) mc = none := hi
            rw [hnm]
            right
            refine ⟨by simp [isEmptyOpt], ?_⟩
            intro x hx
            have h1 := inv.upper m hm x hx
            have h2 := hmcspec.2 x (hsat_cnd x hx) (fun m' hm' => by rw [hm] at hm'; cases hm'; exact h1)
            rcases intersectSets_none hi with e | e
            · subst e; simp at h1
            · subst e; simp at h2
          | some m' =>
            have hnm : nextMatching (some m) mc = some m' := hi
            rw [hnm]
            left
            refine ⟨by simp, ?_, ?_⟩
            · intro m2 hm2 x hx cnd' hc'
              cases hm2
              have := (mem_intersectSets hi x).mp hx
              simp only [List.mem_append, List.mem_singleton] at hc'
              rcases hc' with hc' | hc'
              · exact inv.lower m hm x this.1 cnd' hc'
              · subst hc'; exact hmcspec.1 x this.2
            · intro m2 hm2 x hx
              cases hm2
              have hx' : Sat c (done ++ cnd :: rest) x := by simpa using hx
              have h1 := inv.upper m hm x hx'
              apply (mem_intersectSets hi x).mpr
              exact ⟨h1, hmcspec.2 x (hsat_cnd x hx') (fun m' hm' => by rw [hm] at hm'; cases hm'; exact h1)⟩
      -- finish
      split at h
      · rename_i hemp
        cases h
        -- the loop broke: nothing can satisfy all conditions
        constructor
        · intro hu
          exfalso
          revert hu hemp
          generalize nextMatching matching mc = mm
          intro hemp hu
          cases mm with
          | none => simp at hu
          | some l =>
            simp only [isEmptyOpt, List.isEmpty_iff] at hemp
            subst hemp
            simp at hu
        · intro hs
          exfalso
          rcases hnew with hinv | ⟨_, hno⟩
          · revert hinv hemp
            generalize nextMatching matching mc = mm
            intro hemp hinv
            cases mm with
            | none =>
              have := hinv.noneDone rfl
              simp at this
            | some l =>
              simp only [isEmptyOpt, List.isEmpty_iff] at hemp
              subst hemp
              have := hinv.upper [] rfl u (by simpa using hs)
              simp at this
          · exact hno u hs
      · rename_i hnemp
        rcases hnew with hinv | ⟨hemp, _⟩
        · have := ih (done ++ [cnd]) _ r hinv (by simp) h u
          simpa using this
        · exact absurd hemp hnemp

end Ovsdb

namespace Ovsdb
open AMap

/-! ### the index pre-filter is sound -/

theorem get?_append {κ ν : Type} [DecidableEq κ] (a b : AMap κ ν) (k : κ) :
    get? (a ++ b) k = match get? a k with
      | some v => some v
      | none => get? b k := by
  induction a with
  | nil => simp
  | cons p t ih =>
    obtain ⟨pk, pv⟩ := p
    simp only [List.cons_append, get?_cons]
    by_cases h : pk = k
    · simp [h]
    · simp [h, ih]

/-- one `SetField` of the probe model -/
def probeStep (r : Row) (ic : IndexableCond) : Row :=
  match ic.keys.isEmpty, get? r ic.col, ic.val with
  | false, some (.map cur), .map nv => insert r ic.col (.map (nv ++ cur))
  | _, _, _ => insert r ic.col ic.val

theorem probeRow_eq (z : Row) (cs : List IndexableCond) : probeRow z cs = cs.foldl probeStep z := rfl

theorem probeStep_other (r : Row) (ic : IndexableCond) (col : String) (h : ic.col ≠ col) :
    get? (probeStep r ic) col = get? r col := by
  unfold probeStep
  have : ¬ col = ic.col := fun e => h e.symm
  split <;> simp [this]

/-- a set of uuids (or "no information") that contains every satisfying row -/
def Sound (c : Cache) (conds : List Cond) (m : Option (List UUID)) : Prop :=
  ∀ l, m = some l → ∀ u, Sat c conds u → u ∈ l

/-- all indexable conditions of `cs` come from `conds` -/
def FromConds (conds : List Cond) (cs : List IndexableCond) : Prop :=
  ∀ ic ∈ cs, ∃ cnd ∈ conds, toIndexable cnd = some ic

/-- what a satisfied condition says about the row value, in the shape the
    probe needs (`rv` the row's value in the condition's column) -/
inductive ICOk : Value → IndexableCond → Prop where
  | atom (a : Atom) (ic : IndexableCond) : ic.val = .atom a → ic.keys = [] → ICOk (.atom a) ic
  | opt (o : Option Atom) (ic : IndexableCond) : ic.val = .opt o → ic.keys = [] → ICOk (.opt o) ic
  | set (s : List Atom) (ic : IndexableCond) : ic.keys = [] → ICOk (.set s) ic
  | mapPlain (m : AMap Atom Atom) (ic : IndexableCond) : ic.keys = [] → ICOk (.map m) ic
  | mapKeys (m mv : AMap Atom Atom) (ic : IndexableCond) : ic.val = .map mv → ic.keys ≠ [] →
      (∀ k v, get? mv k = some v → get? m k = some v) → (∀ k ∈ ic.keys, (get? mv k).isSome) → ICOk (.map m) ic

theorem mem_eraseDups_keys {m : AMap Atom Atom} {k : Atom} (h : k ∈ (keys m).eraseDups) : (get? m k).isSome := by
  rw [List.mem_eraseDups] at h
  exact get?_isSome_of_mem_keys h

/-- a condition that is usable as an index and true on a row constrains the
    row's value as `ICOk` says -/
theorem icOk_of_condTrue (row : Row) (u : UUID) (cnd : Cond) (ic : IndexableCond)
    (hi : toIndexable cnd = some ic) (ht : CondTrue row u cnd) :
    ic.col = cnd.col ∧ ∃ rv, get? row ic.col = some rv ∧ ICOk rv ic := by
  obtain ⟨rv, hrv, hev⟩ := ht
  unfold toIndexable at hi
  split at hi
  · cases hi
  · rename_i hcol
    split at hi
    · cases hi
    · rename_i hfn
      have hrv' : get? row cnd.col = some rv := by
        simpa [rowValue, hcol] using hrv
      have hfn' : cnd.fn = .eq ∨ cnd.fn = .includes := by
        by_cases e : cnd.fn = .eq
        · exact Or.inl e
        · by_cases e2 : cnd.fn = .includes
          · exact Or.inr e2
          · exact absurd ⟨e, e2⟩ hfn
      unfold evalCond at hev
      split at hev
      · cases hev
      · rename_i hk
        simp only [ne_eq, Decidable.not_not] at hk
        split at hi
        · cases hi
        · cases hi
        · -- map includes
          rename_i mv hval hf
          split at hi
          · cases hi
          cases hi
          refine ⟨rfl, rv, hrv', ?_⟩
          simp only [hf, hval] at hev
          cases rv with
          | map m =>
            simp only [Except.ok.injEq, List.all_eq_true, beq_iff_eq] at hev
            by_cases hke : (toIndexable.dedupKeys (keys mv)) = []
            · exact ICOk.mapPlain m _ hke
            · refine ICOk.mapKeys m mv _ hval hke ?_ ?_
              · intro k v hkv
                have := hev k (mem_keys_of_get? hkv)
                rw [← this]; exact hkv
              · intro k hkm
                exact mem_eraseDups_keys hkm
          | atom a => simp [hval, Value.kindTag] at hk; cases a <;> simp at hk
          | opt o => simp [hval, Value.kindTag] at hk
          | set s => simp [hval, Value.kindTag] at hk
        · -- everything else: keys = []
          rename_i v f hns hno hnm
          cases hi
          refine ⟨rfl, rv, hrv', ?_⟩
          cases rv with
          | atom a =>
            cases hv : cnd.val with
            | atom b =>
              refine ICOk.atom a _ ?_ rfl
              simp only
              rcases hfn' with e | e <;> simp only [e, hv] at hev
              · simp [valueEqB] at hev; rw [hev]
              · simp at hev; rw [hev]
            | opt o => simp [hv, Value.kindTag] at hk; cases a <;> simp at hk
            | set s => simp [hv, Value.kindTag] at hk; cases a <;> simp at hk
            | map m => simp [hv, Value.kindTag] at hk; cases a <;> simp at hk
          | opt o =>
            cases hv : cnd.val with
            | opt o' =>
              refine ICOk.opt o _ ?_ rfl
              simp only
              rcases hfn' with e | e
              · simp only [e, hv] at hev
                simp [valueEqB] at hev; rw [hev]
              · exact absurd e (fun e => hno o' (by rw [hv]) e)
            | atom b => simp [hv, Value.kindTag] at hk; cases b <;> simp at hk
            | set s => simp [hv, Value.kindTag] at hk
            | map m => simp [hv, Value.kindTag] at hk
          | set s => exact ICOk.set s _ rfl
          | map m => exact ICOk.mapPlain m _ rfl

end Ovsdb

namespace Ovsdb
open AMap

def curMap (r : Row) (col : String) : AMap Atom Atom :=
  match get? r col with
  | some (.map cur) => cur
  | _ => []

theorem probeStep_same_plain (r : Row) (ic : IndexableCond) (h : ic.keys = []) :
    get? (probeStep r ic) ic.col = some ic.val := by
  unfold probeStep
  simp [h]

theorem probeStep_same_keyed (r : Row) (ic : IndexableCond) (nv : AMap Atom Atom) (h : ic.keys ≠ [])
    (hv : ic.val = .map nv) :
    get? (probeStep r ic) ic.col = some (.map (nv ++ curMap r ic.col)) := by
  unfold probeStep curMap
  have : ic.keys.isEmpty = false := by
    cases hk : ic.keys with
    | nil => exact absurd hk h
    | cons _ _ => rfl
  rw [this, hv]
  split
  · rename_i cur nv' hc hnv
    cases hnv
    simp [hc]
  · rename_i hno
    cases hg : get? r ic.col with
    | none => simp
    | some v =>
      cases v with
      | map cur => exact (hno cur nv rfl hg rfl).elim
      | atom a => simp
      | opt o => simp
      | set s => simp

/-- the zero row holds empty maps -/
def ZeroOK (z : Row) : Prop := ∀ col m, get? z col = some (.map m) → m = []

/-- invariant of the probe model for one column while the conditions of a
    subset are folded in (`done` = conditions folded so far) -/
structure PInv (col : String) (rv : Value) (z : Row) (done : List IndexableCond) (p : Row) : Prop where
  untouched : (∀ ic ∈ done, ic.col ≠ col) → get? p col = get? z col
  scalar : (∀ a, rv ≠ .map a) → (∀ s, rv ≠ .set s) → (∃ ic ∈ done, ic.col = col) → get? p col = some rv
  keyed : ∀ m, rv = .map m → (∀ ic ∈ done, ic.col = col → ic.keys ≠ []) → (∃ ic ∈ done, ic.col = col) →
    ∃ pm, get? p col = some (.map pm) ∧ (∀ k v, get? pm k = some v → get? m k = some v) ∧
      ∀ ic ∈ done, ic.col = col → ∀ k ∈ ic.keys, get? pm k = get? m k

theorem pinv_step (col : String) (rv : Value) (z : Row) (hz : ZeroOK z) (done : List IndexableCond) (p : Row)
    (inv : PInv col rv z done p) (ic : IndexableCond)
    (hok : ic.col = col → ICOk rv ic) :
    PInv col rv z (done ++ [ic]) (probeStep p ic) := by
  by_cases hc : ic.col = col
  · have ok := hok hc
    subst hc
    refine ⟨?_, ?_, ?_⟩
    · intro h; exact absurd rfl (h ic (by simp))
    · intro hnm hns _
      cases ok with
      | atom a _ hv hk => rw [probeStep_same_plain p ic hk, hv]
      | opt o _ hv hk => rw [probeStep_same_plain p ic hk, hv]
      | set s _ _ => exact absurd rfl (hns s)
      | mapPlain m _ _ => exact absurd rfl (hnm m)
      | mapKeys m _ _ _ _ _ _ => exact absurd rfl (hnm m)
    · intro m hm hkeyed _
      have hick : ic.keys ≠ [] := hkeyed ic (by simp) rfl
      cases ok with
      | atom a _ _ _ => cases hm
      | opt o _ _ _ => cases hm
      | set s _ _ => cases hm
      | mapPlain m' _ hk => exact absurd hk hick
      | mapKeys m' mv _ hv hk hsub hkeys =>
        cases hm
        rw [probeStep_same_keyed p ic mv hk hv]
        -- the current map of the probe is contained in the row's map
        have hcur : (∀ k v, get? (curMap p ic.col) k = some v → get? m k = some v) ∧
            (∀ ic' ∈ done, ic'.col = ic.col → ∀ k ∈ ic'.keys, get? (curMap p ic.col) k = get? m k) := by
          by_cases hex : ∃ ic' ∈ done, ic'.col = ic.col
          · obtain ⟨pm, hp, hs, hk'⟩ := inv.keyed m rfl
              (fun ic' hm' hc' => hkeyed ic' (by simp [hm']) hc') hex
            have : curMap p ic.col = pm := by simp [curMap, hp]
            rw [this]
            exact ⟨hs, hk'⟩
          · have hun := inv.untouched (fun ic' hm' hc' => hex ⟨ic', hm', hc'⟩)
            have : curMap p ic.col = [] := by
              unfold curMap
              rw [hun]
              cases hg : get? z ic.col with
              | none => rfl
              | some v =>
                cases v with
                | map cur => simp [hz ic.col cur hg]
                | atom a => rfl
                | opt o => rfl
                | set s => rfl
            rw [this]
            refine ⟨by simp, ?_⟩
            intro ic' hm' hc'
            exact absurd ⟨ic', hm', hc'⟩ hex
        refine ⟨_, rfl, ?_, ?_⟩
        · intro k v
          rw [get?_append]
          cases hg : get? mv k with
          | some w => simp only; intro e; cases e; exact hsub k _ hg
          | none => simp only; exact hcur.1 k v
        · intro ic' hm' hc' k hk'
          rw [get?_append]
          cases hg : get? mv k with
          | some w => simp only; exact (hsub k w hg).symm
          | none =>
            simp only
            simp only [List.mem_append, List.mem_singleton] at hm'
            rcases hm' with hm' | hm'
            · exact hcur.2 ic' hm' hc' k hk'
            · subst hm'
              have := hkeys k hk'
              simp [hg] at this
  · have hget : get? (probeStep p ic) col = get? p col := probeStep_other p ic col hc
    refine ⟨?_, ?_, ?_⟩
    · intro h
      rw [hget]
      exact inv.untouched (fun ic' hm' => h ic' (by simp [hm']))
    · intro hnm hns hex
      rw [hget]
      apply inv.scalar hnm hns
      obtain ⟨ic', hm', hc'⟩ := hex
      simp only [List.mem_append, List.mem_singleton] at hm'
      rcases hm' with hm' | hm'
      · exact ⟨ic', hm', hc'⟩
      · subst hm'; exact absurd hc' hc
    · intro m hm hkeyed hex
      rw [hget]
      have hex' : ∃ ic' ∈ done, ic'.col = col := by
        obtain ⟨ic', hm', hc'⟩ := hex
        simp only [List.mem_append, List.mem_singleton] at hm'
        rcases hm' with hm' | hm'
        · exact ⟨ic', hm', hc'⟩
        · subst hm'; exact absurd hc' hc
      obtain ⟨pm, hp, hs, hk⟩ := inv.keyed m hm (fun ic' hm' hc' => hkeyed ic' (by simp [hm']) hc') hex'
      refine ⟨pm, hp, hs, ?_⟩
      intro ic' hm' hc' k hk'
      simp only [List.mem_append, List.mem_singleton] at hm'
      rcases hm' with hm' | hm'
      · exact hk ic' hm' hc' k hk'
      · subst hm'; exact absurd hc' hc

theorem pinv_fold (col : String) (rv : Value) (z : Row) (hz : ZeroOK z) (cs : List IndexableCond) :
    ∀ (done : List IndexableCond) (p : Row), PInv col rv z done p →
      (∀ ic ∈ cs, ic.col = col → ICOk rv ic) → PInv col rv z (done ++ cs) (cs.foldl probeStep p) := by
  induction cs with
  | nil => intro done p inv _; simpa using inv
  | cons ic t ih =>
    intro done p inv hok
    have h1 := pinv_step col rv z hz done p inv ic (hok ic (by simp))
    have := ih (done ++ [ic]) (probeStep p ic) h1 (fun ic' hm' => hok ic' (by simp [hm']))
    simpa using this

theorem pinv_init (col : String) (rv : Value) (z : Row) : PInv col rv z [] z :=
  ⟨fun _ => rfl, fun _ _ h => by simp at h, fun _ _ _ h => by simp at h⟩

end Ovsdb

namespace Ovsdb
open AMap

/-- index configurations the model covers: a column used WITHOUT a key in an
    index holds scalars or optionals (a slice or map would be used as a Go map
    key and panic) -/
def RowSpecOK (row : Row) (s : Spec) : Prop :=
  ∀ ck ∈ s.cols, ck.key = none → ∀ v, get? row ck.col = some v → (∀ m, v ≠ .map m) ∧ (∀ l, v ≠ .set l)

theorem filterMap_congr' {α β : Type} (l : List α) (f g : α → Option β) (h : ∀ a ∈ l, f a = g a) :
    l.filterMap f = l.filterMap g := by
  induction l with
  | nil => rfl
  | cons a t ih =>
    simp only [List.filterMap_cons]
    rw [h a (by simp), ih (fun b hb => h b (by simp [hb]))]

theorem mem_condColumnKeys {cs : List IndexableCond} {col : String} {key : Option Atom}
    (h : (col, key) ∈ condColumnKeys cs) :
    ∃ ic ∈ cs, ic.col = col ∧ ((key = none ∧ ic.keys = []) ∨ (∃ k, key = some k ∧ k ∈ ic.keys)) := by
  unfold condColumnKeys at h
  rw [List.mem_flatMap] at h
  obtain ⟨ic, hic, hm⟩ := h
  refine ⟨ic, hic, ?_⟩
  split at hm
  · rename_i he
    simp only [List.mem_singleton, Prod.mk.injEq] at hm
    exact ⟨hm.1.symm, Or.inl ⟨hm.2, List.isEmpty_iff.mp he⟩⟩
  · simp only [List.mem_map, Prod.mk.injEq] at hm
    obtain ⟨k, hk, h1, h2⟩ := hm
    exact ⟨h1, Or.inr ⟨k, h2.symm, hk⟩⟩

theorem condColumnKeys_plain {cs : List IndexableCond} {ic : IndexableCond} (hic : ic ∈ cs) (hk : ic.keys = []) :
    (ic.col, none) ∈ condColumnKeys cs := by
  unfold condColumnKeys
  rw [List.mem_flatMap]
  exact ⟨ic, hic, by simp [hk]⟩

/-- every row satisfying all conditions is listed by the index a condition
    subset is evaluated through -/
theorem subset_sound (c : Cache) (hex : ∀ ix ∈ c.ixs, IxExact (ValAt c.rows ix.spec) ix)
    (hwf : ∀ ix ∈ c.ixs, ∀ u row, get? c.rows u = some row → RowSpecOK row ix.spec)
    (z : Row) (hz : ZeroOK z) (conds : List Cond) (cs : List IndexableCond) (hfrom : FromConds conds cs) :
    Sound c conds (evalCondSetAsIndex c z cs) := by
  intro us h u hs
  unfold evalCondSetAsIndex at h
  split at h
  · cases h
  · rename_i ix hfind
    cases h
    have hix : ix ∈ c.ixs := List.mem_of_find?_eq_some hfind
    have hsame : sameColumnKeys (condColumnKeys cs) (specColumnKeys ix.spec) = true := by
      have := List.find?_some hfind
      simpa using this
    simp only [sameColumnKeys, Bool.and_eq_true, List.all_eq_true, decide_eq_true_eq] at hsame
    obtain ⟨hcs_in_spec, hspec_in_cs⟩ := hsame
    obtain ⟨row, hrow, hall⟩ := hs
    -- every indexable condition of the subset constrains the row
    have hok : ∀ ic ∈ cs, ∃ rv, get? row ic.col = some rv ∧ ICOk rv ic := by
      intro ic hic
      obtain ⟨cnd, hcnd, hti⟩ := hfrom ic hic
      exact (icOk_of_condTrue row u cnd ic hti (hall cnd hcnd)).2
    have hval : idxVal ix.spec (probeRow z cs) = idxVal ix.spec row := by
      unfold idxVal
      apply List.map_congr_left
      intro ck hck
      have hmem : (ck.col, ck.key) ∈ condColumnKeys cs :=
        hspec_in_cs (ck.col, ck.key) (by simp only [specColumnKeys, List.mem_map]; exact ⟨ck, hck, rfl⟩)
      obtain ⟨ic, hic, hcol, hkey⟩ := mem_condColumnKeys hmem
      obtain ⟨rv, hrv, hicok⟩ := hok ic hic
      rw [hcol] at hrv
      have hinv := pinv_fold ck.col rv z hz cs [] z (pinv_init _ _ _) (by
        intro ic' hic' hc'
        obtain ⟨rv', hrv', hok'⟩ := hok ic' hic'
        rw [hc', hrv] at hrv'
        cases hrv'
        exact hok')
      simp only [List.nil_append] at hinv
      rw [probeRow_eq]
      rcases hkey with ⟨hkn, _⟩ | ⟨k, hks, hkm⟩
      · -- a column used without key: scalar or optional
        obtain ⟨hnm, hns⟩ := hwf ix hix u row hrow ck hck hkn rv hrv
        have := hinv.scalar hnm hns ⟨ic, hic, hcol⟩
        simp only [valueFromColumnKey, this, hrv]
      · -- a map key
        have hkne : ic.keys ≠ [] := by intro e; rw [e] at hkm; simp at hkm
        cases hicok with
        | atom a _ _ hk => exact absurd hk hkne
        | opt o _ _ hk => exact absurd hk hkne
        | set s _ hk => exact absurd hk hkne
        | mapPlain m _ hk => exact absurd hk hkne
        | mapKeys m mv _ hv _ hsub hkeys =>
          have hallkeyed : ∀ ic' ∈ cs, ic'.col = ck.col → ic'.keys ≠ [] := by
            intro ic' hic' hc' hk'
            have h1 := condColumnKeys_plain hic' hk'
            have h2 := hcs_in_spec _ h1
            simp only [specColumnKeys, List.mem_map, Prod.mk.injEq] at h2
            obtain ⟨ck', hck', h3, h4⟩ := h2
            rw [hc'] at h3
            have := (hwf ix hix u row hrow ck' hck' h4 (.map m) (by rw [h3]; exact hrv)).1 m
            exact this rfl
          obtain ⟨pm, hp, _, hkk⟩ := hinv.keyed m rfl hallkeyed ⟨ic, hic, hcol⟩
          have := hkk ic hic hcol k hkm
          simp only [valueFromColumnKey, hp, hrv, hks, this]
    rw [hval]
    apply ((hex ix hix).1 _ u).mpr
    simp [ValAt, hrow]

theorem sound_none (c : Cache) (conds : List Cond) : Sound c conds none := by
  intro l h; cases h

theorem sound_intersectFrom (c : Cache) (conds : List Cond) (z : Row) (matching : Option (List UUID))
    (cs : List IndexableCond) (hm : Sound c conds matching) (hu : Sound c conds (evalCondSetAsIndex c z cs)) :
    Sound c conds (intersectFromCondSet c z matching cs).1 := by
  unfold intersectFromCondSet
  simp only
  cases matching with
  | none => exact hu
  | some m =>
    cases he : evalCondSetAsIndex c z cs with
    | none => exact hm
    | some us =>
      simp only
      intro l hl u hs
      rw [mem_intersectSets hl]
      exact ⟨hm m rfl u hs, hu us he u hs⟩

theorem sound_subsets (c : Cache) (conds : List Cond) (z : Row)
    (hsub : ∀ cs, FromConds conds cs → Sound c conds (evalCondSetAsIndex c z cs))
    (ss : List (List IndexableCond)) :
    ∀ matching, Sound c conds matching → (∀ s ∈ ss, FromConds conds s) →
      Sound c conds (prefilter.subsets c z matching ss).1 := by
  induction ss with
  | nil => intro matching hm _; simpa [prefilter.subsets] using hm
  | cons s t ih =>
    intro matching hm hfrom
    simp only [prefilter.subsets]
    have h1 := sound_intersectFrom c conds z matching s hm (hsub s (hfrom s (by simp)))
    split
    · exact h1
    · exact ih _ h1 (fun s' hs' => hfrom s' (by simp [hs']))

theorem sound_go (c : Cache) (conds : List Cond) (z : Row)
    (hsub : ∀ cs, FromConds conds cs → Sound c conds (evalCondSetAsIndex c z cs))
    (rest : List Cond) :
    ∀ matching ps, Sound c conds matching → (∀ s ∈ ps, FromConds conds s) → (∀ cnd ∈ rest, cnd ∈ conds) →
      Sound c conds (prefilter.go c z matching ps rest) := by
  induction rest with
  | nil => intro matching ps hm _ _; simpa [prefilter.go] using hm
  | cons cnd t ih =>
    intro matching ps hm hps hrest
    simp only [prefilter.go]
    split
    · exact ih matching ps hm hps (fun c' hc' => hrest c' (by simp [hc']))
    · rename_i ic hic
      have hss : ∀ s ∈ ps.map (· ++ [ic]), FromConds conds s := by
        intro s hs
        obtain ⟨s0, hs0, rfl⟩ := List.mem_map.mp hs
        intro ic' hic'
        rcases List.mem_append.mp hic' with h | h
        · exact hps s0 hs0 ic' h
        · simp only [List.mem_singleton] at h
          subst h
          exact ⟨cnd, hrest cnd (by simp), hic⟩
      have h1 := sound_subsets c conds z hsub (ps.map (· ++ [ic])) matching hm hss
      split
      · exact h1
      · apply ih _ _ h1
        · intro s hs
          rcases List.mem_append.mp hs with h | h
          · exact hps s h
          · exact hss s h
        · exact fun c' hc' => hrest c' (by simp [hc'])

/-- the index pre-filter never drops a row that satisfies all conditions -/
theorem prefilter_sound (c : Cache) (hex : ∀ ix ∈ c.ixs, IxExact (ValAt c.rows ix.spec) ix)
    (hwf : ∀ ix ∈ c.ixs, ∀ u row, get? c.rows u = some row → RowSpecOK row ix.spec)
    (z : Row) (hz : ZeroOK z) (conds : List Cond) :
    Sound c conds (prefilter c z conds) := by
  unfold prefilter
  apply sound_go c conds z (fun cs hcs => subset_sound c hex hwf z hz conds cs hcs) conds none [[]]
    (sound_none c conds)
  · intro s hs
    simp only [List.mem_singleton] at hs
    subst hs
    intro ic hic; simp at hic
  · exact fun _ h => h

end Ovsdb
