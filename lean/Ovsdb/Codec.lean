import Lean.Data.Json
import Ovsdb.Model.Basic
/-
  JSON (de)serialisation of model datatypes for the line protocol between the
  Go harness and the Lean driver.  Part of the trusted base of the
  correspondence check (not of the theorems).
-/
namespace Ovsdb
open Lean

abbrev P := Except String

def jInt (j : Json) : P Int :=
  match j with
  | .num n => if n.exponent = 0 then pure n.mantissa else throw s!"not an integer: {j.compress}"
  | _ => throw s!"not a number: {j.compress}"

def jNat (j : Json) : P Nat := do
  let i ← jInt j
  if i < 0 then throw "negative" else pure i.toNat

def jStr (j : Json) : P String :=
  match j with
  | .str s => pure s
  | _ => throw s!"not a string: {j.compress}"

def jBool (j : Json) : P Bool :=
  match j with
  | .bool b => pure b
  | _ => throw s!"not a bool: {j.compress}"

def jArr (j : Json) : P (List Json) :=
  match j with
  | .arr a => pure a.toList
  | .null => pure []          -- a nil Go slice is marshalled as null
  | _ => throw s!"not an array: {j.compress}"

def jField (j : Json) (k : String) : P Json :=
  match j.getObjVal? k with
  | .ok v => pure v
  | .error _ => throw s!"missing field {k} in {j.compress}"

def jFieldOpt (j : Json) (k : String) : Option Json :=
  match j.getObjVal? k with
  | .ok .null => none
  | .ok v => some v
  | .error _ => none

def jOpt {α} (f : Json → P α) (j : Json) : P (Option α) :=
  match j with
  | .null => pure none
  | _ => some <$> f j

def jList {α} (f : Json → P α) (j : Json) : P (List α) := do
  (← jArr j).mapM f

def mkRatP (n : Int) (d : Nat) : Rat := (n : Rat) / (d : Rat)

def atomOfJson (j : Json) : P Atom := do
  if let some v := jFieldOpt j "i" then return .int (← jInt v)
  if let some v := jFieldOpt j "r" then
    match ← jArr v with
    | [n, d] => return .real (mkRatP (← jInt n) (← jNat d))
    | _ => throw "bad real"
  if let some v := jFieldOpt j "b" then return .bool (← jBool v)
  if let some v := jFieldOpt j "s" then return .str (← jStr v)
  if let some v := jFieldOpt j "u" then return .uuid (← jStr v)
  throw s!"bad atom {j.compress}"

def atomToJson : Atom → Json
  | .int i => Json.mkObj [("i", .num ⟨i, 0⟩)]
  | .real r => Json.mkObj [("r", .arr #[.num ⟨r.num, 0⟩, .num ⟨r.den, 0⟩])]
  | .bool b => Json.mkObj [("b", .bool b)]
  | .str s => Json.mkObj [("s", .str s)]
  | .uuid s => Json.mkObj [("u", .str s)]

def pairOfJson {α β} (f : Json → P α) (g : Json → P β) (j : Json) : P (α × β) := do
  match ← jArr j with
  | [a, b] => return (← f a, ← g b)
  | _ => throw s!"bad pair {j.compress}"

def valueOfJson (j : Json) : P Value := do
  if let some v := jFieldOpt j "a" then return .atom (← atomOfJson v)
  if let .ok v := j.getObjVal? "o" then return .opt (← jOpt atomOfJson v)
  if let some v := jFieldOpt j "S" then return .set (← jList atomOfJson v)
  if let some v := jFieldOpt j "M" then return .map (← jList (pairOfJson atomOfJson atomOfJson) v)
  throw s!"bad value {j.compress}"

def optToJson {α} (f : α → Json) : Option α → Json
  | none => .null
  | some a => f a

def listToJson {α} (f : α → Json) (l : List α) : Json := .arr (l.map f).toArray

def valueToJson : Value → Json
  | .atom a => Json.mkObj [("a", atomToJson a)]
  | .opt o => Json.mkObj [("o", optToJson atomToJson o)]
  | .set l => Json.mkObj [("S", listToJson atomToJson l)]
  | .map m => Json.mkObj [("M", listToJson (fun p => .arr #[atomToJson p.1, atomToJson p.2]) m)]

def optValueOfJson (j : Json) : P (Option Value) := jOpt valueOfJson j

def jFieldD {α} (j : Json) (k : String) (f : Json → P α) (d : α) : P α :=
  match jFieldOpt j k with
  | some v => f v
  | none => pure d

end Ovsdb
