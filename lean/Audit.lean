import Lean
/-
  Axiom audit.  usage: lake env lean --run Audit.lean <Module> [<Module> ...]
  For every theorem declared in the transitive `Ovsdb.*` imports of the given
  modules, print `thm <module> <name> : <axioms>`; exit 1 if an axiom outside
  {propext, Classical.choice, Quot.sound} is used (sorryAx, native_decide's
  Lean.ofReduceBool / trustCompiler, bv_decide axioms, user axioms).
-/
open Lean

def allowed : List Name := [``propext, ``Classical.choice, ``Quot.sound]

partial def ovsdbImports (env : Environment) (m : Name) (acc : Std.HashSet Name) : Std.HashSet Name :=
  if acc.contains m then acc else
  match env.getModuleIdx? m with
  | none => acc
  | some idx =>
    let acc := acc.insert m
    let imps := (env.header.moduleData[idx.toNat]!).imports
    imps.foldl (fun acc i =>
      if (`Ovsdb).isPrefixOf i.module then ovsdbImports env i.module acc else acc) acc

/-- axioms reachable from a constant: plain DFS over used constants with a
    visited set (fresh per audited theorem, so no partial results are cached).
    `clean` holds constants already known to reach allowed axioms only; they are
    not re-explored (then the reported list may omit allowed axioms, never a
    disallowed one). -/
partial def axiomsOf (env : Environment) (clean : NameSet) (c : Name) : StateM (NameSet × NameSet) Unit := do
  if (← get).1.contains c || clean.contains c then return
  modify fun s => (s.1.insert c, s.2)
  let exprs : List Expr := match env.find? c with
    | some (.axiomInfo v)  => [v.type]
    | some (.defnInfo v)   => [v.type, v.value]
    | some (.thmInfo v)    => [v.type, v.value]
    | some (.opaqueInfo v) => [v.type, v.value]
    | some (.ctorInfo v)   => [v.type]
    | some (.recInfo v)    => [v.type]
    | some (.inductInfo v) => [v.type]
    | _ => []
  if let some (.axiomInfo _) := env.find? c then modify fun s => (s.1, s.2.insert c)
  for e in exprs do
    for d in e.getUsedConstants do
      axiomsOf env clean d

def main (args : List String) : IO UInt32 := do
  initSearchPath (← findSysroot)
  let mods := args.map String.toName
  let env ← importModules (mods.map (fun m => {module := m})).toArray {} (trustLevel := 1024) (loadExts := false)
  let mut todo : Std.HashSet Name := {}
  for m in mods do
    todo := ovsdbImports env m todo
  let mut bad := 0
  let mut count := 0
  let mut clean : NameSet := {}
  for m in todo.toList do
    let some idx := env.getModuleIdx? m | continue
    let names := (env.header.moduleData[idx.toNat]!).constNames
    for n in names do
      if n.isInternal then continue
      match env.find? n with
      | some (.thmInfo _) =>
        -- property theorems (Ovsdb.Theorems.*) get a full exploration so that their exact
        -- axiom list is reported; helper lemmas reuse the set of constants known clean
        let full := (`Ovsdb.Theorems).isPrefixOf m
        let (_, st) := (axiomsOf env (if full then {} else clean) n).run ({}, {})
        let axs := st.2.toList
        if axs.all (fun a => allowed.contains a) then
          clean := st.1.foldl (fun acc x => acc.insert x) clean
        count := count + 1
        let extra := axs.filter (fun a => !allowed.contains a)
        if !extra.isEmpty then
          bad := bad + 1
          IO.println s!"BAD {m} {n} : {extra}"
        else
          IO.println s!"thm {m} {n} : {axs}"
      | some (.axiomInfo _) =>
        bad := bad + 1
        IO.println s!"BAD {m} {n} : declared axiom"
      | _ => pure ()
  IO.println s!"audited {count} theorems, {bad} bad"
  return if bad == 0 then 0 else 1
