import Ovsdb.Codec
import Ovsdb.Model.Diff
import Ovsdb.CodecCache
import Ovsdb.Model.Cond
import Ovsdb.CodecUpdates
import Ovsdb.CodecTxn
import Ovsdb.Spec.Rfc
import Ovsdb.CodecWire
/-
  Line-protocol driver: one JSON request per line on stdin, one JSON answer per
  line on stdout.  {"fn": name, ...inputs} -> {"ok": result} | {"error": text}
-/
open Lean Ovsdb

def resPair (r : Option Value × Bool) : Json :=
  Json.mkObj [("v", optToJson valueToJson r.1), ("changed", .bool r.2)]

/-- apply a history of batches to an empty cache; after each batch report the
    index contents, the rows and the answers to the lookup probes -/
def cacheHistory (j : Json) : P Json := do
  let specs ← jList specOfJson (← jField j "specs")
  let batches ← jArr (← jField j "batches")
  let mut c := Cache.empty specs
  let mut out : Array Json := #[]
  for b in batches do
    let ops ← jList rowOpOfJson (← jField b "ops")
    match c.applyAll ops with
    | .error e =>
      out := out.push (Json.mkObj [("err", .str (cerrToString e))])
      return Json.mkObj [("steps", .arr out)]
    | .ok c' =>
      c := c'
      let probes ← jFieldD b "probes" jArr []
      let mut answers : Array Json := #[]
      for p in probes do
        let u ← jStr (← jField p "uuid")
        let row ← rowOfJson (← jField p "row")
        let uc ← jBool (← jField p "useClient")
        answers := answers.push (listToJson Json.str (c.rowsByModel u row uc))
      out := out.push (Json.mkObj [("err", .null), ("cache", cacheToJson c), ("probes", .arr answers)])
  return Json.mkObj [("steps", .arr out)]

/-- build a cache by creating the rows in order, then answer condition lookups -/
def rowsByConditionFn (j : Json) : P Json := do
  let specs ← jList specOfJson (← jField j "specs")
  let rows ← jList (pairOfJson jStr rowOfJson) (← jField j "rows")
  let zero ← rowOfJson (← jField j "zero")
  let mut c := Cache.empty specs
  for (u, r) in rows do
    match c.create u r false with
    | .ok c' => c := c'
    | .error e => throw s!"create failed: {cerrToString e}"
  let queries ← jArr (← jField j "queries")
  let mut out : Array Json := #[]
  for q in queries do
    let conds ← jList condOfJson q
    match rowsByCondition c zero conds with
    | .ok us => out := out.push (Json.mkObj [("uuids", listToJson Json.str us)])
    | .error e => out := out.push (Json.mkObj [("err", .str e)])
  return .arr out

def evalCondFn (j : Json) : P Json := do
  let f ← condFnOfString (← jStr (← jField j "f"))
  let a ← valueOfJson (← jField j "a")
  let b ← valueOfJson (← jField j "b")
  match evalCond f a b with
  | .ok v => return Json.mkObj [("v", .bool v)]
  | .error e => return Json.mkObj [("err", .str e)]

/-- a chain of operations on one row, each built as a fresh update and merged
    into the accumulated one (what Transaction.Transact does per operation) -/
def updatesChain (j : Json) : P Json := do
  let (_, ts) ← tableSchemaOfJson (← jField j "table")
  let uuid ← jStr (← jField j "uuid")
  let mut current ← jOpt modelOfJson ((j.getObjVal? "initial").toOption.getD .null)
  let ops ← jList rowOperationOfJson (← jField j "ops")
  let mut acc : ModelUpdate := {}
  let mut out : Array Json := #[]
  for op in ops do
    match addOperation ts {} uuid current op with
    | .error e =>
      out := out.push (Json.mkObj [("err", .str (opErrToString e))])
      return .arr out
    | .ok step =>
      match addUpdate ts acc step with
      | .error e =>
        out := out.push (Json.mkObj [("err", .str ("merge: " ++ opErrToString e))])
        return .arr out
      | .ok acc' =>
        acc := acc'
        if !step.isEmpty then current := step.new
        out := out.push (Json.mkObj [("err", .null), ("step", modelUpdateToJson step), ("acc", modelUpdateToJson acc)])
  return .arr out

def mergeModifyRowFn (j : Json) : P Json := do
  let (_, ts) ← tableSchemaOfJson (← jField j "table")
  let o ← ovsRowOfJson (← jField j "o")
  let a ← ovsRowOfJson (← jField j "a")
  let b ← ovsRowOfJson (← jField j "b")
  return optToJson ovsRowToJson (mergeModifyRow ts o a b)

/-- a history of transactions against an initially empty database: each is
    executed by `transact`; if accepted it is committed.  Reports per
    transaction the results, the aggregated update and the database after it. -/
def dbHistory (j : Json) : P Json := do
  let σ ← dbModelOfJson (← jField j "model")
  let txns ← jArr (← jField j "txns")
  let mons ← jFieldD j "monitors" (jList monitorOfJson) []
  let mut db := Database.empty σ
  let mut out : Array Json := #[]
  for t in txns do
    let ops ← jList operationOfJson (← jField t "ops")
    let r := transact σ db ops
    let mut commitErr : Option String := none
    if r.committed then
      match commit db r.updates with
      | .ok db' => db := db'
      | .error e => commitErr := some e
    out := out.push (Json.mkObj [("results", listToJson opResultToJson r.results), ("committed", .bool r.committed),
      ("commitErr", optToJson Json.str commitErr),
      ("updates", updatesToJson r.updates), ("rows", rowsToJson db.toRows), ("refs", refsToJson (computeRefs σ db.toRows)),
      ("notifs1", listToJson (fun m => listToJson notif1ToJson (filter1 m r.updates)) mons),
      ("notifs2", listToJson (fun m => listToJson notif2ToJson (filter2 m r.updates)) mons)])
  return .arr out

/-- the RFC reference interpreter over a history; `accepted[i]` says whether the
    implementation accepted transaction i (a rejected one leaves the state alone) -/
def rfcHistory (j : Json) : P Json := do
  let σ ← dbModelOfJson (← jField j "model")
  let txns ← jArr (← jField j "txns")
  let accepted ← jList jBool (← jField j "accepted")
  let mut st : Rows := (Database.empty σ).toRows
  let mut out : Array Json := #[]
  for (t, acc) in txns.zip accepted do
    let ops ← jList operationOfJson (← jField t "ops")
    if !acc then
      out := out.push (Json.mkObj [("skipped", .bool true)])
    else
      match Rfc.transaction σ st ops with
      | none => out := out.push (Json.mkObj [("rejected", .bool true)])
      | some (rs, st') =>
        st := st'
        out := out.push (Json.mkObj [
          ("results", listToJson (fun (r : Rfc.Result) => Json.mkObj [("count", .num ⟨r.count, 0⟩), ("uuid", .str r.uuid),
            ("rows", listToJson (fun (p : UUID × Row) => Json.mkObj [("uuid", .str p.1), ("row", rowToJson p.2)]) r.rows)]) rs),
          ("rows", rowsToJson st)])
  return .arr out

def expandNamedFn (j : Json) : P Json := do
  let σ ← dbModelOfJson (← jField j "model")
  let ops ← jList operationOfJson (← jField j "ops")
  match expandNamedUUIDs σ ops with
  | .error e => return Json.mkObj [("err", .str e)]
  | .ok ops' => return Json.mkObj [("ops", listToJson (fun (o : Operation) => Json.mkObj [
      ("op", .str o.op), ("table", .str o.table), ("uuid", .str o.uuid), ("uuid-name", .str o.uuidName),
      ("row", ovsRowToJson o.row), ("rows", listToJson ovsRowToJson o.rows),
      ("where", listToJson (fun (c : WCond) => ovsValToJson c.val) o.where_),
      ("mutations", listToJson (fun (m : Mutation) => ovsValToJson m.val) o.mutations)]) ops')]

def dispatch (fn : String) (j : Json) : P Json := do
  match fn with
  | "difference" =>
    let a ← optValueOfJson (← jField j "a")
    let b ← optValueOfJson (← jField j "b")
    return resPair (difference a b)
  | "applyDifference" =>
    let a ← optValueOfJson (← jField j "a")
    let b ← optValueOfJson (← jField j "b")
    return resPair (applyDifference a b)
  | "mergeDifference" =>
    let o ← optValueOfJson (← jField j "o")
    let a ← optValueOfJson (← jField j "a")
    let b ← optValueOfJson (← jField j "b")
    return resPair (mergeDifference o a b)
  | "dbHistory" => dbHistory j
  | "rfcHistory" => rfcHistory j
  | "expandNamedUUIDs" => expandNamedFn j
  | "updatesChain" => updatesChain j
  | "mergeModifyRow" => mergeModifyRowFn j
  | "cacheHistory" => cacheHistory j
  | "rowsByCondition" => rowsByConditionFn j
  | "evalCond" => evalCondFn j
  | "decodeWire" => decodeWireFn j
  | "encodeWire" => encodeWireFn j
  | "recodeWire" => recodeWireFn j
  | "mapper" => mapperFn j
  | "clientProtocol" => clientProtocolFn j
  | "fieldType" => fieldTypeFn j
  | "names" => namesFn j
  | "monitorAccepted" => monitorAcceptedFn j
  | _ => throw s!"unknown fn {fn}"

def handle (line : String) : String :=
  match Json.parse line with
  | .error e => (Json.mkObj [("error", .str s!"parse: {e}")]).compress
  | .ok j =>
    match (do let fn ← jStr (← jField j "fn"); dispatch fn j : P Json) with
    | .ok r => (Json.mkObj [("ok", r)]).compress
    | .error e => (Json.mkObj [("error", .str e)]).compress

partial def loop (hin hout : IO.FS.Stream) : IO Unit := do
  let line ← hin.getLine
  if line.isEmpty then return ()
  let t := line.trimAscii.toString
  if !t.isEmpty then
    hout.putStrLn (handle t)
    hout.flush
  loop hin hout

def main : IO Unit := do
  loop (← IO.getStdin) (← IO.getStdout)
