import Ovsdb.Codec
import Ovsdb.Model.Diff
/-
  Line-protocol driver: one JSON request per line on stdin, one JSON answer per
  line on stdout.  {"fn": name, ...inputs} -> {"ok": result} | {"error": text}
-/
open Lean Ovsdb

def resPair (r : Option Value × Bool) : Json :=
  Json.mkObj [("v", optToJson valueToJson r.1), ("changed", .bool r.2)]

def dispatch (fn : String) (j : Json) : P Json := do
  match fn with
  | "difference" =>
    let a ← optValueOfJson (← jField j "a")
    let b ← optValueOfJson (← jField j "b")
    return resPair (difference a b)
  | "applyDifference" =>
    let a ← optValueOfJson (← jField j "a")
    let b ← optValueOfJson (← jField j "b")
    return resPair (applyDifference a b)
  | "mergeDifference" =>
    let o ← optValueOfJson (← jField j "o")
    let a ← optValueOfJson (← jField j "a")
    let b ← optValueOfJson (← jField j "b")
    return resPair (mergeDifference o a b)
  | _ => throw s!"unknown fn {fn}"

def handle (line : String) : String :=
  match Json.parse line with
  | .error e => (Json.mkObj [("error", .str s!"parse: {e}")]).compress
  | .ok j =>
    match (do let fn ← jStr (← jField j "fn"); dispatch fn j : P Json) with
    | .ok r => (Json.mkObj [("ok", r)]).compress
    | .error e => (Json.mkObj [("error", .str e)]).compress

partial def loop (hin hout : IO.FS.Stream) : IO Unit := do
  let line ← hin.getLine
  if line.isEmpty then return ()
  let t := line.trimAscii.toString
  if !t.isEmpty then
    hout.putStrLn (handle t)
    hout.flush
  loop hin hout

def main : IO Unit := do
  loop (← IO.getStdin) (← IO.getStdout)
