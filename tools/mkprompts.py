#!/usr/bin/env python3
"""tools/mkprompts.py <round> [Cxx ...]: write /tmp/mut<round>-prompt-Cxx.txt for fresh mutation agents.
Each prompt holds one property's text and one-paragraph summaries of the mutants of earlier rounds (so that the
new one is different), and names the agent's own scratch worktree /tmp/mut<round>-Cxx. Nothing from /verif's
machinery goes into a prompt."""
import json, sys, os, glob
rnd = int(sys.argv[1])
want = sys.argv[2:]
props = [json.loads(l) for l in open('/verif/properties.jsonl')]
tmpl = open('/verif/tools/mutant_prompt.txt').read()
for p in props:
    pid = p['id']
    if want and pid not in want:
        continue
    prev = []
    dirs = ['/verif/seeded/%s' % pid] + ['/verif/seeded/round%d/%s' % (k, pid) for k in range(2, rnd)]
    for d in dirs:
        m = os.path.join(d, 'meta.json')
        if os.path.exists(m):
            j = json.load(open(m))
            prev.append("files %s: %s" % (j.get('files'), (j.get('summary') or '')[:700]))
    prevtxt = ''.join('--- previous mutant %d ---\n%s\n' % (i + 1, t) for i, t in enumerate(prev)) + '--- end ---\n'
    wt = '/tmp/mut%d-%s' % (rnd, pid)
    txt = tmpl.replace('@WT@', wt).replace('@PID@', pid).replace('@PROP@', json.dumps(p, indent=1)).replace('@NPREV@', str(len(prev))).replace('@PREV@', prevtxt)
    open('/tmp/mut%d-prompt-%s.txt' % (rnd, pid), 'w').write(txt)
    print(pid, len(prev), 'previous')
