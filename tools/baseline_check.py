#!/usr/bin/env python3
"""Run the repository's test suite with the verif guard OFF and compare with
/root/.vp/BASELINE.json: every stable-pass test must still pass."""
import json, subprocess, sys, os
base = json.load(open("/root/.vp/BASELINE.json"))
want = set(base["stable_pass"])
env = dict(os.environ, GOFLAGS="-mod=mod", GOPROXY="off", GOSUMDB="off", GOTOOLCHAIN="local")
p = subprocess.run(["go", "test", "-json", "-vet=off", "-count=1", "-timeout", "25m", "./..."], cwd="/repo", env=env, stdout=subprocess.PIPE, stderr=subprocess.DEVNULL, text=True)
passed = set()
for line in p.stdout.split("\n"):
    try:
        e = json.loads(line)
    except Exception:
        continue
    if e.get("Action") == "pass" and e.get("Test"):
        passed.add("%s::%s" % (e["Package"], e["Test"]))
missing = sorted(want - passed)
print("baseline stable_pass: %d, passed now: %d, missing: %d" % (len(want), len(passed & want), len(missing)))
for m in missing[:40]:
    print("  MISSING", m)
sys.exit(1 if missing else 0)
