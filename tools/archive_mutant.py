#!/usr/bin/env python3
"""tools/archive_mutant.py <round> <Cxx> <detected_by> <strengthened>: copy /tmp/mut<round>-Cxx/_out into
/verif/seeded/round<round>/Cxx (patch, meta with the verification result, demonstration) and add it to results.json"""
import json, os, shutil, glob, sys
rnd, pid, det, stren = sys.argv[1], sys.argv[2], sys.argv[3], sys.argv[4]
src = '/tmp/mut%s-%s/_out' % (rnd, pid)
base = '/verif/seeded/round%s' % rnd
dst = '%s/%s' % (base, pid)
os.makedirs(dst, exist_ok=True)
shutil.copy(src + '/patch.diff', dst + '/patch.diff')
if os.path.isdir(dst + '/demonstration'):
    shutil.rmtree(dst + '/demonstration')
os.makedirs(dst + '/demonstration')
for f in glob.glob(src + '/demo/*'):
    if os.path.isfile(f) and os.path.getsize(f) < 200000 and not f.endswith('go.sum'):
        shutil.copy(f, dst + '/demonstration/')
m = json.load(open(src + '/meta.json'))
m['verif_result'] = {'detected_by': det, 'strengthened': stren}
json.dump(m, open(dst + '/meta.json', 'w'), indent=1)
rp = base + '/results.json'
res = json.load(open(rp)) if os.path.exists(rp) else {}
res[pid] = {'files': m.get('files'), 'detected_by': det, 'strengthened': stren}
json.dump(res, open(rp, 'w'), indent=1, sort_keys=True)
print(pid, 'archived;', len(res), 'in round', rnd)
