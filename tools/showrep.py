#!/usr/bin/env python3
# summarise replays of a property: tools/showrep.py Cxx
import json,glob,sys,collections
c=collections.Counter()
for f in sorted(glob.glob('/verif/replays/%s-*.json'%sys.argv[1])):
    d=json.load(open(f))
    print(f.split('/')[-1], d.get('stream'), '|', d.get('why'))
    print('  case ',json.dumps(d.get('case'))[:int(sys.argv[2]) if len(sys.argv)>2 else 400])
    print('  impl ',str(d.get('impl'))[:400]); print('  model',str(d.get('model'))[:400])
