// mutate: a small AST mutator used to look for changes our checks do not notice.
//
//	mutate -file F -list          prints the number of mutation sites in F
//	mutate -file F -n K -out G    writes F with its K-th mutation applied to G and prints a description
//
// Operators: comparison / logical / arithmetic operator swaps, negated if conditions, model.Clone(x) -> x,
// dropped expression / assignment / inc-dec statements, `return err` -> `return nil`, boolean and 0/1 literals.
package main

import (
	"bytes"
	"flag"
	"fmt"
	"go/ast"
	"go/parser"
	"go/format"
	"go/token"
	"os"
)

type site struct {
	desc  string
	apply func()
}

func main() {
	file := flag.String("file", "", "")
	n := flag.Int("n", -1, "")
	list := flag.Bool("list", false, "")
	out := flag.String("out", "", "")
	flag.Parse()
	fset := token.NewFileSet()
	f, err := parser.ParseFile(fset, *file, nil, parser.ParseComments)
	if err != nil {
		fmt.Fprintln(os.Stderr, err)
		os.Exit(2)
	}
	var sites []site
	pos := func(p token.Pos) string { return fmt.Sprintf("%s:%d", *file, fset.Position(p).Line) }
	swap := map[token.Token]token.Token{token.EQL: token.NEQ, token.NEQ: token.EQL, token.LSS: token.LEQ, token.LEQ: token.LSS,
		token.GTR: token.GEQ, token.GEQ: token.GTR, token.LAND: token.LOR, token.LOR: token.LAND, token.ADD: token.SUB, token.SUB: token.ADD}
	// statements inside blocks
	var inFunc string
	ast.Inspect(f, func(nd ast.Node) bool {
		switch x := nd.(type) {
		case *ast.FuncDecl:
			inFunc = x.Name.Name
		case *ast.BinaryExpr:
			if to, ok := swap[x.Op]; ok {
				from := x.Op
				sites = append(sites, site{fmt.Sprintf("%s %s: %s -> %s", pos(x.OpPos), inFunc, from, to), func() { x.Op = to }})
			}
		case *ast.IfStmt:
			sites = append(sites, site{fmt.Sprintf("%s %s: negate if condition", pos(x.Pos()), inFunc), func() {
				x.Cond = &ast.UnaryExpr{Op: token.NOT, X: &ast.ParenExpr{X: x.Cond}}
			}})
		case *ast.CallExpr:
			if sel, ok := x.Fun.(*ast.SelectorExpr); ok && len(x.Args) == 1 {
				if id, ok := sel.X.(*ast.Ident); ok && id.Name == "model" && sel.Sel.Name == "Clone" {
					_ = x
				}
			}
		case *ast.BlockStmt:
			for i, st := range x.List {
				i, st, x := i, st, x
				switch s := st.(type) {
				case *ast.ExprStmt:
					sites = append(sites, site{fmt.Sprintf("%s %s: drop call statement", pos(s.Pos()), inFunc), func() { x.List[i] = &ast.EmptyStmt{} }})
				case *ast.AssignStmt:
					if s.Tok == token.ASSIGN {
						sites = append(sites, site{fmt.Sprintf("%s %s: drop assignment", pos(s.Pos()), inFunc), func() { x.List[i] = &ast.EmptyStmt{} }})
					}
				case *ast.IncDecStmt:
					sites = append(sites, site{fmt.Sprintf("%s %s: drop inc/dec", pos(s.Pos()), inFunc), func() { x.List[i] = &ast.EmptyStmt{} }})
				case *ast.ReturnStmt:
					for k, r := range s.Results {
						if id, ok := r.(*ast.Ident); ok && id.Name == "err" {
							k, s := k, s
							sites = append(sites, site{fmt.Sprintf("%s %s: return nil instead of err", pos(s.Pos()), inFunc), func() { s.Results[k] = ast.NewIdent("nil") }})
						}
					}
				case *ast.BranchStmt:
					if s.Tok == token.CONTINUE || s.Tok == token.BREAK {
						sites = append(sites, site{fmt.Sprintf("%s %s: drop %s", pos(s.Pos()), inFunc, s.Tok), func() { x.List[i] = &ast.EmptyStmt{} }})
					}
				}
			}
		case *ast.Ident:
			if x.Name == "true" || x.Name == "false" {
				to := map[string]string{"true": "false", "false": "true"}[x.Name]
				sites = append(sites, site{fmt.Sprintf("%s %s: %s -> %s", pos(x.Pos()), inFunc, x.Name, to), func() { x.Name = to }})
			}
		case *ast.BasicLit:
			if x.Kind == token.INT && (x.Value == "0" || x.Value == "1") {
				to := map[string]string{"0": "1", "1": "0"}[x.Value]
				sites = append(sites, site{fmt.Sprintf("%s %s: literal %s -> %s", pos(x.Pos()), inFunc, x.Value, to), func() { x.Value = to }})
			}
		}
		return true
	})
	// model.Clone(x) -> x needs the parent: second pass over call arguments and assignments
	ast.Inspect(f, func(nd ast.Node) bool {
		replaceIn := func(exprs []ast.Expr) {
			for i, e := range exprs {
				if c, ok := e.(*ast.CallExpr); ok && len(c.Args) == 1 {
					if sel, ok := c.Fun.(*ast.SelectorExpr); ok {
						if id, ok := sel.X.(*ast.Ident); ok && id.Name == "model" && sel.Sel.Name == "Clone" {
							i, exprs, c := i, exprs, c
							sites = append(sites, site{fmt.Sprintf("%s: model.Clone(x) -> x", pos(c.Pos())), func() { exprs[i] = c.Args[0] }})
						}
					}
				}
			}
		}
		switch x := nd.(type) {
		case *ast.AssignStmt:
			replaceIn(x.Rhs)
		case *ast.ReturnStmt:
			replaceIn(x.Results)
		case *ast.CallExpr:
			replaceIn(x.Args)
		case *ast.CompositeLit:
			replaceIn(x.Elts)
		}
		return true
	})
	if *list {
		fmt.Println(len(sites))
		return
	}
	if *n < 0 || *n >= len(sites) {
		fmt.Fprintln(os.Stderr, "no such site")
		os.Exit(2)
	}
	sites[*n].apply()
	var buf bytes.Buffer
	if err := format.Node(&buf, fset, f); err != nil {
		fmt.Fprintln(os.Stderr, err)
		os.Exit(2)
	}
	if err := os.WriteFile(*out, buf.Bytes(), 0o644); err != nil {
		fmt.Fprintln(os.Stderr, err)
		os.Exit(2)
	}
	fmt.Println(sites[*n].desc)
}
