module mutate

go 1.18
