#!/usr/bin/env python3
import json,glob,sys
pat=sys.argv[1]
n=int(sys.argv[2]) if len(sys.argv)>2 else 99
for f in sorted(glob.glob('/verif/replays/%s-*.json'%pat))[:8]:
    e=json.load(open(f)); c=e['case']
    print(f[-30:],e['stream'],'|',e['why'])
    print(' impl',str(e['impl'])[:900]);print(' model',str(e['model'])[:900])
    for t in c['model']['tables']:
        print('  table',t['name'],'root' if t['isRoot'] else 'nonroot',t.get('indexes'),[ (x['name'],x['type']['kind'],x.get('refTable'),x.get('refType'),x.get('valRefTable'),x.get('valRefType'),x['type'].get('min')) for x in t['cols'] if x['name'].startswith('ref') or x['name'].startswith('own')])
    for t in c['txns'][-n:]:
        for o in t['ops']:
            print('   ',o['op'],o['table'],o['uuid'][:8],json.dumps(o['row']),json.dumps(o['mutations']),json.dumps(o['where']))
        print('   --')
    print()
