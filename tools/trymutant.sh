#!/bin/sh
# tools/trymutant.sh <patch.diff> <Cxx> [<Cyy> ...]: apply a mutant to /repo, run the quick checks, undo.
set -u
patch="$1"; shift
git -C /repo apply --exclude='_out/*' "$patch" || { echo "patch does not apply"; exit 2; }
for p in "$@"; do
  out=$(cd /verif && ./check "$p" --tier quick 2>&1); rc=$?
  echo "== $p exit=$rc"
  echo "$out" | grep -A1 "^VIOLATION" | head -8
done
git -C /repo checkout -- . && git -C /repo status --short | head -3
(cd /verif/extract && GOFLAGS=-mod=mod GOPROXY=off GOSUMDB=off GOTOOLCHAIN=local go run . -repo /repo -out /verif/lean/Ovsdb/Generated >/dev/null)
