#!/usr/bin/env python3
"""tools/validate_evidence.py: MANIFEST.json and every evidence/Cxx.json against the schemas in /root/.vp
(run with python3-vt, which has jsonschema)."""
import json, glob, sys
import jsonschema
bad = 0
jsonschema.validate(json.load(open('/verif/MANIFEST.json')), json.load(open('/root/.vp/MANIFEST.schema.json')))
es = json.load(open('/root/.vp/EVIDENCE.schema.json'))
for f in sorted(glob.glob('/verif/evidence/C*.json')):
    try:
        jsonschema.validate(json.load(open(f)), es)
    except Exception as e:
        bad += 1
        print(f, str(e).split('\n')[0])
print('manifest ok; evidence files:', len(glob.glob('/verif/evidence/C*.json')), 'invalid:', bad)
sys.exit(1 if bad else 0)
