#!/usr/bin/env python3
"""tools/mutloop.py N [seed]: apply N random AST mutations (tools/mutate) to anchored files of /repo, one at a
time; a mutation that compiles and survives the repository's own tests is run against the quick checks of the
properties anchored in that file; survivors are appended to /tmp/mutloop/survivors.jsonl with their diff.
Waits while /tmp/mutloop/pause exists. Always restores /repo (git checkout) after each mutation."""
import json, os, random, subprocess, sys, time, collections

REPO, VERIF, OUT = "/repo", "/verif", "/tmp/mutloop"
os.makedirs(OUT, exist_ok=True)
env = dict(os.environ, GOFLAGS="-mod=mod", GOPROXY="off", GOSUMDB="off", GOTOOLCHAIN="local")
n = int(sys.argv[1]); seed = int(sys.argv[2]) if len(sys.argv) > 2 else 1
rng = random.Random(seed)
anch = collections.defaultdict(list)
for l in open(f"{VERIF}/properties.jsonl"):
    d = json.loads(l)
    for f in d["anchors"]["files"]:
        anch[f].append(d["id"])
skip = {"cmd/modelgen/main.go", "ovsdb/serverdb/database.go", "client/options.go", "database/transaction/errors.go"}
files = [f for f in anch if f not in skip and os.path.exists(f"{REPO}/{f}")]
def sh(cmd, cwd=None, timeout=900):
    try:
        p = subprocess.run(cmd, cwd=cwd, env=env, stdout=subprocess.PIPE, stderr=subprocess.STDOUT, text=True, timeout=timeout)
        return p.returncode, p.stdout
    except subprocess.TimeoutExpired as e:
        return 124, (e.stdout or "")
sites = {}
for f in files:
    rc, out = sh([f"{VERIF}/tools/mutate/mutate", "-file", f"{REPO}/{f}", "-list"])
    sites[f] = int(out.strip() or 0)
weights = [sites[f] ** 0.5 for f in files]
log = open(f"{OUT}/log.txt", "a")
def say(*a):
    print(*a, flush=True); print(*a, file=log, flush=True)
PKGS = ["./ovsdb/", "./cache/", "./client/", "./server/", "./mapper/", "./model/", "./updates/", "./database/..."]
for it in range(n):
    while os.path.exists(f"{OUT}/pause"):
        time.sleep(5)
    f = rng.choices(files, weights)[0]
    k = rng.randrange(sites[f])
    sh(["git", "-C", REPO, "checkout", "--", "."])
    rc, desc = sh([f"{VERIF}/tools/mutate/mutate", "-file", f"{REPO}/{f}", "-n", str(k), "-out", f"{REPO}/{f}"])
    desc = desc.strip()
    if rc != 0:
        continue
    try:
        rc, out = sh(["go", "build"] + [p for p in PKGS] + ["./modelgen/"], cwd=REPO)
        if rc != 0:
            say(f"[{it}] {desc}: does not compile"); continue
        rc, out = sh(["go", "vet", "./" + os.path.dirname(f) + "/"], cwd=REPO)
        rc, out = sh(["go", "test", "-count=1"] + PKGS, cwd=REPO, timeout=300)
        if rc != 0:
            say(f"[{it}] {desc}: killed by the repository's tests"); continue
        killed = None
        for c in anch[f]:
            rc, out = sh([f"{VERIF}/check", c, "--tier", "quick"], cwd=VERIF, timeout=1200)
            if rc != 0:
                killed = c
                why = [l for l in out.split("\n") if l.startswith("  stream=") or l.startswith("  broken")][:1]
                say(f"[{it}] {desc}: killed by {c} {why}")
                break
        if killed is None:
            rc, diff = sh(["git", "-C", REPO, "diff"])
            say(f"[{it}] {desc}: SURVIVED {anch[f]}")
            with open(f"{OUT}/survivors.jsonl", "a") as s:
                s.write(json.dumps({"it": it, "seed": seed, "file": f, "site": k, "desc": desc, "checks": anch[f], "diff": diff}) + "\n")
    finally:
        sh(["git", "-C", REPO, "checkout", "--", "."])
sh(["go", "run", ".", "-repo", REPO, "-out", f"{VERIF}/lean/Ovsdb/Generated"], cwd=f"{VERIF}/extract")
say("done")
