#!/bin/sh
# Build the framework offline from files on disk: Lean project (model, proofs,
# driver executable), Go harness and extractor.
set -e
cd "$(dirname "$0")"
export GOFLAGS=-mod=mod GOPROXY=off GOSUMDB=off GOTOOLCHAIN=local CGO_ENABLED=0
(cd lean && lake build)
cp /repo/go.sum harness/go.sum 2>/dev/null || true
(cd harness && mkdir -p bin && go build -tags verif -o bin/harness .)
if [ -d extract ]; then (cd extract && go build -o bin/extract .); fi
mkdir -p evidence replays
echo setup-ok
