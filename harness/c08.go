package main

// C08: selecting rows by condition is exact, with or without indexes.

import (
	"fmt"
	"math/big"
	"sort"
	"strings"

	"github.com/go-logr/logr"
	"github.com/ovn-org/libovsdb/cache"
	"github.com/ovn-org/libovsdb/model"
	"github.com/ovn-org/libovsdb/ovsdb"
)

func init() { props["C08"] = runC08 }

type CondJ struct {
	Col string `json:"col"`
	Fn  string `json:"fn"`
	Val *Value `json:"val"`
}

var condFns = []string{"==", "!=", "<", "<=", ">", ">=", "includes", "excludes"}

func atomEq(a, b Atom) bool { return a.Key() == b.Key() }

func setHas(s []Atom, a Atom) bool {
	for _, x := range s {
		if atomEq(x, a) {
			return true
		}
	}
	return false
}

func mapGet(m [][2]Atom, k Atom) (Atom, bool) {
	for _, p := range m {
		if atomEq(p[0], k) {
			return p[1], true
		}
	}
	return Atom{}, false
}

func atomCmp(a, b Atom) int {
	if a.K == 'i' {
		switch {
		case a.I < b.I:
			return -1
		case a.I > b.I:
			return 1
		}
		return 0
	}
	return new(big.Rat).Set(a.R).Cmp(b.R)
}

// rfcEval: RFC 7047 section 5.1, written independently of the library and of
// the Lean model. defined=false when the RFC does not allow the function on
// that column type. An optional column is a set of zero or one element.
func rfcEval(fn string, col, val *Value) (res bool, defined bool) {
	asSet := func(v *Value) []Atom {
		if v.K == 'o' {
			if v.O == nil {
				return nil
			}
			return []Atom{*v.O}
		}
		return v.S
	}
	switch col.K {
	case 'a':
		a, b := col.A, val.A
		switch fn {
		case "==", "includes":
			return atomEq(a, b), true
		case "!=", "excludes":
			return !atomEq(a, b), true
		}
		if a.K != 'i' && a.K != 'r' {
			return false, false
		}
		c := atomCmp(a, b)
		switch fn {
		case "<":
			return c < 0, true
		case "<=":
			return c <= 0, true
		case ">":
			return c > 0, true
		case ">=":
			return c >= 0, true
		}
	case 'o', 'S':
		x, y := asSet(col), asSet(val)
		sub := func(p, q []Atom) bool {
			for _, e := range p {
				if !setHas(q, e) {
					return false
				}
			}
			return true
		}
		switch fn {
		case "==":
			return sub(x, y) && sub(y, x), true
		case "!=":
			return !(sub(x, y) && sub(y, x)), true
		case "includes":
			return sub(y, x), true
		case "excludes":
			for _, e := range y {
				if setHas(x, e) {
					return false, true
				}
			}
			return true, true
		}
		return false, false
	case 'M':
		x, y := col.M, val.M
		sub := func(p, q [][2]Atom) bool {
			for _, e := range p {
				v, ok := mapGet(q, e[0])
				if !ok || !atomEq(v, e[1]) {
					return false
				}
			}
			return true
		}
		switch fn {
		case "==":
			return sub(x, y) && sub(y, x), true
		case "!=":
			return !(sub(x, y) && sub(y, x)), true
		case "includes":
			return sub(y, x), true
		case "excludes":
			for _, e := range y {
				if v, ok := mapGet(x, e[0]); ok && atomEq(v, e[1]) {
					return false, true
				}
			}
			return true, true
		}
		return false, false
	}
	return false, false
}

func genCond(r *Run, table map[string]Row, uuids []string) CondJ {
	cols := []string{"name", "n", "tag", "x", "t2", "m", "s", "_uuid"}
	col := cols[r.Rng.Intn(len(cols))]
	fn := condFns[r.Rng.Intn(len(condFns))]
	if r.Rng.Intn(2) == 0 {
		fn = []string{"==", "includes", "!=", "excludes"}[r.Rng.Intn(4)]
	}
	if col == "_uuid" {
		u := c05UUIDs[r.Rng.Intn(len(c05UUIDs))]
		return CondJ{Col: col, Fn: fn, Val: VA(AU(u))}
	}
	var val *Value
	if len(uuids) > 0 && r.Rng.Intn(3) != 0 {
		src := table[uuids[r.Rng.Intn(len(uuids))]]
		val = cloneValue(src[col])
		// sub-collections make includes/excludes interesting
		if val.K == 'M' && len(val.M) > 0 && r.Rng.Intn(2) == 0 {
			i := r.Rng.Intn(len(val.M))
			val.M = [][2]Atom{val.M[i]}
		}
		if val.K == 'S' && len(val.S) > 1 && r.Rng.Intn(2) == 0 {
			val.S = val.S[:1]
		}
		if val.K == 'S' && r.Rng.Intn(3) == 0 { // extend
			val.S = append([]Atom{AS("zz")}, val.S...)
		}
		if val.K == 'S' && len(val.S) > 0 && r.Rng.Intn(4) == 0 { // an element written twice: the same set
			val.S = append(val.S, val.S[r.Rng.Intn(len(val.S))])
		}
		if val.K == 'S' && len(val.S) > 1 && r.Rng.Intn(2) == 0 { // permute
			r.Rng.Shuffle(len(val.S), func(i, j int) { val.S[i], val.S[j] = val.S[j], val.S[i] })
		}
	} else {
		val = cloneValue(genC05Row(r.Rng)[col])
	}
	return CondJ{Col: col, Fn: fn, Val: val}
}

func (c CondJ) toOvs(db *DB) ovsdb.Condition {
	if c.Col == "_uuid" {
		return ovsdb.NewCondition("_uuid", ovsdb.ConditionFunction(c.Fn), ovsdb.UUID{GoUUID: c.Val.A.S})
	}
	cs := db.Schema.Table("T").Column(c.Col)
	ct := db.Spec.Table("T").Col(c.Col).Type
	ov, err := ovsdb.NativeToOvs(cs, toNative(ct, c.Val))
	if err != nil {
		panic(err)
	}
	return ovsdb.NewCondition(c.Col, ovsdb.ConditionFunction(c.Fn), ov)
}

// c08Step: an update applied to the cache after it was filled (the way a notification changes a row)
type c08Step struct {
	UUID string `json:"uuid"`
	Row  Row    `json:"row"`
}

// the rows the caches of the current case start from and the updates that lead to its table (set by runC08
// around its own buildCache calls; nil for the shrinker, which rebuilds from the final rows)
var c08Initial map[string]Row
var c08Steps []c08Step

func buildCache(cfg idxConfig, table map[string]Row, order []string) (*DB, *cache.RowCache) {
	if c08Initial != nil {
		table = c08Initial
	}
	spec := SchemaSpec{Name: "db", Tables: []TableSpec{c05Table}}
	spec.Tables[0].Indexes = cfg.schema
	db, err := BuildDB(spec, cfg.clientIndexes())
	if err != nil {
		panic(err)
	}
	logger := logr.Discard()
	tc, err := cache.NewTableCache(db.Model, nil, &logger)
	if err != nil {
		panic(err)
	}
	rc := tc.Table("T")
	for i, u := range order {
		nativeNilEmpty = i%2 == 1 // every other row holds nil instead of empty collections
		m := db.NewModel("T", u, table[u])
		nativeNilEmpty = false
		if err := rc.Create(u, m, false); err != nil {
			panic(err)
		}
	}
	if c08Initial != nil {
		for _, st := range c08Steps {
			if _, err := rc.Update(st.UUID, db.NewModel("T", st.UUID, st.Row), false); err != nil {
				panic(err)
			}
		}
	}
	return db, rc
}

func queryImpl(db *DB, rc *cache.RowCache, conds []CondJ) (res []string, errs string) {
	defer func() {
		if p := recover(); p != nil {
			errs = fmt.Sprintf("panic: %v", p)
		}
	}()
	oc := make([]ovsdb.Condition, len(conds))
	for i, c := range conds {
		oc[i] = c.toOvs(db)
	}
	var rows map[string]model.Model
	rows, err := rc.RowsByCondition(oc)
	if err != nil {
		return nil, "err"
	}
	for u := range rows {
		res = append(res, u)
	}
	sort.Strings(res)
	return res, ""
}

// knownCondDeviation names the open known finding a condition falls under, if any.
func knownCondDeviation(c CondJ) string {
	return ""
}

// c08OracleFails: does the implementation's answer differ from the RFC scan for
// this (configuration, rows, conditions)?  Used for shrinking.
func c08OracleFails(cfg idxConfig, table map[string]Row, order []string, conds []CondJ) bool {
	db, rc := buildCache(cfg, table, order)
	got, gerr := queryImpl(db, rc, conds)
	var want []string
	for _, u := range order {
		all := true
		for _, c := range conds {
			cv := table[u][c.Col]
			if c.Col == "_uuid" {
				cv = VA(AU(u))
			}
			ok, def := rfcEval(c.Fn, cv, c.Val)
			if !def {
				return false
			}
			all = all && ok
		}
		if all {
			want = append(want, u)
		}
	}
	sort.Strings(want)
	return gerr != "" || strings.Join(got, "+") != strings.Join(want, "+")
}

// c08Shrink removes conditions, rows and index specs while the oracle still fails.
func c08Shrink(cfg idxConfig, table map[string]Row, order []string, conds []CondJ) (idxConfig, []string, []CondJ) {
	changed := true
	for changed {
		changed = false
		for i := range conds {
			c2 := append(append([]CondJ{}, conds[:i]...), conds[i+1:]...)
			if len(c2) > 0 && c08OracleFails(cfg, table, order, c2) {
				conds, changed = c2, true
				break
			}
		}
		for i := range order {
			o2 := append(append([]string{}, order[:i]...), order[i+1:]...)
			if c08OracleFails(cfg, table, o2, conds) {
				order, changed = o2, true
				break
			}
		}
		for i := range cfg.schema {
			c2 := cfg
			c2.schema = append(append([][]string{}, cfg.schema[:i]...), cfg.schema[i+1:]...)
			c2.build()
			if c08OracleFails(c2, table, order, conds) {
				cfg, changed = c2, true
				break
			}
		}
		for i := range cfg.client {
			c2 := cfg
			c2.client = append(append([][]CKey{}, cfg.client[:i]...), cfg.client[i+1:]...)
			c2.build()
			if c08OracleFails(c2, table, order, conds) {
				cfg, changed = c2, true
				break
			}
		}
	}
	return cfg, order, conds
}

// indexSnapshot: every configured index of the row cache, canonically
func indexSnapshot(cfg idxConfig, rc *cache.RowCache) string {
	var parts []string
	for _, sp := range cfg.specs {
		idx, err := rc.Index(strings.Split(sp.Name, ",")...)
		if err != nil {
			parts = append(parts, sp.Name+": "+err.Error())
			continue
		}
		g := map[string][]string{}
		for k, us := range idx {
			g[fmt.Sprintf("%v", k)] = append([]string{}, us...)
		}
		parts = append(parts, sp.Name+"="+groupsCanon(g, true))
	}
	return strings.Join(parts, " ; ")
}

// c08Reordered: the same value; a set or a map mostly with its elements written in another order
func c08Reordered(r *Run, v *Value) *Value {
	out := cloneValue(v)
	if r.Rng.Intn(3) != 0 {
		r.Rng.Shuffle(len(out.S), func(i, j int) { out.S[i], out.S[j] = out.S[j], out.S[i] })
		r.Rng.Shuffle(len(out.M), func(i, j int) { out.M[i], out.M[j] = out.M[j], out.M[i] })
	}
	return out
}

func runC08(r *Run) {
	r.Rule = "tables of 0-6 rows over table T (string, integer, optional string/integer, map, set columns) under two random index configurations, half of the tables reached through updates in which a row takes over another row's values before that one moves on; lists of 0-4 well-typed conditions over all columns incl. _uuid, values mostly taken from existing rows (sub-maps, permuted/extended sets); non-trivial = condition list that selects a proper non-empty subset of the rows; distinct by (rows, conditions)"
	n := 400
	if r.Tier == "thorough" {
		n = 5000
	}
	zero := Row{}
	for _, c := range c05Table.Cols {
		zero[c.Name] = zeroValue(c.Type)
	}
	c08API(r, n/16)
	c08InTransaction(r, n/8)
	for i := 0; i < n; i++ {
		cfg := genIdxConfig(r.Rng)
		// rows, unique under the schema indexes of cfg
		table := map[string]Row{}
		var order []string
		nrows := r.Rng.Intn(7)
		for _, k := range r.Rng.Perm(len(c05UUIDs))[:nrows] {
			u := c05UUIDs[k]
			for try := 0; try < 20; try++ {
				table[u] = genC05Row(r.Rng)
				if schemaUnique(cfg, table) {
					break
				}
				delete(table, u)
			}
			if _, ok := table[u]; ok {
				order = append(order, u)
			}
		}
		// half of the tables are reached through updates: a row takes over the values of another one, which
		// then moves on (in this order: the values are held by two rows for a moment, as they are when the
		// rows of one notification are applied one by one)
		var initial map[string]Row
		var steps []c08Step
		if len(order) >= 2 && r.Rng.Intn(2) == 0 {
			initial = map[string]Row{}
			for u, row := range table {
				initial[u] = row
			}
			for k := 1 + r.Rng.Intn(2); k > 0; k-- {
				pi := r.Rng.Perm(len(order))
				a, b := order[pi[0]], order[pi[1]]
				trial := map[string]Row{}
				for u, row := range table {
					trial[u] = row
				}
				trial[b], trial[a] = table[a], genC05Row(r.Rng)
				if !schemaUnique(cfg, trial) {
					continue
				}
				steps = append(steps, c08Step{b, trial[b]}, c08Step{a, trial[a]})
				table = trial
			}
			r.Count(fmt.Sprintf("history-steps:%d", len(steps)))
		}
		c08Initial, c08Steps = initial, steps
		db, rc := buildCache(cfg, table, order)
		// the same rows without any index
		_, rcPlain := buildCache(idxConfig{}, table, order)
		c08Initial, c08Steps = nil, nil
		var queries [][]CondJ
		for q := 0; q < 8; q++ {
			var conds []CondJ
			for k := r.Rng.Intn(5); k > 0; k-- {
				conds = append(conds, genCond(r, table, order))
			}
			// bias: an equality on a column of an index together with the _uuid of a row, or with an equality on
			// another indexed column taken from another row (two candidate sets that only partly overlap)
			if len(order) > 0 && len(cfg.specs) > 0 && r.Rng.Intn(4) == 0 {
				sp := cfg.specs[r.Rng.Intn(len(cfg.specs))]
				src := table[order[r.Rng.Intn(len(order))]]
				conds = nil
				for _, ck := range sp.Cols {
					if ck.Key == nil {
						conds = append(conds, CondJ{Col: ck.Col, Fn: "==", Val: c08Reordered(r, src[ck.Col])})
					}
				}
				if r.Rng.Intn(2) == 0 {
					conds = append(conds, CondJ{Col: "_uuid", Fn: "==", Val: VA(AU(order[r.Rng.Intn(len(order))]))})
				} else {
					sp2 := cfg.specs[r.Rng.Intn(len(cfg.specs))]
					src2 := table[order[r.Rng.Intn(len(order))]]
					for _, ck := range sp2.Cols {
						if ck.Key == nil {
							conds = append(conds, CondJ{Col: ck.Col, Fn: "==", Val: c08Reordered(r, src2[ck.Col])})
						}
					}
				}
			}
			// bias: several includes conditions on the map column (index over two keys)
			if r.Rng.Intn(6) == 0 {
				conds = append(conds, CondJ{Col: "m", Fn: "includes", Val: VM([2]Atom{AS("k1"), AS([]string{"", "v1", "v2"}[r.Rng.Intn(3)])})},
					CondJ{Col: "m", Fn: "includes", Val: VM([2]Atom{AS("k2"), AS([]string{"", "v1", "v2"}[r.Rng.Intn(3)])})})
			}
			queries = append(queries, conds)
		}
		rowsJ := [][]interface{}{}
		for _, u := range order {
			rowsJ = append(rowsJ, []interface{}{u, table[u]})
		}
		var mres []struct {
			UUIDs []string `json:"uuids"`
			Err   *string  `json:"err"`
		}
		qj := make([][]CondJ, len(queries))
		for i, q := range queries {
			qj[i] = q
			if q == nil {
				qj[i] = []CondJ{}
			}
		}
		req := map[string]interface{}{"fn": "rowsByCondition", "specs": cfg.specs, "rows": rowsJ, "zero": zero, "queries": qj}
		if err := r.Mdl.Call(req, &mres); err != nil {
			r.Violation("rowsByCondition", req, "", err.Error(), false, "model driver failed", "")
			continue
		}
		idxBefore := indexSnapshot(cfg, rc)
		for qi, conds := range queries {
			cs := map[string]interface{}{"specs": cfg.specs, "rows": rowsJ, "conds": conds, "earlier_queries": queries[:qi]}
			if len(steps) > 0 {
				cs["initial_rows"], cs["then_updated"] = initial, steps
			}
			got, gerr := queryImpl(db, rc, conds)
			// selecting rows is a read: the indexes of the cache must be what they were
			if now := indexSnapshot(cfg, rc); now != idxBefore {
				r.Violation("rowsByCondition", cs, now, idxBefore, true, fmt.Sprintf("query %d changed the indexes of the cache", qi), "")
				break
			}
			plain, perr := queryImpl(db, rcPlain, conds)
			// oracle
			wellTyped, known := true, ""
			var want []string
			for _, u := range order {
				all := true
				for _, c := range conds {
					var cv *Value
					if c.Col == "_uuid" {
						cv = VA(AU(u))
					} else {
						cv = table[u][c.Col]
					}
					ok, def := rfcEval(c.Fn, cv, c.Val)
					if !def {
						wellTyped = false
					}
					if k := knownCondDeviation(c); k != "" {
						known = k
					}
					all = all && ok
				}
				if all {
					want = append(want, u)
				}
			}
			for _, c := range conds { // typing does not depend on rows
				cv := zero[c.Col]
				if c.Col == "_uuid" {
					cv = VA(AU(""))
				}
				if _, def := rfcEval(c.Fn, cv, c.Val); !def {
					wellTyped = false
				}
				if k := knownCondDeviation(c); k != "" {
					known = k
				}
			}
			sort.Strings(want)
			key := ""
			if wellTyped && len(want) > 0 && len(want) < len(order) {
				key = fmt.Sprintf("%v|%v", rowsJ, conds)
			}
			r.Case("rowsByCondition", key)
			r.Count(fmt.Sprintf("conds:%d", len(conds)))
			for _, c := range conds {
				r.Count("fn:" + c.Fn)
			}
			if i < 2 && qi < 2 {
				r.Sample(cs)
			}
			gs, ws := strings.Join(got, "+"), strings.Join(want, "+")
			if wellTyped {
				r.Count("welltyped")
				if gerr != "" || gs != ws {
					if known == "" {
						scfg, sorder, sconds := c08Shrink(cfg, table, order, conds)
						srows := [][]interface{}{}
						for _, u := range sorder {
							srows = append(srows, []interface{}{u, table[u]})
						}
						cs = map[string]interface{}{"specs": scfg.specs, "rows": srows, "conds": sconds, "shrunk": true}
					}
					r.Violation("rowsByCondition", cs, gerr+gs, ws, true, "rows selected by conditions differ from RFC 7047 section 5.1 evaluation by scan", known)
					if known == "" {
						continue
					}
				}
				if known == "" && (perr != gerr || strings.Join(plain, "+") != gs) {
					r.Violation("index-independence", cs, gerr+gs, perr+strings.Join(plain, "+"), true, "answer depends on which indexes exist", "")
					continue
				}
			} else {
				r.Count("illtyped")
			}
			// correspondence with the model
			m := mres[qi]
			ms, merr := "", ""
			if m.Err != nil {
				merr = "err"
			} else {
				sort.Strings(m.UUIDs)
				ms = strings.Join(m.UUIDs, "+")
			}
			if strings.HasPrefix(gerr, "panic") {
				r.Violation("rowsByCondition", cs, gerr, merr+ms, true, "RowsByCondition panicked", "")
				continue
			}
			if merr != gerr || ms != gs {
				r.Violation("rowsByCondition", cs, gerr+gs, merr+ms, false, "model and implementation disagree on RowsByCondition", "")
			}
		}
	}
}

// c08InTransaction: selection inside a transaction: the rows an operation works on are those whose CURRENT
// version (as the earlier operations of the transaction left it) satisfies the conditions. An update moves
// rows out of (or into) the reach of a condition; the next operation of the same transaction selects with
// that condition. Compared with the RFC reference (the history machinery of C03).
func c08InTransaction(r *Run, n int) {
	for h := 0; h < n; h++ {
		ts := genTxnSchema(r.Rng, false)
		nT, ti := 5, 0
		c03History(r, 100000+h, ts, func(sh *shadow) *TxnJ {
			if ti >= nT {
				return nil
			}
			ti++
			txn := genTxn(r.Rng, ts, sh, 1+r.Rng.Intn(2))
			if ti < 3 {
				return &txn // rows first
			}
			t := ts.Spec.Tables[r.Rng.Intn(len(ts.Spec.Tables))]
			us := sh.uuids(t.Name)
			if len(us) == 0 {
				return &txn
			}
			src := sh.rows[t.Name][us[r.Rng.Intn(len(us))]]
			col := []string{"n", "name"}[r.Rng.Intn(2)]
			old := nativeToOvsValue(src[col])
			var nv *Value
			if col == "n" {
				nv = VA(AI(int64(50 + r.Rng.Intn(50))))
			} else {
				nv = VA(AS(fmt.Sprintf("moved%d", r.Rng.Intn(1000))))
			}
			where := []WCondJ{{Col: col, Fn: "==", Val: old}}
			follow := OperationJ{Op: []string{"select", "delete", "mutate", "select"}[r.Rng.Intn(4)], Table: t.Name}
			if follow.Op == "mutate" {
				follow.Mutations = []MutationJ{{Col: "n", Mutator: "+=", Val: VA(AI(1000))}}
			}
			// the old value no longer selects the moved rows; the new value does
			follow.Where = where
			if r.Rng.Intn(2) == 0 {
				follow.Where = []WCondJ{{Col: col, Fn: "==", Val: nv}}
			}
			txn.Ops = append(txn.Ops, OperationJ{Op: "update", Table: t.Name, Where: where, Row: Row{col: nv}}, follow)
			r.Count("in-transaction:" + follow.Op)
			return &txn
		})
	}
}
