package main

// A real OvsdbServer over the in-memory database, served on a unix socket, and
// real libovsdb clients attached to it (C01, C13, C14, C16, C17, C18).

import (
	"context"
	"fmt"
	"os"
	"path/filepath"
	"sort"
	"time"

	"github.com/go-logr/logr"
	"github.com/ovn-org/libovsdb/cache"
	"github.com/ovn-org/libovsdb/client"
	"github.com/ovn-org/libovsdb/database/inmemory"
	"github.com/ovn-org/libovsdb/model"
	"github.com/ovn-org/libovsdb/ovsdb"
	"github.com/ovn-org/libovsdb/server"
)

type Rig struct {
	ts   TxnSchema
	db   *DB
	im   *ImplDB // shares the in-memory database with the server
	srv  *server.OvsdbServer
	dir  string
	sock string
	// client indexes of the clients built by newClient (none unless set)
	clientIdx map[string][]model.ClientIndex
}

func newRig(ts TxnSchema) (*Rig, error) {
	im := newImplDB(ts)
	srv, err := server.NewOvsdbServer(im.d, im.db.Model)
	if err != nil {
		return nil, err
	}
	dir, err := os.MkdirTemp("", "verif-rig-")
	if err != nil {
		return nil, err
	}
	g := &Rig{ts: ts, db: im.db, im: im, srv: srv, dir: dir, sock: filepath.Join(dir, "db.sock")}
	go func() { _ = srv.Serve("unix", g.sock) }()
	for i := 0; i < 2000 && !srv.Ready(); i++ {
		time.Sleep(time.Millisecond)
	}
	if !srv.Ready() {
		g.Close()
		return nil, fmt.Errorf("server did not become ready")
	}
	return g, nil
}

func (g *Rig) Close() {
	if g.srv != nil {
		g.srv.Close()
	}
	_ = os.RemoveAll(g.dir)
}

func (g *Rig) endpoint() string { return "unix:" + g.sock }

// newClient builds a client with its own copy of the run-time model types
func (g *Rig) newClient(endpoint string, opts ...client.Option) (client.Client, *DB, error) {
	cdb, err := BuildDB(g.ts.Spec, g.clientIdx)
	if err != nil {
		return nil, nil, err
	}
	d := logr.Discard()
	all := append([]client.Option{client.WithEndpoint(endpoint), client.WithLogger(&d)}, opts...)
	c, err := client.NewOVSDBClient(cdb.Client, all...)
	return c, cdb, err
}

func ctxT(d time.Duration) (context.Context, context.CancelFunc) {
	return context.WithTimeout(context.Background(), d)
}

// cacheDump: the rows a client's cache holds, per table
type cacheClient interface{ Cache() *cache.TableCache }

func cacheDump(c cacheClient, cdb *DB, tables []string) []DumpRow {
	var out []DumpRow
	cch := c.Cache()
	if cch == nil { // a client without reconnect drops its cache when it is disconnected
		return out
	}
	for _, t := range tables {
		tc := cch.Table(t)
		if tc == nil {
			continue
		}
		for u, m := range tc.Rows() {
			id, r := cdb.RowOf(t, m)
			if id != u {
				r = Row{"_uuid_mismatch": VA(AS(id + " != " + u))}
			}
			out = append(out, DumpRow{Table: t, UUID: u, Row: r})
		}
	}
	sort.Slice(out, func(i, j int) bool { return out[i].Table+out[i].UUID < out[j].Table+out[j].UUID })
	return out
}

// project keeps, per table, only the given columns (nil = all); other columns get the zero value
func projectDump(spec SchemaSpec, d []DumpRow, cols map[string][]string) []DumpRow {
	var out []DumpRow
	for _, r := range d {
		want, ok := cols[r.Table]
		if !ok {
			continue
		}
		t := spec.Table(r.Table)
		row := Row{}
		for _, c := range t.Cols {
			keep := want == nil
			for _, w := range want {
				if w == c.Name {
					keep = true
				}
			}
			if keep {
				row[c.Name] = sortedValue(r.Row[c.Name])
			} else {
				row[c.Name] = zeroValue(c.Type)
			}
		}
		out = append(out, DumpRow{Table: r.Table, UUID: r.UUID, Row: row})
	}
	return out
}

func toOvsOps(ops []OperationJ) []ovsdb.Operation {
	var oo []ovsdb.Operation
	for _, o := range ops {
		oo = append(oo, o.toOvs())
	}
	return oo
}

var _ = inmemory.NewDatabase
var _ model.Model

// sortedValue: sets and maps in a canonical order (the model compares rows structurally)
func sortedValue(v *Value) *Value {
	if v == nil {
		return nil
	}
	switch v.K {
	case 'S':
		out := append([]Atom{}, v.S...)
		sort.Slice(out, func(i, j int) bool { return out[i].Key() < out[j].Key() })
		return &Value{K: 'S', S: out}
	case 'M':
		out := append([][2]Atom{}, v.M...)
		sort.Slice(out, func(i, j int) bool { return out[i][0].Key() < out[j][0].Key() })
		return &Value{K: 'M', M: out}
	}
	return v
}

// cacheIndexesConsistent: the schema indexes of the client's cache say what its rows say: every uuid filed
// under a value of an index is a row of the cache, and every row is filed exactly once per index. (A lookup by
// index values goes through these entries: a stale one brings back a row that is gone, or a row under a value
// it no longer holds.) Empty when consistent.
func cacheIndexesConsistent(c cacheClient, spec SchemaSpec, tables []string) string {
	cch := c.Cache()
	if cch == nil {
		return ""
	}
	for _, t := range tables {
		tc := cch.Table(t)
		ts := spec.Table(t)
		if tc == nil || ts == nil {
			continue
		}
		rows := tc.Rows()
		for _, ix := range ts.Indexes {
			idx, err := tc.Index(ix...)
			if err != nil {
				return fmt.Sprintf("table %s: Index(%v): %v", t, ix, err)
			}
			filed := map[string]int{}
			for k, us := range idx {
				for _, u := range us {
					if _, ok := rows[u]; !ok {
						return fmt.Sprintf("table %s index %v: value %v is filed for row %s, which the cache does not hold", t, ix, k, u)
					}
					filed[u]++
				}
			}
			for u := range rows {
				if filed[u] != 1 {
					return fmt.Sprintf("table %s index %v: row %s is filed under %d values", t, ix, u, filed[u])
				}
			}
		}
	}
	return ""
}
