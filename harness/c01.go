package main

// C01: a monitor-fed cache mirrors the database it monitors.
// Real server, real clients over a unix socket; histories of transactions;
// monitors of every method established at every point of the history.

import (
	"fmt"
	"sort"
	"strings"
	"time"

	"github.com/ovn-org/libovsdb/client"
	"github.com/ovn-org/libovsdb/ovsdb"
)

func init() { props["C01"] = runC01 }

var monitorMethods = []string{ovsdb.MonitorRPC, ovsdb.ConditionalMonitorRPC, ovsdb.ConditionalMonitorSinceRPC}

type monPlan struct {
	At     int                 `json:"at"`     // established before transaction At
	Client int                 `json:"client"` // which monitoring client
	Method string              `json:"method"`
	Cols   map[string][]string `json:"cols"` // table -> monitored columns (nil = all)
	// Window > 0: the monitor reply is held (pause point monitor.reply-received) while
	// Window transactions are committed by the writer and their notifications are handled
	Window int `json:"window,omitempty"`
	// Race: the monitor is requested while a transaction of the writer (the next
	// window transaction) has notified the existing monitors and is not yet committed
	Race bool `json:"race,omitempty"`
}

type c01Case struct {
	Model interface{} `json:"model"`
	// transactions committed inside monitor windows, in order of use
	WindowTxns []TxnJ    `json:"window_txns,omitempty"`
	Txns       []TxnJ    `json:"txns"`
	Who        []int     `json:"who"` // -1 = writer, i = monitoring client i
	Mons       []monPlan `json:"monitors"`
}

type monClient struct {
	c     client.Client
	db    *DB
	cols  map[string][]string      // union of what its monitors cover
	trace []map[string]interface{} // the client's actions, for the protocol model (Model/Client.lean)
}

func tablesOf(cols map[string][]string) []string {
	out := []string{}
	for t := range cols {
		out = append(out, t)
	}
	sort.Strings(out)
	return out
}

func (mc *monClient) notif(spec SchemaSpec, from, to []DumpRow) {
	if len(mc.cols) == 0 {
		return
	}
	mc.trace = append(mc.trace, map[string]interface{}{"a": "notif", "tables": tablesOf(mc.cols),
		"from": nonNil(projectDump(spec, from, mc.cols)), "to": nonNil(projectDump(spec, to, mc.cols))})
}

func nonNil(d []DumpRow) []DumpRow {
	if d == nil {
		return []DumpRow{}
	}
	return d
}

func (p monPlan) monitor() *client.Monitor {
	m := &client.Monitor{Method: p.Method, LastTransactionID: "00000000-0000-0000-0000-000000000000"}
	ts := make([]string, 0, len(p.Cols))
	for t := range p.Cols {
		ts = append(ts, t)
	}
	sort.Strings(ts)
	for _, t := range ts {
		m.Tables = append(m.Tables, client.TableMonitor{Table: t, Fields: p.Cols[t]})
	}
	return m
}

// monitorVia: the same monitor built through the public constructors (NewMonitor, WithTable with pointers to
// the fields of a model), which is how applications ask for tables and columns
func (p monPlan) monitorVia(c client.Client, db *DB) *client.Monitor {
	ts := make([]string, 0, len(p.Cols))
	for t := range p.Cols {
		ts = append(ts, t)
	}
	sort.Strings(ts)
	var opts []client.MonitorOption
	for _, t := range ts {
		m := db.NewModel(t, "", nil)
		opts = append(opts, client.WithTable(m, fieldPtrs(db, t, m, p.Cols[t])...))
	}
	mon := c.NewMonitor(opts...)
	mon.Method = p.Method
	return mon
}

func genMonPlans(r *Run, ts TxnSchema, nT int) []monPlan {
	rng := r.Rng
	var plans []monPlan
	nClients := 1 + rng.Intn(2)
	for ci := 0; ci < nClients; ci++ {
		tables := append([]TableSpec{}, ts.Spec.Tables...)
		rng.Shuffle(len(tables), func(i, j int) { tables[i], tables[j] = tables[j], tables[i] })
		nm := 1
		if len(tables) >= 2 && rng.Intn(2) == 0 {
			nm = 2 // an additional monitor on the same connection, over other tables
		}
		at := rng.Intn(nT)
		for k := 0; k < nm; k++ {
			var mine []TableSpec
			if nm == 1 {
				mine = tables[:1+rng.Intn(len(tables))]
			} else if k == 0 {
				mine = tables[:1+rng.Intn(len(tables)-1)]
				tables = tables[len(mine):]
			} else {
				mine = tables[:1+rng.Intn(len(tables))]
			}
			p := monPlan{At: at, Client: ci, Method: monitorMethods[rng.Intn(3)], Cols: map[string][]string{}}
			switch rng.Intn(4) {
			case 0, 1:
				p.Window = 1 + rng.Intn(2)
			case 2:
				p.Race = true
			}
			for _, t := range mine {
				var cols []string
				if rng.Intn(3) == 0 { // a column subset
					for _, c := range t.Cols {
						if rng.Intn(2) == 0 {
							cols = append(cols, c.Name)
						}
					}
				}
				p.Cols[t.Name] = cols
			}
			plans = append(plans, p)
			if at < nT-1 {
				at += rng.Intn(nT - at)
			}
		}
		if rng.Intn(3) == 0 {
			// one more monitor, over tables of which at least one is covered already: the cache holds one copy
			// of a table, so the client has to refuse it (defect D72: it did not, and the notifications of both
			// monitors were applied on top of each other)
			all := append([]TableSpec{}, ts.Spec.Tables...)
			rng.Shuffle(len(all), func(i, j int) { all[i], all[j] = all[j], all[i] })
			p := monPlan{At: at, Client: ci, Method: monitorMethods[rng.Intn(3)], Cols: map[string][]string{}}
			for _, t := range all[:1+rng.Intn(len(all))] {
				p.Cols[t.Name] = nil
			}
			for _, q := range plans {
				if q.Client == ci && len(p.Cols) < len(all) || len(p.Cols) == 0 {
					for t := range q.Cols {
						p.Cols[t] = nil
						break
					}
				}
			}
			plans = append(plans, p)
		}
	}
	sort.SliceStable(plans, func(i, j int) bool { return plans[i].At < plans[j].At })
	return plans
}

func runC01(r *Run) {
	r.Rule = "histories of transactions (insert/update/mutate/delete, garbage-collected and weak-reference-pruned rows, several rows per transaction) committed through a real OvsdbServer by a writer client and by the monitoring clients themselves; one or two monitoring clients, each with one or two monitors (monitor, monitor_cond, monitor_cond_since; all columns or a subset) established at a random point of the history; after every transaction each cache is compared with Database.List on the monitored tables and columns; non-trivial = accepted transaction that changes a monitored table of an established monitor; distinct by (schema, history prefix, monitor plan)"
	nHist := 40
	if r.Tier == "thorough" {
		nHist = 600
	}
	// servers that do not know the newer monitor methods
	c01Fallback(r, nHist/4)
	// a monitor reply and the notification behind it processed at the same instant
	c01Simultaneous(r, nHist*10)
	for h := 0; h < nHist; h++ {
		ts := genTxnSchema(r.Rng, h%2 == 0)
		nT := 4 + r.Rng.Intn(7)
		plans := genMonPlans(r, ts, nT)
		cs, f := c01History(r, h, ts, nT, plans, nil, nil, nil)
		if f != nil {
			cs = c01Shrink(r, ts, cs, f)
			_, f2 := c01History(r, -1, ts, len(cs.Txns), cs.Mons, cs.Txns, cs.Who, cs.WindowTxns)
			if f2 == nil {
				f2 = f // not reproducible on replay: report the original observation
			}
			r.Violation(f2.Stream, cs, f2.Impl, f2.Want, f2.Stream != "protocol-model", f2.Why, f2.Known)
		}
	}
}

type c01Fail struct{ Stream, Impl, Want, Why, Known string }

func (f *c01Fail) kind() string {
	if strings.Contains(f.Why, "the cache of") {
		return "mirror"
	}
	return f.Stream + ":" + strings.SplitN(f.Why, " ", 2)[0]
}

// c01History runs one history; if txns is non-nil it is replayed instead of generated (shrinking)
func c01History(r *Run, h int, ts TxnSchema, nT int, plans []monPlan, txns []TxnJ, who []int, wtxns []TxnJ) (cs *c01Case, fail *c01Fail) {
	replay := h < 0
	wi := 0
	cs = &c01Case{Model: ts.modelJSON(), Mons: plans}
	rig, err := newRig(ts)
	if err != nil {
		return cs, &c01Fail{"rig", err.Error(), "", "cannot start the server", ""}
	}
	defer rig.Close()
	report := func(stream string, impl, want, why string, known string) {
		fail = &c01Fail{stream, impl, want, why, known}
	}
	count := func(k string) {
		if !replay {
			r.Count(k)
		}
	}
	writer, _, err := rig.newClient(rig.endpoint())
	if err != nil {
		report("rig", err.Error(), "", "cannot create the writer", "")
		return
	}
	ctx, cancel := ctxT(20 * time.Second)
	defer cancel()
	if err := writer.Connect(ctx); err != nil {
		report("rig", err.Error(), "", "writer cannot connect", "")
		return
	}
	defer writer.Close()
	clients := map[int]*monClient{}
	defer func() {
		for _, mc := range clients {
			mc.c.Close()
		}
	}()
	sh := newShadow()
	overlapAccepted := ""
	defer func() {
		if fail == nil && overlapAccepted != "" {
			fail = &c01Fail{"protocol-model", overlapAccepted, "refused (Model/Client.lean monitorAccepted)",
				"the client accepted a monitor of a table it monitors already (no difference between cache and database was seen afterwards)", ""}
		}
	}()
	for ti := 0; ti <= nT && fail == nil; ti++ {
		// monitors due now
		for _, p := range plans {
			if p.At != ti {
				continue
			}
			mc := clients[p.Client]
			if mc == nil {
				c, cdb, err := rig.newClient(rig.endpoint())
				if err != nil {
					report("rig", err.Error(), "", "cannot create a monitoring client", "")
					return
				}
				if err := c.Connect(ctx); err != nil {
					report("monitor", err.Error(), "connected", "a monitoring client cannot connect", "")
					return
				}
				mc = &monClient{c: c, db: cdb, cols: map[string][]string{}}
				clients[p.Client] = mc
			}
			if len(mc.cols) > 0 {
				// an additional monitor: accepted exactly when it covers none of the client's tables
				var accepted bool
				if err := r.Mdl.Call(map[string]interface{}{"fn": "monitorAccepted", "existing": [][]string{tablesOf(mc.cols)},
					"tables": tablesOf(p.Cols)}, &accepted); err != nil {
					report("protocol-model", err.Error(), "", "model driver failed", "")
					return
				}
				if !accepted {
					count("overlapping-monitor")
					octx, ocancel := ctxT(10 * time.Second)
					_, err := mc.c.Monitor(octx, p.monitor())
					ocancel()
					if err == nil {
						// the client took it: it counts as established, and what follows shows what becomes of the cache
						overlapAccepted = fmt.Sprintf("monitor %v over %v accepted by a client that monitors %v", p.Method, tablesOf(p.Cols), tablesOf(mc.cols))
						for t, c := range p.Cols {
							if old, ok := mc.cols[t]; !ok || old != nil {
								mc.cols[t] = c
							}
						}
					}
					if !c01Compare(r, rig, clients, cs, ti, "after a monitor over tables the client monitors already", report) {
						return
					}
					continue
				}
			}
			done := make(chan error, 1)
			var pp *pausePoint
			var racePP *pausePoint
			regDump := rig.im.dump() // the database at the point the server registers the monitor (updated below)
			raceBefore := regDump
			newCols := map[string][]string{}
			for t, c := range mc.cols {
				newCols[t] = c
			}
			for t, c := range p.Cols {
				newCols[t] = c
			}
			raceDone := make(chan error, 1)
			if p.Race {
				var txn TxnJ
				if txns != nil {
					if wi < len(wtxns) {
						txn = wtxns[wi]
						wi++
					}
				} else {
					// make sure it is accepted and touches a monitored table: insert a row into one
					txn = raceTxn(r, ts, p)
				}
				cs.WindowTxns = append(cs.WindowTxns, txn)
				if len(txn.Ops) > 0 {
					racePP = pauses.arm("transact.after-notify")
					go func() {
						_, err := writer.Transact(ctx, toOvsOps(txn.Ops)...)
						raceDone <- err
					}()
					select {
					case <-racePP.reached:
						count("race-txn")
						// the existing monitors have been notified; the transaction commits before the
						// new monitor is registered (server as repaired)
						raceBefore = regDump
					case <-raceDone: // rejected before notifying: no race
						pauses.disarm("transact.after-notify")
						racePP = nil
					case <-time.After(10 * time.Second):
						pauses.disarm("transact.after-notify")
						report("transact", "no return after 10s", "results", "a transaction did not reach its commit", "")
						return
					}
				}
			}
			if p.Window > 0 {
				pp = pauses.arm("monitor.reply-received")
			}
			startAt := len(mc.trace)
			mc.trace = append(mc.trace, map[string]interface{}{"a": "start"})
			mon := p.monitor()
			if (h+ti)%2 == 0 {
				mon = p.monitorVia(mc.c, mc.db)
				count("monitor-built-by-options")
			}
			go func() {
				_, err := mc.c.Monitor(ctx, mon)
				done <- err
			}()
			if pp != nil {
				if !pp.waitReached(10 * time.Second) {
					pauses.disarm("monitor.reply-received")
					report("monitor", "reply not received after 10s", "monitor reply", "Monitor did not get its reply ("+p.Method+")", "")
					return
				}
				// transactions whose notifications overtake the application of the reply
				winPrev := regDump
				for k := 0; k < p.Window && fail == nil; k++ {
					var txn TxnJ
					if txns != nil {
						if wi >= len(wtxns) {
							break
						}
						txn = wtxns[wi]
						wi++
					} else {
						txn = genTxn(r.Rng, ts, sh, 1+r.Rng.Intn(3))
						clampWaits(&txn)
					}
					cs.WindowTxns = append(cs.WindowTxns, txn)
					wd := make(chan error, 1)
					go func() {
						_, err := writer.Transact(ctx, toOvsOps(txn.Ops)...)
						wd <- err
					}()
					select {
					case <-wd:
					case <-time.After(10 * time.Second):
						pp.Release()
						report("transact", "no return after 10s", "results", "a transaction committed while a monitor reply is pending did not return", "")
						return
					}
					after := rig.im.dump()
					sh.load(after)
					count("window-txn")
					for _, other := range clients {
						if other == mc {
							saved := mc.cols
							mc.cols = newCols
							mc.notif(ts.Spec, winPrev, after)
							mc.cols = saved
						} else {
							other.notif(ts.Spec, winPrev, after)
						}
					}
					winPrev = after
				}
				pp.Release()
			}
			if racePP != nil {
				// let the monitor be set up inside the window if the server allows it, then commit
				select {
				case err := <-done:
					done <- err
				case <-time.After(150 * time.Millisecond):
				}
				racePP.Release()
				select {
				case <-raceDone:
				case <-time.After(10 * time.Second):
					report("transact", "no return after 10s", "results", "a transaction did not return after its commit was released", "")
					return
				}
				sh.load(rig.im.dump())
				regDump = rig.im.dump()
				for _, other := range clients {
					other.notif(ts.Spec, raceBefore, regDump)
				}
			}
			select {
			case err := <-done:
				if err != nil {
					report("monitor", err.Error(), "monitor established", "Monitor failed ("+p.Method+")", "")
					return
				}
			case <-time.After(10 * time.Second):
				report("monitor", "no return after 10s", "monitor established", "Monitor did not return ("+p.Method+")", "")
				return
			}
			if racePP != nil {
				// Monitor() was called before the race transaction's commit, its request was served after it:
				// the notification of the race transaction to the existing monitors was handled first
				st := mc.trace[startAt]
				mc.trace = append(append(append([]map[string]interface{}{}, mc.trace[:startAt]...), mc.trace[startAt+1:]...), st)
			}
			mc.trace = append(mc.trace, map[string]interface{}{"a": "reply", "purge": false, "tables": tablesOf(p.Cols),
				"db": nonNil(projectDump(ts.Spec, regDump, p.Cols))})
			for t, c := range p.Cols {
				mc.cols[t] = c
			}
			count("monitor:" + p.Method)
			if len(mc.cols) > len(p.Cols) {
				count("additional-monitor")
			}
			if !c01Compare(r, rig, clients, cs, ti, "after establishing a monitor", report) {
				return
			}
		}
		if ti == nT {
			break
		}
		// an additional Monitor call that fails (no tables, a table the model does not have, a cancelled
		// context) must leave the client as it was: the monitors it has keep feeding the cache
		if len(clients) > 0 && r.Rng.Intn(5) == 0 {
			ids := []int{}
			for id := range clients {
				ids = append(ids, id)
			}
			sort.Ints(ids)
			mc := clients[ids[r.Rng.Intn(len(ids))]]
			if len(mc.cols) > 0 {
				bad := &client.Monitor{Method: monitorMethods[r.Rng.Intn(3)], LastTransactionID: "00000000-0000-0000-0000-000000000000"}
				fctx, fcancel := ctxT(2 * time.Second)
				// (a Monitor call whose context expires is not used here: its request may have reached the server,
				// which then feeds the cache through a monitor the client does not know about, and a later
				// Monitor of that table is answered with rows the cache already holds; the call fails with an
				// error, which the properties allow, so it is noted in DESIGN.md and not held against C01)
				if r.Rng.Intn(2) == 0 {
					count("failed-monitor:no-tables")
				} else {
					bad.Tables = []client.TableMonitor{{Table: "NoSuchTable"}}
					count("failed-monitor:unknown-table")
				}
				_, _ = mc.c.Monitor(fctx, bad)
				fcancel()
			}
		}
		// the transaction
		var txn TxnJ
		w := -1
		if txns != nil {
			if ti >= len(txns) {
				break
			}
			txn, w = txns[ti], who[ti]
		} else {
			txn = genTxn(r.Rng, ts, sh, 1+r.Rng.Intn(4))
			if r.Rng.Intn(3) == 0 {
				// a row touched twice in one transaction (the notification carries the merged difference)
				if t2, ok := genDoubleMutateTxn(r.Rng, ts, sh); ok {
					txn = t2
				}
			} else if ts.Spec.Tables[0].Col("wset") != nil && r.Rng.Intn(3) != 0 {
				// a row that refers weakly to one row through a set and through an optional column, and the
				// deletion of that row: the pruning touches both columns of the referrer
				if t2, ok := genWeakBothTxn(r.Rng, ts, sh); ok {
					txn = t2
					count("weak-both:" + t2.Ops[0].Op)
				}
			}
			clampWaits(&txn)
			if len(clients) > 0 && r.Rng.Intn(3) == 0 {
				ids := []int{}
				for id := range clients {
					ids = append(ids, id)
				}
				sort.Ints(ids)
				w = ids[r.Rng.Intn(len(ids))]
			}
		}
		if w >= 0 && clients[w] == nil {
			w = -1
		}
		cs.Txns = append(cs.Txns, txn)
		cs.Who = append(cs.Who, w)
		tc := writer
		if w >= 0 {
			tc = clients[w].c
		}
		prevDump := rig.im.dump()
		type tres struct {
			res []ovsdb.OperationResult
			err error
		}
		done := make(chan tres, 1)
		go func() {
			res, err := tc.Transact(ctx, toOvsOps(txn.Ops)...)
			done <- tres{res, err}
		}()
		var tr tres
		select {
		case tr = <-done:
		case <-time.After(10 * time.Second):
			report("transact", "no return after 10s", "results", fmt.Sprintf("transaction %d: Transact did not return", ti), "")
			return
		}
		accepted := tr.err == nil
		for _, x := range tr.res {
			if x.Error != "" {
				accepted = false
			}
		}
		d := rig.im.dump()
		sh.load(d)
		for _, mc := range clients {
			mc.notif(ts.Spec, prevDump, d)
		}
		key := ""
		if accepted {
			for _, o := range txn.Ops {
				for _, mc := range clients {
					if _, ok := mc.cols[o.Table]; ok && o.Op != "select" && o.Op != "wait" {
						key = fmt.Sprintf("%d|%d", h, ti)
					}
				}
			}
			count("txn:accepted")
		} else {
			count("txn:rejected")
		}
		if !replay {
			r.Case("history", key)
		}
		if w >= 0 {
			count("own-transaction")
		}
		if !c01Compare(r, rig, clients, cs, ti, fmt.Sprintf("after transaction %d", ti), report) {
			return
		}
	}
	return
}

// c01Compare: every monitoring client's cache equals the database on what it monitors
func c01Compare(r *Run, rig *Rig, clients map[int]*monClient, cs *c01Case, ti int, when string,
	report func(stream, impl, want, why, known string)) bool {
	d := rig.im.dump()
	ids := []int{}
	for id := range clients {
		ids = append(ids, id)
	}
	sort.Ints(ids)
	for _, id := range ids {
		mc := clients[id]
		if len(mc.cols) == 0 {
			continue
		}
		var tables []string
		for t := range mc.cols {
			tables = append(tables, t)
		}
		sort.Strings(tables)
		want := dumpCanon(projectDump(rig.ts.Spec, d, mc.cols))
		got := dumpCanon(projectDump(rig.ts.Spec, cacheDump(mc.c, mc.db, tables), mc.cols))
		// unmonitored columns must hold nothing the database does not hold: compare full cache rows' extra columns to zero
		if got != want {
			report("mirror", diffLines(got, want), "cache = database on monitored tables/columns",
				fmt.Sprintf("%s the cache of client %d differs from the database", when, id), "")
			return false
		}
		// the indexes of the cache (lookups by index values go through them) say what its rows say
		var whole []string
		for _, t := range tables {
			if mc.cols[t] == nil {
				whole = append(whole, t)
			}
		}
		if why := cacheIndexesConsistent(mc.c, rig.ts.Spec, whole); why != "" {
			report("mirror", why, "the cache's indexes hold its rows and nothing else",
				fmt.Sprintf("%s the indexes of the cache of client %d do not match its rows", when, id), "")
			return false
		}
		// the protocol model, driven by the same actions
		var mo struct {
			Rows      []DumpRow `json:"rows"`
			Failed    bool      `json:"failed"`
			Deferring bool      `json:"deferring"`
		}
		if err := r.Mdl.Call(map[string]interface{}{"fn": "clientProtocol", "strict": true, "pinned": false, "deferring": true, "actions": mc.trace}, &mo); err != nil {
			report("protocol-model", err.Error(), "", "model driver failed", "")
			return false
		}
		if m := dumpCanon(mo.Rows); m != got || mo.Failed || mo.Deferring {
			report("protocol-model", diffLines(got, m), fmt.Sprintf("failed=%v deferring=%v", mo.Failed, mo.Deferring),
				fmt.Sprintf("%s the cache of client %d differs from the protocol model's", when, id), "")
			return false
		}
	}
	return true
}

// raceTxn: an insert into a root table the monitor covers (accepted whatever the state)
func raceTxn(r *Run, ts TxnSchema, p monPlan) TxnJ {
	for _, t := range ts.Spec.Tables {
		if _, ok := p.Cols[t.Name]; !ok || !t.IsRoot {
			continue
		}
		row := Row{"name": VA(AS(fmt.Sprintf("race%d", r.Rng.Intn(1000000)))), "n": VA(AI(int64(1000 + r.Rng.Intn(1000000))))}
		return TxnJ{Ops: []OperationJ{{Op: "insert", Table: t.Name, UUID: mkUUID(900000 + r.Rng.Intn(90000)), Row: row}}}
	}
	return TxnJ{}
}

func clampWaits(txn *TxnJ) {
	for i := range txn.Ops {
		if txn.Ops[i].Op == "wait" {
			zero := 0
			txn.Ops[i].Timeout = &zero
		}
	}
}

func diffLines(got, want string) string {
	g := map[string]bool{}
	for _, l := range strings.Split(got, "\n") {
		g[l] = true
	}
	w := map[string]bool{}
	for _, l := range strings.Split(want, "\n") {
		w[l] = true
	}
	var out []string
	for l := range g {
		if !w[l] && l != "" {
			out = append(out, "cache only: "+l)
		}
	}
	for l := range w {
		if !g[l] && l != "" {
			out = append(out, "db only:    "+l)
		}
	}
	sort.Strings(out)
	if len(out) > 8 {
		out = out[:8]
	}
	return strings.Join(out, "\n")
}

// c01Shrink replays the failing history with transactions and monitors removed
func c01Shrink(r *Run, ts TxnSchema, cs *c01Case, f *c01Fail) *c01Case {
	cur := *cs
	fails := func(c c01Case) bool {
		_, f2 := c01History(r, -1, ts, len(c.Txns), c.Mons, c.Txns, c.Who, c.WindowTxns)
		return f2 != nil && f2.kind() == f.kind()
	}
	budget := 120
	for budget > 0 {
		progress := false
		for i := len(cur.Txns) - 1; i >= 0 && budget > 0; i-- {
			c := cur
			c.Txns = append(append([]TxnJ{}, cur.Txns[:i]...), cur.Txns[i+1:]...)
			c.Who = append(append([]int{}, cur.Who[:i]...), cur.Who[i+1:]...)
			c.Mons = nil
			for _, p := range cur.Mons {
				if p.At > i {
					p.At--
				}
				c.Mons = append(c.Mons, p)
			}
			budget--
			if fails(c) {
				cur, progress = c, true
			}
		}
		for i := len(cur.Mons) - 1; i >= 0 && len(cur.Mons) > 1 && budget > 0; i-- {
			c := cur
			c.Mons = append(append([]monPlan{}, cur.Mons[:i]...), cur.Mons[i+1:]...)
			budget--
			if fails(c) {
				cur, progress = c, true
			}
		}
		for i := len(cur.WindowTxns) - 1; i >= 0 && budget > 0; i-- {
			// emptying a window transaction keeps the positions of the others
			if len(cur.WindowTxns[i].Ops) == 0 {
				continue
			}
			c := cur
			c.WindowTxns = append([]TxnJ{}, cur.WindowTxns...)
			c.WindowTxns[i] = TxnJ{}
			budget--
			if fails(c) {
				cur, progress = c, true
			}
		}
		for i := range cur.WindowTxns {
			for j := len(cur.WindowTxns[i].Ops) - 1; j >= 0 && len(cur.WindowTxns[i].Ops) > 1 && budget > 0; j-- {
				c := cur
				c.WindowTxns = append([]TxnJ{}, cur.WindowTxns...)
				c.WindowTxns[i] = TxnJ{Ops: append(append([]OperationJ{}, cur.WindowTxns[i].Ops[:j]...), cur.WindowTxns[i].Ops[j+1:]...)}
				budget--
				if fails(c) {
					cur, progress = c, true
				}
			}
		}
		for i := range cur.Txns {
			for j := len(cur.Txns[i].Ops) - 1; j >= 0 && len(cur.Txns[i].Ops) > 1 && budget > 0; j-- {
				c := cur
				c.Txns = append([]TxnJ{}, cur.Txns...)
				c.Txns[i] = TxnJ{Ops: append(append([]OperationJ{}, cur.Txns[i].Ops[:j]...), cur.Txns[i].Ops[j+1:]...)}
				budget--
				if fails(c) {
					cur, progress = c, true
				}
			}
		}
		if !progress {
			break
		}
	}
	return &cur
}
