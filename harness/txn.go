package main

// Shared engine for the transaction-level properties (C02, C03, C04, C06,
// C15, C07): schema/operation generators, an adapter around the real
// in-memory database and Transaction, dumps, and the call into the model.

import (
	"encoding/json"
	"fmt"
	"math"
	"math/rand"
	"os"
	"sort"
	"strings"

	"github.com/google/uuid"
	"github.com/ovn-org/libovsdb/database"
	"github.com/ovn-org/libovsdb/database/inmemory"
	"github.com/ovn-org/libovsdb/model"
	"github.com/ovn-org/libovsdb/ovsdb"
)

type WCondJ struct {
	Col string `json:"col"`
	Fn  string `json:"fn"`
	Val *Value `json:"val"`
}

type OperationJ struct {
	Op        string      `json:"op"`
	Table     string      `json:"table"`
	Row       Row         `json:"row"`
	Rows      []Row       `json:"rows"`
	Columns   []string    `json:"columns"`
	Mutations []MutationJ `json:"mutations"`
	Timeout   *int        `json:"timeout"`
	Where     []WCondJ    `json:"where"`
	Until     string      `json:"until"`
	UUID      string      `json:"uuid"`
	UUIDName  string      `json:"uuid-name"`
}

func (o OperationJ) toOvs() ovsdb.Operation {
	op := ovsdb.Operation{Op: o.Op, Table: o.Table, Columns: o.Columns, Timeout: o.Timeout, Until: o.Until, UUID: o.UUID, UUIDName: o.UUIDName}
	if o.Row != nil {
		op.Row = rowToOvs(o.Row)
	}
	for _, r := range o.Rows {
		op.Rows = append(op.Rows, rowToOvs(r))
	}
	for _, m := range o.Mutations {
		op.Mutations = append(op.Mutations, *ovsdb.NewMutation(m.Col, ovsdb.Mutator(m.Mutator), toOvs(m.Val)))
	}
	for _, c := range o.Where {
		op.Where = append(op.Where, ovsdb.NewCondition(c.Col, ovsdb.ConditionFunction(c.Fn), toOvs(c.Val)))
	}
	return op
}

// ---- schema generation

type TxnSchema struct {
	Spec  SchemaSpec
	Specs map[string][]ISpec // per table, as newRowCache builds them
}

func mkUUID(n int) string { return fmt.Sprintf("%08x-0000-4000-8000-%012x", n, n) }

// allowNoRoot: may genTxnSchema produce schemas in which no table is marked as root? (set by the streams whose
// oracles know the rule: the transaction properties)
var allowNoRoot = false

func genTxnSchema(rng *rand.Rand, withRefs bool) TxnSchema {
	nt := 2 + rng.Intn(3)
	names := []string{"T0", "T1", "T2", "T3"}[:nt]
	var spec SchemaSpec
	spec.Name = "db"
	for i, name := range names {
		t := TableSpec{Name: name, IsRoot: i == 0 || rng.Intn(2) == 0}
		t.Cols = append(t.Cols,
			ColSpec{Name: "name", Type: ColType{Kind: "atom", Key: "string", Min: 1, Max: 1}},
			ColSpec{Name: "n", Type: ColType{Kind: "atom", Key: "integer", Min: 1, Max: 1}})
		extra := []ColSpec{
			{Name: "tag", Type: ColType{Kind: "opt", Key: "string", Min: 0, Max: 1}},
			{Name: "tag2", Type: ColType{Kind: "opt", Key: "string", Min: 0, Max: 1}},
			{Name: "s", Type: ColType{Kind: "set", Key: "string", Min: 0, Max: -1}},
			{Name: "m", Type: ColType{Kind: "map", Key: "string", Val: "string", Min: 0, Max: -1}},
			{Name: "r", Type: ColType{Kind: "atom", Key: "real", Min: 1, Max: 1}},
			{Name: "b", Type: ColType{Kind: "atom", Key: "boolean", Min: 1, Max: 1}},
			{Name: "is", Type: ColType{Kind: "set", Key: "integer", Min: 0, Max: -1}},
			{Name: "im", Type: ColType{Kind: "map", Key: "integer", Val: "integer", Min: 0, Max: -1}},
			{Name: "fixed", Type: ColType{Kind: "atom", Key: "string", Min: 1, Max: 1}, Immutable: true},
			// collections with a finite bound above one (the code has paths that look at max alone)
			{Name: "bs", Type: ColType{Kind: "set", Key: "integer", Min: 0, Max: 5}},
			{Name: "bm", Type: ColType{Kind: "map", Key: "string", Val: "integer", Min: 0, Max: 4096}},
		}
		for _, c := range extra {
			if rng.Intn(2) == 0 {
				t.Cols = append(t.Cols, c)
			}
		}
		if withRefs {
			nr := rng.Intn(3)
			if i > 0 && !t.IsRoot && nr == 0 {
				nr = 1
			}
			for k := 0; k < nr; k++ {
				target := names[rng.Intn(nt)]
				rt := "strong"
				if rng.Intn(3) == 0 {
					rt = "weak"
				}
				cn := fmt.Sprintf("ref%d", k)
				switch rng.Intn(6) {
				case 5:
					// a scalar reference (exactly one): released, like the others, when its row goes
					t.Cols = append(t.Cols, ColSpec{Name: cn, Type: ColType{Kind: "atom", Key: "uuid", Min: 1, Max: 1}, RefTable: target, RefType: rt})
				case 0:
					min := 0
					if rt == "weak" && rng.Intn(2) == 0 {
						min = 1
					}
					t.Cols = append(t.Cols, ColSpec{Name: cn, Type: ColType{Kind: "set", Key: "uuid", Min: min, Max: -1}, RefTable: target, RefType: rt})
				case 1:
					t.Cols = append(t.Cols, ColSpec{Name: cn, Type: ColType{Kind: "opt", Key: "uuid", Min: 0, Max: 1}, RefTable: target, RefType: rt})
				case 2:
					// (weak references in maps can have a minimum too: pruning must not go below it)
					min := 0
					if rt == "weak" && rng.Intn(2) == 0 {
						min = 1
					}
					t.Cols = append(t.Cols, ColSpec{Name: cn, Type: ColType{Kind: "map", Key: "uuid", Val: "string", Min: min, Max: -1}, RefTable: target, RefType: rt})
				case 3:
					min := 0
					if rt == "weak" && rng.Intn(2) == 0 {
						min = 1
					}
					t.Cols = append(t.Cols, ColSpec{Name: cn, Type: ColType{Kind: "map", Key: "string", Val: "uuid", Min: min, Max: -1}, ValRefTable: target, ValRefType: rt})
				default:
					t.Cols = append(t.Cols, ColSpec{Name: cn, Type: ColType{Kind: "set", Key: "uuid", Min: 0, Max: -1}, RefTable: target, RefType: rt})
				}
			}
		}
		hasFixed := false
		for _, c := range t.Cols {
			hasFixed = hasFixed || c.Name == "fixed"
		}
		hasS := false
		for _, c := range t.Cols {
			hasS = hasS || c.Name == "s"
		}
		hasTags := 0
		for _, c := range t.Cols {
			if c.Name == "tag" || c.Name == "tag2" {
				hasTags++
			}
		}
		switch rng.Intn(7) {
		case 6:
			// two optional columns of one type: (unset, a) and (a, unset) are different tuples
			if hasTags == 2 {
				t.Indexes = [][]string{{"tag", "tag2"}}
			}
		case 4, 5:
			// a set column used whole (its value is unordered)
			if hasS {
				t.Indexes = [][]string{{"s"}}
				if rng.Intn(2) == 0 {
					t.Indexes = [][]string{{"name", "s"}}
				}
			}
		case 0:
			t.Indexes = [][]string{{"name"}}
		case 1:
			t.Indexes = [][]string{{"name"}, {"n"}}
		case 2:
			t.Indexes = [][]string{{"name", "n"}}
		case 3:
			// two columns of one type: ("", "a") and ("a", "") are different tuples
			if hasFixed {
				t.Indexes = [][]string{{"name", "fixed"}}
			} else {
				t.Indexes = [][]string{{"name", "n"}}
			}
		}
		spec.Tables = append(spec.Tables, t)
	}
	if withRefs && rng.Intn(2) == 0 {
		// chains: rows of a non-root table that hold each other alive (next), held by a root row (chead) that
		// also refers to them weakly (cwatch): dropping the head garbage collects the chain link by link, and
		// every pass of the reference bookkeeping touches the same root row again
		uu := ColType{Kind: "set", Key: "uuid", Min: 0, Max: -1}
		// (half of the time the weak column has a minimum: a chain that goes link by link, one pass of the
		// reference bookkeeping after the other, leaves it with too few elements only in the last pass)
		watch := uu
		watch.Min = rng.Intn(2)
		spec.Tables[0].Cols = append(spec.Tables[0].Cols, ColSpec{Name: "chead", Type: uu, RefTable: chainTable, RefType: "strong"},
			ColSpec{Name: "cwatch", Type: watch, RefTable: chainTable, RefType: "weak"})
		spec.Tables = append(spec.Tables, TableSpec{Name: chainTable, Cols: []ColSpec{
			{Name: "name", Type: ColType{Kind: "atom", Key: "string", Min: 1, Max: 1}},
			{Name: "n", Type: ColType{Kind: "atom", Key: "integer", Min: 1, Max: 1}},
			{Name: "next", Type: uu, RefTable: chainTable, RefType: "strong"}}})
	}
	if withRefs && rng.Intn(2) == 0 && len(spec.Tables) > 1 {
		// one row referring weakly to the same row through a set and through an optional column (to a root
		// table where there is one: its rows stay although nothing refers to them strongly)
		target := spec.Tables[1+rng.Intn(len(spec.Tables)-1)].Name
		for _, t := range spec.Tables[1:] {
			if t.IsRoot {
				target = t.Name
			}
		}
		spec.Tables[0].Cols = append(spec.Tables[0].Cols,
			ColSpec{Name: "wset", Type: ColType{Kind: "set", Key: "uuid", Min: 0, Max: -1}, RefTable: target, RefType: "weak"},
			ColSpec{Name: "wopt", Type: ColType{Kind: "opt", Key: "uuid", Min: 0, Max: 1}, RefTable: target, RefType: "weak"})
	}
	// every non-root table needs a strong referrer column somewhere, else its rows can never live
	for i := range spec.Tables {
		t := &spec.Tables[i]
		if t.IsRoot {
			continue
		}
		found := false
		for _, o := range spec.Tables {
			for _, c := range o.Cols {
				if (c.RefTable == t.Name && c.RefType != "weak") || (c.ValRefTable == t.Name && c.ValRefType != "weak") {
					found = true
				}
			}
		}
		if !found {
			spec.Tables[0].Cols = append(spec.Tables[0].Cols, ColSpec{Name: "own" + t.Name, Type: ColType{Kind: "set", Key: "uuid", Min: 0, Max: -1}, RefTable: t.Name, RefType: "strong"})
		}
	}
	if allowNoRoot && rng.Intn(6) == 0 {
		// no table marked as root: RFC 7047 then counts every table as part of the root set
		for i := range spec.Tables {
			spec.Tables[i].IsRoot = false
		}
	}
	ts := TxnSchema{Spec: spec, Specs: map[string][]ISpec{}}
	for _, t := range spec.Tables {
		cfg := idxConfig{schema: t.Indexes}
		cfg.build()
		sp := cfg.specs
		if sp == nil {
			sp = []ISpec{}
		}
		ts.Specs[t.Name] = sp
	}
	return ts
}

func (ts TxnSchema) modelJSON() map[string]interface{} {
	specs := [][]interface{}{}
	var names []string
	for n := range ts.Specs {
		names = append(names, n)
	}
	sort.Strings(names)
	for _, n := range names {
		specs = append(specs, []interface{}{n, ts.Specs[n]})
	}
	return map[string]interface{}{"tables": ts.Spec.Tables, "specs": specs}
}

// ---- the real database

type ImplDB struct {
	ts TxnSchema
	db *DB
	d  database.Database
}

func newImplDB(ts TxnSchema) *ImplDB {
	db, err := BuildDB(ts.Spec, nil)
	if err != nil {
		panic(err)
	}
	d := inmemory.NewDatabase(map[string]model.ClientDBModel{"db": db.Client})
	if err := d.CreateDatabase("db", db.Schema); err != nil {
		panic(err)
	}
	return &ImplDB{ts: ts, db: db, d: d}
}

type ResultJ struct {
	Count int     `json:"count"`
	Error *string `json:"error"`
	// Details of an error result (not compared with the model)
	Details string `json:"details,omitempty"`
	UUID    string `json:"uuid"`
	Rows    []Row  `json:"rows"`
}

func classOf(e string) string {
	switch e {
	case "":
		return ""
	case "constraint violation", "referential integrity violation", "domain error", "range error", "not supported", "timed out":
		return e
	}
	return "other"
}

func (r ResultJ) canon() string {
	e := ""
	if r.Error != nil {
		return "err:" + classOf(*r.Error)
	}
	var rows []string
	for _, row := range r.Rows {
		rows = append(rows, row.Canon())
	}
	sort.Strings(rows)
	return fmt.Sprintf("%scount=%d uuid=%s rows=%s", e, r.Count, r.UUID, strings.Join(rows, "|"))
}

type TxnOutcome struct {
	Results   []ResultJ
	NResults  int // length of the Go result slice (incl. nil entries and the extra element)
	Committed bool
	CommitErr string
	Updates   map[string]ModelUpdateJ // "table/uuid" -> accumulated update
	Panic     string
}

type DumpRow struct {
	Table string `json:"table"`
	UUID  string `json:"uuid"`
	Row   Row    `json:"row"`
}

// transact runs one transaction as OvsdbServer.Transact does (without the RPC
// layer): Transact on a new transaction, then Commit if no result has an error.
func (im *ImplDB) transact(ops []OperationJ, afterTransact func(upd database.Update, ok bool)) (out TxnOutcome) {
	defer func() {
		if p := recover(); p != nil {
			out.Panic = fmt.Sprint(p)
		}
	}()
	var oo []ovsdb.Operation
	for _, o := range ops {
		oo = append(oo, o.toOvs())
	}
	tx := im.d.NewTransaction("db")
	res, upd := tx.Transact(oo...)
	out.NResults = len(res)
	ok := true
	for _, r := range res {
		if r == nil {
			continue
		}
		rj := ResultJ{Count: r.Count, UUID: r.UUID.GoUUID}
		if r.Error != "" {
			e := r.Error
			rj.Error = &e
			rj.Details = r.Details
			ok = false
		}
		for i := range r.Rows {
			rj.Rows = append(rj.Rows, rowFromOvs(&r.Rows[i]))
		}
		out.Results = append(out.Results, rj)
	}
	out.Updates = map[string]ModelUpdateJ{}
	if ok {
		for _, t := range upd.GetUpdatedTables() {
			tt := t
			_ = upd.ForEachModelUpdate(tt, func(u string, old, new model.Model) error {
				mu := out.Updates[tt+"/"+u]
				if old != nil {
					id, r := im.db.RowOf(tt, old)
					mu.Old = &ModelJ{UUID: id, Row: r}
				}
				if new != nil {
					id, r := im.db.RowOf(tt, new)
					mu.New = &ModelJ{UUID: id, Row: r}
				}
				out.Updates[tt+"/"+u] = mu
				return nil
			})
			_ = upd.ForEachRowUpdate(tt, func(u string, ru ovsdb.RowUpdate2) error {
				mu := out.Updates[tt+"/"+u]
				mu.RU2 = &RU2J{Initial: rowFromOvs(ru.Initial), Insert: rowFromOvs(ru.Insert), Modify: rowFromOvs(ru.Modify),
					Delete: ru.Delete != nil, Old: rowFromOvs(ru.Old), New: rowFromOvs(ru.New)}
				out.Updates[tt+"/"+u] = mu
				return nil
			})
		}
	}
	if afterTransact != nil {
		afterTransact(upd, ok)
	}
	if ok {
		out.Committed = true
		if err := im.d.Commit("db", uuid.New(), upd); err != nil {
			out.CommitErr = err.Error()
		}
	}
	return
}

func (im *ImplDB) dump() []DumpRow {
	var out []DumpRow
	for _, t := range im.ts.Spec.Tables {
		rows, err := im.d.List("db", t.Name)
		if err != nil {
			panic(err)
		}
		for u, m := range rows {
			_, r := im.db.RowOf(t.Name, m)
			out = append(out, DumpRow{Table: t.Name, UUID: u, Row: r})
		}
	}
	sort.Slice(out, func(i, j int) bool { return out[i].Table+out[i].UUID < out[j].Table+out[j].UUID })
	return out
}

func dumpCanon(d []DumpRow) string {
	var parts []string
	for _, r := range d {
		parts = append(parts, r.Table+"/"+r.UUID+":"+r.Row.Canon())
	}
	sort.Strings(parts)
	return strings.Join(parts, "\n")
}

type RefJ struct {
	ToTable    string   `json:"toTable"`
	FromTable  string   `json:"fromTable"`
	FromColumn string   `json:"fromColumn"`
	FromValue  bool     `json:"fromValue"`
	To         string   `json:"to"`
	From       []string `json:"from"`
}

func refsCanon(rs []RefJ) string {
	var parts []string
	for _, r := range rs {
		f := append([]string{}, r.From...)
		sort.Strings(f)
		if len(f) == 0 {
			continue
		}
		parts = append(parts, fmt.Sprintf("%s<-%s.%s[%v] %s: %s", r.ToTable, r.FromTable, r.FromColumn, r.FromValue, r.To, strings.Join(f, ",")))
	}
	sort.Strings(parts)
	return strings.Join(parts, "\n")
}

// refs dumps the database's persistent reference index for every known uuid.
func (im *ImplDB) refs(uuids map[string][]string) []RefJ {
	var out []RefJ
	for _, t := range im.ts.Spec.Tables {
		for _, u := range uuids[t.Name] {
			refs, err := im.d.GetReferences("db", t.Name, u)
			if err != nil {
				panic(err)
			}
			for spec, ref := range refs {
				for to, from := range ref {
					out = append(out, RefJ{ToTable: spec.ToTable, FromTable: spec.FromTable, FromColumn: spec.FromColumn, FromValue: spec.FromValue, To: to, From: append([]string{}, from...)})
				}
			}
		}
	}
	return out
}

// ---- model side

type ModelTxnOut struct {
	Results   []ResultJ `json:"results"`
	Committed bool      `json:"committed"`
	CommitErr *string   `json:"commitErr"`
	Updates   []struct {
		Table  string       `json:"table"`
		UUID   string       `json:"uuid"`
		Update ModelUpdateJ `json:"update"`
	} `json:"updates"`
	Rows []DumpRow `json:"rows"`
	Refs []RefJ    `json:"refs"`
}

type TxnJ struct {
	Ops []OperationJ `json:"ops"`
}

func modelHistory(r *Run, ts TxnSchema, txns []TxnJ) ([]ModelTxnOut, error) {
	var out []ModelTxnOut
	err := r.Mdl.Call(map[string]interface{}{"fn": "dbHistory", "model": ts.modelJSON(), "txns": txns}, &out)
	return out, err
}

func mustJSON(v interface{}) string {
	b, err := json.Marshal(v)
	if err != nil {
		panic(err)
	}
	return string(b)
}

// ---- operation generation

type shadow struct {
	rows map[string]map[string]Row // table -> uuid -> row (from the last dump)
	next int
	// a claim to make in the next transaction: the values a row holds in one schema index of its table,
	// after the previous transaction changed its value in another index of the same table
	pending *pendingClaim
	// selects to put in front of the next transaction
	probes []OperationJ
}

type pendingClaim struct {
	table string
	uuid  string
	index []string
	src   Row // the values to claim when the row itself is gone by then
}

func newShadow() *shadow { return &shadow{rows: map[string]map[string]Row{}, next: 1} }

func (s *shadow) load(d []DumpRow) {
	s.rows = map[string]map[string]Row{}
	for _, r := range d {
		if s.rows[r.Table] == nil {
			s.rows[r.Table] = map[string]Row{}
		}
		s.rows[r.Table][r.UUID] = r.Row
	}
}

func (s *shadow) uuids(table string) []string {
	var out []string
	for u := range s.rows[table] {
		out = append(out, u)
	}
	sort.Strings(out)
	return out
}

func (s *shadow) fresh() string { s.next++; return mkUUID(s.next) }

var txnNames = []string{"a", "b", "c", "d"}

type txnGen struct {
	rng      *rand.Rand
	ts       TxnSchema
	sh       *shadow
	named    map[string]string // table -> names declared in this transaction usable as references
	inserted map[string][]string
	claimSrc string // uuid of the row whose index values the last genIndexClaim copied
}

// genRefAtom: a uuid atom for a reference to `target`: mostly an existing row,
// sometimes a row inserted in this transaction (by uuid or by name), rarely a
// uuid that does not exist.
func (g *txnGen) genRefAtom(target string) Atom {
	ex := g.sh.uuids(target)
	ins := g.inserted[target]
	k := g.rng.Intn(10)
	switch {
	case k < 5 && len(ex) > 0:
		return AU(ex[g.rng.Intn(len(ex))])
	case k < 8 && len(ins) > 0:
		return AU(ins[g.rng.Intn(len(ins))])
	case k < 9 && len(ex) > 0:
		return AU(ex[g.rng.Intn(len(ex))])
	default:
		return AU(mkUUID(900 + g.rng.Intn(3)))
	}
}

// bigNeighbours: integers beyond 2^53 next to each other (float64 rounds them to one value)
var bigNeighbours = []int64{1 << 53, 1<<53 + 1, -(1 << 53), -(1<<53 + 1)}

func (g *txnGen) genColValue(c ColSpec) *Value {
	rng := g.rng
	atomFor := func(t, ref string) Atom {
		if t == "uuid" && ref != "" {
			return g.genRefAtom(ref)
		}
		switch t {
		case "string":
			return AS([]string{"", "a", "b", "c", "d"}[rng.Intn(5)])
		case "integer":
			if rng.Intn(6) == 0 {
				return AI(bigNeighbours[rng.Intn(len(bigNeighbours))])
			}
			return AI(int64(rng.Intn(4)))
		}
		return genAtom(rng, t)
	}
	ct := c.Type
	switch ct.Kind {
	case "atom":
		return VA(atomFor(ct.Key, c.RefTable))
	case "opt":
		if rng.Intn(3) == 0 {
			return VO(nil)
		}
		a := atomFor(ct.Key, c.RefTable)
		return VO(&a)
	case "set":
		seen := map[string]bool{}
		out := []Atom{}
		for i := rng.Intn(4); i > 0; i-- {
			a := atomFor(ct.Key, c.RefTable)
			if !seen[a.Key()] {
				seen[a.Key()] = true
				out = append(out, a)
			}
		}
		return &Value{K: 'S', S: out}
	default:
		seen := map[string]bool{}
		out := [][2]Atom{}
		for i := rng.Intn(4); i > 0; i-- {
			a := atomFor(ct.Key, c.RefTable)
			if !seen[a.Key()] {
				seen[a.Key()] = true
				out = append(out, [2]Atom{a, atomFor(ct.Val, c.ValRefTable)})
			}
		}
		return &Value{K: 'M', M: out}
	}
}

func (g *txnGen) genWhere(t TableSpec) []WCondJ {
	rng := g.rng
	ex := g.sh.uuids(t.Name)
	if len(t.Indexes) > 0 && len(ex) >= 2 && rng.Intn(8) == 0 {
		// the values one row holds in the columns of an index, and the uuid of another row: the lookup goes
		// through the index and keeps nothing of what the index gave (which it must leave as it was)
		holder, other := ex[rng.Intn(len(ex))], ex[rng.Intn(len(ex))]
		if src := g.sh.rows[t.Name][holder]; src != nil && holder != other {
			var where []WCondJ
			for _, c := range t.Indexes[rng.Intn(len(t.Indexes))] {
				if src[c] != nil {
					where = append(where, WCondJ{Col: c, Fn: "==", Val: nativeToOvsValue(src[c])})
				}
			}
			where = append(where, WCondJ{Col: "_uuid", Fn: "==", Val: VA(AU(other))})
			if rng.Intn(2) == 0 {
				where[0], where[len(where)-1] = where[len(where)-1], where[0]
			}
			return where
		}
	}
	if rng.Intn(10) == 0 {
		// equality with a proper part of the set a row holds, written with as many elements as the row has (one
		// of them twice): not the row's set
		for _, c := range t.Cols {
			if c.Type.Kind != "set" || c.Type.Key == "uuid" {
				continue
			}
			for _, u := range ex {
				if cur := g.sh.rows[t.Name][u][c.Name]; cur != nil && len(cur.S) >= 2 {
					part := append([]Atom{}, cur.S[:len(cur.S)-1]...)
					part = append(part, part[rng.Intn(len(part))])
					return []WCondJ{{Col: c.Name, Fn: []string{"==", "!="}[rng.Intn(2)], Val: &Value{K: 'S', S: part}}}
				}
			}
		}
	}
	switch k := rng.Intn(12); {
	case k >= 10 && len(ex) > 0:
		// a row named by its uuid AND a guard on its contents (which holds or not), in either order
		u := ex[rng.Intn(len(ex))]
		guard := WCondJ{Col: "n", Fn: []string{"<", "<=", ">", ">=", "!=", "=="}[rng.Intn(6)], Val: VA(AI(int64(rng.Intn(4))))}
		if rng.Intn(4) == 0 {
			guard.Val = VA(AI(bigNeighbours[rng.Intn(len(bigNeighbours))]))
		}
		if rng.Intn(2) == 0 {
			guard = WCondJ{Col: "name", Fn: []string{"==", "!="}[rng.Intn(2)], Val: VA(AS([]string{"", "a", "b", "c", "d"}[rng.Intn(5)]))}
		}
		if src, ok := g.sh.rows[t.Name][u]; ok && rng.Intn(2) == 0 {
			if v := src["n"]; v != nil {
				guard = WCondJ{Col: "n", Fn: "==", Val: nativeToOvsValue(v)} // the guard of an optimistic update: holds
			}
		}
		byU := WCondJ{Col: "_uuid", Fn: "==", Val: VA(AU(u))}
		if rng.Intn(2) == 0 {
			return []WCondJ{byU, guard}
		}
		return []WCondJ{guard, byU}
	case k >= 10:
		return nil
	case k < 4 && len(ex) > 0:
		return []WCondJ{{Col: "_uuid", Fn: "==", Val: VA(AU(ex[rng.Intn(len(ex))]))}}
	case k < 7:
		return []WCondJ{{Col: "name", Fn: "==", Val: VA(AS([]string{"", "a", "b", "c", "d"}[rng.Intn(5)]))}}
	case k < 8:
		v := int64(rng.Intn(4))
		if rng.Intn(2) == 0 {
			// an ordering among integers that a float64 cannot tell apart
			v = bigNeighbours[rng.Intn(len(bigNeighbours))]
		}
		return []WCondJ{{Col: "n", Fn: []string{"<", "<=", ">", ">=", "!=", "=="}[rng.Intn(6)], Val: VA(AI(v))}}
	case k < 9:
		return nil // all rows
	default:
		c := t.Cols[rng.Intn(len(t.Cols))]
		fn := []string{"==", "!=", "includes", "excludes"}[rng.Intn(4)]
		val := nativeToOvsValue(g.genColValue(c))
		if val.K == 'S' && len(val.S) > 0 && c.Type.Kind == "set" && rng.Intn(3) == 0 {
			// a condition may write an element of its set twice: it is the same set
			val.S = append(val.S, val.S[rng.Intn(len(val.S))])
		}
		if c.Type.Kind == "set" && rng.Intn(2) == 0 {
			// ... in particular a proper part of what a row holds, written with as many elements as the row has
			for _, u := range ex {
				if cur := g.sh.rows[t.Name][u][c.Name]; cur != nil && len(cur.S) >= 2 {
					part := append([]Atom{}, cur.S[:len(cur.S)-1]...)
					part = append(part, part[rng.Intn(len(part))])
					val = &Value{K: 'S', S: part}
					fn = []string{"==", "!="}[rng.Intn(2)]
					break
				}
			}
		}
		return []WCondJ{{Col: c.Name, Fn: fn, Val: val}}
	}
}

func (g *txnGen) genOp() OperationJ {
	rng := g.rng
	t := g.ts.Spec.Tables[rng.Intn(len(g.ts.Spec.Tables))]
	switch k := rng.Intn(20); {
	case k < 7: // insert
		row := Row{}
		for _, c := range t.Cols {
			if rng.Intn(3) != 0 {
				row[c.Name] = nativeToOvsValue(g.genColValue(c))
			}
		}
		op := OperationJ{Op: "insert", Table: t.Name, Row: row}
		op.UUID = g.sh.fresh()
		if rng.Intn(10) == 0 {
			// a uuid that is taken: by a row inserted earlier in this transaction, or by a stored row (which an
			// earlier operation of the transaction may have deleted)
			if ins := g.inserted[t.Name]; len(ins) > 0 && rng.Intn(2) == 0 {
				op.UUID = ins[rng.Intn(len(ins))]
			} else if ex := g.sh.uuids(t.Name); len(ex) > 0 {
				op.UUID = ex[rng.Intn(len(ex))]
			}
		}
		g.inserted[t.Name] = append(g.inserted[t.Name], op.UUID)
		return op
	case k < 11: // update
		row := Row{}
		for _, c := range t.Cols {
			if rng.Intn(4) == 0 {
				row[c.Name] = nativeToOvsValue(g.genColValue(c))
			}
		}
		return OperationJ{Op: "update", Table: t.Name, Row: row, Where: g.genWhere(t)}
	case k < 15: // mutate
		var ms []MutationJ
		for j := 1 + rng.Intn(2); j > 0; j-- {
			c := t.Cols[rng.Intn(len(t.Cols))]
			for try := 0; try < 6; try++ {
				kk := c.Type.Kind
				if kk == "set" || kk == "map" || (kk == "atom" && (c.Type.Key == "integer" || c.Type.Key == "real") && !c.Immutable) {
					break
				}
				c = t.Cols[rng.Intn(len(t.Cols))]
			}
			var m MutationJ
			if c.Type.Key == "uuid" || c.Type.Val == "uuid" {
				// reference collections: insert/delete of generated references
				v := g.genColValue(c)
				mut := []string{"insert", "delete"}[rng.Intn(2)]
				if c.Type.Kind == "map" && mut == "delete" && rng.Intn(2) == 0 {
					ks := []Atom{}
					for _, p := range v.M {
						ks = append(ks, p[0])
					}
					v = &Value{K: 'S', S: ks}
				}
				m = MutationJ{Col: c.Name, Mutator: mut, Val: v}
			} else {
				// (biased towards what a stored row holds in that column: deleting keys and elements that exist)
				var cur *Value
				if ex := g.sh.uuids(t.Name); len(ex) > 0 {
					cur = g.sh.rows[t.Name][ex[rng.Intn(len(ex))]][c.Name]
				}
				m = genMutation(rng, c, cur)
			}
			m.Val = nativeToOvsValue(m.Val)
			ms = append(ms, m)
		}
		return OperationJ{Op: "mutate", Table: t.Name, Mutations: ms, Where: g.genWhere(t)}
	case k < 17:
		return OperationJ{Op: "delete", Table: t.Name, Where: g.genWhere(t)}
	case k < 19:
		return OperationJ{Op: "select", Table: t.Name, Where: g.genWhere(t)}
	default:
		zero := 0
		rows := []Row{}
		for i := rng.Intn(2); i > 0; i-- {
			rows = append(rows, Row{"name": VA(AS([]string{"a", "b"}[rng.Intn(2)]))})
		}
		return OperationJ{Op: "wait", Table: t.Name, Where: g.genWhere(t), Columns: []string{"name"}, Until: []string{"==", "!="}[rng.Intn(2)], Rows: rows, Timeout: &zero}
	}
}

// genDoubleMutateTxn: one row's set or map column changed by several operations of one transaction
func genDoubleMutateTxn(rng *rand.Rand, ts TxnSchema, sh *shadow) (TxnJ, bool) {
	g := &txnGen{rng: rng, ts: ts, sh: sh, named: map[string]string{}, inserted: map[string][]string{}}
	ops := g.genDoubleMutate()
	return TxnJ{Ops: ops}, len(ops) > 0
}

// genWeakBothTxn: see genWeakBoth
func genWeakBothTxn(rng *rand.Rand, ts TxnSchema, sh *shadow) (TxnJ, bool) {
	g := &txnGen{rng: rng, ts: ts, sh: sh, named: map[string]string{}, inserted: map[string][]string{}}
	ops := g.genWeakBoth()
	return TxnJ{Ops: ops}, len(ops) > 0
}

// genChainTxn: a transaction about chains (see genChainBuild / genChainDrop), with up to two other operations
func genChainTxn(rng *rand.Rand, ts TxnSchema, sh *shadow) TxnJ {
	g := &txnGen{rng: rng, ts: ts, sh: sh, named: map[string]string{}, inserted: map[string][]string{}}
	var t TxnJ
	for k := rng.Intn(2); k > 0; k-- {
		t.Ops = append(t.Ops, g.genOp())
	}
	if ops := g.genChainDrop(); ops != nil && rng.Intn(4) != 0 {
		t.Ops = append(t.Ops, ops...)
	} else {
		t.Ops = append(t.Ops, g.genChainBuild()...)
	}
	if rng.Intn(3) == 0 {
		t.Ops = append(t.Ops, g.genOp())
	}
	return t
}

func genTxn(rng *rand.Rand, ts TxnSchema, sh *shadow, nops int) TxnJ {
	g := &txnGen{rng: rng, ts: ts, sh: sh, named: map[string]string{}, inserted: map[string][]string{}}
	var t TxnJ
	var tail []OperationJ
	// index traffic: values of an index moving between existing rows inside one transaction, and
	// inserts that claim the index values of an existing row (must be rejected unless that row goes)
	if len(sh.probes) > 0 {
		t.Ops = append(t.Ops, sh.probes...)
		sh.probes = nil
	}
	if sh.pending != nil {
		gone := sh.pending.src != nil
		op, ok := g.genPendingClaim()
		sh.pending = nil
		if ok {
			tail = append(tail, op)
			if gone && rng.Intn(2) == 0 {
				t.Ops = append(t.Ops, tail...) // nothing else in the way: the claim is the whole transaction
				return t
			}
		}
	}
	k := rng.Intn(36)
	if rng.Intn(12) == 0 {
		k = 35
	}
	if g.hasChains() && rng.Intn(5) == 0 {
		k = 21 // schemas with chains: build and drop them often enough for both to happen in one history
	}
	if g.ts.Spec.Tables[0].Col("wset") != nil && rng.Intn(5) == 0 {
		k = 34
	}
	if len(g.emptyTables()) > 0 && rng.Intn(12) == 0 {
		k = 33 // while a table is empty: operations on it that are wrong in themselves
	}
	if g.multiIndexed() && rng.Intn(4) == 0 {
		k = 17 // tables with several schema indexes: a row can be superseded in one of them only
	}
	switch k {
	case 32:
		// nothing but mutations: the whole transaction (no insert or update next to it)
		if ops := g.genMutateCollide(); ops != nil {
			t.Ops = ops
			return t
		}
	case 33:
		t.Ops = append(t.Ops, g.genUnknownColumn()...)
		return t
	case 34:
		if ops := g.genWeakBoth(); ops != nil {
			t.Ops = ops
			return t
		}
	case 35:
		t.Ops = append(t.Ops, g.genBigOrder()...)
	case 30, 31:
		// a row inserted, deleted and inserted again under the same uuid, then looked at
		t.Ops = append(t.Ops, g.genReinsert()...)
	case 17, 18:
		// a row changes its value in one schema index of a table that has several; the next transaction
		// claims the value it still holds in another one (which must be refused)
		if rng.Intn(2) == 0 {
			if ops := g.genReplaceKeep(); ops != nil {
				t.Ops = append(t.Ops, ops...)
				return t
			}
		}
		t.Ops = append(t.Ops, g.genOneIndexUpdate()...)
	case 19, 20:
		// waits whose selected rows agree on the compared columns, and whose expected rows repeat
		if op, ok := g.genWaitDup(); ok {
			t.Ops = append(t.Ops, op)
		}
	case 24:
		if op, ok := g.genWaitRow(); ok {
			t.Ops = append(t.Ops, op)
		}
	case 26, 27:
		// an update that some of the selected rows cannot take, after an operation that can be carried out
		if op, ok := g.genPartialFail(); ok {
			t.Ops = append(t.Ops, g.genOp(), op)
		}
	case 25, 28, 29:
		// arithmetic that leaves the range of the column's type: 2^62 times 2 or 3, 2^62 added twice,
		// a real multiplied beyond the largest float64 (powers of two: every intermediate value is exact)
		if op, ok := g.genOverflow(); ok {
			t.Ops = append(t.Ops, op)
		}
	case 23:
		t.Ops = append(t.Ops, g.genTupleConfuse()...)
	case 21, 22:
		if ops := g.genChainDrop(); ops != nil && rng.Intn(3) != 0 {
			t.Ops = append(t.Ops, ops...)
		} else {
			t.Ops = append(t.Ops, g.genChainBuild()...)
		}
	case 0:
		t.Ops = append(t.Ops, g.genIndexMove()...)
	case 1:
		if op, ok := g.genIndexClaim(); ok {
			// sometimes the transaction looks at the holder of the values first (select or a wait that
			// holds): a row it only read is as much in the way as one it never touched
			switch rng.Intn(5) {
			case 0:
				t.Ops = append(t.Ops, OperationJ{Op: "select", Table: op.Table, Where: byUUID(g.claimSrc)})
			case 1:
				t.Ops = append(t.Ops, OperationJ{Op: "select", Table: op.Table})
			case 2:
				// it asks for the holder by the very values, and for something the holder is not: the lookup
				// goes through the index and keeps nothing (and must leave the index as it is)
				if src, ok := g.sh.rows[op.Table][g.claimSrc]; ok {
					var where []WCondJ
					for c := range op.Row {
						for _, ix := range g.ts.Spec.Table(op.Table).Indexes {
							for _, ic := range ix {
								if ic == c && src[c] != nil && op.Row[c].Canon() == nativeToOvsValue(src[c]).Canon() {
									where = append(where, WCondJ{Col: c, Fn: "==", Val: op.Row[c]})
								}
							}
						}
					}
					sort.Slice(where, func(i, j int) bool { return where[i].Col < where[j].Col })
					where = append(where, WCondJ{Col: "_uuid", Fn: "!=", Val: VA(AU(g.claimSrc))})
					t.Ops = append(t.Ops, OperationJ{Op: "select", Table: op.Table, Where: where})
				}
			}
			t.Ops = append(t.Ops, op)
		}
	case 4, 5, 6:
		// reference traffic that fails at commit: one of several referrers of a row drops its reference
		// (the reference bookkeeping of the transaction is computed before the index check), followed by an
		// insert that claims the index values of an existing row
		if op, ok := g.genRefDrop(); ok {
			t.Ops = append(t.Ops, op)
			if claim, ok := g.genIndexClaim(); ok && rng.Intn(3) != 0 {
				tail = append(tail, claim)
			}
		}
	case 7, 8:
		// what Where(m).Update(m) sends: every column of an existing row with its current value, one of them changed
		if op, ok := g.genFullRowUpdate(); ok {
			t.Ops = append(t.Ops, op)
			if rng.Intn(2) == 0 {
				t.Ops = append(t.Ops, OperationJ{Op: "select", Table: op.Table, Where: op.Where})
			}
		}
	case 9, 10:
		// insert / delete mutations on a set or map of an existing row whose argument overlaps the current
		// value only partly (some members, some non-members): the delta is not the argument
		if op, ok := g.genOverlapMutation(); ok {
			t.Ops = append(t.Ops, op)
		}
	case 11, 12:
		// the same set / map column of one row mutated twice in one transaction (bounded and unbounded
		// collections alike): the notification is the net difference of both
		t.Ops = append(t.Ops, g.genDoubleMutate()...)
	case 13, 14:
		// a row of a non-root table holding an index value is looked at, then replaced: its only referrer
		// is pointed at a new row carrying the same index value, so the old row is garbage collected and
		// the duplicate exists only inside the transaction
		t.Ops = append(t.Ops, g.genGcHandover()...)
	case 15, 16:
		// every row a weak-reference column with a minimum points to is deleted in one transaction (each
		// deletion alone would leave enough elements, together they do not)
		t.Ops = append(t.Ops, g.genWeakMinDrop()...)
	case 2, 3:
		// a column of an existing row goes back to its default value (by update, or by deleting
		// every element / key): the encodings that leave default values out must still say so
		if op, ok := g.genBackToDefault(); ok {
			t.Ops = append(t.Ops, op)
		}
	}
	for i := 0; i < nops; i++ {
		t.Ops = append(t.Ops, g.genOp())
	}
	t.Ops = append(t.Ops, tail...)
	return t
}

// indexedTable: a table with a schema index and at least n rows in the shadow
func (g *txnGen) indexedTable(n int) (TableSpec, []string, bool) {
	var cands []TableSpec
	for _, t := range g.ts.Spec.Tables {
		if len(t.Indexes) > 0 && len(g.sh.rows[t.Name]) >= n {
			cands = append(cands, t)
		}
	}
	if len(cands) == 0 {
		return TableSpec{}, nil, false
	}
	t := cands[g.rng.Intn(len(cands))]
	var uuids []string
	for u := range g.sh.rows[t.Name] {
		uuids = append(uuids, u)
	}
	sort.Strings(uuids)
	g.rng.Shuffle(len(uuids), func(i, j int) { uuids[i], uuids[j] = uuids[j], uuids[i] })
	return t, uuids, true
}

// genReinsert: a row is inserted, deleted and inserted again under the same uuid in one transaction; the
// operations that follow must work on the second row (defect D73: the uuid stayed in the transaction's
// list of deleted rows, which hid the row from them)
func (g *txnGen) genReinsert() []OperationJ {
	rng := g.rng
	t := g.ts.Spec.Tables[rng.Intn(len(g.ts.Spec.Tables))]
	u := g.sh.fresh()
	mk := func() Row {
		row := Row{}
		for _, c := range t.Cols {
			if rng.Intn(3) != 0 {
				row[c.Name] = nativeToOvsValue(g.genColValue(c))
			}
		}
		return row
	}
	ops := []OperationJ{
		{Op: "insert", Table: t.Name, UUID: u, Row: mk()},
		{Op: "delete", Table: t.Name, Where: byUUID(u)},
		{Op: "insert", Table: t.Name, UUID: u, Row: mk()},
	}
	g.inserted[t.Name] = append(g.inserted[t.Name], u)
	where := byUUID(u)
	if rng.Intn(2) == 0 {
		where = nil
	}
	switch rng.Intn(4) {
	case 0:
		ops = append(ops, OperationJ{Op: "select", Table: t.Name, Where: where})
	case 1:
		ops = append(ops, OperationJ{Op: "update", Table: t.Name, Where: where, Row: Row{"n": VA(AI(int64(rng.Intn(5))))}})
	case 2:
		ops = append(ops, OperationJ{Op: "mutate", Table: t.Name, Where: where, Mutations: []MutationJ{{Col: "n", Mutator: "+=", Val: VA(AI(1))}}})
	default:
		ops = append(ops, OperationJ{Op: "delete", Table: t.Name, Where: where}, OperationJ{Op: "select", Table: t.Name})
	}
	return ops
}

// genBigOrder: two integers beyond 2^53 that differ by one (a float64 holds one value for both) are put into
// rows, and the rows are selected, counted and changed by ordering conditions between the two
func (g *txnGen) genBigOrder() []OperationJ {
	rng := g.rng
	t := g.ts.Spec.Tables[rng.Intn(len(g.ts.Spec.Tables))]
	lo := []int64{1 << 53, -(1<<53 + 1), 1<<62 + 512, 1<<63 - 2}[rng.Intn(4)]
	hi := lo + 1
	var ops []OperationJ
	ex := g.sh.uuids(t.Name)
	rng.Shuffle(len(ex), func(i, j int) { ex[i], ex[j] = ex[j], ex[i] })
	vals := []int64{lo, hi}
	for i := 0; i < 2; i++ {
		if i < len(ex) && rng.Intn(2) == 0 {
			ops = append(ops, OperationJ{Op: "update", Table: t.Name, Where: byUUID(ex[i]), Row: Row{"n": VA(AI(vals[i]))}})
		} else {
			row := Row{"n": VA(AI(vals[i])), "name": VA(AS(fmt.Sprintf("big%d", rng.Intn(1000))))}
			op := OperationJ{Op: "insert", Table: t.Name, UUID: g.sh.fresh(), Row: row}
			g.inserted[t.Name] = append(g.inserted[t.Name], op.UUID)
			ops = append(ops, op)
		}
	}
	fns := []string{"<", "<=", ">", ">="}
	for i := 1 + rng.Intn(3); i > 0; i-- {
		w := []WCondJ{{Col: "n", Fn: fns[rng.Intn(4)], Val: VA(AI(vals[rng.Intn(2)]))}}
		switch rng.Intn(3) {
		case 0:
			ops = append(ops, OperationJ{Op: "select", Table: t.Name, Where: w})
		case 1:
			ops = append(ops, OperationJ{Op: "mutate", Table: t.Name, Where: w, Mutations: []MutationJ{{Col: "n", Mutator: "-=", Val: VA(AI(0))}}},
				OperationJ{Op: "select", Table: t.Name, Where: w})
		default:
			for _, c := range t.Cols {
				if c.Name == "tag" || c.Name == "b" || c.Name == "r" {
					ops = append(ops, OperationJ{Op: "update", Table: t.Name, Where: w, Row: Row{c.Name: nativeToOvsValue(g.genColValue(c))}})
					break
				}
			}
			ops = append(ops, OperationJ{Op: "select", Table: t.Name, Where: w})
		}
	}
	return ops
}

// genUnknownColumn: an operation that names a column its table does not have (in its row, its mutations, its
// conditions or its column list), after an operation that can be carried out: the transaction fails as a whole
func (g *txnGen) genUnknownColumn() []OperationJ {
	rng := g.rng
	t := g.ts.Spec.Tables[rng.Intn(len(g.ts.Spec.Tables))]
	// a table that holds no row, when there is one: what is wrong with an operation does not depend on there
	// being rows to apply it to
	if empty := g.emptyTables(); len(empty) > 0 && rng.Intn(3) != 0 {
		t = empty[rng.Intn(len(empty))]
	}
	first := g.genOp()
	if first.Table == t.Name && first.Op == "insert" && rng.Intn(2) == 0 {
		first = OperationJ{Op: "select", Table: t.Name} // leave the table as it is
	}
	var bad OperationJ
	switch rng.Intn(7) {
	case 5:
		// a condition value of another type than the column's
		bad = OperationJ{Op: []string{"select", "delete"}[rng.Intn(2)], Table: t.Name, Where: []WCondJ{{Col: "name", Fn: "==", Val: VA(AI(5))}}}
	case 6:
		bad = OperationJ{Op: "update", Table: t.Name, Where: []WCondJ{{Col: "n", Fn: []string{"==", "<"}[rng.Intn(2)], Val: VA(AS("five"))}}, Row: Row{"n": VA(AI(1))}}
	case 0:
		bad = OperationJ{Op: "update", Table: t.Name, Where: g.genWhere(t), Row: Row{"n": VA(AI(1)), "no_such_column": VA(AI(1))}}
	case 1:
		bad = OperationJ{Op: "insert", Table: t.Name, UUID: g.sh.fresh(), Row: Row{"name": VA(AS("x")), "no_such_column": VA(AS("y"))}}
	case 2:
		bad = OperationJ{Op: "mutate", Table: t.Name, Where: g.genWhere(t), Mutations: []MutationJ{{Col: "no_such_column", Mutator: "+=", Val: VA(AI(1))}}}
	case 3:
		bad = OperationJ{Op: "update", Table: t.Name, Where: []WCondJ{{Col: "no_such_column", Fn: "==", Val: VA(AI(1))}}, Row: Row{"n": VA(AI(1))}}
	default:
		bad = OperationJ{Op: "select", Table: t.Name, Where: []WCondJ{{Col: "no_such_column", Fn: "!=", Val: VA(AS("z"))}}}
	}
	return []OperationJ{first, bad}
}

// genMutateCollide: a transaction made of mutations only (and perhaps a delete of another row): an integer
// column of a unique index is moved onto the value another row holds
func (g *txnGen) genMutateCollide() []OperationJ {
	for _, t := range g.ts.Spec.Tables {
		onN := false
		for _, ix := range t.Indexes {
			for _, c := range ix {
				onN = onN || c == "n"
			}
		}
		uuids := g.sh.uuids(t.Name)
		if !onN || len(uuids) < 2 {
			continue
		}
		g.rng.Shuffle(len(uuids), func(i, j int) { uuids[i], uuids[j] = uuids[j], uuids[i] })
		a, b := g.sh.rows[t.Name][uuids[0]], g.sh.rows[t.Name][uuids[1]]
		if a["n"] == nil || b["n"] == nil {
			continue
		}
		if abs64(a["n"].A.I) > 1<<41 || abs64(b["n"].A.I) > 1<<41 || a["n"].A.I == b["n"].A.I {
			continue // (small values: the difference itself does not overflow)
		}
		d := b["n"].A.I - a["n"].A.I
		ops := []OperationJ{{Op: "mutate", Table: t.Name, Where: byUUID(uuids[0]), Mutations: []MutationJ{{Col: "n", Mutator: "+=", Val: VA(AI(d))}}}}
		if len(uuids) > 2 && g.rng.Intn(3) == 0 {
			ops = append(ops, OperationJ{Op: "delete", Table: t.Name, Where: byUUID(uuids[2])})
		}
		return ops
	}
	return nil
}

func abs64(x int64) int64 {
	if x < 0 {
		return -x
	}
	return x
}

// genWeakBoth: a row that refers weakly to one row through a set column and through an optional column
// (wset, wopt) loses that row: both columns are pruned in one pass of the reference bookkeeping
func (g *txnGen) genWeakBoth() []OperationJ {
	t0 := g.ts.Spec.Tables[0]
	ws, wo := t0.Col("wset"), t0.Col("wopt")
	if ws == nil || wo == nil {
		return nil
	}
	targets := g.sh.uuids(ws.RefTable)
	var holders []string
	for _, u := range g.sh.uuids(t0.Name) {
		row := g.sh.rows[t0.Name][u]
		if row["wopt"] != nil && row["wopt"].O != nil && row["wset"] != nil && setHas(row["wset"].S, *row["wopt"].O) {
			holders = append(holders, u)
		}
	}
	if len(holders) > 0 && g.rng.Intn(2) == 0 {
		// drop the target both columns point to
		h := g.sh.rows[t0.Name][holders[g.rng.Intn(len(holders))]]
		return []OperationJ{{Op: "delete", Table: ws.RefTable, Where: byUUID(h["wopt"].O.S)}}
	}
	if len(targets) == 0 || len(g.sh.uuids(t0.Name)) == 0 {
		// nothing to refer to, or nobody to refer: a target and a referrer are inserted together
		tg := g.sh.fresh()
		trow := Row{"name": VA(AS(fmt.Sprintf("wt%d", g.rng.Intn(1000)))), "n": VA(AI(int64(100 + g.rng.Intn(900))))}
		hrow := Row{"name": VA(AS(fmt.Sprintf("wh%d", g.rng.Intn(1000)))), "n": VA(AI(int64(100 + g.rng.Intn(900)))), "wset": VS(AU(tg)), "wopt": VS(AU(tg))}
		h := g.sh.fresh()
		g.inserted[ws.RefTable] = append(g.inserted[ws.RefTable], tg)
		g.inserted[t0.Name] = append(g.inserted[t0.Name], h)
		return []OperationJ{{Op: "insert", Table: ws.RefTable, UUID: tg, Row: trow}, {Op: "insert", Table: t0.Name, UUID: h, Row: hrow}}
	}
	// build: an existing row of the first table gets both references (and one more in the set)
	tg := targets[g.rng.Intn(len(targets))]
	set := []Atom{AU(tg)}
	if other := targets[g.rng.Intn(len(targets))]; other != tg {
		set = append(set, AU(other)) // (never the same element twice: that would not be a set)
	}
	if ex := g.sh.uuids(t0.Name); len(ex) > 0 {
		return []OperationJ{{Op: "update", Table: t0.Name, Where: byUUID(ex[g.rng.Intn(len(ex))]), Row: Row{"wset": VS(set...), "wopt": VS(AU(tg))}}}
	}
	return nil
}

// reordered: the same set or map with its elements in another order
func (g *txnGen) reordered(v *Value) *Value {
	v = cloneValue(v)
	g.rng.Shuffle(len(v.S), func(i, j int) { v.S[i], v.S[j] = v.S[j], v.S[i] })
	g.rng.Shuffle(len(v.M), func(i, j int) { v.M[i], v.M[j] = v.M[j], v.M[i] })
	return v
}

func byUUID(u string) []WCondJ { return []WCondJ{{Col: "_uuid", Fn: "==", Val: VA(AU(u))}} }

// genIndexMove: two rows exchange (or rotate) the values of an index; the final
// view is free of duplicates although every intermediate state has one
func (g *txnGen) genIndexMove() []OperationJ {
	t, uuids, ok := g.indexedTable(2)
	if !ok {
		return nil
	}
	idx := t.Indexes[g.rng.Intn(len(t.Indexes))]
	a, b := g.sh.rows[t.Name][uuids[0]], g.sh.rows[t.Name][uuids[1]]
	ra, rb := Row{}, Row{}
	for _, c := range idx {
		ra[c], rb[c] = g.reordered(nativeToOvsValue(b[c])), g.reordered(nativeToOvsValue(a[c]))
	}
	// the next transaction looks both rows up by the values they hold now (an index entry lost or
	// left behind while the values moved shows there)
	for _, mv := range []Row{ra, rb} {
		var where []WCondJ
		for _, c := range idx {
			where = append(where, WCondJ{Col: c, Fn: "==", Val: mv[c]})
		}
		g.sh.probes = append(g.sh.probes, OperationJ{Op: "select", Table: t.Name, Where: where})
	}
	ops := []OperationJ{{Op: "update", Table: t.Name, Row: ra, Where: byUUID(uuids[0])}, {Op: "update", Table: t.Name, Row: rb, Where: byUUID(uuids[1])}}
	if g.rng.Intn(2) == 0 {
		// the transaction itself looks the rows up by the moving values while two rows share one (twice, a
		// lookup may disturb what it reads), changes them by value, and once more at the end
		sel := func(vals Row) OperationJ {
			var where []WCondJ
			for _, c := range idx {
				where = append(where, WCondJ{Col: c, Fn: "==", Val: vals[c]})
			}
			return OperationJ{Op: "select", Table: t.Name, Where: where}
		}
		byVal := sel(ra)
		touch := OperationJ{Op: "update", Table: t.Name, Where: byVal.Where, Row: Row{}}
		for _, c := range t.Cols {
			if c.Name == "tag" || c.Name == "b" || c.Name == "r" {
				touch.Row[c.Name] = nativeToOvsValue(g.genColValue(c))
				break
			}
		}
		ops = []OperationJ{ops[0], byVal, byVal}
		if len(touch.Row) > 0 {
			ops = append(ops, touch)
		}
		ops = append(ops, OperationJ{Op: "update", Table: t.Name, Row: rb, Where: byUUID(uuids[1])}, byVal, sel(rb))
		return ops
	}
	if g.rng.Intn(3) == 0 { // one-way move: the first row takes a fresh value, the second takes the first's old value
		fresh := Row{}
		for _, c := range idx {
			cs := t.Col(c)
			fresh[c] = nativeToOvsValue(g.genColValue(*cs))
		}
		ops = []OperationJ{{Op: "update", Table: t.Name, Row: fresh, Where: byUUID(uuids[0])}, {Op: "update", Table: t.Name, Row: rb, Where: byUUID(uuids[1])}}
	}
	return ops
}

// genBackToDefault: one non-default, mutable column of an existing row returns to its default
func (g *txnGen) genBackToDefault() (OperationJ, bool) {
	tables := append([]TableSpec{}, g.ts.Spec.Tables...)
	g.rng.Shuffle(len(tables), func(i, j int) { tables[i], tables[j] = tables[j], tables[i] })
	for _, t := range tables {
		var uuids []string
		for u := range g.sh.rows[t.Name] {
			uuids = append(uuids, u)
		}
		sort.Strings(uuids)
		g.rng.Shuffle(len(uuids), func(i, j int) { uuids[i], uuids[j] = uuids[j], uuids[i] })
		for _, u := range uuids {
			row := g.sh.rows[t.Name][u]
			cols := append([]ColSpec{}, t.Cols...)
			g.rng.Shuffle(len(cols), func(i, j int) { cols[i], cols[j] = cols[j], cols[i] })
			for _, c := range cols {
				v := row[c.Name]
				if c.Immutable || v == nil || v.Canon() == zeroValue(c.Type).Canon() || (c.Type.Kind != "atom" && c.Type.Min > 0) {
					continue
				}
				if (v.K == 'S' || v.K == 'M') && g.rng.Intn(2) == 0 {
					del := &Value{K: 'S', S: v.S}
					if v.K == 'M' {
						if g.rng.Intn(2) == 0 {
							del = &Value{K: 'M', M: v.M}
						} else {
							ks := []Atom{}
							for _, p := range v.M {
								ks = append(ks, p[0])
							}
							del = &Value{K: 'S', S: ks}
						}
					}
					return OperationJ{Op: "mutate", Table: t.Name, Where: byUUID(u), Mutations: []MutationJ{{Col: c.Name, Mutator: "delete", Val: del}}}, true
				}
				return OperationJ{Op: "update", Table: t.Name, Where: byUUID(u), Row: Row{c.Name: nativeToOvsValue(zeroValue(c.Type))}}, true
			}
		}
	}
	return OperationJ{}, false
}

const chainTable = "TN"

func (g *txnGen) hasChains() bool {
	for _, t := range g.ts.Spec.Tables {
		if t.Name == chainTable {
			return true
		}
	}
	return false
}

// genChainBuild: a chain of 2-4 rows of the non-root chain table (each holding the next one alive), its head
// held by a row of the first table, which also refers weakly to every link
func (g *txnGen) genChainBuild() []OperationJ {
	if !g.hasChains() {
		return nil
	}
	rng := g.rng
	n := 2 + rng.Intn(3)
	if rng.Intn(3) == 0 {
		n = 6 + rng.Intn(8) // longer than the schema has tables: the collection needs a pass per link
	}
	var ops []OperationJ
	var links []Atom
	for i := 0; i < n; i++ {
		links = append(links, AU(g.sh.fresh()))
	}
	for i := n - 1; i >= 0; i-- {
		row := Row{"name": VA(AS(fmt.Sprintf("c%d", i))), "n": VA(AI(int64(i)))}
		if i < n-1 {
			row["next"] = VS(links[i+1])
		}
		ops = append(ops, OperationJ{Op: "insert", Table: chainTable, UUID: links[i].S, Row: row})
		g.inserted[chainTable] = append(g.inserted[chainTable], links[i].S)
	}
	watch := append([]Atom{}, links...)
	if rng.Intn(3) == 0 {
		watch = watch[:1+rng.Intn(len(watch))]
	}
	t0 := g.ts.Spec.Tables[0]
	if ex := g.sh.uuids(t0.Name); len(ex) > 0 && rng.Intn(2) == 0 {
		ops = append(ops, OperationJ{Op: "mutate", Table: t0.Name, Where: byUUID(ex[rng.Intn(len(ex))]),
			Mutations: []MutationJ{{Col: "chead", Mutator: "insert", Val: VS(links[0])}, {Col: "cwatch", Mutator: "insert", Val: VS(watch...)}}})
	} else {
		row := Row{}
		for _, c := range t0.Cols {
			if c.RefTable == "" && c.ValRefTable == "" {
				row[c.Name] = nativeToOvsValue(g.genColValue(c))
			}
		}
		row["name"] = VA(AS(fmt.Sprintf("h%d", rng.Intn(1000))))
		row["chead"], row["cwatch"] = VS(links[0]), VS(watch...)
		op := OperationJ{Op: "insert", Table: t0.Name, UUID: g.sh.fresh(), Row: row}
		g.inserted[t0.Name] = append(g.inserted[t0.Name], op.UUID)
		ops = append(ops, op)
	}
	return ops
}

// genChainDrop: a row of the first table lets go of its chain heads in an operation that changes other
// columns of the row too (the chain is collected over several passes, each of which prunes the row's weak
// references again)
func (g *txnGen) genChainDrop() []OperationJ {
	if !g.hasChains() {
		return nil
	}
	rng := g.rng
	t0 := g.ts.Spec.Tables[0]
	var holders []string
	for _, u := range g.sh.uuids(t0.Name) {
		if v := g.sh.rows[t0.Name][u]["chead"]; v != nil && len(v.S) > 0 {
			holders = append(holders, u)
		}
	}
	if len(holders) == 0 {
		return nil
	}
	u := holders[rng.Intn(len(holders))]
	heads := g.sh.rows[t0.Name][u]["chead"].S
	switch rng.Intn(3) {
	case 0:
		return []OperationJ{{Op: "mutate", Table: t0.Name, Where: byUUID(u), Mutations: []MutationJ{{Col: "chead", Mutator: "delete", Val: VS(heads...)}, {Col: "n", Mutator: "+=", Val: VA(AI(1))}}}}
	case 1:
		return []OperationJ{{Op: "update", Table: t0.Name, Where: byUUID(u), Row: Row{"chead": VS(), "n": VA(AI(int64(rng.Intn(50))))}}}
	default:
		// the head goes in one operation, another operation of the transaction has already changed the row
		return []OperationJ{{Op: "update", Table: t0.Name, Where: byUUID(u), Row: Row{"n": VA(AI(int64(rng.Intn(50))))}},
			{Op: "mutate", Table: t0.Name, Where: byUUID(u), Mutations: []MutationJ{{Col: "chead", Mutator: "delete", Val: VS(heads[:1+rng.Intn(len(heads))]...)}}}}
	}
}

// genIndexClaim: an insert whose index columns equal those of an existing row
func (g *txnGen) genIndexClaim() (OperationJ, bool) {
	t, uuids, ok := g.indexedTable(1)
	if !ok {
		return OperationJ{}, false
	}
	idx := t.Indexes[g.rng.Intn(len(t.Indexes))]
	src := g.sh.rows[t.Name][uuids[0]]
	g.claimSrc = uuids[0]
	// where an index holds a set column, prefer a source row whose set has several elements (the claim
	// below gives them in another order)
	for _, u := range uuids {
		multi := false
		for _, c := range idx {
			if v := g.sh.rows[t.Name][u][c]; v != nil && (len(v.S) > 1 || len(v.M) > 1) {
				multi = true
			}
		}
		if multi {
			src, g.claimSrc = g.sh.rows[t.Name][u], u
			break
		}
	}
	row := Row{}
	for _, c := range t.Cols {
		if g.rng.Intn(3) != 0 {
			row[c.Name] = nativeToOvsValue(g.genColValue(c))
		}
	}
	for _, c := range idx {
		// (a set or map with the same elements in another order is the same value)
		row[c] = g.reordered(nativeToOvsValue(src[c]))
	}
	op := OperationJ{Op: "insert", Table: t.Name, Row: row, UUID: g.sh.fresh()}
	g.inserted[t.Name] = append(g.inserted[t.Name], op.UUID)
	return op, true
}

// genRefDrop: a row referenced from the same column of at least two rows loses one of those references
// (update of the referrer's column to its value without the target)
func (g *txnGen) genRefDrop() (OperationJ, bool) {
	type cand struct {
		table, col, target string
		referrers          []string
	}
	var cands []cand
	for _, t := range g.ts.Spec.Tables {
		for _, c := range t.Cols {
			if c.RefTable == "" && c.ValRefTable == "" {
				continue
			}
			by := map[string][]string{}
			for _, u := range g.sh.uuids(t.Name) {
				seen := map[string]bool{}
				for _, tg := range colRefTargets(c, g.sh.rows[t.Name][u][c.Name]) {
					if !seen[tg[1]] {
						seen[tg[1]] = true
						by[tg[1]] = append(by[tg[1]], u)
					}
				}
			}
			var targets []string
			for tg := range by {
				targets = append(targets, tg)
			}
			sort.Strings(targets)
			for _, tg := range targets {
				if len(by[tg]) >= 2 {
					cands = append(cands, cand{t.Name, c.Name, tg, by[tg]})
				}
			}
		}
	}
	if len(cands) == 0 {
		return OperationJ{}, false
	}
	c := cands[g.rng.Intn(len(cands))]
	who := c.referrers[g.rng.Intn(len(c.referrers))]
	if g.rng.Intn(2) == 0 {
		who = c.referrers[0]
	}
	cur := g.sh.rows[c.table][who][c.col]
	var nv *Value
	switch cur.K {
	case 'o':
		nv = VO(nil)
	case 'S':
		nv = VS()
		for _, a := range cur.S {
			if a.S != c.target {
				nv.S = append(nv.S, a)
			}
		}
	case 'M':
		nv = VM()
		for _, p := range cur.M {
			if p[0].S != c.target && p[1].S != c.target {
				nv.M = append(nv.M, p)
			}
		}
	default:
		return OperationJ{}, false
	}
	return OperationJ{Op: "update", Table: c.table, Row: Row{c.col: nativeToOvsValue(nv)}, Where: byUUID(who)}, true
}

// genFullRowUpdate: an update naming (almost) every column of an existing row with the value it already
// has, and one or two columns with a new value
func (g *txnGen) genFullRowUpdate() (OperationJ, bool) {
	var cands []TableSpec
	for _, t := range g.ts.Spec.Tables {
		if len(g.sh.rows[t.Name]) > 0 {
			cands = append(cands, t)
		}
	}
	if len(cands) == 0 {
		return OperationJ{}, false
	}
	t := cands[g.rng.Intn(len(cands))]
	us := g.sh.uuids(t.Name)
	u := us[g.rng.Intn(len(us))]
	cur := g.sh.rows[t.Name][u]
	row := Row{}
	var mutable []ColSpec
	for _, c := range t.Cols {
		if v := cur[c.Name]; v != nil && g.rng.Intn(6) != 0 {
			row[c.Name] = nativeToOvsValue(v)
		}
		if !c.Immutable {
			mutable = append(mutable, c)
		}
	}
	for k := 1 + g.rng.Intn(2); k > 0 && len(mutable) > 0; k-- {
		c := mutable[g.rng.Intn(len(mutable))]
		row[c.Name] = nativeToOvsValue(g.genColValue(c))
	}
	return OperationJ{Op: "update", Table: t.Name, Row: row, Where: byUUID(u)}, true
}

// genOverlapMutation: a set / map column of an existing row holding something, mutated with an argument made
// of some of its members and some values it does not hold
func (g *txnGen) genOverlapMutation() (OperationJ, bool) {
	type cand struct {
		t   TableSpec
		c   ColSpec
		u   string
		cur *Value
	}
	var cands []cand
	for _, t := range g.ts.Spec.Tables {
		for _, u := range g.sh.uuids(t.Name) {
			for _, c := range t.Cols {
				v := g.sh.rows[t.Name][u][c.Name]
				if v == nil || c.Immutable {
					continue
				}
				if (v.K == 'S' && len(v.S) > 0) || (v.K == 'M' && len(v.M) > 0) {
					cands = append(cands, cand{t, c, u, v})
				}
			}
		}
	}
	if len(cands) == 0 {
		return OperationJ{}, false
	}
	x := cands[g.rng.Intn(len(cands))]
	fresh := g.genColValue(x.c) // random elements: mostly non-members
	arg := &Value{K: x.cur.K}
	switch x.cur.K {
	case 'S':
		for _, a := range x.cur.S {
			if g.rng.Intn(2) == 0 {
				arg.S = append(arg.S, a)
			}
		}
		if len(arg.S) == 0 {
			arg.S = append(arg.S, x.cur.S[0])
		}
		for _, a := range fresh.S {
			dup := false
			for _, b := range arg.S {
				dup = dup || a.Key() == b.Key()
			}
			if !dup && len(arg.S) < 4 {
				arg.S = append(arg.S, a)
			}
		}
	case 'M':
		for _, p := range x.cur.M {
			if g.rng.Intn(2) == 0 {
				arg.M = append(arg.M, p)
			}
		}
		if len(arg.M) == 0 {
			arg.M = append(arg.M, x.cur.M[0])
		}
		for _, p := range fresh.M {
			dup := false
			for _, q := range arg.M {
				dup = dup || p[0].Key() == q[0].Key()
			}
			if !dup && len(arg.M) < 4 {
				arg.M = append(arg.M, p)
			}
		}
	}
	g.rng.Shuffle(len(arg.S), func(i, j int) { arg.S[i], arg.S[j] = arg.S[j], arg.S[i] })
	g.rng.Shuffle(len(arg.M), func(i, j int) { arg.M[i], arg.M[j] = arg.M[j], arg.M[i] })
	mut := []string{"delete", "insert"}[g.rng.Intn(2)]
	if x.cur.K == 'M' && mut == "delete" && g.rng.Intn(2) == 0 {
		ks := &Value{K: 'S'}
		for _, p := range arg.M {
			ks.S = append(ks.S, p[0])
		}
		arg = ks
	}
	return OperationJ{Op: "mutate", Table: x.t.Name, Mutations: []MutationJ{{Col: x.c.Name, Mutator: mut, Val: nativeToOvsValue(arg)}}, Where: byUUID(x.u)}, true
}

// genDoubleMutate: two (sometimes three) insert / delete mutations of the same collection column of one row
func (g *txnGen) genDoubleMutate() []OperationJ {
	type cand struct {
		t TableSpec
		c ColSpec
		u string
	}
	var cands []cand
	for _, t := range g.ts.Spec.Tables {
		for _, u := range g.sh.uuids(t.Name) {
			for _, c := range t.Cols {
				if !c.Immutable && (c.Type.Kind == "set" || c.Type.Kind == "map") && c.Type.Key != "uuid" && c.Type.Val != "uuid" {
					cands = append(cands, cand{t, c, u})
				}
			}
		}
	}
	if len(cands) == 0 {
		return nil
	}
	x := cands[g.rng.Intn(len(cands))]
	// collections with a finite bound above one are a kind of their own in the merging code: prefer them
	var bounded []cand
	for _, c := range cands {
		if c.c.Type.Max > 1 {
			bounded = append(bounded, c)
		}
	}
	if len(bounded) > 0 && g.rng.Intn(3) != 0 {
		x = bounded[g.rng.Intn(len(bounded))]
		// an empty collection is a case of its own (nothing to collide with): take one when there is one
		var empty []cand
		for _, c := range bounded {
			if v, ok := g.sh.rows[c.t.Name][c.u][c.c.Name]; ok && v != nil && (v.K == 'S' || v.K == 'M') && len(v.S) == 0 && len(v.M) == 0 {
				empty = append(empty, c)
			}
		}
		if len(empty) > 0 && g.rng.Intn(2) == 0 {
			x = empty[g.rng.Intn(len(empty))]
		}
	}
	var ops []OperationJ
	var last *Value
	if x.c.Type.Max > 1 && g.rng.Intn(2) == 0 {
		// two operations that each add something of their own: neither difference is the whole change
		fresh := func(i int) *Value {
			k := int64(1000*i + g.rng.Intn(1000))
			atom := func(t string) Atom {
				if t == "integer" {
					return AI(k)
				}
				return AS(fmt.Sprintf("f%d", k))
			}
			if x.c.Type.Kind == "map" {
				return VM([2]Atom{atom(x.c.Type.Key), atom(x.c.Type.Val)})
			}
			return VS(atom(x.c.Type.Key))
		}
		if x.c.Type.Key == "integer" || x.c.Type.Key == "string" {
			if g.rng.Intn(2) == 0 {
				// both in one operation: the second mutation works on what the first one produced, and what
				// it produced must be the column's own storage, not the operand of the first
				return []OperationJ{{Op: "mutate", Table: x.t.Name, Mutations: []MutationJ{
					{Col: x.c.Name, Mutator: "insert", Val: fresh(1)}, {Col: x.c.Name, Mutator: "insert", Val: fresh(2)}}, Where: byUUID(x.u)}}
			}
			for i := 1; i <= 2; i++ {
				ops = append(ops, OperationJ{Op: "mutate", Table: x.t.Name, Mutations: []MutationJ{{Col: x.c.Name, Mutator: "insert", Val: fresh(i)}}, Where: byUUID(x.u)})
			}
			return ops
		}
	}
	if g.rng.Intn(3) == 0 {
		// one operation: a mutation that changes the column, then one that changes nothing (inserting what is
		// there by now, deleting what is not), then perhaps another column: the difference of the first
		// must survive the second
		v := g.genColValue(x.c)
		ms := []MutationJ{{Col: x.c.Name, Mutator: "insert", Val: nativeToOvsValue(v)}, {Col: x.c.Name, Mutator: "insert", Val: nativeToOvsValue(v)}}
		if g.rng.Intn(2) == 0 {
			absent := VS(AS("never-there"))
			if x.c.Type.Key == "integer" {
				absent = VS(AI(987654321))
			} else if x.c.Type.Key != "string" {
				absent = nil
			}
			if absent != nil {
				ms[1] = MutationJ{Col: x.c.Name, Mutator: "delete", Val: absent}
			}
		}
		if x.t.Col("n") != nil && g.rng.Intn(2) == 0 {
			ms = append(ms, MutationJ{Col: "n", Mutator: "+=", Val: VA(AI(1))})
		}
		return []OperationJ{{Op: "mutate", Table: x.t.Name, Mutations: ms, Where: byUUID(x.u)}}
	}
	for k := 2 + g.rng.Intn(2); k > 0; k-- {
		v := g.genColValue(x.c)
		mut := []string{"insert", "insert", "delete"}[g.rng.Intn(3)]
		if mut == "delete" && last != nil && g.rng.Intn(2) == 0 {
			v = last // take out again what was just put in
		}
		last = v
		ops = append(ops, OperationJ{Op: "mutate", Table: x.t.Name, Mutations: []MutationJ{{Col: x.c.Name, Mutator: mut, Val: nativeToOvsValue(v)}}, Where: byUUID(x.u)})
	}
	return ops
}

// genGcHandover: see genTxn
func (g *txnGen) genGcHandover() []OperationJ {
	for _, t := range g.ts.Spec.Tables {
		if t.IsRoot || len(t.Indexes) == 0 {
			continue
		}
		for _, old := range g.sh.uuids(t.Name) {
			// the referrers of `old`: exactly one (table, column, row), through a strong set / optional reference
			type ref struct {
				pt  TableSpec
				col ColSpec
				pu  string
			}
			var refs []ref
			for _, pt := range g.ts.Spec.Tables {
				for _, c := range pt.Cols {
					for _, pu := range g.sh.uuids(pt.Name) {
						for _, tg := range colRefTargets(c, g.sh.rows[pt.Name][pu][c.Name]) {
							if tg[0] == t.Name && tg[1] == old && tg[2] == "strong" {
								refs = append(refs, ref{pt, c, pu})
							}
						}
					}
				}
			}
			if len(refs) != 1 || (refs[0].col.Type.Kind != "set" && refs[0].col.Type.Kind != "opt") || refs[0].col.RefTable != t.Name {
				continue
			}
			rf := refs[0]
			cur := g.sh.rows[t.Name][old]
			row := Row{}
			for _, c := range t.Cols {
				if v := cur[c.Name]; v != nil && !(c.RefTable != "" || c.ValRefTable != "") {
					row[c.Name] = nativeToOvsValue(v)
				}
			}
			nu := g.sh.fresh()
			g.inserted[t.Name] = append(g.inserted[t.Name], nu)
			var nv *Value
			pv := g.sh.rows[rf.pt.Name][rf.pu][rf.col.Name]
			if rf.col.Type.Kind == "opt" {
				a := AU(nu)
				nv = VO(&a)
			} else {
				nv = VS()
				for _, a := range pv.S {
					if a.S != old {
						nv.S = append(nv.S, a)
					}
				}
				nv.S = append(nv.S, AU(nu))
			}
			look := OperationJ{Op: "select", Table: t.Name, Where: byUUID(old)}
			if g.rng.Intn(2) == 0 {
				zero := 0
				look = OperationJ{Op: "wait", Table: t.Name, Where: byUUID(old), Columns: []string{"name"}, Until: "==", Rows: []Row{{"name": nativeToOvsValue(cur["name"])}}, Timeout: &zero}
			}
			return []OperationJ{look,
				{Op: "insert", Table: t.Name, UUID: nu, Row: row},
				{Op: "update", Table: rf.pt.Name, Row: Row{rf.col.Name: nativeToOvsValue(nv)}, Where: byUUID(rf.pu)}}
		}
	}
	return nil
}

// genWeakMinDrop: see genTxn
func (g *txnGen) genWeakMinDrop() []OperationJ {
	for _, t := range g.ts.Spec.Tables {
		for _, c := range t.Cols {
			if !(c.RefTable != "" && c.RefType == "weak" && c.Type.Kind == "set") {
				continue
			}
			for _, u := range g.sh.uuids(t.Name) {
				v := g.sh.rows[t.Name][u][c.Name]
				if v == nil || len(v.S) < 2 || (c.Type.Min < 1 && g.rng.Intn(3) != 0) {
					continue
				}
				var ops []OperationJ
				n := len(v.S)
				if c.Type.Min < 1 || g.rng.Intn(3) == 0 {
					n = 1 + g.rng.Intn(len(v.S)) // not all of them: the pruning must go through
				}
				for _, a := range v.S[:n] {
					if a.S != u { // not the row itself
						ops = append(ops, OperationJ{Op: "delete", Table: c.RefTable, Where: byUUID(a.S)})
					}
				}
				if len(ops) > 0 {
					return ops
				}
			}
		}
	}
	return nil
}

func (g *txnGen) emptyTables() []TableSpec {
	var out []TableSpec
	for _, t := range g.ts.Spec.Tables {
		if len(g.sh.rows[t.Name]) == 0 {
			out = append(out, t)
		}
	}
	return out
}

func (g *txnGen) multiIndexed() bool {
	for _, t := range g.ts.Spec.Tables {
		if len(t.Indexes) >= 2 && len(g.sh.rows[t.Name]) > 0 {
			return true
		}
	}
	return false
}

// genReplaceKeep: in a table with several schema indexes a row is deleted and, in the same transaction, another
// one is inserted that takes over its values in one index and brings fresh values in the others. The next
// transaction claims the values the deleted row held in another index: nobody holds them, it must go through.
func (g *txnGen) genReplaceKeep() []OperationJ {
	for _, t := range g.ts.Spec.Tables {
		if len(t.Indexes) < 2 || len(g.sh.rows[t.Name]) == 0 {
			continue
		}
		us := g.sh.uuids(t.Name)
		u := us[g.rng.Intn(len(us))]
		src := g.sh.rows[t.Name][u]
		k := g.rng.Intn(len(t.Indexes))
		if g.rng.Intn(3) == 0 {
			k = 0
		}
		other := t.Indexes[(k+1)%len(t.Indexes)]
		row := Row{}
		for _, ix := range t.Indexes {
			for _, c := range ix {
				if t.Col(c).Type.Key == "string" {
					row[c] = VA(AS(fmt.Sprintf("z%d", g.rng.Intn(100000))))
				} else {
					row[c] = VA(AI(int64(200000 + g.rng.Intn(100000))))
				}
			}
		}
		for _, c := range t.Indexes[k] {
			if src[c] == nil {
				return nil
			}
			row[c] = nativeToOvsValue(src[c])
		}
		same := true
		for _, c := range other {
			if src[c] == nil {
				return nil
			}
			if row[c].Canon() != nativeToOvsValue(src[c]).Canon() {
				same = false
			}
		}
		if same {
			return nil // overlapping indexes: the new row would hold the other index's values too
		}
		keep := Row{}
		for c, v := range src {
			keep[c] = v
		}
		g.sh.pending = &pendingClaim{table: t.Name, uuid: u, index: other, src: keep}
		if os.Getenv("VERIF_DEBUG") != "" {
			fmt.Fprintln(realStderr, "replace-keep", t.Name, k)
		}
		ins := OperationJ{Op: "insert", Table: t.Name, Row: row, UUID: g.sh.fresh()}
		g.inserted[t.Name] = append(g.inserted[t.Name], ins.UUID)
		del := OperationJ{Op: "delete", Table: t.Name, Where: byUUID(u)}
		if g.rng.Intn(2) == 0 {
			return []OperationJ{del, ins}
		}
		return []OperationJ{ins, del}
	}
	return nil
}

// genOneIndexUpdate: see genTxn
func (g *txnGen) genOneIndexUpdate() []OperationJ {
	for _, t := range g.ts.Spec.Tables {
		if len(t.Indexes) < 2 || len(g.sh.rows[t.Name]) == 0 {
			continue
		}
		us := g.sh.uuids(t.Name)
		u := us[g.rng.Intn(len(us))]
		k := g.rng.Intn(len(t.Indexes))
		row := Row{}
		for _, c := range t.Indexes[k] {
			cs := t.Col(c)
			if cs.Type.Key == "string" {
				row[c] = VA(AS(fmt.Sprintf("x%d", g.rng.Intn(1000)))) // a fresh value
			} else {
				row[c] = VA(AI(int64(100 + g.rng.Intn(1000))))
			}
		}
		// only columns of index k change: the other index keeps its value
		other := t.Indexes[(k+1)%len(t.Indexes)]
		for _, c := range other {
			if _, clash := row[c]; clash {
				return nil // overlapping indexes: not this scenario
			}
		}
		g.sh.pending = &pendingClaim{table: t.Name, uuid: u, index: other}
		return []OperationJ{{Op: "update", Table: t.Name, Row: row, Where: byUUID(u)}}
	}
	return nil
}

// genPartialFail: an operation on several rows that can be carried out for some of them only: every row of a
// table is given the value one of them holds in an immutable column (the others would have to change it). The
// operation fails as a whole, whichever row the implementation happens to visit last.
func (g *txnGen) genPartialFail() (OperationJ, bool) {
	for _, t := range g.ts.Spec.Tables {
		if t.Col("fixed") == nil {
			continue
		}
		us := g.sh.uuids(t.Name)
		vals := map[string]*Value{}
		for _, u := range us {
			if v := g.sh.rows[t.Name][u]["fixed"]; v != nil {
				vals[v.Canon()] = v
			}
		}
		if len(us) < 2 || len(vals) < 2 {
			continue
		}
		keep := g.sh.rows[t.Name][us[g.rng.Intn(len(us))]]["fixed"]
		row := Row{"fixed": nativeToOvsValue(keep), "n": VA(AI(int64(g.rng.Intn(4))))}
		return OperationJ{Op: "update", Table: t.Name, Row: row}, true
	}
	return OperationJ{}, false
}

// genOverflow: arithmetic mutations whose result may leave the range of the column's type
func (g *txnGen) genOverflow() (OperationJ, bool) {
	rng := g.rng
	t := g.ts.Spec.Tables[rng.Intn(len(g.ts.Spec.Tables))]
	var ms []MutationJ
	big := int64(1) << 62
	minInt := int64(math.MinInt64) // -2^63: the one integer whose negation is out of range (exact in float64)
	sub := rng.Intn(9)
	where := g.genWhere(t)
	switch sub {
	case 4:
		ms = []MutationJ{{Col: "n", Mutator: "-=", Val: VA(AI(minInt))}}
	case 5:
		ms = []MutationJ{{Col: "n", Mutator: "+=", Val: VA(AI(minInt))}}
	case 6:
		ms = []MutationJ{{Col: "n", Mutator: []string{"*=", "/="}[rng.Intn(2)], Val: VA(AI(-1))}}
	case 7:
		// a row that holds -2^63 (for the mutations above to meet)
		row := Row{}
		for _, c := range t.Cols {
			if c.RefTable == "" && c.ValRefTable == "" && rng.Intn(2) == 0 {
				row[c.Name] = nativeToOvsValue(g.genColValue(c))
			}
		}
		row["n"] = VA(AI(minInt))
		row["name"] = VA(AS(fmt.Sprintf("min%d", rng.Intn(100000))))
		op := OperationJ{Op: "insert", Table: t.Name, Row: row, UUID: g.sh.fresh()}
		g.inserted[t.Name] = append(g.inserted[t.Name], op.UUID)
		return op, true
	case 8:
		ms = []MutationJ{{Col: "n", Mutator: "-=", Val: VA(AI(minInt))}, {Col: "n", Mutator: "-=", Val: VA(AI(minInt))}}
	case 0:
		ms = []MutationJ{{Col: "n", Mutator: "*=", Val: VA(AI(big))}}
	case 1:
		ms = []MutationJ{{Col: "n", Mutator: "+=", Val: VA(AI(big))}, {Col: "n", Mutator: "+=", Val: VA(AI(big))}}
	case 2:
		ms = []MutationJ{{Col: "n", Mutator: "-=", Val: VA(AI(big))}, {Col: "n", Mutator: "-=", Val: VA(AI(big))}, {Col: "n", Mutator: "-=", Val: VA(AI(big))}}
	default:
		if t.Col("r") == nil {
			return OperationJ{}, false
		}
		// (twice: whatever the row holds, the result is out of range or zero -- a huge value that stayed would
		// make later additions inexact in float64, which the exact reference does not follow)
		ms = []MutationJ{{Col: "r", Mutator: "*=", Val: VA(AR(math.Ldexp(1, 1023)))}, {Col: "r", Mutator: "*=", Val: VA(AR(math.Ldexp(1, 1023)))}}
		if rng.Intn(2) == 0 {
			ms = []MutationJ{{Col: "r", Mutator: "/=", Val: VA(AR(math.Ldexp(1, -1000)))}, {Col: "r", Mutator: "/=", Val: VA(AR(math.Ldexp(1, -1000)))}}
		}
	}
	return OperationJ{Op: "mutate", Table: t.Name, Mutations: ms, Where: where}, true
}

// genTupleConfuse: an index over two columns of one type is keyed by the pair, not by what is left of it once
// default values are taken out: two rows ("", x) and (x, "") are inserted (different tuples, both legal), and
// the next transaction claims the tuple of the first one (which must be refused)
func (g *txnGen) genTupleConfuse() []OperationJ {
	for _, t := range g.ts.Spec.Tables {
		for _, ix := range t.Indexes {
			if len(ix) != 2 || t.Col(ix[0]).Type.Key != "string" || t.Col(ix[1]).Type.Key != "string" {
				continue
			}
			x := fmt.Sprintf("z%d", g.rng.Intn(100000))
			mk := func(a, b string) OperationJ {
				row := Row{}
				for _, c := range t.Cols {
					if c.RefTable == "" && c.ValRefTable == "" && g.rng.Intn(2) == 0 {
						row[c.Name] = nativeToOvsValue(g.genColValue(c))
					}
				}
				for _, other := range t.Indexes {
					for _, c := range other {
						if t.Col(c).Type.Key == "string" {
							row[c] = VA(AS(fmt.Sprintf("w%d", g.rng.Intn(1000000))))
						} else {
							row[c] = VA(AI(int64(9000 + g.rng.Intn(100000))))
						}
					}
				}
				// (for optional columns the empty position is the unset optional)
				val := func(col, v string) *Value {
					if v == "" && t.Col(col).Type.Kind == "opt" {
						return VS()
					}
					return VA(AS(v))
				}
				row[ix[0]], row[ix[1]] = val(ix[0], a), val(ix[1], b)
				op := OperationJ{Op: "insert", Table: t.Name, Row: row, UUID: g.sh.fresh()}
				g.inserted[t.Name] = append(g.inserted[t.Name], op.UUID)
				return op
			}
			first := mk("", x)
			g.sh.pending = &pendingClaim{table: t.Name, uuid: first.UUID, index: ix}
			return []OperationJ{first, mk(x, "")}
		}
	}
	return nil
}

func (g *txnGen) genPendingClaim() (OperationJ, bool) {
	pc := g.sh.pending
	t := g.ts.Spec.Table(pc.table)
	src, ok := g.sh.rows[pc.table][pc.uuid]
	if pc.src != nil {
		src, ok = pc.src, true
	}
	if t == nil || !ok {
		return OperationJ{}, false
	}
	row := Row{}
	for _, c := range t.Cols {
		if c.RefTable != "" || c.ValRefTable != "" {
			continue
		}
		if g.rng.Intn(3) != 0 {
			row[c.Name] = nativeToOvsValue(g.genColValue(c))
		}
	}
	for _, ix := range t.Indexes { // fresh values everywhere ...
		for _, c := range ix {
			if t.Col(c).Type.Key == "string" {
				row[c] = VA(AS(fmt.Sprintf("y%d", g.rng.Intn(100000))))
			} else {
				row[c] = VA(AI(int64(5000 + g.rng.Intn(100000))))
			}
		}
	}
	for _, c := range pc.index { // ... except in the index being claimed
		row[c] = nativeToOvsValue(src[c])
	}
	op := OperationJ{Op: "insert", Table: pc.table, Row: row, UUID: g.sh.fresh()}
	g.inserted[pc.table] = append(g.inserted[pc.table], op.UUID)
	return op, true
}

// genWaitDup: a wait on one column, by a value that several rows may hold, expecting that value once or twice
// genWaitRow: a wait on one stored row, compared on a few of its columns (of any kind) with the values it
// holds, sets and maps written in another order; sometimes one of the values is changed
func (g *txnGen) genWaitRow() (OperationJ, bool) {
	var cands []TableSpec
	for _, t := range g.ts.Spec.Tables {
		if len(g.sh.rows[t.Name]) > 0 {
			cands = append(cands, t)
		}
	}
	if len(cands) == 0 {
		return OperationJ{}, false
	}
	rng := g.rng
	t := cands[rng.Intn(len(cands))]
	us := g.sh.uuids(t.Name)
	u := us[rng.Intn(len(us))]
	src := g.sh.rows[t.Name][u]
	row := Row{}
	var cols []string
	for _, c := range t.Cols {
		v := src[c.Name]
		if v == nil || rng.Intn(3) == 0 {
			continue
		}
		o := cloneValue(nativeToOvsValue(v))
		switch o.K {
		case 'S':
			for i, j := 0, len(o.S)-1; i < j; i, j = i+1, j-1 {
				o.S[i], o.S[j] = o.S[j], o.S[i]
			}
		case 'M':
			for i, j := 0, len(o.M)-1; i < j; i, j = i+1, j-1 {
				o.M[i], o.M[j] = o.M[j], o.M[i]
			}
		}
		row[c.Name] = o
		cols = append(cols, c.Name)
	}
	if len(cols) == 0 {
		return OperationJ{}, false
	}
	if rng.Intn(4) == 0 { // one value is not the stored one
		c := t.Col(cols[rng.Intn(len(cols))])
		row[c.Name] = nativeToOvsValue(g.genColValue(*c))
	}
	if rng.Intn(3) == 0 {
		cols = nil // all columns: the expected row is compared on those it gives
	}
	zero := 0
	return OperationJ{Op: "wait", Table: t.Name, Where: byUUID(u), Columns: cols, Until: []string{"==", "!="}[rng.Intn(2)], Rows: []Row{row}, Timeout: &zero}, true
}

func (g *txnGen) genWaitDup() (OperationJ, bool) {
	var cands []TableSpec
	for _, t := range g.ts.Spec.Tables {
		if len(g.sh.rows[t.Name]) > 0 {
			cands = append(cands, t)
		}
	}
	if len(cands) == 0 {
		return OperationJ{}, false
	}
	t := cands[g.rng.Intn(len(cands))]
	col := []string{"n", "name"}[g.rng.Intn(2)]
	// the most frequent value of the column
	freq := map[string]int{}
	val := map[string]*Value{}
	for _, u := range g.sh.uuids(t.Name) {
		v := g.sh.rows[t.Name][u][col]
		if v != nil {
			freq[v.Canon()]++
			val[v.Canon()] = v
		}
	}
	best := ""
	for k, n := range freq {
		if best == "" || n > freq[best] || (n == freq[best] && k < best) {
			best = k
		}
	}
	if best == "" {
		return OperationJ{}, false
	}
	v := nativeToOvsValue(val[best])
	rows := []Row{{col: v}}
	if g.rng.Intn(2) == 0 {
		rows = append(rows, Row{col: v})
	}
	zero := 0
	return OperationJ{Op: "wait", Table: t.Name, Where: []WCondJ{{Col: col, Fn: "==", Val: v}}, Columns: []string{col},
		Until: []string{"==", "!="}[g.rng.Intn(2)], Rows: rows, Timeout: &zero}, true
}
