package main

// C01, "each monitor method": a server that does not know monitor_cond_since (or monitor_cond either)
// answers "unknown method"; the client falls back to the next method, and its cache has to mirror the
// database all the same -- also after the connection was lost and the monitors were set up again.

import (
	"encoding/json"
	"fmt"
	"strings"
	"sync"
	"time"

	"github.com/cenkalti/backoff/v4"
	"github.com/ovn-org/libovsdb/client"
	"github.com/ovn-org/libovsdb/ovsdb"
)

type fallbackCase struct {
	Model   interface{} `json:"model"`
	Unknown []string    `json:"unknown_methods"`
	Asked   string      `json:"asked"`
	Txns    []TxnJ      `json:"txns"`
	Cut     bool        `json:"cut"`
}

func c01Fallback(r *Run, n int) {
	for i := 0; i < n; i++ {
		c01FallbackOne(r, i)
	}
}

func c01FallbackOne(r *Run, i int) {
	rng := r.Rng
	ts := genTxnSchema(rng, i%2 == 0)
	rig, err := newRig(ts)
	if err != nil {
		return
	}
	defer rig.Close()
	px, err := newProxy(rig.sock)
	if err != nil {
		return
	}
	defer px.Close()
	cs := &fallbackCase{Model: ts.modelJSON(), Unknown: []string{ovsdb.ConditionalMonitorSinceRPC}, Asked: ovsdb.ConditionalMonitorSinceRPC, Cut: rng.Intn(2) == 0}
	want := ovsdb.ConditionalMonitorRPC
	switch rng.Intn(3) {
	case 0:
		cs.Unknown = append(cs.Unknown, ovsdb.ConditionalMonitorRPC)
		want = ovsdb.MonitorRPC
	case 1:
		// the client asks for monitor_cond, which this server does not know either
		cs.Unknown = append(cs.Unknown, ovsdb.ConditionalMonitorRPC)
		cs.Asked, want = ovsdb.ConditionalMonitorRPC, ovsdb.MonitorRPC
	}
	unknown := map[string]bool{}
	for _, m := range cs.Unknown {
		unknown[m] = true
	}
	var mu sync.Mutex
	renamed := map[string]bool{}
	px.rewrite = func(session int, toClient bool, raw json.RawMessage) json.RawMessage {
		var m map[string]json.RawMessage
		if json.Unmarshal(raw, &m) != nil {
			return raw
		}
		mu.Lock()
		defer mu.Unlock()
		if !toClient {
			var method string
			if json.Unmarshal(m["method"], &method) == nil && unknown[method] {
				// the server behind the proxy has never heard of the method
				m["method"], _ = json.Marshal(method + "_not_here")
				renamed[string(m["id"])] = true
				out, _ := json.Marshal(m)
				return out
			}
			return raw
		}
		if renamed[string(m["id"])] {
			if _, isReq := m["method"]; !isReq {
				delete(renamed, string(m["id"]))
				// what ovsdb-server answers
				m["error"], _ = json.Marshal("unknown method")
				m["result"] = json.RawMessage("null")
				out, _ := json.Marshal(m)
				return out
			}
		}
		return raw
	}
	fail := func(impl, want, why string) {
		r.Violation("fallback", cs, impl, want, true, why, "")
	}
	ctx, cancel := ctxT(30 * time.Second)
	defer cancel()
	writer, _, err := rig.newClient(rig.endpoint())
	if err != nil || writer.Connect(ctx) != nil {
		return
	}
	defer writer.Close()
	sh := newShadow()
	commit := func(n int) {
		for k := 0; k < n; k++ {
			txn := genTxn(rng, ts, sh, 1+rng.Intn(4))
			clampWaits(&txn)
			cs.Txns = append(cs.Txns, txn)
			_, _ = writer.Transact(ctx, toOvsOps(txn.Ops)...)
			sh.load(rig.im.dump())
		}
	}
	commit(1 + rng.Intn(3))
	a, adb, err := rig.newClient(px.endpoint(), client.WithReconnect(2*time.Second, backoff.NewConstantBackOff(3*time.Millisecond)))
	if err != nil || a.Connect(ctx) != nil {
		return
	}
	defer a.Close()
	plan := monPlan{Method: cs.Asked, Cols: map[string][]string{}}
	var tables []string
	for _, t := range ts.Spec.Tables {
		plan.Cols[t.Name] = nil
		tables = append(tables, t.Name)
	}
	mon := plan.monitorVia(a, adb)
	r.Case("fallback", fmt.Sprintf("%d", i))
	r.Count("fallback:" + cs.Asked + "->" + want)
	if _, err := a.Monitor(ctx, mon); err != nil {
		fail(err.Error(), "monitor established with "+want, "Monitor failed on a server that answers \"unknown method\" to "+strings.Join(cs.Unknown, ", "))
		return
	}
	if mon.Method != want {
		fail(mon.Method, want, "the monitor was not established with the next method the server knows")
		return
	}
	mirrors := func(when string) bool {
		var got, exp string
		for try := 0; try < 400; try++ {
			got, exp = dumpCanon(cacheDump(a, adb, tables)), dumpCanon(rig.im.dump())
			if got == exp {
				return true
			}
			time.Sleep(5 * time.Millisecond)
		}
		fail(diffLines(got, exp), "cache = database", when+": the cache of a client that fell back to "+want+" does not mirror the database")
		return false
	}
	if !mirrors("after the monitor was established") {
		return
	}
	commit(2 + rng.Intn(3))
	if !mirrors("after transactions") {
		return
	}
	if cs.Cut {
		// the connection goes, transactions are committed meanwhile, the client comes back
		px.cutNow()
		commit(1 + rng.Intn(2))
		for try := 0; try < 400 && !a.Connected(); try++ {
			time.Sleep(5 * time.Millisecond)
		}
		if !mirrors("after a reconnect") {
			return
		}
		commit(1)
		mirrors("after a reconnect and one more transaction")
	}
}
