package main

// C11: aggregating successive updates of one row equals the single net update.

import (
	"fmt"
	"sort"
	"strings"

	"github.com/ovn-org/libovsdb/model"
	"github.com/ovn-org/libovsdb/ovsdb"
	"github.com/ovn-org/libovsdb/updates"
)

func init() { props["C11"] = runC11 }

type ModelJ struct {
	UUID string `json:"uuid"`
	Row  Row    `json:"row"`
}

type RU2J struct {
	Initial Row  `json:"initial"`
	Insert  Row  `json:"insert"`
	Modify  Row  `json:"modify"`
	Delete  bool `json:"delete"`
	Old     Row  `json:"old"`
	New     Row  `json:"new"`
}

type ModelUpdateJ struct {
	RU2 *RU2J   `json:"ru2"`
	Old *ModelJ `json:"old"`
	New *ModelJ `json:"new"`
}

func rowCanonOrNil(r Row) string {
	if r == nil {
		return "nil"
	}
	return r.Canon()
}

func (u ModelUpdateJ) canon() string {
	s := ""
	if u.RU2 == nil {
		s += "ru2:nil"
	} else {
		s += fmt.Sprintf("ru2{init:%s ins:%s mod:%s del:%v old:%s new:%s}", rowCanonOrNil(u.RU2.Initial), rowCanonOrNil(u.RU2.Insert),
			rowCanonOrNil(u.RU2.Modify), u.RU2.Delete, rowCanonOrNil(u.RU2.Old), rowCanonOrNil(u.RU2.New))
	}
	for _, m := range []*ModelJ{u.Old, u.New} {
		if m == nil {
			s += " nil"
		} else {
			s += " " + m.UUID + m.Row.Canon()
		}
	}
	return s
}

// readUpdate extracts the accumulated update of (table, uuid) from a real ModelUpdates.
func readUpdate(db *DB, mu *updates.ModelUpdates, table, uuid string) ModelUpdateJ {
	var out ModelUpdateJ
	_ = mu.ForEachModelUpdate(table, func(u string, old, new model.Model) error {
		if u != uuid {
			return nil
		}
		if old != nil {
			id, r := db.RowOf(table, old)
			out.Old = &ModelJ{UUID: id, Row: r}
		}
		if new != nil {
			id, r := db.RowOf(table, new)
			out.New = &ModelJ{UUID: id, Row: r}
		}
		return nil
	})
	_ = mu.ForEachRowUpdate(table, func(u string, ru ovsdb.RowUpdate2) error {
		if u != uuid {
			return nil
		}
		out.RU2 = &RU2J{Initial: rowFromOvs(ru.Initial), Insert: rowFromOvs(ru.Insert), Modify: rowFromOvs(ru.Modify),
			Delete: ru.Delete != nil, Old: rowFromOvs(ru.Old), New: rowFromOvs(ru.New)}
		return nil
	})
	return out
}

func errClass(err error) string {
	if err == nil {
		return ""
	}
	r := ovsdb.ResultFromError(err)
	switch r.Error {
	case "constraint violation", "referential integrity violation", "domain error", "range error", "not supported", "timed out":
		return r.Error
	}
	return "other"
}

// c11Chain runs a chain on the implementation; returns per-step accumulated
// updates, the error class of the failing step (if any) and the model after
// each step.
type c11Step struct {
	Err     string
	Acc     ModelUpdateJ
	Current *ModelJ
}

func c11Impl(db *DB, table, uuid string, initial *ModelJ, ops []RowOperationJ) (steps []c11Step, panicked interface{}) {
	defer func() {
		if p := recover(); p != nil {
			panicked = p
		}
	}()
	var current model.Model
	if initial != nil {
		current = db.NewModel(table, initial.UUID, initial.Row)
	}
	acc := updates.ModelUpdates{}
	for _, o := range ops {
		u := updates.ModelUpdates{}
		var cur model.Model
		if current != nil {
			cur = model.Clone(current)
		}
		err := u.AddOperation(db.Model, table, uuid, cur, o.toOvs(table))
		if cur != nil {
			// purity: computing/applying differences must not alter the model they were computed from
			_, before := db.RowOf(table, current)
			_, after := db.RowOf(table, cur)
			if before.Canon() != after.Canon() {
				panic(fmt.Sprintf("AddOperation altered the model it was given: %s -> %s", before.Canon(), after.Canon()))
			}
		}
		if err != nil {
			steps = append(steps, c11Step{Err: errClass(err)})
			return
		}
		if err := acc.Merge(db.Model, u); err != nil {
			steps = append(steps, c11Step{Err: "merge: other"})
			return
		}
		if len(u.GetUpdatedTables()) > 0 {
			current = u.GetModel(table, uuid)
		}
		st := c11Step{Acc: readUpdate(db, &acc, table, uuid)}
		if current != nil && !isNilModel(current) {
			id, r := db.RowOf(table, current)
			st.Current = &ModelJ{UUID: id, Row: r}
		} else {
			current = nil
		}
		steps = append(steps, st)
	}
	return
}

func isNilModel(m model.Model) bool { _, r := (&DB{}).rowOfSafe(m); return r }

func (db *DB) rowOfSafe(m model.Model) (string, bool) {
	defer func() { recover() }()
	if m == nil {
		return "", true
	}
	return "", false
}

func genC11Chain(r *Run, t TableSpec, uuid string) (*ModelJ, []RowOperationJ) {
	rng := r.Rng
	fullRow := func() Row {
		row := Row{}
		for _, c := range t.Cols {
			row[c.Name] = genValue(rng, c.Type)
		}
		return row
	}
	var initial *ModelJ
	if rng.Intn(4) != 0 {
		initial = &ModelJ{UUID: uuid, Row: fullRow()}
	}
	// shadow of the current row, only used to bias values (restoring, overlapping)
	var cur Row
	if initial != nil {
		cur = initial.Row.Clone()
	}
	exists := initial != nil
	var ops []RowOperationJ
	n := 2 + rng.Intn(7)
	for i := 0; i < n; i++ {
		if !exists {
			row := Row{}
			for _, c := range t.Cols {
				if rng.Intn(3) != 0 {
					row[c.Name] = nativeToOvsValue(genValue(rng, c.Type))
				}
			}
			ops = append(ops, RowOperationJ{Op: "insert", Row: row})
			exists = true
			cur = nil
			continue
		}
		switch k := rng.Intn(10); {
		case k < 4:
			row := Row{}
			for _, c := range t.Cols {
				if rng.Intn(3) == 0 {
					v := genValue(rng, c.Type)
					if initial != nil && rng.Intn(2) == 0 {
						v = cloneValue(initial.Row[c.Name]) // restore the original value
					}
					row[c.Name] = nativeToOvsValue(v)
				}
			}
			ops = append(ops, RowOperationJ{Op: "update", Row: row})
		case k == 8:
			// a set column emptied, then filled with several elements and partly (or wholly) emptied again by
			// the mutations of ONE operation: the second mutation works on what the first one built
			var sets []ColSpec
			for _, c := range t.Cols {
				if c.Type.Kind == "set" && !c.Immutable && c.Type.Min == 0 {
					sets = append(sets, c)
				}
			}
			if len(sets) == 0 {
				continue
			}
			c := sets[rng.Intn(len(sets))]
			var v *Value
			for try := 0; try < 20; try++ {
				if v = genValue(rng, c.Type); len(v.S) >= 2 {
					break
				}
			}
			if len(v.S) < 2 {
				continue
			}
			del := &Value{K: 'S', S: append([]Atom{}, v.S[:1+rng.Intn(len(v.S))]...)}
			ops = append(ops, RowOperationJ{Op: "update", Row: Row{c.Name: &Value{K: 'S', S: []Atom{}}}},
				RowOperationJ{Op: "mutate", Mutations: []MutationJ{{Col: c.Name, Mutator: "insert", Val: nativeToOvsValue(v)}, {Col: c.Name, Mutator: "delete", Val: nativeToOvsValue(del)}}})
			i++
		case k < 8:
			var ms []MutationJ
			for j := 1 + rng.Intn(3); j > 0; j-- {
				c := t.Cols[rng.Intn(len(t.Cols))]
				// mostly pick columns a mutation can apply to (numeric atoms, sets, maps)
				for try := 0; try < 6 && rng.Intn(10) != 0; try++ {
					k := c.Type.Kind
					if k == "set" || k == "map" || (k == "atom" && (c.Type.Key == "integer" || c.Type.Key == "real") && !c.Immutable) {
						break
					}
					c = t.Cols[rng.Intn(len(t.Cols))]
				}
				var cv *Value
				if cur != nil {
					cv = cur[c.Name]
				}
				m := genMutation(rng, c, cv)
				m.Val = nativeToOvsValue(m.Val)
				ms = append(ms, m)
			}
			ops = append(ops, RowOperationJ{Op: "mutate", Mutations: ms})
		default:
			ops = append(ops, RowOperationJ{Op: "delete"})
			exists = false
			if rng.Intn(3) != 0 {
				return initial, ops
			}
		}
	}
	return initial, ops
}

// c11Oracle: the accumulated update must be the single net update from first to last.
func c11Oracle(t TableSpec, first, last *ModelJ, acc ModelUpdateJ) string {
	empty := acc.RU2 == nil && acc.Old == nil && acc.New == nil
	switch {
	case first == nil && last == nil:
		if !empty {
			return "row inserted and deleted again but the accumulated update is not empty"
		}
	case first != nil && last != nil && first.Row.Canon() == last.Row.Canon():
		if !empty {
			return "row ends as it began but the accumulated update is not empty"
		}
	case empty:
		return "net change but the accumulated update is empty"
	case first == nil:
		if acc.Old != nil || acc.New == nil || acc.New.Row.Canon() != last.Row.Canon() {
			return "insert followed by changes: model update is not (nil -> final row)"
		}
		if acc.RU2 == nil || acc.RU2.Insert == nil || acc.RU2.Modify != nil || acc.RU2.Delete {
			return "insert followed by changes is not reported as one insert"
		}
		if want := expectedNewRow(t, last); acc.RU2.Insert.Canon() != want.Canon() {
			return "insert row is not the final row: got " + acc.RU2.Insert.Canon() + " want " + want.Canon()
		}
	case last == nil:
		if acc.Old == nil || acc.New != nil || acc.Old.Row.Canon() != first.Row.Canon() {
			return "change followed by delete: model update is not (original row -> nil)"
		}
		if acc.RU2 == nil || !acc.RU2.Delete || acc.RU2.Insert != nil || acc.RU2.Modify != nil {
			return "change followed by delete is not reported as one delete"
		}
		if want := expectedNewRow(t, first); acc.RU2.Old == nil || acc.RU2.Old.Canon() != want.Canon() {
			return "delete does not carry the original row"
		}
	default:
		if acc.Old == nil || acc.New == nil || acc.Old.Row.Canon() != first.Row.Canon() || acc.New.Row.Canon() != last.Row.Canon() {
			return "accumulated update does not have the first old value and the last new value"
		}
		if acc.RU2 == nil || acc.RU2.Modify == nil || acc.RU2.Insert != nil || acc.RU2.Delete {
			return "accumulated changes are not reported as one modify"
		}
		// modify applied to the first old value gives the last new value
		for _, c := range t.Cols {
			d, ok := acc.RU2.Modify[c.Name]
			fv, lv := first.Row[c.Name], last.Row[c.Name]
			if !ok {
				if fv.Canon() != lv.Canon() {
					return fmt.Sprintf("column %s changed but is not in the modify row", c.Name)
				}
				continue
			}
			dn := ovsToNativeValue(c.Type, d)
			if dn == nil {
				return fmt.Sprintf("column %s: modify value %s is not of the column type", c.Name, d.Canon())
			}
			if got := applyRules(c.Type, fv, dn); got.Canon() != lv.Canon() {
				return fmt.Sprintf("column %s: modify %s applied to %s gives %s, not %s", c.Name, d.Canon(), fv.Canon(), got.Canon(), lv.Canon())
			}
		}
	}
	return ""
}

// ovsToNativeValue: independent conversion of an OVS-notation value to the
// native kind of the column (nil if it does not fit).
func ovsToNativeValue(ct ColType, v *Value) *Value {
	switch ct.Kind {
	case "atom":
		if v.K == 'a' {
			return v
		}
	case "opt":
		if v.K == 'S' && len(v.S) == 0 {
			return VO(nil)
		}
		if v.K == 'S' && len(v.S) == 1 {
			return VO(&v.S[0])
		}
		if v.K == 'a' {
			return VO(&v.A)
		}
	case "set":
		if v.K == 'S' {
			return v
		}
		if v.K == 'a' {
			return VS(v.A)
		}
	case "map":
		if v.K == 'M' {
			return v
		}
	}
	return nil
}

func isDefaultNative(ct ColType, v *Value) bool {
	switch v.K {
	case 'o':
		return v.O == nil
	case 'S':
		return len(v.S) == 0
	case 'M':
		return len(v.M) == 0
	}
	a := v.A
	switch a.K {
	case 'i':
		return a.I == 0
	case 'r':
		return a.R.Sign() == 0
	case 's':
		return a.S == ""
	case 'u':
		return a.S == "" || a.S == "00000000-0000-0000-0000-000000000000"
	}
	return false
}

// expectedNewRow: the OVS row of a model with default-valued columns omitted.
func expectedNewRow(t TableSpec, m *ModelJ) Row {
	out := Row{}
	if m.UUID != "" {
		out["_uuid"] = VA(AU(m.UUID))
	}
	for _, c := range t.Cols {
		v := m.Row[c.Name]
		if v == nil || isDefaultNative(c.Type, v) {
			continue
		}
		out[c.Name] = nativeToOvsValue(v)
	}
	return out
}

func runC11(r *Run) {
	r.Rule = "chains (length 2-8) of insert/update/mutate/delete operations on one row of a random table (4-7 columns over all native kinds and atomic types, some immutable), each operation built as a fresh ModelUpdates and merged into the accumulated one as Transaction.Transact does; non-trivial = chain of >= 2 effective operations; distinct by (schema, initial row, operations)"
	n := 1500
	if r.Tier == "thorough" {
		n = 20000
	}
	uuid := uuidPool[1]
	defer c11Txn(r)
	for i := 0; i < n; i++ {
		t := genTableSpec(r.Rng, "T", 4+r.Rng.Intn(4))
		db, err := BuildDB(SchemaSpec{Name: "db", Tables: []TableSpec{t}}, nil)
		if err != nil {
			panic(err)
		}
		initial, ops := genC11Chain(r, t, uuid)
		cs := map[string]interface{}{"table": t, "uuid": uuid, "initial": initial, "ops": ops}
		steps, p := c11Impl(db, "T", uuid, initial, ops)
		if p != nil {
			r.Case("chain", "")
			r.Violation("chain", cs, fmt.Sprintf("panic: %v", p), "", true, "updates package panicked on a well-formed chain", "")
			continue
		}
		effective := 0
		for _, s := range steps {
			if s.Err == "" {
				effective++
			}
		}
		key := ""
		if effective >= 2 {
			key = fmt.Sprintf("%v|%v|%v", t, initial, ops)
		}
		r.Case("chain", key)
		for _, o := range ops {
			r.Count("op:" + o.Op)
		}
		if i < 3 {
			r.Sample(cs)
		}
		// oracle after every step
		bad := false
		for si, s := range steps {
			if s.Err != "" {
				r.Count("err:" + s.Err)
				break
			}
			if why := c11Oracle(t, initial, s.Current, s.Acc); why != "" {
				r.Violation("chain", map[string]interface{}{"case": cs, "after_step": si}, s.Acc.canon(), "", true, "aggregated update is not the net update: "+why, "")
				bad = true
				break
			}
		}
		if bad {
			continue
		}
		// correspondence with the model
		var mres []struct {
			Err *string       `json:"err"`
			Acc *ModelUpdateJ `json:"acc"`
		}
		req := map[string]interface{}{"fn": "updatesChain", "table": t, "uuid": uuid, "initial": initial, "ops": ops}
		if err := r.Mdl.Call(req, &mres); err != nil {
			r.Violation("chain", cs, "", err.Error(), false, "model driver failed", "")
			continue
		}
		for si, s := range steps {
			if si >= len(mres) {
				r.Violation("chain", cs, len(steps), len(mres), false, "model stopped earlier than the implementation", "")
				break
			}
			m := mres[si]
			merr := ""
			if m.Err != nil {
				merr = *m.Err
			}
			if merr != s.Err {
				r.Violation("chain", map[string]interface{}{"case": cs, "step": si}, s.Err, merr, false, "model and implementation disagree on the error class of a step", "")
				break
			}
			if s.Err != "" {
				break
			}
			if m.Acc.canon() != s.Acc.canon() {
				r.Violation("chain", map[string]interface{}{"case": cs, "step": si}, s.Acc.canon(), m.Acc.canon(), false, "model and implementation disagree on the accumulated update", "")
				break
			}
		}
	}
}

// c11Txn: the same oracle on whole transactions run by the real engine on an in-memory database with
// references: the update handed to Commit accumulates, per row, the operations of the transaction and the
// changes the reference bookkeeping merged into it (weak references pruned, rows garbage collected, over one
// or several passes). For every row: first old value = the row before the transaction, last new value = the
// row after the commit, and the modify difference applied to the former gives the latter; rows that end as
// they began, or that come and go within the transaction, have no update.
func c11Txn(r *Run) {
	n := 120
	if r.Tier == "thorough" {
		n = 1500
	}
	for h := 0; h < n; h++ {
		ts := genTxnSchema(r.Rng, true)
		chains := false
		for try := 0; h%2 == 0 && try < 20 && !chains; try++ {
			for _, t := range ts.Spec.Tables {
				chains = chains || t.Name == chainTable
			}
			if !chains {
				ts = genTxnSchema(r.Rng, true)
			}
		}
		specOf := map[string]TableSpec{}
		for _, t := range ts.Spec.Tables {
			specOf[t.Name] = t
		}
		im := newImplDB(ts)
		sh := newShadow()
		var hist []TxnJ
		for k := 0; k < 8; k++ {
			txn := genTxn(r.Rng, ts, sh, 1+r.Rng.Intn(5))
			if chains && r.Rng.Intn(2) == 0 {
				txn = genChainTxn(r.Rng, ts, sh)
			}
			clampWaits(&txn)
			hist = append(hist, txn)
			before := im.dump()
			out := im.transact(txn.Ops, nil)
			after := im.dump()
			sh.load(after)
			if out.Panic != "" || !out.Committed || out.CommitErr != "" {
				r.Case("txn", "")
				continue
			}
			first, last := map[string]*ModelJ{}, map[string]*ModelJ{}
			keys := map[string]bool{}
			for _, d := range before {
				first[d.Table+"/"+d.UUID] = &ModelJ{UUID: d.UUID, Row: d.Row}
				keys[d.Table+"/"+d.UUID] = true
			}
			for _, d := range after {
				last[d.Table+"/"+d.UUID] = &ModelJ{UUID: d.UUID, Row: d.Row}
				keys[d.Table+"/"+d.UUID] = true
			}
			for k := range out.Updates {
				keys[k] = true
			}
			key := ""
			if len(out.Updates) > countOpRows(txn) {
				key = fmt.Sprintf("%d/%d/%d", r.Seed, h, k) // rows changed by the reference bookkeeping alone
				r.Count("txn:reference-driven")
			}
			r.Case("txn", key)
			var ks []string
			for k := range keys {
				ks = append(ks, k)
			}
			sort.Strings(ks)
			for _, kk := range ks {
				table := kk[:strings.Index(kk, "/")]
				if why := c11Oracle(specOf[table], first[kk], last[kk], out.Updates[kk]); why != "" {
					cs := map[string]interface{}{"model": ts.modelJSON(), "history": hist, "row": kk}
					r.Violation("txn", cs, out.Updates[kk].canon(), "", true, "accumulated update of a transaction is not the net update of row "+kk+": "+why, "")
					break
				}
			}
		}
	}
}
