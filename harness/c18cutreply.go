package main

// C18: the connection goes right after the reply to a Transact (a server that answers and restarts), with the
// inactivity check on. The Transact returns its results; the client's goroutines that clean up after the
// connection must not pull anything from under it (defect D76: the channel on which a finished Transact
// reports traffic to the inactivity probe was closed by then: send on closed channel, the process died).

import (
	"encoding/json"
	"fmt"
	"time"

	"github.com/cenkalti/backoff/v4"
	"github.com/ovn-org/libovsdb/client"
)

func c18CutAfterReply(r *Run, h int) {
	ts := c18Schema()
	rig, err := newRig(ts)
	if err != nil {
		return
	}
	defer rig.Close()
	px, err := newProxy(rig.sock)
	if err != nil {
		return
	}
	defer px.Close()
	delay := time.Duration(r.Rng.Intn(120)) * time.Microsecond
	px.rewrite = func(session int, toClient bool, raw json.RawMessage) json.RawMessage {
		if toClient {
			var m struct {
				Result json.RawMessage `json:"result"`
				Method string          `json:"method"`
			}
			if json.Unmarshal(raw, &m) == nil && m.Method == "" && len(m.Result) > 3 && string(m.Result[:3]) == `[{"` {
				// the reply to a transact (a list of results): the connection goes right after it
				go func() { time.Sleep(delay); px.cutNow() }()
			}
		}
		return raw
	}
	ctx, cancel := ctxT(60 * time.Second)
	defer cancel()
	a, _, err := rig.newClient(px.endpoint(), client.WithInactivityCheck(5*time.Second, 2*time.Second, backoff.NewConstantBackOff(2*time.Millisecond)))
	if err != nil || a.Connect(ctx) != nil {
		return
	}
	defer a.Close()
	cs := map[string]interface{}{"run": h, "cut_after_us": delay.Microseconds()}
	r.Case("cut-after-reply", fmt.Sprint(h, delay))
	r.InFlight("cut-after-reply", cs, "the client's process died when its connection was lost right after the reply to a Transact (inactivity check on)")
	defer r.Landed()
	ok := 0
	for i := 0; i < 150; i++ {
		tctx, tcancel := ctxT(500 * time.Millisecond)
		done := make(chan error, 1)
		go func() {
			_, err := a.Transact(tctx, toOvsOps([]OperationJ{{Op: "insert", Table: "Other", UUID: mkUUID(20000 + h*1000 + i), Row: Row{"name": VA(AS("x")), "n": VA(AI(int64(i)))}}})...)
			done <- err
		}()
		select {
		case err := <-done:
			if err == nil {
				ok++
			} else {
				time.Sleep(2 * time.Millisecond)
			}
		case <-time.After(5 * time.Second):
			tcancel()
			r.Violation("cut-after-reply", cs, "Transact (context of 500ms) has not returned after 5s", "returns", true,
				"a Transact did not return after the connection was lost right after an earlier reply", "")
			return
		}
		tcancel()
	}
	r.Count(fmt.Sprintf("cut-after-reply:answered:%d", ok/50*50))
}
