package main

// C15, the client's half: api.Create turns each model's _uuid field into the
// uuid-name (a symbolic name), the uuid (a valid UUID) or neither (empty) of
// its own insert operation; executed, every name used in a uuid-typed column
// refers to the row inserted under that name and every insert reports the uuid
// its row is stored under.

import (
	"fmt"
	"time"

	"github.com/ovn-org/libovsdb/model"
	"github.com/ovn-org/libovsdb/ovsdb"
)

func c15CreateSchema() TxnSchema {
	str := ColType{Kind: "atom", Key: "string", Min: 1, Max: 1}
	spec := SchemaSpec{Name: "db", Tables: []TableSpec{
		{Name: "A", IsRoot: true, Cols: []ColSpec{{Name: "name", Type: str},
			{Name: "refs", Type: ColType{Kind: "set", Key: "uuid", Min: 0, Max: -1}, RefTable: "B", RefType: "strong"},
			{Name: "byname", Type: ColType{Kind: "map", Key: "string", Val: "uuid", Min: 0, Max: -1}, ValRefTable: "B", ValRefType: "strong"}}},
		{Name: "B", IsRoot: true, Cols: []ColSpec{{Name: "name", Type: str},
			{Name: "owner", Type: ColType{Kind: "opt", Key: "uuid", Min: 0, Max: 1}, RefTable: "A", RefType: "strong"},
			{Name: "peers", Type: ColType{Kind: "set", Key: "uuid", Min: 0, Max: -1}, RefTable: "B", RefType: "weak"}}},
	}}
	return TxnSchema{Spec: spec, Specs: map[string][]ISpec{"A": {}, "B": {}}}
}

func c15Create(r *Run) {
	n := 120
	if r.Tier == "thorough" {
		n = 2500
	}
	ts := c15CreateSchema()
	rig, err := newRig(ts)
	if err != nil {
		r.Violation("create", nil, err.Error(), "", false, "cannot start the server", "")
		return
	}
	defer rig.Close()
	ctx, cancel := ctxT(120 * time.Second)
	defer cancel()
	c, cdb, err := rig.newClient(rig.endpoint())
	if err != nil || c.Connect(ctx) != nil {
		r.Violation("create", nil, fmt.Sprint(err), "", false, "client cannot connect", "")
		return
	}
	defer c.Close()
	rng := r.Rng
	serial := 0
	for i := 0; i < n; i++ {
		type mdl struct {
			Table string `json:"table"`
			ID    string `json:"_uuid"` // "", a name, or a valid uuid
			Row   Row    `json:"row"`
		}
		k := 2 + rng.Intn(3)
		ms := make([]mdl, k)
		kinds := make([]string, k)
		for j := range ms {
			serial++
			ms[j].Table = []string{"A", "B"}[rng.Intn(2)]
			switch rng.Intn(3) {
			case 0:
				kinds[j] = "anonymous"
			case 1:
				// plain names, and names that contain something shaped like a UUID
				kinds[j], ms[j].ID = "named", []string{fmt.Sprintf("nm%d", j), fmt.Sprintf("port-%s", mkUUID(40+j)), mkUUID(50+j) + "-a", fmt.Sprintf("x%sy", mkUUID(60+j)),
					fmt.Sprintf("port_of_vm_0123456789_0123456789_a%02d", j), fmt.Sprintf("Bridge_%d_UpperCase", j)}[rng.Intn(6)] // (the last one: 36 characters, as a UUID has)
			default:
				kinds[j], ms[j].ID = "explicit", mkUUID(100000+serial)
			}
			ms[j].Row = Row{"name": VA(AS(fmt.Sprintf("row%d", serial)))}
		}
		// references to the other models of the call, by name or by explicit uuid
		ident := func(j int) (Atom, bool) {
			if ms[j].ID == "" {
				return Atom{}, false
			}
			return AU(ms[j].ID), true
		}
		uses := false
		for j := range ms {
			for o := range ms {
				id, ok := ident(o)
				if !ok || o == j || rng.Intn(2) == 0 {
					continue
				}
				switch {
				case ms[j].Table == "A" && ms[o].Table == "B":
					if rng.Intn(2) == 0 {
						v := ms[j].Row["refs"]
						if v == nil {
							v = VS()
						}
						v.S = append(v.S, id)
						ms[j].Row["refs"] = v
					} else {
						v := ms[j].Row["byname"]
						if v == nil {
							v = VM()
						}
						v.M = append(v.M, [2]Atom{AS(fmt.Sprintf("k%d", o)), id})
						ms[j].Row["byname"] = v
					}
				case ms[j].Table == "B" && ms[o].Table == "A":
					if ms[j].Row["owner"] == nil {
						a := id
						ms[j].Row["owner"] = VO(&a)
					}
				case ms[j].Table == "B" && ms[o].Table == "B":
					v := ms[j].Row["peers"]
					if v == nil {
						v = VS()
					}
					v.S = append(v.S, id)
					ms[j].Row["peers"] = v
				default:
					continue
				}
				if kinds[o] == "named" {
					uses = true
				}
			}
		}
		cs := map[string]interface{}{"models": ms}
		key := ""
		if uses {
			key = mustJSON(ms)
		}
		r.Case("create", key)
		for _, kd := range kinds {
			r.Count("create:" + kd)
		}
		var models []model.Model
		for _, m := range ms {
			models = append(models, cdb.NewModel(m.Table, m.ID, m.Row))
		}
		ops, err := c.Create(models...)
		if err != nil {
			r.Violation("create", cs, err.Error(), "operations", true, "Create failed on well-formed models", "")
			return
		}
		if len(ops) != len(ms) {
			r.Violation("create", cs, len(ops), len(ms), true, "Create did not return one operation per model", "")
			return
		}
		for j, op := range ops {
			wantUUID, wantName := "", ""
			switch kinds[j] {
			case "named":
				wantName = ms[j].ID
			case "explicit":
				wantUUID = ms[j].ID
			}
			if string(op.Op) != "insert" || op.Table != ms[j].Table || op.UUID != wantUUID || op.UUIDName != wantName {
				r.Violation("create", cs, fmt.Sprintf("op %d: %s %s uuid=%q uuid-name=%q", j, op.Op, op.Table, op.UUID, op.UUIDName),
					fmt.Sprintf("insert %s uuid=%q uuid-name=%q", ms[j].Table, wantUUID, wantName), true,
					"the insert generated for a model does not carry that model's own uuid / uuid-name", "")
				return
			}
		}
		// the row inserted under a name is changed later in the same transaction, through the conditional API:
		// Where(model whose _uuid is the name) must produce the condition _uuid == named-uuid, which the
		// server resolves to the inserted row
		for j := range ms {
			if kinds[j] != "named" || rng.Intn(2) == 0 {
				continue
			}
			newName := fmt.Sprintf("renamed%d", serial)
			upd := cdb.NewModel(ms[j].Table, "", Row{"name": VA(AS(newName))})
			var wops []ovsdb.Operation
			var werr error
			if rng.Intn(2) == 0 {
				wops, werr = c.Where(cdb.NewModel(ms[j].Table, ms[j].ID, nil)).Update(upd, fieldPtrs(cdb, ms[j].Table, upd, []string{"name"})...)
			} else {
				// (the model of the condition carries other values too: they must not take the name's place)
				wops, werr = c.Where(cdb.NewModel(ms[j].Table, ms[j].ID, Row{"name": VA(AS("row-of-somebody-else"))})).Update(upd, fieldPtrs(cdb, ms[j].Table, upd, []string{"name"})...)
			}
			cs["where_by_name"] = ms[j].ID
			r.Count("create:where-by-name")
			if werr != nil || len(wops) != 1 || len(wops[0].Where) != 1 {
				r.Violation("create", cs, fmt.Sprint(werr, wops), "one update with one condition", true, "Where(model named by a uuid-name).Update did not generate its operation", "")
				return
			}
			if w := wops[0].Where[0]; w.Column != "_uuid" || w.Function != ovsdb.ConditionEqual || fmt.Sprint(w.Value) != fmt.Sprint(ovsdb.UUID{GoUUID: ms[j].ID}) {
				r.Violation("create", cs, fmt.Sprintf("%+v", w), "_uuid == "+ms[j].ID, true, "the condition generated for a model named by a uuid-name is not on that name", "")
				return
			}
			ops = append(ops, wops...)
			ms[j].Row["name"] = VA(AS(newName)) // what the stored row must say in the end
			break
		}
		res, err := c.Transact(ctx, ops...)
		if err != nil {
			r.Violation("create", cs, err.Error(), "results", true, "the transaction generated by Create was not accepted", "")
			return
		}
		for j := range res {
			if res[j].Error != "" {
				r.Violation("create", cs, res[j].Error+": "+res[j].Details, "no error", true, "the transaction generated by Create was rejected", "")
				return
			}
		}
		if len(res) < len(ms) {
			r.Violation("create", cs, len(res), len(ms), true, "fewer results than operations", "")
			return
		}
		// the row of model j is stored under the uuid reported for insert j
		stored := map[string]DumpRow{}
		for _, d := range rig.im.dump() {
			stored[d.UUID] = d
		}
		uuidOf := map[string]string{} // identification used in the models -> uuid reported
		for j := range ms {
			u := res[j].UUID.GoUUID
			d, ok := stored[u]
			if !ok || d.Table != ms[j].Table || d.Row["name"].Canon() != ms[j].Row["name"].Canon() {
				r.Violation("create", cs, fmt.Sprintf("insert %d reports %s; stored there: %v", j, u, d), "the row of model "+fmt.Sprint(j), true,
					"the uuid reported for an insert is not the uuid its row is stored under", "")
				return
			}
			if kinds[j] == "explicit" && u != ms[j].ID {
				r.Violation("create", cs, u, ms[j].ID, true, "an insert with an explicit uuid was stored under another uuid", "")
				return
			}
			if ms[j].ID != "" {
				uuidOf[ms[j].ID] = u
			}
		}
		// every reference resolves to the row inserted under that name
		for j := range ms {
			d := stored[res[j].UUID.GoUUID]
			for col, v := range ms[j].Row {
				if col == "name" {
					continue
				}
				want := cloneValue(v)
				sub := func(a Atom) Atom {
					if a.K == 'u' {
						if u, ok := uuidOf[a.S]; ok {
							return AU(u)
						}
					}
					return a
				}
				switch want.K {
				case 'o':
					if want.O != nil {
						a := sub(*want.O)
						want.O = &a
					}
				case 'S':
					for x := range want.S {
						want.S[x] = sub(want.S[x])
					}
				case 'M':
					for x := range want.M {
						want.M[x][1] = sub(want.M[x][1])
					}
				}
				if got := sortedValue(d.Row[col]); got.Canon() != sortedValue(want).Canon() {
					r.Violation("create", cs, fmt.Sprintf("model %d column %s = %s", j, col, got.Canon()), sortedValue(want).Canon(), true,
						"a name used in a uuid-typed column does not refer to the row inserted under that name", "")
					return
				}
			}
		}
	}
}
