package main

// A fault-injecting proxy between a client and the server's unix socket: it
// forwards JSON-RPC messages one by one in both directions and can cut the
// connection at any message boundary (or in the middle of a message).

import (
	"encoding/json"
	"net"
	"os"
	"path/filepath"
	"sync"
)

type cutPlan struct {
	// cut the session when this many messages have been forwarded in total (both
	// directions counted in order of arrival at the proxy); < 0 = never
	After int `json:"after"`
	// Mid: forward half of the bytes of the next message before cutting
	Mid bool `json:"mid,omitempty"`
}

type proxy struct {
	dir, sock, target string
	ln                net.Listener
	mu                sync.Mutex
	plans             []cutPlan // one per accepted session, in order; missing = never cut
	sessions          int
	conns             []net.Conn
	msgs              []int // messages forwarded per session
	closed            bool
	blocked           bool // refuse new sessions (the server is "away")
	log               []string
	// rewrite, when set, may replace (or, returning nil, drop) a message before it is forwarded
	rewrite func(session int, toClient bool, raw json.RawMessage) json.RawMessage
	// stalled: messages are read but held back (the peer is silent) until unstalled or cut
	stalled                      bool
	epoch, cutEpoch, silentEpoch int // sessions accepted in an epoch <= cutEpoch are dead, <= silentEpoch silent for good
	unstall                      *sync.Cond
}

func newProxy(target string) (*proxy, error) {
	dir, err := os.MkdirTemp("", "verif-proxy-")
	if err != nil {
		return nil, err
	}
	p := &proxy{dir: dir, sock: filepath.Join(dir, "p.sock"), target: target}
	p.unstall = sync.NewCond(&p.mu)
	p.cutEpoch, p.silentEpoch = -1, -1
	ln, err := net.Listen("unix", p.sock)
	if err != nil {
		return nil, err
	}
	p.ln = ln
	go p.accept()
	return p, nil
}

func (p *proxy) endpoint() string { return "unix:" + p.sock }

func (p *proxy) Close() {
	p.mu.Lock()
	p.closed = true
	for _, c := range p.conns {
		c.Close()
	}
	p.unstall.Broadcast()
	p.mu.Unlock()
	p.ln.Close()
	os.RemoveAll(p.dir)
}

// setPlans replaces the cut plans of the sessions still to come
func (p *proxy) setPlans(plans ...cutPlan) {
	p.mu.Lock()
	p.plans = append(append([]cutPlan{}, make([]cutPlan, p.sessions)...), plans...)
	for i := 0; i < p.sessions && i < len(p.plans); i++ {
		p.plans[i] = cutPlan{After: -1}
	}
	p.mu.Unlock()
}

// stall makes the proxy silent in both directions without closing anything
func (p *proxy) stall(b bool) {
	p.mu.Lock()
	p.stalled = b
	p.unstall.Broadcast()
	p.mu.Unlock()
}

// silence makes every session open now silent for good (messages are swallowed in both directions, the
// connections stay open); sessions accepted later work normally
func (p *proxy) silence() {
	p.mu.Lock()
	p.silentEpoch = p.epoch
	p.epoch++
	p.mu.Unlock()
}

func (p *proxy) block(b bool) {
	p.mu.Lock()
	p.blocked = b
	p.mu.Unlock()
}

// cutNow closes every open session
func (p *proxy) cutNow() {
	p.mu.Lock()
	for _, c := range p.conns {
		c.Close()
	}
	p.conns = nil
	p.cutEpoch = p.epoch
	p.epoch++
	p.unstall.Broadcast()
	p.mu.Unlock()
}

func (p *proxy) sessionCount() int {
	p.mu.Lock()
	defer p.mu.Unlock()
	return p.sessions
}

func (p *proxy) forwarded(session int) int {
	p.mu.Lock()
	defer p.mu.Unlock()
	if session < len(p.msgs) {
		return p.msgs[session]
	}
	return 0
}

func (p *proxy) accept() {
	for {
		c, err := p.ln.Accept()
		if err != nil {
			return
		}
		p.mu.Lock()
		if p.closed || p.blocked {
			p.mu.Unlock()
			c.Close()
			continue
		}
		id := p.sessions
		p.sessions++
		plan := cutPlan{After: -1}
		if id < len(p.plans) {
			plan = p.plans[id]
		}
		p.msgs = append(p.msgs, 0)
		p.mu.Unlock()
		s, err := net.Dial("unix", p.target)
		if err != nil {
			c.Close()
			continue
		}
		p.mu.Lock()
		if p.blocked || p.closed { // blocked while this session was being set up
			p.mu.Unlock()
			c.Close()
			s.Close()
			continue
		}
		p.conns = append(p.conns, c, s)
		myGen := p.epoch
		p.mu.Unlock()
		var once sync.Once
		dead := false
		cut := func() {
			once.Do(func() {
				c.Close()
				s.Close()
				p.mu.Lock()
				dead = true
				p.unstall.Broadcast()
				p.mu.Unlock()
			})
		}
		var cnt sync.Mutex
		pump := func(from, to net.Conn, toClient bool) {
			dec := json.NewDecoder(from)
			for {
				var raw json.RawMessage
				if err := dec.Decode(&raw); err != nil {
					cut()
					return
				}
				p.mu.Lock()
				for p.stalled && !dead && !p.closed && myGen > p.cutEpoch {
					p.unstall.Wait()
				}
				rw := p.rewrite
				gone := dead || p.closed || myGen <= p.cutEpoch
				silent := myGen <= p.silentEpoch
				p.mu.Unlock()
				if gone {
					cut()
					return
				}
				if silent {
					continue // the peer has gone silent: nothing gets through, nothing is closed
				}
				if rw != nil {
					if raw = rw(id, toClient, raw); raw == nil {
						continue
					}
				}
				cnt.Lock()
				p.mu.Lock()
				n := p.msgs[id]
				p.mu.Unlock()
				if plan.After >= 0 && n >= plan.After {
					if plan.Mid && len(raw) > 1 {
						to.Write(raw[:len(raw)/2])
					}
					cnt.Unlock()
					cut()
					return
				}
				p.mu.Lock()
				p.msgs[id]++
				p.mu.Unlock()
				_, err := to.Write(raw)
				cnt.Unlock()
				if err != nil {
					cut()
					return
				}
			}
		}
		go pump(c, s, false)
		go pump(s, c, true)
	}
}
