//go:build verif

package main

import (
	"encoding/json"
	"fmt"
	"go/token"
	"math/rand"
	"sort"
	"strings"

	"github.com/ovn-org/libovsdb/modelgen"
	"github.com/ovn-org/libovsdb/ovsdb"
)

// c20Names: the identifiers the generator derives from table and column names (FieldName, StructName, the
// alias of an enum column, FileName) compared with the Lean model of modelgen's naming on random RFC 7047
// <id>s (letters of both cases, digits, underscores in every position, the initialisms of modelgen and
// their plurals); and the law the model proves: a name whose first character other than '_' is a letter
// gives an exported Go identifier.
func c20Names(r *Run) {
	n := 400
	if r.Tier == "thorough" {
		n = 6000
	}
	words := []string{"ip", "ips", "id", "ids", "uuid", "uuids", "acl", "qos", "mac", "dns", "stp", "rstp", "vlan", "cvlan", "ct", "s", "ss", "port", "addr", "x", "a1", "9", "b2b", "IP", "Id", "QoS", "Mac"}
	genID := func(rng *rand.Rand) string {
		var b strings.Builder
		switch rng.Intn(4) {
		case 0: // words joined by underscores
			for k := 1 + rng.Intn(4); k > 0; k-- {
				if rng.Intn(5) == 0 {
					b.WriteString("_")
				}
				b.WriteString(words[rng.Intn(len(words))])
				if k > 1 || rng.Intn(6) == 0 {
					b.WriteString(strings.Repeat("_", 1+rng.Intn(2)))
				}
			}
		default:
			const first = "abcdefghijklmnopqrstuvwxyzABCDEFGHIJKLMNOPQRSTUVWXYZ_"
			const rest = "abcdefghijklmnopqrstuvwxyzABCDEFGHIJKLMNOPQRSTUVWXYZ_0123456789__sS"
			b.WriteByte(first[rng.Intn(len(first))])
			for k := rng.Intn(8); k > 0; k-- {
				b.WriteByte(rest[rng.Intn(len(rest))])
			}
		}
		return b.String()
	}
	enumCol := func() *ovsdb.ColumnSchema {
		var cs ovsdb.ColumnSchema
		_ = json.Unmarshal([]byte(`{"type":{"key":{"type":"string","enum":["set",["a","b"]]}}}`), &cs)
		return &cs
	}()
	for i := 0; i < n; i++ {
		table, column := genID(r.Rng), genID(r.Rng)
		cs := map[string]interface{}{"table": table, "column": column}
		impl := map[string]string{"field": modelgen.FieldName(column), "struct": modelgen.StructName(table), "file": modelgen.FileName(table)}
		if e := modelgen.FieldEnum(table, column, enumCol); e != nil {
			impl["enum"] = e.Alias
		}
		letterFirst := func(s string) bool {
			t := strings.TrimLeft(s, "_")
			return t != "" && (t[0] >= 'a' && t[0] <= 'z' || t[0] >= 'A' && t[0] <= 'Z')
		}
		key := ""
		if strings.Contains(column, "_") || strings.ToLower(column) != column {
			key = table + "/" + column
		}
		r.Case("names", key)
		// the law (C20: the generated code compiles): exported identifiers
		if letterFirst(column) && !(token.IsIdentifier(impl["field"]) && token.IsExported(impl["field"])) {
			r.Violation("names", cs, impl["field"], "an exported identifier", true, "the field name generated for a column is not an exported Go identifier", "")
			continue
		}
		if letterFirst(table) && table[0] != '_' && !(token.IsIdentifier(impl["struct"]) && token.IsExported(impl["struct"])) {
			r.Violation("names", cs, impl["struct"], "an exported identifier", true, "the struct name generated for a table is not an exported Go identifier", "")
			continue
		}
		var mo map[string]string
		if err := r.Mdl.Call(map[string]interface{}{"fn": "names", "table": table, "column": column}, &mo); err != nil {
			r.Violation("names-model", cs, "", err.Error(), false, "model driver failed", "")
			continue
		}
		var diffs []string
		for _, k := range []string{"field", "struct", "file", "enum"} {
			if impl[k] != mo[k] {
				diffs = append(diffs, fmt.Sprintf("%s: implementation %q, model %q", k, impl[k], mo[k]))
			}
		}
		if len(diffs) > 0 {
			r.Violation("names-model", cs, impl, mo, false, "generated names of implementation and model differ: "+strings.Join(diffs, "; "), "")
		}
	}
}

// c20Collisions: the names of a schema that the generator maps to one identifier (or to something that is
// not an identifier): columns of one table with the same field name, tables with the same struct or file
// name, enum columns with the same alias, values of one enum with the same constant name. Such a schema is
// valid and its generated code does not compile: the known finding "identifier-collision".
func c20Collisions(schema ovsdb.DatabaseSchema) []string {
	var out []string
	structs, files, aliases := map[string]string{}, map[string]string{}, map[string]string{}
	var tables []string
	for t := range schema.Tables {
		tables = append(tables, t)
	}
	sort.Strings(tables)
	for _, t := range tables {
		sn, fn := modelgen.StructName(t), modelgen.FileName(t)
		if !token.IsIdentifier(sn) || !token.IsExported(sn) {
			out = append(out, fmt.Sprintf("table %q: struct name %q is not an exported identifier", t, sn))
		}
		if o, ok := structs[sn]; ok {
			out = append(out, fmt.Sprintf("tables %q and %q share the struct name %q", o, t, sn))
		}
		if o, ok := files[fn]; ok {
			out = append(out, fmt.Sprintf("tables %q and %q share the file name %q", o, t, fn))
		}
		structs[sn], files[fn] = t, t
		fields := map[string]string{"UUID": "_uuid"}
		var cols []string
		for c := range schema.Tables[t].Columns {
			cols = append(cols, c)
		}
		sort.Strings(cols)
		for _, c := range cols {
			if c == "_uuid" {
				continue
			}
			f := modelgen.FieldName(c)
			if !token.IsIdentifier(f) || !token.IsExported(f) {
				out = append(out, fmt.Sprintf("column %q of %q: field name %q is not an exported identifier", c, t, f))
			}
			if o, ok := fields[f]; ok {
				out = append(out, fmt.Sprintf("columns %q and %q of %q share the field name %q", o, c, t, f))
			}
			fields[f] = c
			if e := modelgen.FieldEnum(t, c, schema.Tables[t].Columns[c]); e != nil {
				if o, ok := aliases[e.Alias]; ok {
					out = append(out, fmt.Sprintf("enum columns %s and %s.%s share the alias %q", o, t, c, e.Alias))
				}
				aliases[e.Alias] = t + "." + c
				// values of one enum with the same constant name (strings: what is not a letter or digit
				// separates words, then the words are camel-cased)
				consts := map[string]string{}
				for _, v := range e.Sets {
					sv, ok := v.(string)
					if !ok {
						continue
					}
					n := modelgen.FieldName(strings.Map(func(r rune) rune {
						if r >= 'a' && r <= 'z' || r >= 'A' && r <= 'Z' || r >= '0' && r <= '9' || r > 127 {
							return r
						}
						return '_'
					}, sv))
					if o, ok := consts[n]; ok {
						out = append(out, fmt.Sprintf("values %q and %q of enum %s.%s share the constant name %s%s", o, sv, t, c, e.Alias, n))
					}
					consts[n] = sv
				}
				if o, ok := structs[e.Alias]; ok {
					out = append(out, fmt.Sprintf("enum alias %q of %s.%s is the struct name of table %q", e.Alias, t, c, o))
				}
			}
		}
	}
	return out
}
