package main

// C10: difference / applyDifference / mergeDifference correspondence and
// model-independent oracle.

import (
	"encoding/json"
	"fmt"
	"github.com/ovn-org/libovsdb/ovsdb"
	"math/rand"
	"sort"
	"strings"

	"github.com/ovn-org/libovsdb/updates"
)

func init() { props["C10"] = runC10 }

type diffRes struct {
	V       *Value `json:"v"`
	Changed bool   `json:"changed"`
}

func (d diffRes) canon() string { return fmt.Sprintf("%s/%v", d.V.Canon(), d.Changed) }

// valueEquiv: equality of column values as the property reads them (sets as
// sets, maps extensionally, nil = empty).
func valueEquiv(a, b *Value) bool { return a.Canon() == b.Canon() }

func implDiff(ct ColType, fn string, o, a, b *Value) (res diffRes, panicked interface{}) {
	defer func() {
		if p := recover(); p != nil {
			panicked = p
		}
	}()
	// the Go functions work in place: hand them private copies
	no, na, nb := toNative(ct, cloneValue(o)), toNative(ct, cloneValue(a)), toNative(ct, cloneValue(b))
	var x interface{}
	var ch bool
	switch fn {
	case "difference":
		x, ch = updates.VerifDifference(na, nb)
	case "applyDifference":
		x, ch = updates.VerifApplyDifference(na, nb)
	case "mergeDifference":
		x, ch = updates.VerifMergeDifference(no, na, nb)
	}
	return diffRes{V: fromNative(ct, x), Changed: ch}, nil
}

func runC10(r *Run) {
	r.Rule = "pairs (a,b) of well-formed values of one column type drawn from small universes; non-trivial = a and b differ and neither is empty/default-only; distinct by (type, a, b) canonical form"
	n := 4000
	if r.Tier == "thorough" {
		n = 60000
	}
	for i := 0; i < n; i++ {
		ct := genColType(r.Rng)
		a := genValue(r.Rng, ct)
		b := genValue(r.Rng, ct)
		if r.Rng.Intn(6) == 0 {
			b = cloneValue(a)
		}
		c10Pair(r, ct, a, b)
	}
	c10Rows(r, n/8)
	if r.Tier == "thorough" {
		c10Exhaustive(r)
	}
}

func c10Pair(r *Run, ct ColType, a, b *Value) {
	key := ""
	if !valueEquiv(a, b) {
		key = ct.Kind + ct.Key + ct.Val + a.Canon() + b.Canon()
	}
	r.Case("difference", key)
	r.Count("kind:" + ct.Kind)
	cs := map[string]interface{}{"type": ct, "a": a, "b": b}
	r.Sample(cs)

	// correspondence: difference
	impl, p := implDiff(ct, "difference", nil, a, b)
	var mod diffRes
	if err := r.Mdl.Call(map[string]interface{}{"fn": "difference", "a": a, "b": b}, &mod); err != nil {
		r.Violation("difference", cs, fmt.Sprint(impl), err.Error(), false, "model driver failed", "")
		return
	}
	if p != nil {
		r.Violation("difference", cs, fmt.Sprintf("panic: %v", p), mod.canon(), true, "difference panicked", "")
		return
	}
	// oracle (model independent): empty iff equal; apply(a, diff) = b
	eq := valueEquiv(a, b)
	if impl.Changed == eq {
		r.Violation("difference", cs, impl.canon(), mod.canon(), true,
			fmt.Sprintf("difference reports changed=%v but a equals b is %v", impl.Changed, eq), "")
		return
	}
	ap, p2 := implDiff(ct, "applyDifference", nil, a, impl.V)
	if p2 != nil {
		r.Violation("applyDifference", cs, fmt.Sprintf("panic: %v", p2), "", true, "applyDifference panicked", "")
		return
	}
	if !valueEquiv(ap.V, b) {
		r.Violation("applyDifference", cs, ap.canon(), b.Canon(), true, "apply(a, difference(a,b)) is not b", "")
		return
	}
	if ap.Changed == eq {
		r.Violation("applyDifference", cs, ap.canon(), b.Canon(), true, "applyDifference changed flag wrong", "")
		return
	}
	if impl.canon() != mod.canon() {
		r.Violation("difference", cs, impl.canon(), mod.canon(), false, "model and implementation disagree on difference", "")
		return
	}
	// correspondence: applyDifference with an arbitrary peer difference d = b
	r.Case("applyDifference", key)
	impl2, p3 := implDiff(ct, "applyDifference", nil, a, b)
	var mod2 diffRes
	if err := r.Mdl.Call(map[string]interface{}{"fn": "applyDifference", "a": a, "b": b}, &mod2); err != nil {
		r.Violation("applyDifference", cs, "", err.Error(), false, "model driver failed", "")
		return
	}
	if p3 != nil {
		r.Violation("applyDifference", cs, fmt.Sprintf("panic: %v", p3), mod2.canon(), true, "applyDifference panicked", "")
		return
	}
	// oracle: update2 rules
	if want := applyRules(ct, a, b); !valueEquiv(impl2.V, want) {
		r.Violation("applyDifference", cs, impl2.canon(), want.Canon(), true, "applying a peer difference does not follow the update2 rules", "")
		return
	}
	if impl2.canon() != mod2.canon() {
		r.Violation("applyDifference", cs, impl2.canon(), mod2.canon(), false, "model and implementation disagree on applyDifference", "")
	}
}

// applyRules: independent ten-line statement of the update2 rules.
func applyRules(ct ColType, v, d *Value) *Value {
	switch ct.Kind {
	case "set":
		in := map[string]bool{}
		for _, x := range d.S {
			in[x.Key()] = true
		}
		out := []Atom{}
		have := map[string]bool{}
		for _, x := range v.S {
			have[x.Key()] = true
			if !in[x.Key()] {
				out = append(out, x)
			}
		}
		for _, x := range d.S {
			if !have[x.Key()] {
				out = append(out, x)
			}
		}
		return &Value{K: 'S', S: out}
	case "map":
		dm := map[string][2]Atom{}
		for _, p := range d.M {
			dm[p[0].Key()] = p
		}
		out := [][2]Atom{}
		have := map[string]bool{}
		for _, p := range v.M {
			have[p[0].Key()] = true
			if q, ok := dm[p[0].Key()]; ok {
				if q[1].Key() != p[1].Key() {
					out = append(out, q) // replaced
				} // identical: removed
			} else {
				out = append(out, p)
			}
		}
		for _, q := range d.M {
			if !have[q[0].Key()] {
				out = append(out, q)
			}
		}
		return &Value{K: 'M', M: out}
	}
	return d
}

func c10Exhaustive(r *Run) {
	// all pairs of sets over a 4-element universe in every element order
	uni := []Atom{AI(0), AI(1), AI(2), AI(3)}
	var lists [][]Atom
	var rec func(cur []Atom, used int)
	rec = func(cur []Atom, used int) {
		lists = append(lists, append([]Atom{}, cur...))
		for i, a := range uni {
			if used&(1<<i) == 0 {
				rec(append(cur, a), used|1<<i)
			}
		}
	}
	rec(nil, 0)
	ct := ColType{Kind: "set", Key: "integer", Max: -1}
	for _, a := range lists {
		for _, b := range lists {
			c10Pair(r, ct, &Value{K: 'S', S: a}, &Value{K: 'S', S: b})
		}
	}
	// all pairs of maps over keys {a,b,c} and values {0,1}
	keys := []Atom{AS("a"), AS("b"), AS("c")}
	var maps [][][2]Atom
	var recm func(i int, cur [][2]Atom)
	recm = func(i int, cur [][2]Atom) {
		if i == len(keys) {
			maps = append(maps, append([][2]Atom{}, cur...))
			return
		}
		recm(i+1, cur)
		for _, v := range []int64{0, 1} {
			recm(i+1, append(cur, [2]Atom{keys[i], AI(v)}))
		}
	}
	recm(0, nil)
	mt := ColType{Kind: "map", Key: "string", Val: "integer", Max: -1}
	for _, a := range maps {
		for _, b := range maps {
			c10Pair(r, mt, &Value{K: 'M', M: a}, &Value{K: 'M', M: b})
		}
	}
	r.Notes = append(r.Notes, fmt.Sprintf("exhaustive sweep: %d ordered integer sets squared, %d string->int maps squared", len(lists), len(maps)))
}

// c10Rows: the law at the level of whole rows, through the code paths that
// produce and consume modify rows: AddOperation(update) gives a new model and a
// modify row; the new model is the old one overlaid with the update row, and the
// modify row applied to the old model (AddRowUpdate2) gives the same model. The
// update row repeats unchanged columns (non-empty sets and maps included), as a
// client writing a whole model back does.
func c10Rows(r *Run, n int) {
	uuid := uuidPool[1]
	for i := 0; i < n; i++ {
		t := genTableSpec(r.Rng, "T", 3+r.Rng.Intn(5))
		for ci := range t.Cols {
			t.Cols[ci].Immutable = false
		}
		db, err := BuildDB(SchemaSpec{Name: "db", Tables: []TableSpec{t}}, nil)
		if err != nil {
			continue
		}
		a, upd, b := Row{}, Row{}, Row{}
		changed := 0
		for _, c := range t.Cols {
			a[c.Name] = genValue(r.Rng, c.Type)
			b[c.Name] = cloneValue(a[c.Name])
			if lv, lw, ok := genLargePair(r.Rng, c.Type); ok && r.Rng.Intn(3) == 0 {
				// larger collections that overlap: one a part of the other, or both with elements of their own
				a[c.Name], b[c.Name] = lv, lw
				upd[c.Name] = nativeToOvsValue(cloneValue(lw))
				if lw.Canon() != lv.Canon() {
					changed++
				}
				r.Count("row-update:large-collection")
				continue
			}
			if (c.Type.Key == "real" || c.Type.Val == "real") && c.Type.Kind != "atom" && r.Rng.Intn(3) == 0 {
				// a whole real too large to be written with a fraction joins the collection (on the wire it is a
				// string of digits)
				big := AR([]float64{1e16, 1 << 54, -1e17, 9007199254740994}[r.Rng.Intn(4)])
				nv := cloneValue(a[c.Name])
				switch {
				case nv.K == 'S' && (c.Type.Max < 0 || len(nv.S) < c.Type.Max) && !setHas(nv.S, big):
					nv.S = append(nv.S, big)
				case nv.K == 'o':
					nv.O = &big
				case nv.K == 'M' && c.Type.Val == "real" && len(nv.M) > 0:
					nv.M[0][1] = big
				case nv.K == 'M' && c.Type.Key == "real" && (c.Type.Max < 0 || len(nv.M) < c.Type.Max):
					if _, has := mapGet(nv.M, big); !has {
						nv.M = append(nv.M, [2]Atom{big, genAtom(r.Rng, c.Type.Val)})
					}
				}
				upd[c.Name] = nativeToOvsValue(nv)
				b[c.Name] = nv
				if nv.Canon() != a[c.Name].Canon() {
					changed++
				}
				r.Count("row-update:big-real")
				continue
			}
			switch r.Rng.Intn(3) {
			case 0: // repeated unchanged
				upd[c.Name] = nativeToOvsValue(cloneValue(a[c.Name]))
			case 1: // changed
				nv := genValue(r.Rng, c.Type)
				upd[c.Name] = nativeToOvsValue(nv)
				b[c.Name] = nv
				if nv.Canon() != a[c.Name].Canon() {
					changed++
				}
			}
		}
		cs := map[string]interface{}{"table": t, "old": ModelJ{uuid, a}, "update": upd}
		key := ""
		if changed > 0 {
			key = fmt.Sprint(t, a.Canon(), upd.Canon())
		}
		r.Case("row-update", key)
		var n1, n2 Row
		var modify Row
		var failure string
		var twoStepGot, twoStepWant string
		func() {
			defer func() {
				if p := recover(); p != nil {
					failure = fmt.Sprint("panic: ", p)
				}
			}()
			u1 := updates.ModelUpdates{}
			cur1 := db.NewModel("T", uuid, a)
			if err := u1.AddOperation(db.Model, "T", uuid, cur1, RowOperationJ{Op: "update", Row: upd}.toOvs("T")); err != nil {
				failure = "AddOperation: " + err.Error()
				return
			}
			// computing a difference does not alter the model it was computed from (order of set elements included)
			if _, now := db.RowOf("T", cur1); rowExact(now) != rowExact(a) {
				failure = "PURITY AddOperation(update) altered the current model it was given: " + rowExact(now)
				return
			}
			mu := readUpdate(db, &u1, "T", uuid)
			if changed == 0 {
				if mu.New != nil && mu.New.Row.Canon() != a.Canon() {
					failure = "an update that changes nothing produced the model " + mu.New.Row.Canon()
				}
				return
			}
			if mu.New == nil || mu.RU2 == nil || mu.RU2.Modify == nil {
				failure = "no update produced although a column changed"
				return
			}
			n1, modify = mu.New.Row, mu.RU2.Modify
			u2 := updates.ModelUpdates{}
			mod := rowToOvs(modify)
			if i%2 == 0 {
				// the difference as the other side gets it: written to the wire and read back
				text, err := json.Marshal(mod)
				var back ovsdb.Row
				if err == nil {
					err = json.Unmarshal(text, &back)
				}
				if err != nil {
					failure = "the modify row does not survive the wire: " + err.Error()
					return
				}
				mod = back
				cs["modify_on_the_wire"] = string(text)
			}
			cur2 := db.NewModel("T", uuid, a)
			if err := u2.AddRowUpdate2(db.Model, "T", uuid, cur2, ovsdb.RowUpdate2{Modify: &mod}); err != nil {
				failure = "AddRowUpdate2: " + err.Error()
				return
			}
			// nor does applying one
			if _, now := db.RowOf("T", cur2); rowExact(now) != rowExact(a) {
				failure = "PURITY AddRowUpdate2(modify) altered the current model it was given: " + rowExact(now)
				return
			}
			if m2 := readUpdate(db, &u2, "T", uuid); m2.New != nil {
				n2 = m2.New.Row
			}
			// a second update of the row aggregated into the same ModelUpdates, computed from the model the first
			// one produced (GetModel, as the documentation says): that model, handed out by GetModel and by
			// ForEachModelUpdate, is not altered either -- whether the second update is accepted or refused
			if m1 := u1.GetModel("T", uuid); m1 != nil {
				_, before := db.RowOf("T", m1)
				upd2 := Row{}
				for _, c := range t.Cols {
					if r.Rng.Intn(2) == 0 {
						upd2[c.Name] = nativeToOvsValue(genValue(r.Rng, c.Type))
					}
				}
				err2 := u1.AddOperation(db.Model, "T", uuid, m1, RowOperationJ{Op: "update", Row: upd2}.toOvs("T"))
				if _, now := db.RowOf("T", m1); rowExact(now) != rowExact(before) {
					cs["second_update"] = upd2
					failure = "PURITY a second AddOperation(update) altered the model GetModel had handed out for the first: " + rowExact(now) + " (was " + rowExact(before) + ")"
					return
				}
				// the difference of both updates together, applied to the model before the first, gives the model
				// after the second
				if err2 == nil {
					c := Row{}
					for k, v := range b {
						c[k] = v
					}
					for _, col := range t.Cols {
						if v, ok := upd2[col.Name]; ok {
							c[col.Name] = ovsToNativeValue(col.Type, v)
						}
					}
					cs["second_update"] = upd2
					got := a
					if mu2 := readUpdate(db, &u1, "T", uuid); mu2.RU2 != nil && mu2.RU2.Modify != nil {
						u3 := updates.ModelUpdates{}
						mod2 := rowToOvs(mu2.RU2.Modify)
						if err := u3.AddRowUpdate2(db.Model, "T", uuid, db.NewModel("T", uuid, a), ovsdb.RowUpdate2{Modify: &mod2}); err != nil {
							failure = "TWOSTEP AddRowUpdate2 of the merged difference: " + err.Error()
							return
						}
						if m3 := readUpdate(db, &u3, "T", uuid); m3.New != nil {
							got = m3.New.Row
						}
						cs["modify"] = mu2.RU2.Modify
					}
					r.Count("row-update:two-step")
					if got.Canon() != c.Canon() {
						twoStepGot, twoStepWant = got.Canon(), c.Canon()
						failure = "TWOSTEP"
						return
					}
				}
			}
		}()
		if strings.HasPrefix(failure, "PURITY") {
			r.Violation("row-update", cs, failure, rowExact(a), true, "computing or applying a difference altered the model it was computed from", "")
			continue
		}
		if failure == "TWOSTEP" {
			r.Violation("row-update", cs, twoStepGot, twoStepWant, true,
				"two updates of a row aggregated into one: the merged modify row applied to the model before the first does not give the model after the second", "")
			continue
		}
		if failure != "" {
			r.Violation("row-update", cs, failure, b.Canon(), true, "updating a row failed", "")
			continue
		}
		if changed == 0 {
			continue
		}
		if n1.Canon() != b.Canon() {
			r.Violation("row-update", cs, n1.Canon(), b.Canon(), true, "the new model of an update is not the old model overlaid with the update row", "")
			continue
		}
		if n2 == nil || n2.Canon() != b.Canon() {
			cs["modify"] = modify
			r.Violation("row-update", cs, fmt.Sprint(n2.Canon()), b.Canon(), true, "the modify row applied to the old model does not give the new model", "")
		}
	}
}

// rowExact renders a row without canonicalising the order of set elements and map pairs
func rowExact(r Row) string {
	var cols []string
	for c := range r {
		cols = append(cols, c)
	}
	sort.Strings(cols)
	var parts []string
	for _, c := range cols {
		v := r[c]
		switch {
		case v == nil:
			parts = append(parts, c+"=nil")
		case v.K == 'S':
			var es []string
			for _, a := range v.S {
				es = append(es, a.Key())
			}
			parts = append(parts, c+"=S["+strings.Join(es, ",")+"]")
		default:
			parts = append(parts, c+"="+v.Canon())
		}
	}
	return strings.Join(parts, ";")
}

// genLargePair: two sets (or maps) of up to 16 elements over a universe of 24 that share elements: a inside b,
// b inside a, or overlapping
func genLargePair(rng *rand.Rand, ct ColType) (*Value, *Value, bool) {
	if (ct.Kind != "set" && ct.Kind != "map") || ct.Max != -1 || (ct.Key != "integer" && ct.Key != "string") {
		return nil, nil, false
	}
	if ct.Kind == "map" && ct.Val != "integer" && ct.Val != "string" {
		return nil, nil, false
	}
	atom := func(t string, i int) Atom {
		if t == "integer" {
			return AI(int64(100 + i))
		}
		return AS(fmt.Sprintf("e%02d", i))
	}
	perm := rng.Perm(24)
	na, nb := 1+rng.Intn(8), 9+rng.Intn(8)
	var ia, ib []int
	switch rng.Intn(3) {
	case 0: // a inside b
		ib = perm[:nb]
		ia = ib[:na]
	case 1: // overlapping
		ia = perm[:na+4]
		ib = perm[2 : 2+nb]
	default: // b inside a (a large too)
		ia = perm[:nb+3]
		ib = ia[1 : 1+nb]
	}
	mk := func(ix []int, salt int) *Value {
		ix = append([]int{}, ix...)
		rng.Shuffle(len(ix), func(i, j int) { ix[i], ix[j] = ix[j], ix[i] })
		if ct.Kind == "set" {
			v := &Value{K: 'S'}
			for _, i := range ix {
				v.S = append(v.S, atom(ct.Key, i))
			}
			return v
		}
		v := &Value{K: 'M'}
		for _, i := range ix {
			v.M = append(v.M, [2]Atom{atom(ct.Key, i), atom(ct.Val, (i*7+salt*(i%3))%24)})
		}
		return v
	}
	return mk(ia, 0), mk(ib, 1), true
}
