package main

// C07: notifications are the exact difference made by the transaction.

import (
	"encoding/json"
	"fmt"
	"sort"
	"strings"

	"github.com/ovn-org/libovsdb/database"
	"github.com/ovn-org/libovsdb/ovsdb"
	"github.com/ovn-org/libovsdb/server"
)

func init() { props["C07"] = runC07 }

type MonReqJ struct {
	Table     string   `json:"table"`
	Columns   []string `json:"columns"`
	HasSelect bool     `json:"hasSelect"`
	Initial   bool     `json:"initial"`
	Insert    bool     `json:"insert"`
	Delete    bool     `json:"delete"`
	Modify    bool     `json:"modify"`
}

type MonitorJ struct {
	Requests []MonReqJ `json:"requests"` // empty = all tables
}

func (m MonitorJ) toOvs() map[string]*ovsdb.MonitorRequest {
	out := map[string]*ovsdb.MonitorRequest{}
	for _, r := range m.Requests {
		mr := &ovsdb.MonitorRequest{Columns: r.Columns}
		if r.HasSelect {
			mr.Select = ovsdb.NewMonitorSelect(r.Initial, r.Insert, r.Delete, r.Modify)
		}
		out[r.Table] = mr
	}
	return out
}

func (m MonitorJ) req(table string) *MonReqJ {
	for i := range m.Requests {
		if m.Requests[i].Table == table {
			return &m.Requests[i]
		}
	}
	return nil
}

func genMonitor(r *Run, ts TxnSchema, foreign bool) MonitorJ {
	rng := r.Rng
	var m MonitorJ
	if foreign && rng.Intn(3) == 0 {
		return m // no table named: every table, every column, every kind of change
	}
	for _, t := range ts.Spec.Tables {
		if rng.Intn(4) == 0 {
			continue
		}
		q := MonReqJ{Table: t.Name, HasSelect: true, Initial: true, Insert: true, Delete: true, Modify: true}
		for _, c := range t.Cols {
			if rng.Intn(3) != 0 {
				q.Columns = append(q.Columns, c.Name)
			}
		}
		if len(q.Columns) == 0 {
			q.Columns = []string{t.Cols[0].Name}
		}
		if rng.Intn(3) == 0 {
			q.Insert, q.Delete, q.Modify = rng.Intn(2) == 0, rng.Intn(2) == 0, rng.Intn(2) == 0
		}
		if foreign {
			switch rng.Intn(3) {
			case 0:
				q.HasSelect = false // select omitted: everything is selected
				q.Insert, q.Delete, q.Modify = true, true, true
			case 1:
				q.Columns = nil // columns omitted: all columns
			}
		}
		m.Requests = append(m.Requests, q)
	}
	if len(m.Requests) == 0 && !foreign {
		t := ts.Spec.Tables[0]
		m.Requests = []MonReqJ{{Table: t.Name, Columns: []string{t.Cols[0].Name}, HasSelect: true, Initial: true, Insert: true, Delete: true, Modify: true}}
	}
	return m
}

type Notif2Row struct {
	Table  string `json:"table"`
	UUID   string `json:"uuid"`
	Insert Row    `json:"insert"`
	Modify Row    `json:"modify"`
	Delete bool   `json:"delete"`
}

type Notif1Row struct {
	Table string `json:"table"`
	UUID  string `json:"uuid"`
	Old   Row    `json:"old"`
	New   Row    `json:"new"`
}

func notif2Canon(n []Notif2Row) string {
	var parts []string
	for _, x := range n {
		parts = append(parts, fmt.Sprintf("%s/%s ins:%s mod:%s del:%v", x.Table, x.UUID, rowCanonOrNil(x.Insert), rowCanonOrNil(x.Modify), x.Delete))
	}
	sort.Strings(parts)
	return strings.Join(parts, "\n")
}

func notif1Canon(n []Notif1Row) string {
	var parts []string
	for _, x := range n {
		parts = append(parts, fmt.Sprintf("%s/%s old:%s new:%s", x.Table, x.UUID, rowCanonOrNil(x.Old), rowCanonOrNil(x.New)))
	}
	sort.Strings(parts)
	return strings.Join(parts, "\n")
}

func implNotifs(m MonitorJ, upd database.Update) (n1 []Notif1Row, n2 []Notif2Row, panicked string) {
	defer func() {
		if p := recover(); p != nil {
			panicked = fmt.Sprint(p)
		}
	}()
	// the requests as the server gets them: encoded by the requesting side, decoded from the wire
	reqs := m.toOvs()
	if text, err := json.Marshal(reqs); err == nil {
		var wire map[string]*ovsdb.MonitorRequest
		if json.Unmarshal(text, &wire) == nil {
			reqs = wire
		}
	}
	tu2 := server.VerifFilter2(reqs, upd)
	for t, rows := range tu2 {
		for u, ru := range rows {
			n2 = append(n2, Notif2Row{Table: t, UUID: u, Insert: rowFromOvs(ru.Insert), Modify: rowFromOvs(ru.Modify), Delete: ru.Delete != nil})
		}
	}
	tu := server.VerifFilter(reqs, upd)
	for t, rows := range tu {
		for u, ru := range rows {
			n1 = append(n1, Notif1Row{Table: t, UUID: u, Old: rowFromOvs(ru.Old), New: rowFromOvs(ru.New)})
		}
	}
	return
}

// project: the monitored part of a dump: table/uuid -> monitored columns (native values)
func project(ts TxnSchema, m MonitorJ, d []DumpRow) map[string]Row {
	out := map[string]Row{}
	for _, r := range d {
		q := m.req(r.Table)
		if len(m.Requests) > 0 && q == nil {
			continue
		}
		row := Row{}
		t := ts.Spec.Table(r.Table)
		for _, c := range t.Cols {
			if q == nil || q.Columns == nil || contains(q.Columns, c.Name) {
				row[c.Name] = r.Row[c.Name]
			}
		}
		out[r.Table+"/"+r.UUID] = row
	}
	return out
}

func contains(l []string, s string) bool {
	for _, x := range l {
		if x == s {
			return true
		}
	}
	return false
}

func projCanon(p map[string]Row) string {
	var ks []string
	for k := range p {
		ks = append(ks, k)
	}
	sort.Strings(ks)
	var parts []string
	for _, k := range ks {
		parts = append(parts, k+":"+p[k].Canon())
	}
	return strings.Join(parts, "\n")
}

// applyNotif2: independent applier of an update2 notification to a projection.
func applyNotif2(ts TxnSchema, m MonitorJ, pre map[string]Row, n []Notif2Row) (map[string]Row, string) {
	out := map[string]Row{}
	for k, v := range pre {
		out[k] = v.Clone()
	}
	for _, x := range n {
		key := x.Table + "/" + x.UUID
		t := ts.Spec.Table(x.Table)
		q := m.req(x.Table)
		monitored := func(c string) bool { return q == nil || q.Columns == nil || contains(q.Columns, c) }
		switch {
		case x.Insert != nil:
			if _, ok := out[key]; ok {
				return nil, "insert of a row the monitor already has: " + key
			}
			row := Row{}
			for _, c := range t.Cols {
				if !monitored(c.Name) {
					continue
				}
				if v, ok := x.Insert[c.Name]; ok {
					nv := ovsToNativeValue(c.Type, v)
					if nv == nil {
						return nil, "insert value of wrong type for " + c.Name
					}
					row[c.Name] = nv
				} else {
					row[c.Name] = zeroValue(c.Type)
				}
			}
			for c := range x.Insert {
				if c != "_uuid" && !monitored(c) {
					return nil, "insert carries unmonitored column " + c
				}
			}
			out[key] = row
		case x.Modify != nil:
			cur, ok := out[key]
			if !ok {
				return nil, "modify of a row the monitor does not have: " + key
			}
			for c, d := range x.Modify {
				if c == "_uuid" {
					continue
				}
				if !monitored(c) {
					return nil, "modify carries unmonitored column " + c
				}
				cs := t.Col(c)
				dn := ovsToNativeValue(cs.Type, d)
				if dn == nil {
					return nil, "modify value of wrong type for " + c
				}
				cur[c] = applyRules(cs.Type, cur[c], dn)
			}
		case x.Delete:
			if _, ok := out[key]; !ok {
				return nil, "delete of a row the monitor does not have: " + key
			}
			delete(out, key)
		}
	}
	return out, ""
}

// applyNotif1: RFC 7047 'update' applied as a replica would: new replaces the
// monitored columns it carries (all of them, per the RFC), a row with only old is deleted.
func applyNotif1(ts TxnSchema, m MonitorJ, pre map[string]Row, n []Notif1Row) (map[string]Row, string) {
	out := map[string]Row{}
	for k, v := range pre {
		out[k] = v.Clone()
	}
	for _, x := range n {
		key := x.Table + "/" + x.UUID
		t := ts.Spec.Table(x.Table)
		q := m.req(x.Table)
		monitored := func(c string) bool { return q == nil || q.Columns == nil || contains(q.Columns, c) }
		switch {
		case x.New != nil:
			row, ok := out[key]
			if !ok {
				row = Row{}
				for _, c := range t.Cols {
					if monitored(c.Name) {
						row[c.Name] = zeroValue(c.Type)
					}
				}
			}
			for _, c := range t.Cols {
				if !monitored(c.Name) {
					continue
				}
				if v, ok := x.New[c.Name]; ok {
					nv := ovsToNativeValue(c.Type, v)
					if nv == nil {
						return nil, "new value of wrong type for " + c.Name
					}
					row[c.Name] = nv
				}
			}
			out[key] = row
		case x.Old != nil:
			delete(out, key)
		}
	}
	return out, ""
}

func runC07(r *Run) {
	r.Rule = "histories of committed transactions (incl. garbage-collected and weak-pruned rows) observed by 2 monitors with random table subsets, column subsets and select flags (libovsdb-style requests; a minority of foreign requests with omitted select/columns); both encodings (update / update2) computed by the server's own filters; non-trivial = committed transaction whose notification touches >= 1 monitored row; distinct by (schema, monitor, history prefix, transaction)"
	nHist := 200
	if r.Tier == "thorough" {
		nHist = 2500
	}
	c07Wire(r, nHist/4)
	for h := 0; h < nHist; h++ {
		ts := genTxnSchema(r.Rng, true)
		im := newImplDB(ts)
		sh := newShadow()
		mons := []MonitorJ{genMonitor(r, ts, false), genMonitor(r, ts, h%5 == 0)}
		var txns []TxnJ
		type rec struct {
			n1 [][]Notif1Row
			n2 [][]Notif2Row
			ok bool
		}
		var recs []rec
		nT := 4 + r.Rng.Intn(6)
		bad := false
		for ti := 0; ti < nT && !bad; ti++ {
			txn := genTxn(r.Rng, ts, sh, 1+r.Rng.Intn(4))
			pre := im.dump()
			var rc rec
			pan := ""
			out := im.transact(txn.Ops, func(upd database.Update, ok bool) {
				rc.ok = ok
				if !ok {
					return
				}
				for _, m := range mons {
					n1, n2, p := implNotifs(m, upd)
					if p != "" {
						pan = p
					}
					rc.n1 = append(rc.n1, n1)
					rc.n2 = append(rc.n2, n2)
				}
			})
			post := im.dump()
			sh.load(post)
			txns = append(txns, txn)
			recs = append(recs, rc)
			cs := map[string]interface{}{"model": ts.modelJSON(), "monitors": mons, "txns": txns}
			if out.Panic != "" || pan != "" {
				r.Case("txn", "")
				r.Violation("txn", cs, "panic: "+out.Panic+pan, "", true, "computing the notification panicked", "")
				bad = true
				break
			}
			key := ""
			if !rc.ok {
				r.Case("txn", "")
				continue
			}
			for mi, m := range mons {
				pp, pq := project(ts, m, pre), project(ts, m, post)
				allKinds := true
				for _, q := range m.Requests {
					if !(q.Insert && q.Delete && q.Modify) {
						allKinds = false
					}
				}
				n2 := rc.n2[mi]
				if len(n2) > 0 {
					key = fmt.Sprintf("%d|%d", h, ti)
				}
				// minimality + selection on update2
				for _, x := range n2 {
					k := x.Table + "/" + x.UUID
					_, inPre := pp[k]
					_, inPost := pq[k]
					q := m.req(x.Table)
					if len(m.Requests) > 0 && q == nil {
						r.Violation("update2", cs, notif2Canon(n2), "", true, "notification for a table the monitor did not select: "+x.Table, "")
						bad = true
					}
					if q != nil && ((x.Insert != nil && !q.Insert) || (x.Modify != nil && !q.Modify) || (x.Delete && !q.Delete)) {
						r.Violation("update2", cs, notif2Canon(n2), "", true, "notification of a kind of change the monitor did not select", "")
						bad = true
					}
					if inPre && inPost && pp[k].Canon() == pq[k].Canon() {
						r.Violation("update2", cs, notif2Canon(n2), projCanon(pq), true, "row "+k+" reported although nothing monitored changed", "")
						bad = true
					}
					if x.Modify != nil && inPre && inPost {
						for c := range x.Modify {
							if c != "_uuid" && pp[k][c] != nil && pp[k][c].Canon() == pq[k][c].Canon() {
								r.Violation("update2", cs, notif2Canon(n2), "", true, "column "+c+" of "+k+" reported although it did not change", "")
								bad = true
							}
						}
					}
				}
				if bad {
					break
				}
				if allKinds {
					got, why := applyNotif2(ts, m, pp, n2)
					if why != "" || projCanon(got) != projCanon(pq) {
						r.Violation("update2", map[string]interface{}{"case": cs, "monitor": mi}, notif2Canon(n2)+"\n=> "+why+projCanon(got), projCanon(pq), true,
							"update2 notification applied to the monitored part before the transaction does not give the monitored part after it", "")
						bad = true
						break
					}
					got1, why1 := applyNotif1(ts, m, pp, rc.n1[mi])
					if why1 != "" || projCanon(got1) != projCanon(pq) {
						r.Violation("update", map[string]interface{}{"case": cs, "monitor": mi}, notif1Canon(rc.n1[mi])+"\n=> "+why1+projCanon(got1), projCanon(pq), true,
							"update (RFC 7047) notification applied to the monitored part before the transaction does not give the monitored part after it", "")
						bad = true
						break
					}
				} else {
					// with kinds filtered: exactly the changed rows of the selected kinds
					want := map[string]bool{}
					for k := range pp {
						q := m.req(strings.SplitN(k, "/", 2)[0])
						if _, ok := pq[k]; !ok {
							if q == nil || q.Delete {
								want[k] = true
							}
						} else if pp[k].Canon() != pq[k].Canon() && (q == nil || q.Modify) {
							want[k] = true
						}
					}
					for k := range pq {
						q := m.req(strings.SplitN(k, "/", 2)[0])
						if _, ok := pp[k]; !ok && (q == nil || q.Insert) {
							want[k] = true
						}
					}
					got := map[string]bool{}
					for _, x := range n2 {
						got[x.Table+"/"+x.UUID] = true
					}
					if fmt.Sprint(sortedKeys(got)) != fmt.Sprint(sortedKeys(want)) {
						r.Violation("update2", map[string]interface{}{"case": cs, "monitor": mi}, sortedKeys(got), sortedKeys(want), true, "rows reported differ from the changed rows of the selected kinds", "")
						bad = true
						break
					}
				}
			}
			r.Case("txn", key)
			r.Count(fmt.Sprintf("notif_rows:%d", len(rc.n2[0])))
			if h < 2 && ti < 2 {
				r.Sample(map[string]interface{}{"monitors": mons, "txn": txn})
			}
		}
		if bad {
			continue
		}
		// correspondence with the model
		var mo []struct {
			Committed bool          `json:"committed"`
			Notifs1   [][]Notif1Row `json:"notifs1"`
			Notifs2   [][]Notif2Row `json:"notifs2"`
		}
		cs := map[string]interface{}{"model": ts.modelJSON(), "monitors": mons, "txns": txns}
		if err := r.Mdl.Call(map[string]interface{}{"fn": "dbHistory", "model": ts.modelJSON(), "txns": txns, "monitors": mons}, &mo); err != nil {
			r.Violation("history", cs, "", err.Error(), false, "model driver failed", "")
			continue
		}
		for ti := range recs {
			if recs[ti].ok != mo[ti].Committed {
				r.Violation("history", cs, recs[ti].ok, mo[ti].Committed, false, fmt.Sprintf("transaction %d: commit decision differs", ti), "")
				break
			}
			if !recs[ti].ok {
				continue
			}
			stop := false
			for mi := range mons {
				if a, b := notif2Canon(recs[ti].n2[mi]), notif2Canon(mo[ti].Notifs2[mi]); a != b {
					r.Violation("history", map[string]interface{}{"case": cs, "txn": ti, "monitor": mi}, a, b, false, "update2 notification of model and implementation differ", "")
					stop = true
					break
				}
				if a, b := notif1Canon(recs[ti].n1[mi]), notif1Canon(mo[ti].Notifs1[mi]); a != b {
					r.Violation("history", map[string]interface{}{"case": cs, "txn": ti, "monitor": mi}, a, b, false, "update notification of model and implementation differ", "")
					stop = true
					break
				}
			}
			if stop {
				break
			}
		}
	}
}

func sortedKeys(m map[string]bool) []string {
	var ks []string
	for k := range m {
		ks = append(ks, k)
	}
	sort.Strings(ks)
	return ks
}
