package main

// Go-side mirror of the Lean model datatypes (Atom, Value), their JSON
// encoding for the line protocol, canonicalisation, and conversion from/to
// the native Go values libovsdb works with.

import (
	"encoding/json"
	"fmt"
	"math/big"
	"reflect"
	"sort"
	"strings"

	"github.com/ovn-org/libovsdb/ovsdb"
)

type Atom struct {
	K byte // 'i' int, 'r' real, 'b' bool, 's' string, 'u' uuid
	I int64
	R *big.Rat
	B bool
	S string
}

func AI(i int64) Atom     { return Atom{K: 'i', I: i} }
func AR(f float64) Atom   { r := new(big.Rat); r.SetFloat64(f); return Atom{K: 'r', R: r} }
func AB(b bool) Atom      { return Atom{K: 'b', B: b} }
func AS(s string) Atom    { return Atom{K: 's', S: s} }
func AU(s string) Atom    { return Atom{K: 'u', S: s} }
func (a Atom) F() float64 { f, _ := a.R.Float64(); return f }

func (a Atom) Key() string {
	switch a.K {
	case 'i':
		return fmt.Sprintf("i:%020d", a.I+(1<<62)) // order-preserving enough for canonical sort
	case 'r':
		return "r:" + a.R.RatString()
	case 'b':
		return fmt.Sprintf("b:%v", a.B)
	case 's':
		return "s:" + a.S
	case 'u':
		return "u:" + a.S
	}
	return "?"
}

func (a Atom) MarshalJSON() ([]byte, error) {
	switch a.K {
	case 'i':
		return []byte(fmt.Sprintf(`{"i":%d}`, a.I)), nil
	case 'r':
		return []byte(fmt.Sprintf(`{"r":[%s,%s]}`, a.R.Num().String(), a.R.Denom().String())), nil
	case 'b':
		return []byte(fmt.Sprintf(`{"b":%v}`, a.B)), nil
	case 's':
		b, _ := json.Marshal(a.S)
		return []byte(`{"s":` + string(b) + `}`), nil
	case 'u':
		b, _ := json.Marshal(a.S)
		return []byte(`{"u":` + string(b) + `}`), nil
	}
	return nil, fmt.Errorf("bad atom kind %q", a.K)
}

func (a *Atom) UnmarshalJSON(b []byte) error {
	var m map[string]json.RawMessage
	if err := json.Unmarshal(b, &m); err != nil {
		return err
	}
	for k, v := range m {
		switch k {
		case "i":
			var n json.Number
			if err := json.Unmarshal(v, &n); err != nil {
				return err
			}
			i, err := n.Int64()
			if err != nil {
				return fmt.Errorf("model integer out of int64 range: %s", n)
			}
			*a = AI(i)
		case "r":
			var nd []json.Number
			if err := json.Unmarshal(v, &nd); err != nil || len(nd) != 2 {
				return fmt.Errorf("bad real %s", v)
			}
			r, ok := new(big.Rat).SetString(nd[0].String() + "/" + nd[1].String())
			if !ok {
				return fmt.Errorf("bad real %s", v)
			}
			*a = Atom{K: 'r', R: r}
		case "b":
			var x bool
			if err := json.Unmarshal(v, &x); err != nil {
				return err
			}
			*a = AB(x)
		case "s":
			var x string
			if err := json.Unmarshal(v, &x); err != nil {
				return err
			}
			*a = AS(x)
		case "u":
			var x string
			if err := json.Unmarshal(v, &x); err != nil {
				return err
			}
			*a = AU(x)
		default:
			return fmt.Errorf("bad atom key %q", k)
		}
		return nil
	}
	return fmt.Errorf("empty atom")
}

type Value struct {
	K byte // 'a' atom, 'o' optional, 'S' set, 'M' map
	A Atom
	O *Atom
	S []Atom
	M [][2]Atom
}

func VA(a Atom) *Value       { return &Value{K: 'a', A: a} }
func VO(a *Atom) *Value      { return &Value{K: 'o', O: a} }
func VS(s ...Atom) *Value    { return &Value{K: 'S', S: s} }
func VM(m ...[2]Atom) *Value { return &Value{K: 'M', M: m} }

func (v Value) MarshalJSON() ([]byte, error) {
	switch v.K {
	case 'a':
		b, err := json.Marshal(v.A)
		return []byte(`{"a":` + string(b) + `}`), err
	case 'o':
		if v.O == nil {
			return []byte(`{"o":null}`), nil
		}
		b, err := json.Marshal(*v.O)
		return []byte(`{"o":` + string(b) + `}`), err
	case 'S':
		s := v.S
		if s == nil {
			s = []Atom{}
		}
		b, err := json.Marshal(s)
		return []byte(`{"S":` + string(b) + `}`), err
	case 'M':
		m := v.M
		if m == nil {
			m = [][2]Atom{}
		}
		b, err := json.Marshal(m)
		return []byte(`{"M":` + string(b) + `}`), err
	}
	return nil, fmt.Errorf("bad value kind %q", v.K)
}

func (v *Value) UnmarshalJSON(b []byte) error {
	var m map[string]json.RawMessage
	if err := json.Unmarshal(b, &m); err != nil {
		return err
	}
	for k, raw := range m {
		switch k {
		case "a":
			v.K = 'a'
			return json.Unmarshal(raw, &v.A)
		case "o":
			v.K = 'o'
			if string(raw) == "null" {
				v.O = nil
				return nil
			}
			v.O = new(Atom)
			return json.Unmarshal(raw, v.O)
		case "S":
			v.K = 'S'
			return json.Unmarshal(raw, &v.S)
		case "M":
			v.K = 'M'
			return json.Unmarshal(raw, &v.M)
		}
	}
	return fmt.Errorf("bad value %s", b)
}

// Canon returns a canonical string: sets sorted (duplicates kept), maps
// deduplicated (first binding of a key wins, as AMap.get? does) and sorted,
// nil and empty collections identified.  A nil *Value is "nil".
func (v *Value) Canon() string {
	if v == nil {
		return "nil"
	}
	switch v.K {
	case 'a':
		return "a(" + v.A.Key() + ")"
	case 'o':
		if v.O == nil {
			return "o()"
		}
		return "o(" + v.O.Key() + ")"
	case 'S':
		ks := make([]string, len(v.S))
		for i, a := range v.S {
			ks[i] = a.Key()
		}
		sort.Strings(ks)
		return "S[" + strings.Join(ks, ",") + "]"
	case 'M':
		seen := map[string]bool{}
		var ks []string
		for _, p := range v.M {
			k := p[0].Key()
			if seen[k] {
				continue
			}
			seen[k] = true
			ks = append(ks, k+"=>"+p[1].Key())
		}
		sort.Strings(ks)
		return "M[" + strings.Join(ks, ",") + "]"
	}
	return "?"
}

// ColType describes a column type of the supported type space.
type ColType struct {
	Kind string `json:"kind"` // atom | opt | set | map
	Key  string `json:"key"`  // integer real boolean string uuid
	Val  string `json:"val,omitempty"`
	Min  int    `json:"min"`
	Max  int    `json:"max"` // -1 unlimited
}

func atomOfNative(t string, x interface{}) Atom {
	switch t {
	case "integer":
		return AI(int64(x.(int)))
	case "real":
		return AR(x.(float64))
	case "boolean":
		return AB(x.(bool))
	case "string":
		return AS(x.(string))
	case "uuid":
		return AU(x.(string))
	}
	panic("bad atomic type " + t)
}

func nativeOfAtom(a Atom) interface{} {
	switch a.K {
	case 'i':
		return int(a.I)
	case 'r':
		return a.F()
	case 'b':
		return a.B
	case 's', 'u':
		return a.S
	}
	panic("bad atom")
}

// nativeNilEmpty makes toNative render empty collections as nil slices/maps
// (what a struct field holds when the column was never set).
var nativeNilEmpty bool

// toNative converts a model value to the Go value libovsdb uses natively
// for a column of type ct (T, *T, []T, map[K]V). nil *Value -> nil interface.
func toNative(ct ColType, v *Value) interface{} {
	if v == nil {
		return nil
	}
	kt := ovsdb.NativeTypeFromAtomic(ct.Key)
	switch v.K {
	case 'a':
		return nativeOfAtom(v.A)
	case 'o':
		p := reflect.New(kt)
		if v.O == nil {
			return reflect.Zero(reflect.PtrTo(kt)).Interface()
		}
		p.Elem().Set(reflect.ValueOf(nativeOfAtom(*v.O)))
		return p.Interface()
	case 'S':
		if len(v.S) == 0 && nativeNilEmpty {
			return reflect.Zero(reflect.SliceOf(kt)).Interface()
		}
		s := reflect.MakeSlice(reflect.SliceOf(kt), 0, len(v.S))
		for _, a := range v.S {
			s = reflect.Append(s, reflect.ValueOf(nativeOfAtom(a)))
		}
		return s.Interface()
	case 'M':
		vt := ovsdb.NativeTypeFromAtomic(ct.Val)
		if len(v.M) == 0 && nativeNilEmpty {
			return reflect.Zero(reflect.MapOf(kt, vt)).Interface()
		}
		m := reflect.MakeMap(reflect.MapOf(kt, vt))
		for i := len(v.M) - 1; i >= 0; i-- { // first binding wins
			m.SetMapIndex(reflect.ValueOf(nativeOfAtom(v.M[i][0])), reflect.ValueOf(nativeOfAtom(v.M[i][1])))
		}
		return m.Interface()
	}
	panic("bad value")
}

// fromNative converts a native Go value back. nil interface -> nil.
func fromNative(ct ColType, x interface{}) *Value {
	if x == nil {
		return nil
	}
	rv := reflect.ValueOf(x)
	switch rv.Kind() {
	case reflect.Ptr:
		if rv.IsNil() {
			return VO(nil)
		}
		a := atomOfNative(ct.Key, rv.Elem().Interface())
		return VO(&a)
	case reflect.Slice:
		out := []Atom{}
		for i := 0; i < rv.Len(); i++ {
			out = append(out, atomOfNative(ct.Key, rv.Index(i).Interface()))
		}
		return &Value{K: 'S', S: out}
	case reflect.Map:
		out := [][2]Atom{}
		for _, k := range rv.MapKeys() {
			out = append(out, [2]Atom{atomOfNative(ct.Key, k.Interface()), atomOfNative(ct.Val, rv.MapIndex(k).Interface())})
		}
		return &Value{K: 'M', M: out}
	default:
		return VA(atomOfNative(ct.Key, x))
	}
}

func cloneValue(v *Value) *Value {
	if v == nil {
		return nil
	}
	b, _ := json.Marshal(v)
	var out Value
	if err := json.Unmarshal(b, &out); err != nil {
		panic(err)
	}
	return &out
}

type jsonRaw = json.RawMessage

func mustUnmarshal(b []byte, v interface{}) {
	if err := json.Unmarshal(b, v); err != nil {
		panic(fmt.Sprintf("bad model output %s: %v", b, err))
	}
}
