package main

// OVS-notation values (what ovsdb.Row holds): conversion between the Go
// representation (ovsdb.UUID, ovsdb.OvsSet, ovsdb.OvsMap, atoms) and the
// harness Value type restricted to kinds 'a', 'S', 'M'.

import (
	"fmt"
	"math/rand"

	"github.com/ovn-org/libovsdb/ovsdb"
)

func atomOfOvs(x interface{}) Atom {
	switch t := x.(type) {
	case ovsdb.UUID:
		return AU(t.GoUUID)
	case int:
		return AI(int64(t))
	case float64:
		return AR(t)
	case bool:
		return AB(t)
	case string:
		return AS(t)
	}
	panic(fmt.Sprintf("unexpected ovs atom %T %v", x, x))
}

func ovsOfAtom(a Atom) interface{} {
	if a.K == 'u' {
		return ovsdb.UUID{GoUUID: a.S}
	}
	return nativeOfAtom(a)
}

func fromOvs(x interface{}) *Value {
	switch t := x.(type) {
	case nil:
		return nil
	case ovsdb.OvsSet:
		out := []Atom{}
		for _, e := range t.GoSet {
			out = append(out, atomOfOvs(e))
		}
		return &Value{K: 'S', S: out}
	case ovsdb.OvsMap:
		out := [][2]Atom{}
		for k, v := range t.GoMap {
			out = append(out, [2]Atom{atomOfOvs(k), atomOfOvs(v)})
		}
		return &Value{K: 'M', M: out}
	default:
		return VA(atomOfOvs(x))
	}
}

func toOvs(v *Value) interface{} {
	switch v.K {
	case 'a':
		return ovsOfAtom(v.A)
	case 'S':
		s := make([]interface{}, 0, len(v.S))
		for _, a := range v.S {
			s = append(s, ovsOfAtom(a))
		}
		return ovsdb.OvsSet{GoSet: s}
	case 'M':
		m := map[interface{}]interface{}{}
		for i := len(v.M) - 1; i >= 0; i-- {
			m[ovsOfAtom(v.M[i][0])] = ovsOfAtom(v.M[i][1])
		}
		return ovsdb.OvsMap{GoMap: m}
	}
	panic("bad ovs value kind")
}

func rowFromOvs(r *ovsdb.Row) Row {
	if r == nil {
		return nil
	}
	out := Row{}
	for k, v := range *r {
		out[k] = fromOvs(v)
	}
	return out
}

func rowToOvs(r Row) ovsdb.Row {
	out := ovsdb.Row{}
	for k, v := range r {
		out[k] = toOvs(v)
	}
	return out
}

// nativeToOvsValue converts a native model value to OVS notation (harness side,
// independent of the library): optional -> set of 0/1.
func nativeToOvsValue(v *Value) *Value {
	switch v.K {
	case 'o':
		if v.O == nil {
			return &Value{K: 'S', S: []Atom{}}
		}
		return &Value{K: 'S', S: []Atom{*v.O}}
	default:
		return cloneValue(v)
	}
}

type MutationJ struct {
	Col     string `json:"col"`
	Mutator string `json:"mutator"`
	Val     *Value `json:"val"`
}

type RowOperationJ struct {
	Op        string      `json:"op"`
	Row       Row         `json:"row"`
	Mutations []MutationJ `json:"mutations"`
}

func (o RowOperationJ) toOvs(table string) *ovsdb.Operation {
	op := &ovsdb.Operation{Op: o.Op, Table: table}
	switch o.Op {
	case "insert", "update":
		op.Row = rowToOvs(o.Row)
	case "mutate":
		for _, m := range o.Mutations {
			op.Mutations = append(op.Mutations, *ovsdb.NewMutation(m.Col, ovsdb.Mutator(m.Mutator), toOvs(m.Val)))
		}
	}
	return op
}

// genTableSpec: a table with one or two columns of every native kind.
func genTableSpec(rng *rand.Rand, name string, ncols int) TableSpec {
	t := TableSpec{Name: name, IsRoot: true}
	for i := 0; i < ncols; i++ {
		ct := genColType(rng)
		c := ColSpec{Name: fmt.Sprintf("c%d", i), Type: ct}
		if rng.Intn(8) == 0 {
			c.Immutable = true
		}
		t.Cols = append(t.Cols, c)
	}
	return t
}

func genMutation(rng *rand.Rand, c ColSpec, cur *Value) MutationJ {
	ct := c.Type
	arith := []string{"+=", "-=", "*=", "/=", "%="}
	numeric := ct.Key == "integer" || ct.Key == "real"
	pickArith := func() string {
		m := arith[rng.Intn(len(arith))]
		if ct.Key == "real" && m == "%=" {
			m = "+="
		}
		return m
	}
	operand := func() Atom {
		if ct.Key == "integer" {
			return AI([]int64{1, 2, -1, 3, 0}[rng.Intn(5)])
		}
		return AR([]float64{1, 2, -1, 0.5, 4}[rng.Intn(5)])
	}
	switch ct.Kind {
	case "atom":
		if numeric {
			return MutationJ{Col: c.Name, Mutator: pickArith(), Val: VA(operand())}
		}
		return MutationJ{Col: c.Name, Mutator: "insert", Val: VA(genAtom(rng, ct.Key))} // invalid: rejected
	case "opt":
		return MutationJ{Col: c.Name, Mutator: "+=", Val: VA(genAtom(rng, ct.Key))} // invalid: rejected
	case "set":
		if numeric && rng.Intn(3) == 0 {
			return MutationJ{Col: c.Name, Mutator: pickArith(), Val: VA(operand())}
		}
		mut := []string{"insert", "delete"}[rng.Intn(2)]
		var val *Value
		if rng.Intn(3) == 0 {
			val = VA(genAtom(rng, ct.Key))
		} else {
			val = genValue(rng, ct)
			if cur != nil && len(cur.S) > 0 && rng.Intn(2) == 0 {
				val.S = append(val.S[:0:0], cur.S[rng.Intn(len(cur.S))])
			}
		}
		return MutationJ{Col: c.Name, Mutator: mut, Val: val}
	default: // map
		switch rng.Intn(3) {
		case 0:
			return MutationJ{Col: c.Name, Mutator: "insert", Val: genValue(rng, ct)}
		case 1:
			val := genValue(rng, ct)
			if cur != nil && len(cur.M) > 0 && rng.Intn(2) == 0 {
				val.M = append(val.M, cur.M[rng.Intn(len(cur.M))])
			}
			return MutationJ{Col: c.Name, Mutator: "delete", Val: val}
		default:
			ks := genValue(rng, ColType{Kind: "set", Key: ct.Key})
			if cur != nil && len(cur.M) > 0 && rng.Intn(2) == 0 {
				ks.S = append(ks.S, cur.M[rng.Intn(len(cur.M))][0])
			}
			return MutationJ{Col: c.Name, Mutator: "delete", Val: ks}
		}
	}
}
