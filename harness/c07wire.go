package main

// C07 on the wire: the notifications a real server sends to a peer that speaks JSON-RPC itself (no client
// library between the socket and the check). The peer holds two monitors (any of monitor, monitor_cond,
// monitor_cond_since; several tables each, column subsets, deselected kinds of change), another client commits
// a history of transactions. What arrives for each monitor and each committed transaction is decoded by a
// decoder of its own (directed by the schema's column types) and must be: at most one notification, carrying
// exactly the rows the server's filter computes for that monitor from the same transaction run on the engine
// alone (judged against the before/after equation by the main stream), and in particular not nothing when
// there is something to report.

import (
	"encoding/json"
	"fmt"
	"net"
	"os"
	"sort"
	"strconv"
	"strings"
	"sync"
	"time"

	"github.com/ovn-org/libovsdb/database"
	"github.com/ovn-org/libovsdb/ovsdb"
)

var dbgWire = os.Getenv("VERIF_DEBUG") != ""

type rawNotif struct {
	Method string
	Params []json.RawMessage
}

type rawPeer struct {
	conn    net.Conn
	mu      sync.Mutex
	wmu     sync.Mutex
	notifs  []rawNotif
	replies map[string]chan map[string]json.RawMessage
	next    int
	dead    chan struct{}
}

func dialRaw(sock string) (*rawPeer, error) {
	c, err := net.Dial("unix", sock)
	if err != nil {
		return nil, err
	}
	p := &rawPeer{conn: c, replies: map[string]chan map[string]json.RawMessage{}, dead: make(chan struct{})}
	go p.read()
	return p, nil
}

func (p *rawPeer) write(v interface{}) {
	text, _ := json.Marshal(v)
	p.wmu.Lock()
	_, _ = p.conn.Write(text)
	p.wmu.Unlock()
}

func (p *rawPeer) read() {
	defer close(p.dead)
	dec := json.NewDecoder(p.conn)
	dec.UseNumber()
	for {
		var msg map[string]json.RawMessage
		if err := dec.Decode(&msg); err != nil {
			if dbgWire {
				fmt.Fprintln(realStderr, "peer read error", err)
			}
			return
		}
		if dbgWire {
			x, _ := json.Marshal(msg)
			fmt.Fprintln(realStderr, "peer <-", string(x))
		}
		if m, ok := msg["method"]; ok && string(m) != "null" {
			var method string
			_ = json.Unmarshal(m, &method)
			var params []json.RawMessage
			_ = json.Unmarshal(msg["params"], &params)
			if method != "echo" {
				p.mu.Lock()
				p.notifs = append(p.notifs, rawNotif{method, params})
				p.mu.Unlock()
			}
			if id, ok := msg["id"]; ok && string(id) != "null" {
				// the server waits for an answer to its notifications
				var result interface{} = []interface{}{} // (a null result is read as a failure by the other side)
				if method == "echo" {
					result = params
				}
				p.write(map[string]interface{}{"id": id, "result": result, "error": nil})
			}
			continue
		}
		p.mu.Lock()
		ch := p.replies[string(msg["id"])]
		p.mu.Unlock()
		if ch != nil {
			ch <- msg
		}
	}
}

func (p *rawPeer) call(method string, params ...interface{}) (json.RawMessage, string) {
	p.mu.Lock()
	p.next++
	id := p.next
	ch := make(chan map[string]json.RawMessage, 1)
	p.replies[strconv.Itoa(id)] = ch
	p.mu.Unlock()
	p.write(map[string]interface{}{"method": method, "params": params, "id": id})
	select {
	case msg := <-ch:
		if e, ok := msg["error"]; ok && string(e) != "null" {
			return nil, string(e)
		}
		return msg["result"], ""
	case <-p.dead:
		return nil, "connection closed"
	case <-time.After(10 * time.Second):
		return nil, "no reply within 10s"
	}
}

func (p *rawPeer) take() []rawNotif {
	p.mu.Lock()
	defer p.mu.Unlock()
	out := p.notifs
	p.notifs = nil
	return out
}

// wireAtom / wireValue: RFC 7047 section 5.1 notation read off the wire, directed by the column's type
func wireAtom(kind string, raw interface{}) (Atom, bool) {
	switch kind {
	case "integer":
		if n, ok := raw.(json.Number); ok {
			if i, err := strconv.ParseInt(string(n), 10, 64); err == nil {
				return AI(i), true
			}
		}
	case "real":
		if n, ok := raw.(json.Number); ok {
			if f, err := strconv.ParseFloat(string(n), 64); err == nil {
				return AR(f), true
			}
		}
	case "boolean":
		if b, ok := raw.(bool); ok {
			return AB(b), true
		}
	case "string":
		if s, ok := raw.(string); ok {
			return AS(s), true
		}
	case "uuid":
		// (the library writes a uuid position that holds no well-formed uuid, such as the empty default of a
		// uuid column, as a named-uuid: the same atom as far as the difference made by a transaction goes)
		if l, ok := raw.([]interface{}); ok && len(l) == 2 && (l[0] == "uuid" || l[0] == "named-uuid") {
			if s, ok := l[1].(string); ok {
				return AU(s), true
			}
		}
	}
	return Atom{}, false
}

func wireValueOf(ct ColType, raw interface{}) (*Value, bool) {
	if l, ok := raw.([]interface{}); ok && len(l) == 2 {
		if l[0] == "set" && ct.Kind != "map" {
			els, ok := l[1].([]interface{})
			if !ok {
				return nil, false
			}
			out := &Value{K: 'S', S: []Atom{}}
			for _, e := range els {
				a, ok := wireAtom(ct.Key, e)
				if !ok {
					return nil, false
				}
				out.S = append(out.S, a)
			}
			return out, true
		}
		if l[0] == "map" && ct.Kind == "map" {
			prs, ok := l[1].([]interface{})
			if !ok {
				return nil, false
			}
			out := &Value{K: 'M', M: [][2]Atom{}}
			for _, e := range prs {
				kv, ok := e.([]interface{})
				if !ok || len(kv) != 2 {
					return nil, false
				}
				k, ok1 := wireAtom(ct.Key, kv[0])
				v, ok2 := wireAtom(ct.Val, kv[1])
				if !ok1 || !ok2 {
					return nil, false
				}
				out.M = append(out.M, [2]Atom{k, v})
			}
			return out, true
		}
	}
	if ct.Kind == "map" {
		return nil, false
	}
	a, ok := wireAtom(ct.Key, raw)
	if !ok {
		return nil, false
	}
	if ct.Kind == "atom" {
		return VA(a), true
	}
	return VS(a), true // a set of one element is written as the element
}

func wireRow(t *TableSpec, raw interface{}) (Row, string) {
	if raw == nil {
		return nil, ""
	}
	obj, ok := raw.(map[string]interface{})
	if !ok {
		return nil, "a row that is not an object"
	}
	out := Row{}
	for c, v := range obj {
		if c == "_uuid" {
			a, ok := wireAtom("uuid", v)
			if !ok {
				return nil, "_uuid is not a uuid"
			}
			out[c] = VA(a)
			continue
		}
		cs := t.Col(c)
		if cs == nil {
			return nil, "unknown column " + c
		}
		val, ok := wireValueOf(cs.Type, v)
		if !ok {
			return nil, fmt.Sprintf("column %s: %v is not a value of its type", c, v)
		}
		out[c] = val
	}
	return out, ""
}

// normRow: single elements and sets of one are the same value
func normRow(t *TableSpec, r Row) Row {
	if r == nil {
		return nil
	}
	out := Row{}
	for c, v := range r {
		cs := t.Col(c)
		if cs == nil || v == nil {
			out[c] = v
			continue
		}
		if cs.Type.Kind != "atom" && cs.Type.Kind != "map" && v.K == 'a' {
			v = VS(v.A)
		}
		out[c] = v
	}
	return out
}

func c07Wire(r *Run, nHist int) {
	rng := r.Rng
	methods := []string{"monitor", "monitor_cond", "monitor_cond_since"}
	for h := 0; h < nHist; h++ {
		ts := genTxnSchema(rng, true)
		rig, err := newRig(ts)
		if err != nil {
			return
		}
		func() {
			defer rig.Close()
			ctx, cancel := ctxT(30 * time.Second)
			defer cancel()
			writer, _, err := rig.newClient(rig.endpoint())
			if err != nil || writer.Connect(ctx) != nil {
				return
			}
			defer writer.Close()
			peer, err := dialRaw(rig.sock)
			if err != nil {
				return
			}
			defer peer.conn.Close()
			ref := newImplDB(ts)
			sh := newShadow()
			var txns []TxnJ
			var pre, post []DumpRow
			commit := func() (database.Update, bool) {
				txn := genTxn(rng, ts, sh, 1+rng.Intn(4))
				clampWaits(&txn)
				txns = append(txns, txn)
				pre = rig.im.dump()
				res, err := writer.Transact(ctx, toOvsOps(txn.Ops)...)
				post = rig.im.dump()
				sh.load(post)
				if err != nil {
					return nil, false
				}
				for _, x := range res {
					if x.Error != "" {
						return nil, false
					}
				}
				var upd database.Update
				out := ref.transact(txn.Ops, func(u database.Update, ok bool) {
					if ok {
						upd = u
					}
				})
				return upd, upd != nil && out.Panic == ""
			}
			for i := rng.Intn(3); i > 0; i-- {
				commit()
			}
			// monitors with several tables: what is left out for one table must not take the others with it
			mons := []MonitorJ{genMonitor(r, ts, false), genMonitor(r, ts, h%4 == 0)}
			meth := []string{methods[rng.Intn(3)], methods[rng.Intn(3)]}
			cs := map[string]interface{}{"model": ts.modelJSON(), "monitors": mons, "methods": meth}
			for i, m := range mons {
				params := []interface{}{ts.Spec.Name, fmt.Sprintf("m%d", i), m.toOvs()}
				if meth[i] == "monitor_cond_since" {
					params = append(params, "00000000-0000-0000-0000-000000000000")
				}
				if _, e := peer.call(meth[i], params...); e != "" {
					r.Violation("wire", cs, e, "a reply", false, "the monitor request of the raw peer was refused", "")
					return
				}
			}
			peer.take()
			nT := 3 + rng.Intn(6)
			for ti := 0; ti < nT; ti++ {
				upd, ok := commit()
				cs["txns"] = txns
				got := peer.take()
				key := ""
				if !ok {
					if len(got) > 0 {
						r.Case("wire", "")
						r.Violation("wire", cs, fmt.Sprint(len(got), " notifications"), "none", true, "a transaction that failed was notified", "")
						return
					}
					if dumpCanon(rig.im.dump()) != dumpCanon(ref.dump()) {
						return // the engine alone went another way (judged elsewhere): nothing to compare with
					}
					r.Case("wire", "")
					continue
				}
				for mi, m := range mons {
					n1, n2, pan := implNotifs(m, upd)
					if pan != "" {
						return
					}
					want := ""
					if meth[mi] == "monitor" {
						for i := range n1 {
							t := ts.Spec.Table(n1[i].Table)
							n1[i].Old, n1[i].New = normRow(t, n1[i].Old), normRow(t, n1[i].New)
						}
						want = notif1Canon(n1)
					} else {
						for i := range n2 {
							t := ts.Spec.Table(n2[i].Table)
							n2[i].Insert, n2[i].Modify = normRow(t, n2[i].Insert), normRow(t, n2[i].Modify)
						}
						want = notif2Canon(n2)
					}
					var mine []rawNotif
					for _, n := range got {
						if len(n.Params) > 0 && string(n.Params[0]) == fmt.Sprintf("%q", fmt.Sprintf("m%d", mi)) {
							mine = append(mine, n)
						}
					}
					if want != "" {
						key = fmt.Sprintf("%d|%d", h, ti)
					}
					if len(mine) > 1 {
						r.Case("wire", key)
						r.Violation("wire", map[string]interface{}{"case": cs, "monitor": mi}, fmt.Sprint(len(mine), " notifications"), "one", true,
							"more than one notification for one committed transaction", "")
						return
					}
					have, why := "", ""
					var w1 []Notif1Row
					var w2 []Notif2Row
					if len(mine) == 1 {
						have, why, w1, w2 = c07DecodeNotif(ts, meth[mi], mine[0])
					}
					if why != "" || have != want {
						r.Case("wire", key)
						r.Violation("wire", map[string]interface{}{"case": cs, "monitor": mi, "txn": ti, "received": c07Received(got)}, why+have, want, true,
							"what the server sent to a monitor for a committed transaction is not what its filter computes for that monitor (rows missing, or no notification at all)", "")
						return
					}
					// and, whatever the filter computes: what arrived, applied to the monitored part of the database
					// before the transaction, gives the monitored part after it
					allKinds := true
					for _, q := range m.Requests {
						if !(q.Insert && q.Delete && q.Modify) {
							allKinds = false
						}
					}
					if allKinds {
						pp, pq := project(ts, m, pre), project(ts, m, post)
						var after map[string]Row
						var awhy string
						if meth[mi] == "monitor" {
							after, awhy = applyNotif1(ts, m, pp, w1)
						} else {
							after, awhy = applyNotif2(ts, m, pp, w2)
						}
						if awhy != "" || projCanon(after) != projCanon(pq) {
							r.Case("wire", key)
							r.Violation("wire", map[string]interface{}{"case": cs, "monitor": mi, "txn": ti, "received": c07Received(got)}, awhy+projCanon(after), projCanon(pq), true,
								"the notification received on the wire, applied to the monitored part before the transaction, does not give the monitored part after it", "")
							return
						}
					}
				}
				r.Case("wire", key)
				r.Count("wire:" + strings.Join(meth, "+"))
			}
		}()
	}
}

// c07DecodeNotif: the rows of one notification, canonically (as notif1Canon / notif2Canon print them)
func c07DecodeNotif(ts TxnSchema, method string, n rawNotif) (string, string, []Notif1Row, []Notif2Row) {
	wantMethod := map[string]string{"monitor": "update", "monitor_cond": "update2", "monitor_cond_since": "update3"}[method]
	if method == "monitor_cond_since" && n.Method == "update2" {
		// (the in-tree server notifies monitor_cond_since monitors with update2; the property speaks of the two
		// encodings, not of the method name, and the client library takes either)
		wantMethod = "update2"
	}
	if n.Method != wantMethod {
		return "", fmt.Sprintf("notification method %s for a monitor set up with %s; ", n.Method, method), nil, nil
	}
	body := n.Params[len(n.Params)-1]
	if (wantMethod == "update3" && len(n.Params) != 3) || (wantMethod != "update3" && len(n.Params) != 2) {
		return "", fmt.Sprintf("%s with %d parameters; ", n.Method, len(n.Params)), nil, nil
	}
	dec := json.NewDecoder(strings.NewReader(string(body)))
	dec.UseNumber()
	var tables map[string]map[string]map[string]interface{}
	if err := dec.Decode(&tables); err != nil {
		return "", "table updates that cannot be read: " + err.Error() + "; ", nil, nil
	}
	var n1 []Notif1Row
	var n2 []Notif2Row
	for tn, rows := range tables {
		t := ts.Spec.Table(tn)
		if t == nil {
			return "", "unknown table " + tn + "; ", nil, nil
		}
		for u, ru := range rows {
			if wantMethod == "update" {
				o, w1 := wireRow(t, ru["old"])
				nw, w2 := wireRow(t, ru["new"])
				if w1+w2 != "" {
					return "", w1 + w2 + "; ", nil, nil
				}
				for k := range ru {
					if k != "old" && k != "new" {
						return "", "row update with member " + k + "; ", nil, nil
					}
				}
				n1 = append(n1, Notif1Row{Table: tn, UUID: u, Old: o, New: nw})
				continue
			}
			x := Notif2Row{Table: tn, UUID: u}
			var w string
			for k, v := range ru {
				switch k {
				case "insert":
					x.Insert, w = wireRow(t, v)
				case "modify":
					x.Modify, w = wireRow(t, v)
				case "delete":
					x.Delete = true
				case "initial":
					w = "initial in a notification"
				default:
					w = "row update with member " + k
				}
				if w != "" {
					return "", w + "; ", nil, nil
				}
			}
			n2 = append(n2, x)
		}
	}
	if wantMethod == "update" {
		return notif1Canon(n1), "", n1, n2
	}
	return notif2Canon(n2), "", n1, n2
}

var _ = sort.Strings
var _ = ovsdb.UUIDColumn

func c07Received(ns []rawNotif) []string {
	out := []string{}
	for _, n := range ns {
		x := n.Method
		for _, p := range n.Params {
			x += " " + string(p)
		}
		out = append(out, x)
	}
	return out
}
