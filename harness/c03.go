package main

// C03: operation results and effects follow RFC 7047 (independent reference
// interpreter in Lean: Spec/Rfc.lean), and correspond to the model of the code.

import (
	"fmt"
	"sort"
	"strings"
)

func init() { props["C03"] = runC03 }

type rfcOut struct {
	Skipped  bool `json:"skipped"`
	Rejected bool `json:"rejected"`
	Results  []struct {
		Count int    `json:"count"`
		UUID  string `json:"uuid"`
		Rows  []struct {
			UUID string `json:"uuid"`
			Row  Row    `json:"row"`
		} `json:"rows"`
	} `json:"results"`
	Rows []DumpRow `json:"rows"`
}

// fullRowOfOvs: an OVS result row (defaults omitted) as a full native row
func fullRowOfOvs(t TableSpec, r Row) (string, Row) {
	out := Row{}
	for _, c := range t.Cols {
		if v, ok := r[c.Name]; ok {
			nv := ovsToNativeValue(c.Type, v)
			if nv == nil {
				nv = v
			}
			out[c.Name] = nv
		} else {
			out[c.Name] = zeroValue(c.Type)
		}
	}
	u := ""
	if v, ok := r["_uuid"]; ok && v.K == 'a' {
		u = v.A.S
	}
	return u, out
}

func runC03(r *Run) {
	r.Rule = "histories of transactions (insert/select/update/mutate/delete/wait; every column kind; every mutator and condition function the types admit; read-your-writes chains inside one transaction) executed by the real Transaction engine and by the Lean RFC 7047 reference interpreter; non-trivial = accepted transaction with >= 2 operations of which a later one selects rows an earlier one changed or inserted; distinct by (schema, history prefix, transaction)"
	nHist := 250
	if r.Tier == "thorough" {
		nHist = 3000
	}
	// canonical witnesses of the known findings run first
	for _, w := range c03Witnesses() {
		i := 0
		c03History(r, -1, w.ts, func(sh *shadow) *TxnJ {
			if i >= len(w.txns) {
				return nil
			}
			i++
			return &w.txns[i-1]
		})
	}
	for h := 0; h < nHist; h++ {
		ts := genTxnSchema(r.Rng, h%3 == 0)
		nT := 4 + r.Rng.Intn(6)
		ti := 0
		c03History(r, h, ts, func(sh *shadow) *TxnJ {
			if ti >= nT {
				return nil
			}
			ti++
			txn := genTxn(r.Rng, ts, sh, 1+r.Rng.Intn(5))
			// read-your-writes bias: follow an insert/update with a select/mutate by name on the same table
			if len(txn.Ops) >= 1 && r.Rng.Intn(2) == 0 {
				o := txn.Ops[r.Rng.Intn(len(txn.Ops))]
				if o.Op == "insert" || o.Op == "update" {
					if nm, ok := o.Row["name"]; ok {
						txn.Ops = append(txn.Ops, OperationJ{Op: []string{"select", "delete", "update"}[r.Rng.Intn(3)], Table: o.Table,
							Row: Row{"n": VA(AI(int64(r.Rng.Intn(4))))}, Where: []WCondJ{{Col: "name", Fn: "==", Val: nm}}})
					}
				}
			}
			if r.Rng.Intn(6) == 0 { // select with a column list: a random subset of the columns, sometimes with _uuid
				t := ts.Spec.Tables[r.Rng.Intn(len(ts.Spec.Tables))]
				var cols []string
				for _, c := range t.Cols {
					if r.Rng.Intn(3) == 0 {
						cols = append(cols, c.Name)
					}
				}
				if r.Rng.Intn(3) == 0 {
					cols = append(cols, "_uuid")
				}
				if len(cols) == 0 {
					cols = []string{"name"}
				}
				r.Rng.Shuffle(len(cols), func(i, j int) { cols[i], cols[j] = cols[j], cols[i] })
				op := OperationJ{Op: "select", Table: t.Name, Columns: cols}
				pos := r.Rng.Intn(len(txn.Ops) + 1)
				txn.Ops = append(txn.Ops[:pos], append([]OperationJ{op}, txn.Ops[pos:]...)...)
				r.Count("select-with-columns")
			}
			return &txn
		})
	}
}

type c03Witness struct {
	ts   TxnSchema
	txns []TxnJ
}

// c03Witnesses: minimal histories for the repaired D15 and D16.
func c03Witnesses() []c03Witness {
	t := TableSpec{Name: "T0", IsRoot: true, Cols: []ColSpec{
		{Name: "name", Type: ColType{Kind: "atom", Key: "string", Min: 1, Max: 1}},
		{Name: "n", Type: ColType{Kind: "atom", Key: "integer", Min: 1, Max: 1}}}}
	ts := TxnSchema{Spec: SchemaSpec{Name: "db", Tables: []TableSpec{t}}, Specs: map[string][]ISpec{"T0": {}}}
	zero := 0
	ins := func(n int, name string) OperationJ {
		return OperationJ{Op: "insert", Table: "T0", UUID: mkUUID(n), Row: Row{"name": VA(AS(name)), "n": VA(AI(int64(n)))}}
	}
	return []c03Witness{
		// D15: select with columns returned every column
		{ts, []TxnJ{{Ops: []OperationJ{ins(1, "a"), {Op: "select", Table: "T0", Columns: []string{"name"}}}}}},
		// D16: rows {x, a} selected, wait until == [{name: a}] succeeds although the row sets differ
		{ts, []TxnJ{{Ops: []OperationJ{ins(1, "x"), ins(2, "a"),
			{Op: "wait", Table: "T0", Columns: []string{"name"}, Until: "==", Rows: []Row{{"name": VA(AS("a"))}}, Timeout: &zero}}}}},
	}
}

// c03History runs one history (transactions supplied by next) on the implementation,
// the RFC reference interpreter and the model of the code.
func c03History(r *Run, h int, ts TxnSchema, next func(sh *shadow) *TxnJ) {
	{
		im := newImplDB(ts)
		sh := newShadow()
		var txns []TxnJ
		var outs []TxnOutcome
		var dumps [][]DumpRow
		var accepted []bool
		bad := false
		for ti := 0; !bad; ti++ {
			tp := next(sh)
			if tp == nil {
				break
			}
			txn := *tp
			out := im.transact(txn.Ops, nil)
			txns = append(txns, txn)
			outs = append(outs, out)
			d := im.dump()
			dumps = append(dumps, d)
			sh.load(d)
			accepted = append(accepted, out.Committed && out.CommitErr == "")
			if out.Panic != "" {
				r.Case("txn", "")
				r.Violation("txn", map[string]interface{}{"model": ts.modelJSON(), "txns": txns}, "panic: "+out.Panic, "", true, "Transact panicked", "")
				bad = true
			}
		}
		if bad {
			return
		}
		cs := map[string]interface{}{"model": ts.modelJSON(), "txns": txns}
		var spec []rfcOut
		if err := r.Mdl.Call(map[string]interface{}{"fn": "rfcHistory", "model": ts.modelJSON(), "txns": txns, "accepted": accepted}, &spec); err != nil {
			r.Violation("rfc", cs, "", err.Error(), false, "model driver failed", "")
			return
		}
		stop := false
		for ti := range txns {
			csT := map[string]interface{}{"model": ts.modelJSON(), "txns": txns[:ti+1]}
			// non-triviality: read-your-writes
			key := ""
			touched := map[string]bool{}
			for _, o := range txns[ti].Ops {
				if (o.Op == "select" || o.Op == "update" || o.Op == "mutate" || o.Op == "delete" || o.Op == "wait") && touched[o.Table] && accepted[ti] {
					key = fmt.Sprintf("%d|%d", h, ti)
				}
				if o.Op == "insert" || o.Op == "update" || o.Op == "mutate" || o.Op == "delete" {
					touched[o.Table] = true
				}
			}
			r.Case("txn", key)
			for _, o := range txns[ti].Ops {
				r.Count("op:" + o.Op)
				for _, m := range o.Mutations {
					r.Count("mutator:" + m.Mutator)
				}
			}
			if !accepted[ti] {
				r.Count("rejected")
				// the outcome of a zero-timeout wait: "timed out" is an answer the reference has to agree
				// with (the reference, told to run the transaction, must reject it too)
				res := outs[ti].Results
				if len(res) > 0 && res[len(res)-1].Error != nil && *res[len(res)-1].Error == "timed out" && outs[ti].Panic == "" {
					acc := append([]bool{}, accepted...)
					acc[ti] = true
					var spec2 []rfcOut
					if err := r.Mdl.Call(map[string]interface{}{"fn": "rfcHistory", "model": ts.modelJSON(), "txns": txns[:ti+1], "accepted": acc[:ti+1]}, &spec2); err == nil && len(spec2) == ti+1 {
						r.Count("wait:timed-out")
						if !spec2[ti].Rejected && !spec2[ti].Skipped && len(res) <= len(txns[ti].Ops) && txns[ti].Ops[len(res)-1].Op == "wait" {
							r.Violation("rfc", csT, "timed out", "the wait is satisfied", true,
								fmt.Sprintf("transaction %d: a zero-timeout wait timed out although its condition holds under RFC 7047 semantics", ti), "")
							stop = true
							break
						}
					}
				}
				continue
			}
			sp := spec[ti]
			known := ""
			if sp.Rejected {
				r.Violation("rfc", csT, "accepted", "rejected by the reference interpreter", true, fmt.Sprintf("transaction %d: the database accepted a transaction the RFC reference rejects", ti), known)
				if known == "" {
					stop = true
				}
				break
			}
			// results
			var ir, sr []string
			for oi, res := range outs[ti].Results {
				t := ts.Spec.Table(txns[ti].Ops[oi].Table)
				var rows []string
				named := txns[ti].Ops[oi].Columns
				for _, row := range res.Rows {
					u, fr := fullRowOfOvs(*t, row)
					if txns[ti].Ops[oi].Op == "select" && len(named) > 0 {
						// only the named columns may be present; a named column that is absent holds its default
						isNamed := map[string]bool{}
						for _, c := range named {
							isNamed[c] = true
						}
						for c := range fr {
							if !isNamed[c] {
								delete(fr, c)
							}
						}
						for c := range row {
							if !isNamed[c] {
								fr["unnamed:"+c] = row[c]
							}
						}
					}
					rows = append(rows, u+fr.Canon())
				}
				sort.Strings(rows)
				u := res.UUID
				ir = append(ir, fmt.Sprintf("count=%d uuid=%s rows=%s", res.Count, u, strings.Join(rows, "|")))
			}
			for _, res := range sp.Results {
				var rows []string
				for _, row := range res.Rows {
					rows = append(rows, row.UUID+row.Row.Canon())
				}
				sort.Strings(rows)
				sr = append(sr, fmt.Sprintf("count=%d uuid=%s rows=%s", res.Count, res.UUID, strings.Join(rows, "|")))
			}
			if a, b := strings.Join(ir, " ; "), strings.Join(sr, " ; "); a != b {
				r.Violation("rfc", csT, a, b, true, fmt.Sprintf("transaction %d: operation results differ from RFC 7047 semantics", ti), known)
				if known == "" {
					stop = true
					break
				}
			}
			if a, b := dumpCanon(dumps[ti]), dumpCanon(sp.Rows); a != b {
				r.Violation("rfc", csT, a, b, true, fmt.Sprintf("transaction %d: database contents differ from RFC 7047 semantics", ti), known)
				if known == "" {
					stop = true
				}
				break
			}
		}
		if stop {
			return
		}
		// correspondence with the model of the code
		mo, err := modelHistory(r, ts, txns)
		if err != nil {
			r.Violation("history", cs, "", err.Error(), false, "model driver failed", "")
			return
		}
		for ti := range txns {
			var ir, mr []string
			for _, x := range outs[ti].Results {
				ir = append(ir, x.canon())
			}
			for _, x := range mo[ti].Results {
				mr = append(mr, x.canon())
			}
			if strings.Join(ir, " ; ") != strings.Join(mr, " ; ") {
				r.Violation("history", map[string]interface{}{"model": ts.modelJSON(), "txns": txns[:ti+1]}, strings.Join(ir, " ; "), strings.Join(mr, " ; "), false,
					fmt.Sprintf("transaction %d: results of model and implementation differ", ti), "")
				break
			}
			if a, b := dumpCanon(dumps[ti]), dumpCanon(mo[ti].Rows); a != b {
				r.Violation("history", map[string]interface{}{"model": ts.modelJSON(), "txns": txns[:ti+1]}, a, b, false, fmt.Sprintf("transaction %d: database contents differ", ti), "")
				break
			}
		}
	}
}
