package main

// C17: concurrent transactions are serialisable and observed in one order.
// N clients transact concurrently through one real server; monitoring clients
// record the order of the per-transaction markers they are notified of; the
// committed transactions are then replayed one after another in that order on a
// fresh database (and on the Lean model of the engine).

import (
	"fmt"
	"math/rand"
	"reflect"
	"sort"
	"strings"
	"sync"
	"sync/atomic"
	"time"

	"github.com/ovn-org/libovsdb/cache"
	"github.com/ovn-org/libovsdb/client"
	"github.com/ovn-org/libovsdb/model"
	"github.com/ovn-org/libovsdb/ovsdb"
)

func init() { props["C17"] = runC17 }

func c17Schema() TxnSchema {
	str := ColType{Kind: "atom", Key: "string", Min: 1, Max: 1}
	num := ColType{Kind: "atom", Key: "integer", Min: 1, Max: 1}
	spec := SchemaSpec{Name: "db", Tables: []TableSpec{
		{Name: "Ctr", IsRoot: true, Indexes: [][]string{{"name"}}, Cols: []ColSpec{{Name: "name", Type: str}, {Name: "n", Type: num}}},
		{Name: "Log", IsRoot: true, Cols: []ColSpec{{Name: "name", Type: str}, {Name: "n", Type: num}}},
		// two unique indexes: the competition is for a value of the first or of the second one
		{Name: "Uniq", IsRoot: true, Indexes: [][]string{{"name"}, {"alt"}}, Cols: []ColSpec{{Name: "name", Type: str}, {Name: "alt", Type: str}, {Name: "n", Type: num}}},
		// two counters whose (unique) names are exchanged by some transactions and incremented by name by others
		{Name: "Sw", IsRoot: true, Indexes: [][]string{{"name"}}, Cols: []ColSpec{{Name: "name", Type: str}, {Name: "n", Type: num}}},
		// a row of a non-root table with a unique name, replaced (looked at, dropped by its only owner, inserted
		// anew under the same name) in one transaction
		{Name: "Own", IsRoot: true, Indexes: [][]string{{"name"}}, Cols: []ColSpec{{Name: "name", Type: str}, {Name: "n", Type: num},
			{Name: "kids", Type: ColType{Kind: "set", Key: "uuid", Min: 0, Max: -1}, RefTable: "Kid", RefType: "strong"}}},
		{Name: "Kid", IsRoot: false, Indexes: [][]string{{"name"}}, Cols: []ColSpec{{Name: "name", Type: str}, {Name: "n", Type: num}}},
		{Name: "Holder", IsRoot: true, Indexes: [][]string{{"name"}}, Cols: []ColSpec{{Name: "name", Type: str}, {Name: "n", Type: num},
			{Name: "items", Type: ColType{Kind: "set", Key: "uuid", Min: 0, Max: -1}, RefTable: "Item", RefType: "strong"}}},
		{Name: "Item", IsRoot: false, Cols: []ColSpec{{Name: "name", Type: str}, {Name: "n", Type: num}}},
	}}
	ts := TxnSchema{Spec: spec, Specs: map[string][]ISpec{}}
	for _, t := range spec.Tables {
		cfg := idxConfig{schema: t.Indexes}
		cfg.build()
		sp := cfg.specs
		if sp == nil {
			sp = []ISpec{}
		}
		ts.Specs[t.Name] = sp
	}
	return ts
}

type c17Txn struct {
	Marker string       `json:"marker"`
	Kind   string       `json:"kind"`
	Ops    []OperationJ `json:"ops"`
	// outcome at the issuing client
	Accepted bool     `json:"accepted"`
	Results  []string `json:"results"`
	Err      string   `json:"err,omitempty"`
}

func resCanon(res []ovsdb.OperationResult) ([]string, bool) {
	ok := true
	var out []string
	for _, x := range res {
		if x.Error != "" {
			ok = false
			out = append(out, "err:"+classOf(x.Error))
			continue
		}
		out = append(out, fmt.Sprintf("count=%d uuid=%s rows=%d", x.Count, x.UUID.GoUUID, len(x.Rows)))
	}
	return out, ok
}

func runC17(r *Run) {
	r.Rule = "2-5 clients each issuing 4-12 transactions (every other run 6-8 clients with 20-39) concurrently through one real server: blind increments (mutate n += 1), read-modify-write increments guarded by wait, inserts competing for a unique index value, moves of a strongly referenced item between two holders, items shared by both holders, references dropped (alone, or in a transaction that also competes for a unique name and may be rejected after its reference bookkeeping ran), garbage collection of items nobody holds; every transaction also inserts a marker row; 1-2 monitoring clients record the marker order from cache events; 3-6 further clients establish a monitor while the transactions are being committed and must end up mirroring the database; oracle: every monitor saw the same order; the committed transactions replayed sequentially in that order on a fresh database give the same results and the same final contents; counters equal the number of committed increments; exactly one insert per contested name succeeded; non-trivial = run in which at least two clients had transactions accepted; distinct by (seed, run)"
	n := 25
	if r.Tier == "thorough" {
		n = 300
	}
	for h := 0; h < n; h++ {
		c17Run(r, h)
	}
}

func c17Run(r *Run, h int) {
	rng := r.Rng
	ts := c17Schema()
	rig, err := newRig(ts)
	if err != nil {
		r.Violation("rig", nil, err.Error(), "", false, "cannot start the server", "")
		return
	}
	defer rig.Close()
	ctx, cancel := ctxT(60 * time.Second)
	defer cancel()
	// initial state: two counters, two holders, two items held by the first holder
	setup := []OperationJ{
		{Op: "insert", Table: "Ctr", UUID: mkUUID(1), Row: Row{"name": VA(AS("c0")), "n": VA(AI(0))}},
		{Op: "insert", Table: "Ctr", UUID: mkUUID(2), Row: Row{"name": VA(AS("c1")), "n": VA(AI(0))}},
		{Op: "insert", Table: "Sw", UUID: mkUUID(21), Row: Row{"name": VA(AS("s0")), "n": VA(AI(0))}},
		{Op: "insert", Table: "Sw", UUID: mkUUID(22), Row: Row{"name": VA(AS("s1")), "n": VA(AI(0))}},
		{Op: "insert", Table: "Kid", UUID: mkUUID(31), Row: Row{"name": VA(AS("kid0")), "n": VA(AI(0))}},
		{Op: "insert", Table: "Own", UUID: mkUUID(32), Row: Row{"name": VA(AS("o0")), "n": VA(AI(0)), "kids": VS(AU(mkUUID(31)))}},
		{Op: "insert", Table: "Item", UUID: mkUUID(3), Row: Row{"name": VA(AS("i0")), "n": VA(AI(0))}},
		{Op: "insert", Table: "Item", UUID: mkUUID(4), Row: Row{"name": VA(AS("i1")), "n": VA(AI(0))}},
		{Op: "insert", Table: "Holder", UUID: mkUUID(5), Row: Row{"name": VA(AS("h0")), "n": VA(AI(0)), "items": VS(AU(mkUUID(3)), AU(mkUUID(4)))}},
		{Op: "insert", Table: "Holder", UUID: mkUUID(6), Row: Row{"name": VA(AS("h1")), "n": VA(AI(0)), "items": VS()}},
	}
	if out := rig.im.transact(setup, nil); out.Panic != "" || hasErr(out.Results) {
		r.Violation("rig", nil, fmt.Sprint(out), "", false, "cannot set up the initial state", "")
		return
	}
	// monitors record the marker order
	nMon := 1 + rng.Intn(2)
	type monRec struct {
		mu    sync.Mutex
		order []string
	}
	var recs []*monRec
	for i := 0; i < nMon; i++ {
		c, _, err := rig.newClient(rig.endpoint())
		if err != nil || c.Connect(ctx) != nil {
			r.Violation("rig", nil, fmt.Sprint(err), "", false, "monitoring client cannot connect", "")
			return
		}
		defer c.Close()
		rec := &monRec{}
		recs = append(recs, rec)
		cdb := c // capture
		_ = cdb
		c.Cache().AddEventHandler(&cache.EventHandlerFuncs{AddFunc: func(table string, m model.Model) {
			if table != "Log" {
				return
			}
			// the marker is the name column: read it through reflection-free path (model is a run-time struct)
			rec.mu.Lock()
			rec.order = append(rec.order, fmt.Sprint(fieldByTag(m, "name")))
			rec.mu.Unlock()
		}})
		p := monPlan{Method: monitorMethods[rng.Intn(3)], Cols: map[string][]string{}}
		for _, t := range ts.Spec.Tables {
			p.Cols[t.Name] = nil
		}
		if _, err := c.Monitor(ctx, p.monitor()); err != nil {
			r.Violation("serial", nil, err.Error(), "", true, "Monitor failed", "")
			return
		}
	}
	// the concurrent clients
	nCli := 2 + rng.Intn(4)
	heavy := h%2 == 1 // more clients, longer plans: more commits for the late monitors to fall between
	if heavy {
		nCli = 6 + rng.Intn(3)
	}
	names := []string{"u0", "u1", "u2"}
	plans := make([][]string, nCli) // kinds per client
	for ci := range plans {
		n := 4 + rng.Intn(9)
		if heavy {
			n = 20 + rng.Intn(20)
		}
		for k := n; k > 0; k-- {
			plans[ci] = append(plans[ci], []string{"inc", "inc", "rmw", "cas", "cas", "claim", "move", "share", "drop", "dropclaim", "lookclaim", "swap", "swinc", "swinc", "handover", "swcas", "sameuuid"}[rng.Intn(17)])
		}
	}
	seeds := make([]int64, nCli)
	for i := range seeds {
		seeds[i] = rng.Int63()
	}
	results := make([][]c17Txn, nCli)
	var wg sync.WaitGroup
	start := make(chan struct{})
	var fatal sync.Map
	for ci := 0; ci < nCli; ci++ {
		ci := ci
		c, _, err := rig.newClient(rig.endpoint())
		if err != nil || c.Connect(ctx) != nil {
			r.Violation("rig", nil, fmt.Sprint(err), "", false, "client cannot connect", "")
			return
		}
		defer c.Close()
		wg.Add(1)
		go func() {
			defer wg.Done()
			defer func() {
				if p := recover(); p != nil {
					fatal.Store(ci, fmt.Sprint(p))
				}
			}()
			lr := newLocalRand(seeds[ci])
			<-start
			for k, kind := range plans[ci] {
				marker := fmt.Sprintf("m%d-%d-%d", h, ci, k)
				logOp := OperationJ{Op: "insert", Table: "Log", UUID: mkUUID(100000 + ci*1000 + k), Row: Row{"name": VA(AS(marker)), "n": VA(AI(int64(ci)))}}
				var ops []OperationJ
				ctr := []string{"c0", "c1"}[lr.Intn(2)]
				switch kind {
				case "inc":
					ops = []OperationJ{{Op: "mutate", Table: "Ctr", Where: []WCondJ{{Col: "name", Fn: "==", Val: VA(AS(ctr))}},
						Mutations: []MutationJ{{Col: "n", Mutator: "+=", Val: VA(AI(1))}}}, logOp}
				case "rmw":
					// read, then write back read+1 guarded by a wait on the value read
					sel, err := c.Transact(ctx, OperationJ{Op: "select", Table: "Ctr", Where: []WCondJ{{Col: "name", Fn: "==", Val: VA(AS(ctr))}}}.toOvs())
					if err != nil || len(sel) != 1 || len(sel[0].Rows) != 1 {
						continue
					}
					cur := int64(0)
					switch v := sel[0].Rows[0]["n"].(type) {
					case float64:
						cur = int64(v)
					case int:
						cur = int64(v)
					}
					zero := 0
					ops = []OperationJ{
						{Op: "wait", Table: "Ctr", Where: []WCondJ{{Col: "name", Fn: "==", Val: VA(AS(ctr))}}, Columns: []string{"n"}, Until: "==",
							Rows: []Row{{"n": VA(AI(cur))}}, Timeout: &zero},
						{Op: "update", Table: "Ctr", Where: []WCondJ{{Col: "name", Fn: "==", Val: VA(AS(ctr))}}, Row: Row{"n": VA(AI(cur + 1))}},
						logOp}
				case "cas":
					// compare and set: read, then write back read+1 to the row named by its uuid provided it still
					// holds the value read (a guarded update: it reports count 0 when it lost the race)
					sel, err := c.Transact(ctx, OperationJ{Op: "select", Table: "Ctr", Where: []WCondJ{{Col: "name", Fn: "==", Val: VA(AS(ctr))}}}.toOvs())
					if err != nil || len(sel) != 1 || len(sel[0].Rows) != 1 {
						continue
					}
					cur := int64(0)
					switch v := sel[0].Rows[0]["n"].(type) {
					case float64:
						cur = int64(v)
					case int:
						cur = int64(v)
					}
					cu := mkUUID(1)
					if ctr == "c1" {
						cu = mkUUID(2)
					}
					where := []WCondJ{{Col: "_uuid", Fn: "==", Val: VA(AU(cu))}, {Col: "n", Fn: "==", Val: VA(AI(cur))}}
					if lr.Intn(2) == 0 {
						where[0], where[1] = where[1], where[0]
					}
					if lr.Intn(2) == 0 {
						// ... and by its unique name first: the lookup goes through the index and, when the race
						// is lost, the guard on the value keeps nothing of what the index gave
						where = append([]WCondJ{{Col: "name", Fn: "==", Val: VA(AS(ctr))}}, where...)
					}
					ops = []OperationJ{{Op: "update", Table: "Ctr", Where: where, Row: Row{"n": VA(AI(cur + 1))}}, logOp}
				case "claim":
					nm := names[lr.Intn(len(names))]
					row := Row{"name": VA(AS(nm)), "alt": VA(AS(fmt.Sprintf("own-%d-%d", ci, k))), "n": VA(AI(int64(ci)))}
					if lr.Intn(2) == 0 {
						// the contested value is the one of the second index
						row = Row{"name": VA(AS(fmt.Sprintf("own-%d-%d", ci, k))), "alt": VA(AS(nm)), "n": VA(AI(int64(ci)))}
					}
					ops = []OperationJ{{Op: "insert", Table: "Uniq", UUID: mkUUID(200000 + ci*1000 + k), Row: row}, logOp}
				case "sameuuid":
					// the contested key is the row's own uuid, chosen by the clients: one insert under it wins, the
					// others are refused (and nobody hears of them)
					ops = []OperationJ{{Op: "insert", Table: "Uniq", UUID: mkUUID(600000 + lr.Intn(3)),
						Row: Row{"name": VA(AS(fmt.Sprintf("su-%d-%d", ci, k))), "alt": VA(AS(fmt.Sprintf("sua-%d-%d", ci, k))), "n": VA(AI(int64(ci)))}}, logOp}
				case "lookclaim":
					// look first, then claim: the transaction reads the rows that hold the name (they enter
					// its working set unchanged) and inserts a row with that name all the same
					nm := names[lr.Intn(len(names))]
					look := OperationJ{Op: "select", Table: "Uniq", Where: []WCondJ{{Col: "name", Fn: "==", Val: VA(AS(nm))}}}
					if lr.Intn(2) == 0 {
						look.Where = nil
					}
					ops = []OperationJ{look, {Op: "insert", Table: "Uniq", UUID: mkUUID(400000 + ci*1000 + k), Row: Row{"name": VA(AS(nm)), "alt": VA(AS(fmt.Sprintf("look-%d-%d", ci, k))), "n": VA(AI(int64(ci)))}}, logOp}
				case "share", "drop", "dropclaim":
					// an item referenced from both holders; a reference dropped by a transaction that then loses
					// the competition for a unique name (it is rejected after its reference bookkeeping ran);
					// an item whose last reference goes is garbage collected
					item := mkUUID(3 + lr.Intn(2))
					holder := []string{"h0", "h1"}[lr.Intn(2)]
					mut := "delete"
					if kind == "share" {
						mut = "insert"
					}
					ops = []OperationJ{{Op: "mutate", Table: "Holder", Where: []WCondJ{{Col: "name", Fn: "==", Val: VA(AS(holder))}},
						Mutations: []MutationJ{{Col: "items", Mutator: mut, Val: VS(AU(item))}}}}
					if kind == "dropclaim" {
						nm := names[lr.Intn(len(names))]
						ops = append(ops, OperationJ{Op: "insert", Table: "Uniq", UUID: mkUUID(300000 + ci*1000 + k), Row: Row{"name": VA(AS(nm)), "alt": VA(AS(fmt.Sprintf("drop-%d-%d", ci, k))), "n": VA(AI(int64(ci)))}})
					}
					ops = append(ops, logOp)
				case "handover":
					// the kid is looked at, then replaced: its owner's set is rewritten to hold a new row with
					// the kid's (unique) name, so the old one goes with the commit; whatever the order of such
					// transactions, each of them finds one kid and leaves one
					fresh := fmt.Sprintf("fresh%d_%d", ci, k)
					ops = []OperationJ{
						{Op: "select", Table: "Kid", Where: []WCondJ{{Col: "name", Fn: "==", Val: VA(AS("kid0"))}}},
						{Op: "insert", Table: "Kid", UUID: mkUUID(500000 + ci*1000 + k), UUIDName: fresh, Row: Row{"name": VA(AS("kid0")), "n": VA(AI(int64(1000*ci + k)))}},
						{Op: "update", Table: "Own", Where: []WCondJ{{Col: "name", Fn: "==", Val: VA(AS("o0"))}}, Row: Row{"kids": VS(Atom{K: 'u', S: fresh})}},
						logOp}
				case "swap":
					// the two rows of Sw exchange their names in one transaction (each step by name, through
					// a name of its own): unique index values move between rows
					tmp := fmt.Sprintf("tmp-%d-%d", ci, k)
					byName := func(n string) []WCondJ { return []WCondJ{{Col: "name", Fn: "==", Val: VA(AS(n))}} }
					ops = []OperationJ{
						{Op: "update", Table: "Sw", Where: byName("s0"), Row: Row{"name": VA(AS(tmp))}},
						{Op: "update", Table: "Sw", Where: byName("s1"), Row: Row{"name": VA(AS("s0"))}},
						{Op: "update", Table: "Sw", Where: byName(tmp), Row: Row{"name": VA(AS("s1"))}},
						logOp}
				case "swcas":
					// an increment addressed by name AND by uuid: it counts when that row holds that name at that
					// moment, and changes nothing (not even what a lookup by the name finds later) when it does not
					w := []WCondJ{{Col: "name", Fn: "==", Val: VA(AS([]string{"s0", "s1"}[lr.Intn(2)]))}, {Col: "_uuid", Fn: "==", Val: VA(AU(mkUUID(21 + lr.Intn(2))))}}
					if lr.Intn(2) == 0 {
						w[0], w[1] = w[1], w[0]
					}
					ops = []OperationJ{{Op: "mutate", Table: "Sw", Where: w, Mutations: []MutationJ{{Col: "n", Mutator: "+=", Val: VA(AI(1))}}}, logOp}
				case "swinc":
					ops = []OperationJ{{Op: "mutate", Table: "Sw", Where: []WCondJ{{Col: "name", Fn: "==", Val: VA(AS([]string{"s0", "s1"}[lr.Intn(2)]))}},
						Mutations: []MutationJ{{Col: "n", Mutator: "+=", Val: VA(AI(1))}}}, logOp}
				case "move":
					item := mkUUID(3 + lr.Intn(2))
					from, to := "h0", "h1"
					if lr.Intn(2) == 0 {
						from, to = to, from
					}
					ops = []OperationJ{
						{Op: "mutate", Table: "Holder", Where: []WCondJ{{Col: "name", Fn: "==", Val: VA(AS(from))}},
							Mutations: []MutationJ{{Col: "items", Mutator: "delete", Val: VS(AU(item))}}},
						{Op: "mutate", Table: "Holder", Where: []WCondJ{{Col: "name", Fn: "==", Val: VA(AS(to))}},
							Mutations: []MutationJ{{Col: "items", Mutator: "insert", Val: VS(AU(item))}}},
						logOp}
				}
				t := c17Txn{Marker: marker, Kind: kind, Ops: ops}
				res, err := c.Transact(ctx, toOvsOps(ops)...)
				if err != nil {
					t.Err = err.Error()
				} else {
					t.Results, t.Accepted = resCanon(res)
				}
				results[ci] = append(results[ci], t)
			}
		}()
	}
	// monitors that attach while the transactions are being committed: what such a monitor holds once
	// everything is quiet must be the database, i.e. every committed transaction is either in its initial
	// contents or notified to it
	type lateMon struct {
		c   client.Client
		db  *DB
		err error
	}
	nLate := 3 + rng.Intn(4)
	var lates []*lateMon
	var latesMu sync.Mutex
	var lateWg sync.WaitGroup
	var writersDone atomic.Bool
	for li := 0; li < nLate; li++ {
		seed := rng.Int63()
		lateWg.Add(1)
		go func() {
			defer lateWg.Done()
			lr := newLocalRand(seed)
			<-start
			// one monitor after the other for as long as transactions are being committed
			for k := 0; k < 12 && !writersDone.Load(); k++ {
				time.Sleep(time.Duration(lr.Intn(800)) * time.Microsecond)
				lm := &lateMon{}
				c, cdb, err := rig.newClient(rig.endpoint())
				if err != nil || c.Connect(ctx) != nil {
					continue
				}
				lm.c, lm.db = c, cdb
				p := monPlan{Method: monitorMethods[lr.Intn(3)], Cols: map[string][]string{}}
				for _, t := range ts.Spec.Tables {
					p.Cols[t.Name] = nil
				}
				_, lm.err = c.Monitor(ctx, p.monitor())
				latesMu.Lock()
				lates = append(lates, lm)
				latesMu.Unlock()
			}
		}()
	}
	defer func() {
		for _, lm := range lates {
			if lm.c != nil {
				lm.c.Close()
			}
		}
	}()
	done := make(chan struct{})
	go func() { wg.Wait(); writersDone.Store(true); lateWg.Wait(); close(done) }()
	close(start)
	select {
	case <-done:
	case <-time.After(45 * time.Second):
		r.Violation("serial", map[string]interface{}{"plans": plans}, "clients did not finish within 45s", "", true, "concurrent Transact calls do not return", "")
		return
	}
	cs := map[string]interface{}{"model": ts.modelJSON(), "setup": setup, "clients": results}
	{
		allCols := map[string][]string{}
		for _, t := range ts.Spec.Tables {
			allCols[t.Name] = nil
		}
		for li, lm := range lates {
			if lm.err != nil || lm.c == nil {
				continue
			}
			var got, want string
			for try := 0; try < 400; try++ {
				want = dumpCanon(projectDump(ts.Spec, rig.im.dump(), allCols))
				got = dumpCanon(projectDump(ts.Spec, cacheDump(lm.c, lm.db, tablesOf(allCols)), allCols))
				if got == want {
					break
				}
				time.Sleep(5 * time.Millisecond)
			}
			if got != want {
				r.Violation("serial", cs, diffLines(got, want), "cache = database", true,
					fmt.Sprintf("monitor %d, established while transactions were being committed, misses committed changes: they are neither in its initial contents nor notified to it", li), "")
				return
			}
			r.Count("late-monitor")
		}
	}
	fatal.Range(func(k, v interface{}) bool {
		r.Violation("serial", cs, fmt.Sprint(v), "", true, "a client panicked", "")
		return false
	})
	// all accepted transactions, by marker
	byMarker := map[string]*c17Txn{}
	accepted := 0
	acceptedClients := map[int]bool{}
	for ci := range results {
		for i := range results[ci] {
			t := &results[ci][i]
			byMarker[t.Marker] = t
			r.Count("kind:" + t.Kind)
			if t.Accepted {
				accepted++
				acceptedClients[ci] = true
				r.Count("accepted:" + t.Kind)
			}
		}
	}
	key := ""
	if len(acceptedClients) >= 2 {
		key = fmt.Sprintf("%d-%d", r.Seed, h)
	}
	r.Case("serial", key)
	// the monitors' orders (wait for the dispatchers to drain)
	deadline := time.Now().Add(5 * time.Second)
	for time.Now().Before(deadline) {
		ok := true
		for _, rec := range recs {
			rec.mu.Lock()
			if len(rec.order) < accepted {
				ok = false
			}
			rec.mu.Unlock()
		}
		if ok {
			break
		}
		time.Sleep(time.Millisecond)
	}
	var order []string
	for i, rec := range recs {
		rec.mu.Lock()
		o := append([]string{}, rec.order...)
		rec.mu.Unlock()
		if i == 0 {
			order = o
		} else if strings.Join(o, ",") != strings.Join(order, ",") {
			r.Violation("serial", cs, strings.Join(o, ","), strings.Join(order, ","), true, "two monitors were notified of the transactions in different orders", "")
			return
		}
	}
	cs["order"] = order
	if len(order) != accepted {
		r.Violation("serial", cs, fmt.Sprintf("%d markers notified", len(order)), fmt.Sprintf("%d accepted transactions", accepted), true,
			"the monitors were not notified of exactly the accepted transactions", "")
		return
	}
	// sequential replay in notification order on a fresh database
	ref := newImplDB(ts)
	ref.transact(setup, nil)
	var txns []TxnJ
	txns = append(txns, TxnJ{Ops: setup})
	for _, m := range order {
		t := byMarker[m]
		if t == nil || !t.Accepted {
			r.Violation("serial", cs, m, "", true, "a monitor was notified of a transaction that no client had accepted", "")
			return
		}
		out := ref.transact(t.Ops, nil)
		var rs []string
		ok := out.Panic == ""
		for _, x := range out.Results {
			if x.Error != nil {
				ok = false
				rs = append(rs, "err:"+classOf(*x.Error))
			} else {
				rs = append(rs, fmt.Sprintf("count=%d uuid=%s rows=%d", x.Count, x.UUID, len(x.Rows)))
			}
		}
		if !ok || strings.Join(rs, ";") != strings.Join(t.Results, ";") {
			r.Violation("serial", cs, strings.Join(t.Results, ";"), strings.Join(rs, ";"), true,
				fmt.Sprintf("transaction %s: its results under concurrency differ from its results in the serial order the monitors saw", m), "")
			return
		}
		txns = append(txns, TxnJ{Ops: t.Ops})
	}
	if a, b := dumpCanon(rig.im.dump()), dumpCanon(ref.dump()); a != b {
		r.Violation("serial", cs, diffLines(a, b), "final contents of the serial replay", true, "the final database differs from the serial execution in notification order", "")
		return
	}
	// explicit laws
	d := rig.im.dump()
	incs := map[string]int64{}
	for _, t := range byMarker {
		if t.Accepted && (t.Kind == "inc" || t.Kind == "rmw") {
			for _, o := range t.Ops {
				if o.Table == "Ctr" && len(o.Where) > 0 && (o.Op == "mutate" || o.Op == "update") {
					incs[o.Where[0].Val.A.S]++
				}
			}
		}
		// a compare-and-set counts when it says it wrote
		if t.Accepted && t.Kind == "cas" && len(t.Results) > 0 && strings.HasPrefix(t.Results[0], "count=1") {
			for _, w := range t.Ops[0].Where {
				if w.Col == "_uuid" {
					incs[map[string]string{mkUUID(1): "c0", mkUUID(2): "c1"}[w.Val.A.S]]++
				}
			}
		}
	}
	// every replacement of the kid is accepted, and one kid is left
	kids := 0
	for _, row := range d {
		if row.Table == "Kid" {
			kids++
		}
	}
	for _, t := range byMarker {
		if t.Kind == "handover" && !t.Accepted {
			r.Violation("serial", cs, strings.Join(t.Results, ";")+" "+t.Err, "accepted", true, "the replacement of a row (looked at, dropped by its owner, inserted anew under its unique name) was refused although every serial order accepts it", "")
			return
		}
	}
	if kids != 1 {
		r.Violation("serial", cs, fmt.Sprint(kids), "1", true, "after the replacements of the kid there is not exactly one", "")
		return
	}
	// the names of Sw are always held by exactly one row each: every increment by name hits one row, and
	// the two counters add up to the number of increments
	var swIncs, swSum int64
	for _, t := range byMarker {
		if t.Accepted && t.Kind == "swinc" {
			swIncs++
			if len(t.Results) == 0 || !strings.HasPrefix(t.Results[0], "count=1") {
				r.Violation("serial", cs, strings.Join(t.Results, ";"), "count=1", true, "an increment by (unique) name did not find the row that holds the name", "")
				return
			}
		}
		if t.Accepted && t.Kind == "swcas" && len(t.Results) > 0 && strings.HasPrefix(t.Results[0], "count=1") {
			swIncs++
		}
		if t.Accepted && t.Kind == "swap" {
			for i := 0; i < 3 && i < len(t.Results); i++ {
				if !strings.HasPrefix(t.Results[i], "count=1") {
					r.Violation("serial", cs, strings.Join(t.Results, ";"), "count=1 three times", true, "an exchange of two unique names did not find both rows", "")
					return
				}
			}
		}
	}
	for _, row := range d {
		if row.Table == "Sw" {
			swSum += row.Row["n"].A.I
		}
	}
	if swSum != swIncs {
		r.Violation("serial", cs, fmt.Sprint(swSum), fmt.Sprint(swIncs), true, "increments of the counters whose names are exchanged were lost (or applied twice)", "")
		return
	}
	uniq := map[string]int{}
	for _, row := range d {
		switch row.Table {
		case "Ctr":
			if got, want := row.Row["n"].A.I, incs[row.Row["name"].A.S]; got != want {
				r.Violation("serial", cs, fmt.Sprintf("%s = %d", row.Row["name"].A.S, got), fmt.Sprintf("%d committed increments", want), true, "an increment was lost (or applied twice)", "")
				return
			}
		case "Uniq":
			uniq["name="+row.Row["name"].A.S]++
			uniq["alt="+row.Row["alt"].A.S]++
		}
	}
	claimed := map[string]int{}
	for _, t := range byMarker {
		if t.Kind == "claim" && t.Accepted {
			claimed["name="+t.Ops[0].Row["name"].A.S]++
			claimed["alt="+t.Ops[0].Row["alt"].A.S]++
		}
	}
	for nm, k := range claimed {
		if k != 1 || uniq[nm] != 1 {
			r.Violation("serial", cs, fmt.Sprintf("%s: %d inserts accepted, %d rows", nm, k, uniq[nm]), "exactly one", true, "several inserts competing for one unique index value succeeded", "")
			return
		}
	}
	// correspondence: the Lean model of the engine run serially in the same order
	mo, err := modelHistory(r, ts, txns)
	if err != nil {
		r.Violation("serial-model", cs, "", err.Error(), false, "model driver failed", "")
		return
	}
	r.Case("serial-model", "")
	if a, b := dumpCanon(rig.im.dump()), dumpCanon(mo[len(mo)-1].Rows); a != b {
		r.Violation("serial-model", cs, diffLines(a, b), "", false, "the final database differs from the model run serially in notification order", "")
	}
	sort.Strings(order)
}

// fieldByTag reads the field of a run-time model struct whose ovsdb tag is col
func fieldByTag(m model.Model, col string) interface{} {
	v := reflect.ValueOf(m)
	if v.Kind() == reflect.Ptr {
		v = v.Elem()
	}
	for i := 0; i < v.NumField(); i++ {
		if v.Type().Field(i).Tag.Get("ovsdb") == col {
			return v.Field(i).Interface()
		}
	}
	return nil
}

func newLocalRand(seed int64) *rand.Rand { return rand.New(rand.NewSource(seed)) }
